(* Batch/BatchProofs.v — the batch loop: the transactions produced by ANY plan of accepted operation sequences spend
   every supplied UTxO exactly once (C13_partition), the refutation of the same statement for the UTxO classification
   before /repo 8fdcd51, asset balance and value-size limit of every transaction, and the tie of the real sizes used in
   ProposalProofs to the lengths of the encoded objects. *)
From CSL Require Import Base.Prelude Base.U64 Cbor.Head Codec.Schema Ledger.Schemas
  Batch.Calc Batch.CalcProofs Batch.Denote Batch.EncProofs Batch.IntermediateProofs Batch.Proposal Batch.ProposalProofs.
From Coq Require Import Permutation.
Local Open Scope N_scope.

(* ---------------------------------------------------------------- the pools cover the supplied UTxOs *)

Fixpoint idx_from (i : N) (n : nat) : list N := match n with O => [] | S k => i :: idx_from (i + 1) k end.
Definition all_indices (c : ctx) : list N := idx_from 0 (length (cx_utxos c)).

Lemma idx_from_ge i n x : In x (idx_from i n) -> i <= x.
Proof. revert i. induction n as [|k IH]; intros i; cbn [idx_from In]; [tauto|]. intros [<-|H]; [lia | specialize (IH _ H); lia]. Qed.
Lemma idx_from_nodup i n : NoDup (idx_from i n).
Proof. revert i. induction n as [|k IH]; intros i; cbn [idx_from]; constructor; [|apply IH]. intros H. apply idx_from_ge in H. lia. Qed.

Lemma pools_split {A} (f g : A -> bool) l : (forall x, g x = negb (f x)) -> forall i,
  Permutation (indices_where f l i ++ indices_where g l i) (idx_from i (length l)).
Proof.
  intros Hfg. induction l as [|x t IH]; intros i; [constructor|]. cbn [indices_where length idx_from].
  rewrite Hfg. destruct (f x); cbn [negb app].
  - constructor. apply IH.
  - eapply perm_trans; [apply Permutation_sym, Permutation_middle|]. constructor. apply IH.
Qed.

Theorem pools_cover c :
  let '(assets, adas) := free_pools false c in Permutation (assets ++ adas) (all_indices c).
Proof. unfold free_pools, all_indices. apply pools_split. intros x. reflexivity. Qed.

(* ---------------------------------------------------------------- removing the used UTxOs from the pool *)

Lemma removeN_In x y l : In y (removeN x l) <-> In y l /\ y <> x.
Proof.
  unfold removeN. rewrite filter_In, negb_true_iff, N.eqb_neq. split; intros [A B]; split; auto.
Qed.
Lemma removeN_nodup x l : NoDup l -> NoDup (removeN x l).
Proof. intros H. apply NoDup_filter, H. Qed.
Lemma removeN_perm x l : NoDup l -> In x l -> Permutation (x :: removeN x l) l.
Proof.
  intros Hn Hi. apply NoDup_Permutation; [constructor; [rewrite removeN_In; tauto | apply removeN_nodup, Hn] | exact Hn |].
  intros y. cbn [In]. rewrite removeN_In. destruct (N.eq_dec y x) as [->|Ne]; [tauto|]. split; [intros [->|[H _]]; [contradiction Ne; reflexivity | exact H] | tauto].
Qed.

Lemma remove_all_spec : forall us free, NoDup free -> NoDup us -> incl us free ->
  Permutation (us ++ remove_all us free) free /\ NoDup (remove_all us free).
Proof.
  induction us as [|x t IH]; intros free Hf Hu Hi; [split; [apply Permutation_refl | exact Hf]|].
  unfold remove_all. cbn [fold_left]. fold (remove_all t (removeN x free)).
  inversion Hu as [|? ? Hx Ht]; subst.
  assert (Hi' : incl t (removeN x free)).
  { intros y Hy. apply removeN_In. split; [apply Hi; right; exact Hy | intros ->; contradiction]. }
  destruct (IH (removeN x free) (removeN_nodup x free Hf) Ht Hi') as [P N]. split; [|exact N].
  cbn [app]. eapply perm_trans; [constructor; exact P|]. apply removeN_perm; [exact Hf | apply Hi; left; reflexivity].
Qed.

(* ---------------------------------------------------------------- C13_partition *)

Lemma finalise_inputs c p p' tx : finalise c p = Ok (p', tx) -> x_inputs tx = t_utxos p.
Proof.
  unfold finalise, finalise_gen. destruct (t_utxos p) eqn:Eu; [discriminate|]. cbn iota. intros H.
  apply bindR in H as [p1 [Hlast H]]. apply bindR in H as [[q sz] [Hset H]]. cbn [fst snd] in H.
  apply bindR in H as [[] [_ H]]. apply bindR in H as [tx' [Hct H]]. injection H as <- <-.
  destruct (create_tx_ok _ _ _ Hct) as (X1 & _). rewrite X1.
  destruct (set_min_same _ _ _ _ Hset) as [A _]. destruct (add_last_same _ _ Hlast) as [B _]. congruence.
Qed.

Lemma batch_partition c : forall plan free txs,
  NoDup free -> batch c free plan = Ok txs -> Permutation (concat (map x_inputs txs)) free.
Proof.
  induction plan as [|ops rest IH]; intros free txs Hn H; cbn [batch] in H.
  - destruct free; [injection H as <-; constructor | discriminate].
  - destruct free as [|f0 fr] eqn:Ef; [discriminate|]. rewrite <- Ef in *.
    apply bindR in H as [[free' tx] [Hs H]]. apply bindR in H as [txs' [Hb H]]. injection H as <-. cbn [fst snd] in *.
    unfold batch_step in Hs. apply bindR in Hs as [p [Hrun Hs]].
    destruct (subsetN (t_utxos p) free) eqn:Sub; [|discriminate].
    apply bindR in Hs as [[p' tx'] [Hfin Hs]]. injection Hs as <- <-. cbn [snd].
    pose proof (run_inv c ops tp_new p (inv_new c) Hrun) as I.
    destruct (remove_all_spec (t_utxos p) free Hn (inv_nodup c p I) (subsetN_In _ _ Sub)) as [P N].
    cbn [map concat]. rewrite (finalise_inputs _ _ _ _ Hfin).
    eapply perm_trans; [apply Permutation_app_head, IH; [exact N | exact Hb] | exact P].
Qed.

(* the inputs of the produced transactions, taken together, are exactly the supplied UTxOs, each once *)
Theorem send_all_partition c plan txs :
  send_all c plan = Ok txs -> Permutation (concat (map x_inputs txs)) (all_indices c).
Proof.
  unfold send_all, send_all_gen. pose proof (pools_cover c) as P. destruct (free_pools false c) as [assets adas].
  intros H. eapply perm_trans; [eapply batch_partition; [|exact H] | exact P].
  eapply Permutation_NoDup; [apply Permutation_sym, P | apply idx_from_nodup].
Qed.

(* with the classification before the repair a UTxO whose multiasset is present but empty is in no pool:
   the batch "succeeds" without spending it *)
Theorem send_all_partition_legacy_refuted :
  exists c txs, send_all_gen true c [] = Ok txs /\ ~ Permutation (concat (map x_inputs txs)) (all_indices c).
Proof.
  exists (mkCtx [mkUinfo 5000000 36 0 true []] [] [KVkey] 57 44 155381 4310 5000 16384 5000000), [].
  split; [reflexivity|]. cbn. intros H. apply Permutation_length in H. discriminate.
Qed.

(* ---------------------------------------------------------------- balance of every asset *)

(* quantity of asset [a] that output [o] of a transaction spending [used] holds *)
Definition held (c : ctx) (used : list N) (o : oprop) (a : N) : N :=
  if memN a (o_assets o) then sumN (map (fun u => amount c u a) used) else 0.

Lemma lookupN_absent a l : ~ In a (map fst l) -> lookupN a l = 0.
Proof.
  induction l as [|[k q] t IH]; [reflexivity|]. cbn [map fst In lookupN]. intros H.
  destruct (a =? k) eqn:E; [apply N.eqb_eq in E; subst; exfalso; apply H; left; reflexivity | apply IH; tauto].
Qed.

Lemma nodup_app_inv {A} (l m : list A) : NoDup (l ++ m) -> NoDup m /\ (forall x, In x l -> ~ In x m).
Proof.
  induction l as [|y t IH]; cbn [app]; [intros H; split; [exact H | intros x []]|].
  intros H. inversion H as [|? ? Hy Ht]; subst. destruct (IH Ht) as [N D]. split; [exact N|].
  intros x [<-|Hx]; [intros Hm; apply Hy, in_or_app; right; exact Hm | apply D, Hx].
Qed.

Lemma held_unique X a : forall (outs : list oprop),
  NoDup (concat (map o_assets outs)) -> In a (concat (map o_assets outs)) ->
  sumN (map (fun o => if memN a (o_assets o) then X else 0) outs) = X.
Proof.
  induction outs as [|o t IH]; cbn [map concat]; [intros _ []|]. intros Hn Hi. rewrite sumN_cons.
  destruct (nodup_app_inv _ _ Hn) as [Hn' Hdis].
  destruct (memN a (o_assets o)) eqn:M.
  - apply memN_In in M.
    assert (Z : sumN (map (fun o0 => if memN a (o_assets o0) then X else 0) t) = 0).
    { assert (Hnot : ~ In a (concat (map o_assets t))) by (apply Hdis, M).
      clear - Hnot. induction t as [|o' t' IHt]; [reflexivity|]. cbn [map concat] in *. rewrite sumN_cons.
      destruct (memN a (o_assets o')) eqn:M'; [apply memN_In in M'; exfalso; apply Hnot, in_or_app; left; exact M'|].
      rewrite IHt; [reflexivity|]. intros H. apply Hnot, in_or_app. right. exact H. }
    lia.
  - apply memN_false in M. apply in_app_iff in Hi as [Hi|Hi]; [contradiction|]. rewrite (IH Hn' Hi). lia.
Qed.

(* C13 (assets): in a finalised proposal every asset is conserved: what the outputs hold of it is what the spent
   UTxOs hold of it *)
Theorem asset_balance c q a :
  Inv c q ->
  sumN (map (fun o => held c (t_utxos q) o a) (t_outputs q)) = sumN (map (fun u => amount c u a) (t_utxos q)).
Proof.
  intros I. unfold held. destruct (in_dec N.eq_dec a (out_assets q)) as [Hin|Hout].
  - apply held_unique; [apply (inv_assets_nodup c q I) | exact Hin].
  - assert (Z1 : sumN (map (fun u => amount c u a) (t_utxos q)) = 0).
    { assert (H : forall u, In u (t_utxos q) -> amount c u a = 0).
      { intros u Hu. unfold amount. apply lookupN_absent. intros Ha. apply Hout, (inv_assets_eq c q I).
        eapply (inv_assets_cover c q I); eassumption. }
      induction (t_utxos q) as [|u t IH]; [reflexivity|]. cbn [map]. rewrite sumN_cons, (H u (or_introl eq_refl)), IH; [reflexivity|].
      intros; apply H; right; assumption. }
    rewrite Z1. unfold out_assets in Hout. clear - Hout. induction (t_outputs q) as [|o t IH]; [reflexivity|].
    cbn [map concat] in *. rewrite sumN_cons.
    destruct (memN a (o_assets o)) eqn:M; [apply memN_In in M; exfalso; apply Hout, in_or_app; left; exact M|].
    rewrite IH; [reflexivity|]. intros H. apply Hout, in_or_app. right. exact H.
Qed.

(* ---------------------------------------------------------------- the value-size limit *)

(* what UtxosStat::new computes (it reports an error when a sum overflows) *)
Definition ctx_wf (c : ctx) : Prop :=
  cx_ada_total c = sumN (map (fun u => ui_ada (utxo_of c u)) (all_indices c)) /\
  forall a, ai_total (asset_of c a) = sumN (map (fun u => amount c u a) (all_indices c)).

Lemma sumN_perm (f : N -> N) l m : Permutation l m -> sumN (map f l) = sumN (map f m).
Proof. induction 1; cbn [map]; rewrite ?sumN_cons; lia. Qed.

Lemma sumN_sub (f : N -> N) us all : NoDup us -> NoDup all -> incl us all -> sumN (map f us) <= sumN (map f all).
Proof.
  intros Hu Ha Hi. destruct (remove_all_spec us all Ha Hu Hi) as [P _].
  rewrite <- (sumN_perm f _ _ P), map_app, sumN_app. lia.
Qed.

Lemma out_qty_le c used a q : ctx_wf c -> NoDup used -> incl used (all_indices c) ->
  out_qty c used a = Ok q -> q <= ai_total (asset_of c a).
Proof.
  intros [_ W] Hn Hi H. unfold out_qty in H. apply checked_sum_ok in H. subst q. rewrite W.
  apply sumN_sub; [exact Hn | apply idx_from_nodup | exact Hi].
Qed.

Lemma inner_groups c used : forall (l : list N) (g : list (N * N * N)),
  ctx_wf c -> NoDup used -> incl used (all_indices c) ->
  omapR (fun a => let* q := out_qty c used a in Ok (ai_name_len (asset_of c a), q, ai_total (asset_of c a))) l = Ok g ->
  lenN g = lenN l /\
  Forall (fun x : N * N * N => match x with (_, q, tot) => q <= tot end) g /\
  sumN (map (fun x : N * N * N => match x with (nl, _, tot) => asset_name_size nl + get_coin_size tot end) g) =
  sumN (map (fun a => asset_name_size (ai_name_len (asset_of c a)) + get_coin_size (ai_total (asset_of c a))) l).
Proof.
  intros l g W Hn Hi H. apply omapR_ok in H. induction H as [|a x t t' Ha _ IH].
  - repeat split; constructor.
  - destruct IH as (L & F & S). apply bindR in Ha as [q [Hq Ha]]. injection Ha as <-.
    split; [rewrite !lenN_cons; lia|]. split; [constructor; [eapply out_qty_le; eassumption | exact F]|].
    cbn [map]. rewrite !sumN_cons, S. reflexivity.
Qed.

Lemma bound_value_of c used assets gs :
  ctx_wf c -> NoDup used -> incl used (all_indices c) ->
  out_groups c used assets = Ok gs ->
  bound_value (cx_ada_total c) gs = bound_of c assets /\
  Forall (Forall (fun x : N * N * N => match x with (_, q, tot) => q <= tot end)) gs.
Proof.
  intros W Hn Hi H. pose proof (out_groups_nilb _ _ _ _ H) as Hnil. unfold out_groups in H. apply omapR_ok in H.
  assert (G : lenN gs = lenN (groups_of c assets) /\
              Forall (Forall (fun x : N * N * N => match x with (_, q, tot) => q <= tot end)) gs /\
              sumN (map bound_group gs) =
              sumN (map (fun g => policy_size + get_struct_size (lenN (snd g)) +
                                  sumN (map (fun a => asset_name_size (ai_name_len (asset_of c a)) +
                                                      get_coin_size (ai_total (asset_of c a))) (snd g)))
                        (groups_of c assets))).
  { clear Hnil. induction H as [|g g' t t' Hg _ IH]; [repeat split; constructor|]. destruct IH as (L & F & S).
    destruct (inner_groups c used _ _ W Hn Hi Hg) as (L1 & F1 & S1).
    split; [rewrite !lenN_cons; lia|]. split; [constructor; assumption|].
    cbn [map]. rewrite !sumN_cons, S. unfold bound_group at 1. rewrite L1, S1. reflexivity. }
  destruct G as (L & F & S). split; [|exact F].
  unfold bound_value, bound_of. destruct gs, assets; cbn [is_nilb] in Hnil; try discriminate; [reflexivity|].
  rewrite L, S. reflexivity.
Qed.

(* C13 (value size): every output of a finalised proposal that holds assets has a value of at most max_value_size
   bytes; an output without assets has a value of at most 9 bytes *)
Theorem value_size_limit c q o gs :
  ctx_wf c -> Inv c q -> incl (t_utxos q) (all_indices c) ->
  In o (t_outputs q) -> out_groups c (t_utxos q) (o_assets o) = Ok gs ->
  o_total_ada o <= cx_ada_total c ->
  (o_assets o <> [] -> real_value_size (o_total_ada o) gs <= cx_max_value c) /\
  (o_assets o = [] -> real_value_size (o_total_ada o) gs <= 9).
Proof.
  intros W I Hi Ho Hg Hc. destruct (bound_value_of c _ _ _ W (inv_nodup c q I) Hi Hg) as [B F].
  pose proof (intermediate_upper_bound (o_total_ada o) (cx_ada_total c) gs Hc F) as U.
  pose proof (out_groups_nilb _ _ _ _ Hg) as Hnil.
  split.
  - intros Hne. pose proof (inv_bound c q I) as Hb. rewrite Forall_forall in Hb. destruct (Hb o Ho) as [E|E]; [contradiction|].
    unfold real_value_size. change (shape_of gs) with (real_shape gs). rewrite <- B in E.
    assert (is_nilb gs = match gs with [] => true | _ => false end) as -> by reflexivity. lia.
  - intros E. rewrite E in Hnil. destruct gs; [|discriminate]. unfold real_value_size, calc_value_size. cbn.
    pose proof (struct_size_bounds (o_total_ada o)). unfold get_coin_size. 
    change (lenN (@nil (list (N * N)))) with 0. change (0 <? 0) with false. cbn iota. lia.
Qed.

(* ---------------------------------------------------------------- the real sizes are the lengths of the encodings *)

Lemma shape_nil (gsb : groups) gs : groups_shape gsb = shape_of gs -> is_nil gsb = is_nilb gs.
Proof. unfold groups_shape, shape_of. destruct gsb, gs; cbn; intros H; try discriminate; reflexivity. Qed.

Theorem real_out_size_enc d c addr coin (gsb : groups) gs :
  lenN addr = cx_addr_size c -> Forall (fun p => lenN (fst p) = 28) gsb -> groups_shape gsb = shape_of gs ->
  lenN (enc (TransactionOutput d) (output_val addr coin gsb)) = real_out_size c coin gs.
Proof.
  intros Ha Hp Hs. rewrite (output_size_exact d addr coin gsb Hp), Ha, Hs, (shape_nil _ _ Hs).
  unfold real_out_size, real_value_size. lia.
Qed.

Theorem real_tx_size_enc d c tx (ins outs : list val) (ws : val) :
  Forall2 (fun i u => lenN (enc TransactionInput i) = ui_input_size (utxo_of c u)) ins (x_inputs tx) ->
  Forall2 (fun o x => lenN (enc (TransactionOutput d) o) = real_out_size c (fst x) (snd x)) outs (x_outputs tx) ->
  lenN (enc (TransactionWitnessSet d) ws) = wit_size (owner_vkeys c (x_owners tx)) (owner_boots c (x_owners tx)) ->
  lenN (enc (Transaction d) (tx_val (body_val ins outs (x_fee tx)) ws)) = real_tx_size c tx.
Proof.
  intros Hi Ho Hw. rewrite tx_size_exact, Hw. unfold real_tx_size.
  rewrite (Forall2_length' _ _ _ Hi), (Forall2_length' _ _ _ Ho).
  rewrite (sumN_eq2 _ (fun i => lenN (enc TransactionInput i)) (fun u => ui_input_size (utxo_of c u)) _ _ Hi) by auto.
  rewrite (sumN_eq2 _ (fun o => lenN (enc (TransactionOutput d) o)) (fun x => real_out_size c (fst x) (snd x)) _ _ Ho) by auto.
  reflexivity.
Qed.

(* the mock witness set: one vkey witness per key owner, one bootstrap witness per Byron owner *)
Theorem wit_size_enc d c owners (vks boots : list val) :
  (forall x, In x vks -> lenN (enc Vkeywitness x) = get_fake_vkey_size) ->
  lenN vks = owner_vkeys c owners -> map (fun b => lenN (enc BootstrapWitness b)) boots = owner_boots c owners ->
  (vks <> [] \/ boots <> []) ->
  lenN (enc (TransactionWitnessSet d) (ws_val vks boots)) = wit_size (owner_vkeys c owners) (owner_boots c owners).
Proof.
  intros Hv Hn Hb Hne. rewrite (witness_set_exact d vks boots Hv Hne), Hn, Hb. reflexivity.
Qed.

(* ---------------------------------------------------------------- the premises are satisfiable *)

(* two UTxOs of one key owner: 3 ADA with 7 units of an asset (3-byte name), and 10 ADA; mainnet parameters *)
Definition ex_ctx : ctx :=
  mkCtx [mkUinfo 3000000 36 0 true [(0, 7)]; mkUinfo 10000000 36 0 false []] [mkAinfo 0 3 7] [KVkey]
        57 44 155381 4310 5000 16384 13000000.
Definition ex_plan : list (list op) := [[OpNewOutput; OpAddAsset 0; OpAddUtxo 0; OpSetMinAda; OpAddUtxo 1; OpSetMinAda]].

Example ex_send_all :
  send_all ex_ctx ex_plan =
  Ok [mkAtx [0; 1] [(12831463, [[(3, 7, 7)]])] 168537 [0]].
Proof. vm_compute. reflexivity. Qed.

Example ex_ctx_wf : ctx_wf ex_ctx.
Proof. split; [reflexivity|]. intros a. unfold asset_of, nthN, ex_ctx. cbn [cx_assets cx_utxos].
  destruct (N.to_nat a) as [|[|n]] eqn:E; cbn; try reflexivity.
  - unfold amount, utxo_of, nthN. cbn. destruct a; [reflexivity|]. lia.
  - unfold amount, utxo_of, nthN. cbn. destruct (a =? 0) eqn:E0; [apply N.eqb_eq in E0; subst; discriminate|reflexivity].
  - destruct n; cbn; unfold amount, utxo_of, nthN; cbn; destruct (a =? 0) eqn:E0; try reflexivity; apply N.eqb_eq in E0; subst; discriminate.
Qed.

(* ---------------------------------------------------------------- C13_finalise, assembled *)

Lemma Forall2_in_r {A B} (R : A -> B -> Prop) l m : Forall2 R l m -> forall y, In y m -> exists x, In x l /\ R x y.
Proof.
  induction 1 as [|x y l m Hxy _ IH]; intros z []; [subst; exists x; split; [left; reflexivity | exact Hxy]|].
  destruct (IH z H) as [x' [Hx' Hr]]. exists x'. split; [right; exact Hx' | exact Hr].
Qed.
Lemma sumN_In_le' {A} (f : A -> N) l x : In x l -> f x <= sumN (map f l).
Proof.
  induction l as [|y t IH]; [intros []|]. cbn [map]. rewrite sumN_cons. intros [->|H]; [lia | specialize (IH H); lia].
Qed.

Definition tx_valid (c : ctx) (tx : atx) : Prop :=
  (* balanced in lovelace *)
  sumN (map (fun u => ui_ada (utxo_of c u)) (x_inputs tx)) = sumN (map fst (x_outputs tx)) + x_fee tx /\
  (* fee covers the real size (one witness per distinct owner address), within max_tx_size *)
  real_tx_size c tx * cx_a c + cx_b c <= x_fee tx /\ real_tx_size c tx <= cx_max_tx c /\
  (* every output: min ADA for its real size, value size within the limit *)
  Forall (fun o => (real_out_size c (fst o) (snd o) + 160) * cx_cpb c <= fst o /\
                   (snd o <> [] -> real_value_size (fst o) (snd o) <= cx_max_value c) /\
                   (snd o = [] -> real_value_size (fst o) (snd o) <= 9)) (x_outputs tx).

Theorem finalise_full c ops p p' tx :
  ctx_wf c -> run c tp_new ops = Ok p -> incl (t_utxos p) (all_indices c) -> finalise c p = Ok (p', tx) ->
  tx_valid c tx /\
  (* every asset is conserved, and the transaction's outputs hold exactly these quantities *)
  (forall a, sumN (map (fun o => held c (x_inputs tx) o a) (t_outputs p')) = sumN (map (fun u => amount c u a) (x_inputs tx))) /\
  Forall2 (fun o x => fst x = o_total_ada o /\ out_groups c (x_inputs tx) (o_assets o) = Ok (snd x)) (t_outputs p') (x_outputs tx).
Proof.
  intros W Hrun Hi Hfin. pose proof (finalise_inputs _ _ _ _ Hfin) as Ein.
  destruct (finalise_sound c ops p p' tx Hrun Hfin) as (I & X1 & X2 & X3 & X4 & Hbal & Hsz & Hfee & Hmin).
  rewrite <- X1 in X4. split; [|split; [intros a; rewrite X1; apply asset_balance, I | exact X4]].
  unfold tx_valid. split; [exact Hbal|]. split; [exact Hfee|]. split; [exact Hsz|].
  assert (Hi' : incl (t_utxos p') (all_indices c)) by (rewrite <- X1, Ein; exact Hi).
  (* every output coin is at most the grand ADA total *)
  assert (Hada : sumN (map fst (x_outputs tx)) <= cx_ada_total c).
  { destruct W as [W1 _]. rewrite W1. pose proof (sumN_sub (fun u => ui_ada (utxo_of c u)) (t_utxos p') (all_indices c)
      (inv_nodup c p' I) (idx_from_nodup _ _) Hi'). rewrite X1 in Hbal. lia. }
  rewrite X1 in X4.
  assert (G : forall o x, In o (t_outputs p') -> fst x = o_total_ada o -> out_groups c (t_utxos p') (o_assets o) = Ok (snd x) ->
              fst x <= cx_ada_total c ->
              (snd x <> [] -> real_value_size (fst x) (snd x) <= cx_max_value c) /\
              (snd x = [] -> real_value_size (fst x) (snd x) <= 9)).
  { intros o x Ho E1 E2 Hc. rewrite E1 in *. pose proof (out_groups_nilb _ _ _ _ E2) as Hn.
    destruct (value_size_limit c p' o (snd x) W I Hi' Ho E2 Hc) as [V1 V2].
    split; intros H; [apply V1 | apply V2]; destruct (snd x), (o_assets o); cbn in Hn; try discriminate; congruence. }
  apply Forall_forall. intros x Hx. rewrite Forall_forall in Hmin. split; [apply Hmin, Hx|].
  destruct (Forall2_in_r _ _ _ X4 x Hx) as [o [Ho [E1 E2]]].
  apply (G o x Ho E1 E2). pose proof (sumN_In_le' fst _ _ Hx). lia.
Qed.

(* the finalisation before /repo 8a86580 (no check of the finished proposal) returned unbalanced transactions:
   coins_per_utxo_byte 19000000, one UTxO of 4300000000 lovelace (witness w8 of the corpus) *)
Theorem finalise_without_check_refuted :
  exists c ops p p' tx,
    run c tp_new ops = Ok p /\ finalise_gen false c p = Ok (p', tx) /\
    sumN (map (fun u => ui_ada (utxo_of c u)) (x_inputs tx)) < sumN (map fst (x_outputs tx)) + x_fee tx.
Proof.
  exists (mkCtx [mkUinfo 4300000000 36 0 false []] [] [KVkey] 57 44 155381 19000000 5000 16384 4300000000),
         [OpNewOutput; OpAddUtxo 0; OpSetMinAda].
  eexists. eexists. eexists. split; [vm_compute; reflexivity|]. split; [vm_compute; reflexivity|]. vm_compute. reflexivity.
Qed.

(* the fee estimate before /repo 258992b (dependable amount without the current fee): after the unused ADA went to the
   last output the re-estimate prices that output's coin at last.total - fee, here below 2^32 although the output holds
   more, and lowers the fee: inputs > outputs + fee, and the fee is below the minimum for the real size
   (one UTxO of 2^32 + 200000 lovelace, mainnet parameters: witness w1 of the corpus) *)
Theorem legacy_fee_estimate_refuted :
  exists c p0 p1 s1 p2 p3 s3 tx,
    add_utxo c (add_new_output tp_new) 0 = Ok p0 /\
    set_min_ada_for_tx_gen true c p0 = Ok (p1, s1) /\ add_last_ada_to_last_output p1 = Ok p2 /\
    set_min_ada_for_tx_gen true c p2 = Ok (p3, s3) /\ create_tx c p3 = Ok tx /\
    sumN (map fst (x_outputs tx)) + x_fee tx < sumN (map (fun u => ui_ada (utxo_of c u)) (x_inputs tx)) /\
    x_fee tx < real_tx_size c tx * cx_a c + cx_b c.
Proof.
  exists (mkCtx [mkUinfo 4295167296 36 0 false []] [] [KVkey] 57 44 155381 4310 5000 16384 4295167296).
  do 7 eexists.
  split; [vm_compute; reflexivity|]. split; [vm_compute; reflexivity|]. split; [vm_compute; reflexivity|].
  split; [vm_compute; reflexivity|]. split; [vm_compute; reflexivity|]. split; vm_compute; reflexivity.
Qed.

(* one signature per distinct owning KEY: the calculator (and the mock witness set) count one vkey witness per distinct
   owner ADDRESS; several addresses can share a payment key, so the really signed transaction carries v <= that many
   vkey witnesses and is no larger: the fee bound of C13_finalise covers it *)
Theorem fewer_signatures_smaller v v' boots : 1 <= v -> v <= v' -> wit_size v boots <= wit_size v' boots.
Proof.
  intros H1 H2. unfold wit_size. assert (v =? 0 = false) as -> by lia. assert (v' =? 0 = false) as -> by lia.
  cbn [andb]. assert (0 <? v = true) as -> by lia. assert (0 <? v' = true) as -> by lia.
  pose proof (struct_size_mono v v' H2). unfold get_wrapped_struct_size, get_fake_vkey_size.
  destruct (0 <? lenN boots); nia.
Qed.
