(* Batch/JudgeProofs.v — the executable judge of BatchSpec.v implies the Prop-level C13 statement.
     judge_parsed_sound : utxos_distinct us = true -> judge_parsed c target us ts = [] -> C13_statement c target us ts
     judge_sound        : the same from bytes (every transaction is read by [read_tx])
     spent_all          : under the partition every input of a transaction is one of the supplied UTxOs *)
From CSL Require Import Base.Prelude Cbor.Head Cbor.Item Cbor.ItemProofs Batch.BatchSpec.
From Coq Require Import Permutation.
Local Open Scope N_scope.

(* ---------------------------------------------------------------- the statement as a proposition *)

Definition tx_statement (c : config) (target : bytes) (us : list utxo) (t s : ptx) : Prop :=
  (* T *) Forall (fun o => po_addr o = target) (pt_outputs t) /\
  (* B *) jsum (map u_coin (spent us t)) = jsum (map po_coin (pt_outputs t)) + pt_fee t /\
          (forall p n, asset_total p n (flat_map u_assets (spent us t)) =
                       asset_total p n (flat_map po_assets (pt_outputs t))) /\
  (* K *) Forall (fun k => In k [0; 1; 2; 3; 8]) (pt_keys t) /\ pt_valid t = true /\
  (* F *) signed_ok us t s = true /\ c_a c * pt_size s + c_b c <= pt_fee t /\
  (* S *) pt_size t <= c_max_tx c /\ pt_size s <= c_max_tx c /\
  (* V *) Forall (fun o => po_vsize o <= c_max_value c) (pt_outputs t) /\
  (* M *) Forall (fun o => c_cpb c * (160 + po_size o) <= po_coin o) (pt_outputs t).

Definition C13_statement (c : config) (target : bytes) (us : list utxo) (ts : list (ptx * ptx)) : Prop :=
  (* P *) Permutation (flat_map pt_inputs (map fst ts)) (map utxo_input us) /\
  Forall (fun p => tx_statement c target us (fst p) (snd p)) ts.

(* ---------------------------------------------------------------- reflection *)

Lemma input_eqb_eq a b : input_eqb a b = true <-> a = b.
Proof.
  destruct a as [h i], b as [h' i']. unfold input_eqb. cbn [fst snd].
  rewrite andb_true_iff, bytes_eqb_eq, N.eqb_eq. split; [intros [-> ->]; reflexivity | intros H; injection H; auto].
Qed.

Lemma mem_input_In x l : mem_input x l = true <-> In x l.
Proof.
  induction l as [|y t IH]; cbn [mem_input In]; [split; [discriminate|tauto]|].
  rewrite orb_true_iff, input_eqb_eq, IH. split; intros [H|H]; auto.
Qed.

Lemma nodup_inputs_NoDup l : nodup_inputs l = true <-> NoDup l.
Proof.
  induction l as [|x t IH]; cbn [nodup_inputs]; [split; [constructor|reflexivity]|].
  rewrite andb_true_iff, negb_true_iff, IH. split.
  - intros [H1 H2]. constructor; [|exact H2]. intros Hin. apply mem_input_In in Hin. congruence.
  - intros H. inversion H; subst. split; [|assumption].
    destruct (mem_input x t) eqn:E; [|reflexivity]. apply mem_input_In in E. contradiction.
Qed.

Lemma flag_nil b code i : flag b code i = [] -> b = true.
Proof. destruct b; [reflexivity|discriminate]. Qed.

Lemma app_nil_both {A} (a b : list A) : a ++ b = [] -> a = [] /\ b = [].
Proof. destruct a; [auto|discriminate]. Qed.

(* ---------------------------------------------------------------- partition *)

Lemma partition_ok_perm us txs :
  utxos_distinct us = true -> partition_ok us txs = true ->
  Permutation (flat_map pt_inputs txs) (map utxo_input us).
Proof.
  unfold utxos_distinct, partition_ok. intros Hd H.
  apply andb_true_iff in H as [H Hlen]. apply andb_true_iff in H as [Hnd Hin].
  apply nodup_inputs_NoDup in Hnd. apply N.eqb_eq in Hlen. unfold len in Hlen.
  apply NoDup_Permutation_bis; [exact Hnd | rewrite map_length; lia |].
  intros x Hx. rewrite forallb_forall in Hin. apply mem_input_In, Hin, Hx.
Qed.

(* every input of a transaction of a partition is found among the supplied UTxOs *)
Lemma find_utxo_In x us : In x (map utxo_input us) -> exists u, find_utxo x us = Some u /\ utxo_input u = x.
Proof.
  induction us as [|u t IH]; cbn [map In find_utxo]; [tauto|]. intros [H|H].
  - exists u. rewrite <- H. destruct (input_eqb (utxo_input u) (utxo_input u)) eqn:E; [auto|].
    assert (input_eqb (utxo_input u) (utxo_input u) = true) by (apply input_eqb_eq; reflexivity). congruence.
  - destruct (input_eqb x (utxo_input u)) eqn:E.
    + exists u. apply input_eqb_eq in E. auto.
    + apply IH, H.
Qed.

Lemma spent_all us txs t :
  Permutation (flat_map pt_inputs txs) (map utxo_input us) -> In t txs ->
  map utxo_input (spent us t) = pt_inputs t.
Proof.
  intros Hp Ht. unfold spent.
  assert (Hin : forall x, In x (pt_inputs t) -> In x (map utxo_input us)).
  { intros x Hx. eapply Permutation_in; [exact Hp|]. apply in_flat_map. exists t. auto. }
  induction (pt_inputs t) as [|x l IH]; [reflexivity|]. cbn [flat_map].
  destruct (find_utxo_In x us (Hin x (or_introl eq_refl))) as [u [Hf Hu]]. rewrite Hf. cbn [app map].
  rewrite Hu, IH; [reflexivity|]. intros y Hy. apply Hin. right. exact Hy.
Qed.

(* ---------------------------------------------------------------- balance of the assets *)

Lemma asset_total_present_or_zero p n es :
  asset_total p n es = 0 \/ exists q, In (p, n, q) es.
Proof.
  induction es as [|[[p' n'] q] t IH]; [left; reflexivity|]. cbn [asset_total fold_right].
  destruct (bytes_eqb p p' && bytes_eqb n n') eqn:E.
  - right. apply andb_true_iff in E as [E1 E2]. apply bytes_eqb_eq in E1, E2. subst. exists q. left. reflexivity.
  - destruct IH as [IH|[q' IH]]; [left; exact IH | right; exists q'; right; exact IH].
Qed.

Lemma balance_assets_sound ins outs :
  forallb (fun e : asset_entry => match e with (p, n, _) => asset_total p n ins =? asset_total p n outs end) (ins ++ outs) = true ->
  forall p n, asset_total p n ins = asset_total p n outs.
Proof.
  intros H p n. rewrite forallb_forall in H.
  destruct (asset_total_present_or_zero p n ins) as [Hi|[q Hi]].
  - destruct (asset_total_present_or_zero p n outs) as [Ho|[q Ho]]; [congruence|].
    specialize (H (p, n, q) (in_or_app _ _ _ (or_intror Ho))). apply N.eqb_eq in H. exact H.
  - specialize (H (p, n, q) (in_or_app _ _ _ (or_introl Hi))). apply N.eqb_eq in H. exact H.
Qed.

(* ---------------------------------------------------------------- one transaction *)

Lemma forallb_Forall {A} (f : A -> bool) (P : A -> Prop) l :
  (forall x, f x = true -> P x) -> forallb f l = true -> Forall P l.
Proof.
  intros Hf H. rewrite forallb_forall in H. apply Forall_forall. intros x Hx. apply Hf, H, Hx.
Qed.

Lemma judge_tx_sound c target us i t s : judge_tx c target us i t s = [] -> tx_statement c target us t s.
Proof.
  unfold judge_tx. intros H.
  apply app_nil_both in H as [F H]. apply app_nil_both in H as [F0 H]. apply app_nil_both in H as [F1 H].
  apply app_nil_both in H as [F2 H]. apply app_nil_both in H as [F3 H]. apply app_nil_both in H as [F4 H].
  apply app_nil_both in H as [F5 H]. apply app_nil_both in H as [F6 H]. apply app_nil_both in H as [F7 H].
  apply flag_nil in F, F0, F1, F2, F3, F4, F5, F6, F7, H.
  unfold tx_statement. repeat split.
  - revert F. unfold target_ok. apply forallb_Forall. intros o. apply bytes_eqb_eq.
  - unfold balance_coin_ok in F0. apply N.eqb_eq in F0. exact F0.
  - apply balance_assets_sound. exact F1.
  - revert F2. unfold body_shape_ok. apply forallb_Forall. intros k Hk. cbn [In].
    repeat (apply orb_true_iff in Hk as [Hk|Hk]); apply N.eqb_eq in Hk; subst; tauto.
  - exact F3.
  - exact F4.
  - unfold fee_ok in F5. apply N.leb_le in F5. exact F5.
  - unfold size_ok in F6. apply andb_true_iff in F6 as [A _]. apply N.leb_le in A. exact A.
  - unfold size_ok in F6. apply andb_true_iff in F6 as [_ A]. apply N.leb_le in A. exact A.
  - revert F7. unfold value_size_ok. apply forallb_Forall. intros o. apply N.leb_le.
  - revert H. unfold min_ada_ok. apply forallb_Forall. intros o. apply N.leb_le.
Qed.

Lemma judge_txs_sound c target us : forall ts i,
  judge_txs c target us i ts = [] -> Forall (fun p => tx_statement c target us (fst p) (snd p)) ts.
Proof.
  induction ts as [|[t s] r IH]; intros i H; [constructor|]. cbn [judge_txs] in H.
  apply app_nil_both in H as [H1 H2]. constructor; [apply (judge_tx_sound _ _ _ i), H1 | apply (IH _ H2)].
Qed.

Theorem judge_parsed_sound c target us ts :
  utxos_distinct us = true -> judge_parsed c target us ts = [] -> C13_statement c target us ts.
Proof.
  intros Hd H. unfold judge_parsed in H. apply app_nil_both in H as [H1 H2]. apply flag_nil in H1.
  split; [apply partition_ok_perm; assumption | eapply judge_txs_sound; exact H2].
Qed.

(* from bytes: every pair is read by [read_tx] and the statement holds of what was read *)
Lemma read_pairs_ok : forall l i ts, read_pairs i l = ([], ts) ->
  Forall2 (fun b p => read_tx (fst b) = Some (fst p) /\ read_tx (snd b) = Some (snd p)) l ts.
Proof.
  induction l as [|[a b] r IH]; intros i ts H; cbn [read_pairs] in H.
  - injection H as <-. constructor.
  - destruct (read_pairs (i + 1) r) as [bad ok] eqn:E.
    destruct (read_tx a) as [t|] eqn:Ea; [destruct (read_tx b) as [s|] eqn:Eb|]; try discriminate.
    injection H as -> <-. constructor; [cbn [fst snd]; auto | eapply IH; exact E].
Qed.

Theorem judge_sound c target us l :
  utxos_distinct us = true -> judge c target us l = [] ->
  exists ts, Forall2 (fun b p => read_tx (fst b) = Some (fst p) /\ read_tx (snd b) = Some (snd p)) l ts /\
             C13_statement c target us ts.
Proof.
  intros Hd H. unfold judge in H. destruct (read_pairs 0 l) as [bad ts] eqn:E.
  destruct bad; [|discriminate]. exists ts. split; [eapply read_pairs_ok; exact E | apply judge_parsed_sound; assumption].
Qed.
