(* Batch/Denote.v — the ledger objects a transaction proposal denotes, as values of the wire schemas of
   Ledger/Schemas.v (whose encoder [enc] is tied to the Rust serializers by check C01).  Definitions only.
     rust/src/builders/batch_tools/asset_categorizer.rs  build_value (200-228): Value::new(total_ada), plus a MultiAsset
                                                         built with set_asset when the output uses assets
     rust/src/builders/batch_tools/proposals.rs           create_output (72-81): TransactionOutput::new(address, value)
                                                         create_tx (191-219): TransactionBody::new(inputs, outputs, fee, None),
                                                         Transaction::new(body, mock witness set, None)
     rust/src/builders/batch_tools/witnesses_calculator.rs create_mock_witnesses_set (100-139) *)
From CSL Require Import Base.Prelude Cbor.Head Codec.Schema Ledger.Schemas Batch.Calc.
Local Open Scope N_scope.

(* a multiasset as the list of its policies, each with its (name, quantity) entries *)
Definition groups : Type := list (bytes * list (bytes * N)).

Definition assets_val (g : list (bytes * N)) : val :=
  VMap (map (fun a => (VBytes (fst a), VNat (snd a))) g).
Definition ma_val (gs : groups) : val :=
  VMap (map (fun p => (VBytes (fst p), assets_val (snd p))) gs).
(* Value serializer: a bare coin when there is no asset, else [coin, multiasset] *)
Definition value_val (coin : N) (gs : groups) : val :=
  match gs with
  | [] => VAlt 0 (VNat coin)
  | _ => VAlt 1 (VList [VNat coin; ma_val gs])
  end.
(* TransactionOutput::new(address, value): no datum, no script reference => the legacy array form *)
Definition output_val (addr : bytes) (coin : N) (gs : groups) : val :=
  VAlt 0 (VAlt 0 (VList [VBytes addr; value_val coin gs])).   (* array alternative, without the optional data hash *)
Definition input_val (txid : bytes) (ix : N) : val := VList [VBytes txid; VNat ix].

Definition body_val (ins outs : list val) (fee : N) : val :=
  VStruct [Some (VList ins); Some (VList outs); Some (VNat fee);
           None; None; None; None; None; None; None; None; None; None; None; None; None; None; None; None; None; None].

Definition vkeywit_val (vk sg : bytes) : val := VList [VBytes vk; VBytes sg].
Definition bootwit_val (vk sg cc attr : bytes) : val := VList [VBytes vk; VBytes sg; VBytes cc; VBytes attr].
Definition opt_set (l : list val) : option val := match l with [] => None | _ => Some (VList l) end.
Definition ws_val (vks boots : list val) : val :=
  VStruct [opt_set vks; None; opt_set boots; None; None; None; None; None].

Definition tx_val (body ws : val) : val := VList [body; ws; VBool true; VNull].

(* what calc_value_size is given for these groups: name lengths and quantities *)
Definition groups_shape (gs : groups) : list (list (N * N)) :=
  map (fun p => map (fun a => (lenN (fst a), snd a)) (snd p)) gs.
Definition is_nil {A} (l : list A) : bool := match l with [] => true | _ => false end.
