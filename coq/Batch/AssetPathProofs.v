(* Batch/AssetPathProofs.v — for EVERY oracle (every possible HashSet iteration order) the complete batcher of
   Batch/AssetPath.v refines the abstract batch of Batch/Proposal.v: each accepted candidate is the result of an
   operation sequence that passes the guards.  Hence C13_partition / C13_finalise hold for it without the
   "any accepted operation sequence" abstraction.
     take_order_perm        whatever the oracle answers, the order used is a duplicate-free enumeration of the set
     place_loop_run         the distribution of a UTxO's assets over outputs = accepted OpNewOutput / OpAddAsset steps
     prototype_append_run   a candidate = run of accepted operations from the current proposal
     build_all_batch        build_all = Ok txs -> exists plan, batch c (free pools) plan = Ok txs
     full_send_all_sound    full C13 for every oracle *)
From CSL Require Import Base.Prelude Base.U64 Batch.Calc Batch.CalcProofs Batch.EncProofs Batch.IntermediateProofs
  Batch.Proposal Batch.ProposalProofs Batch.BatchProofs Batch.PureAda Batch.PureAdaProofs Batch.AssetPath.
From Coq Require Import Permutation.
Local Open Scope N_scope.

(* ---------------------------------------------------------------- the oracle cannot leave the set *)

Lemma insertN_nodup x l : NoDup l -> NoDup (insertN x l).
Proof.
  intros H. unfold insertN. destruct (memN x l) eqn:E; [exact H|]. apply NoDup_snoc; [exact H | apply memN_false, E].
Qed.

Lemma NoDup_app_intro {A} (l m : list A) :
  NoDup l -> NoDup m -> (forall x, In x l -> In x m -> False) -> NoDup (l ++ m).
Proof.
  intros Hl Hm Hd. induction Hl as [|x t Hx Ht IH]; [exact Hm|]. cbn [app]. constructor.
  - rewrite in_app_iff. intros [H|H]; [contradiction | apply (Hd x (or_introl eq_refl) H)].
  - apply IH. intros y Hy. apply Hd. right. exact Hy.
Qed.

Lemma uniq_spec l : NoDup (uniq l) /\ forall x, In x (uniq l) <-> In x l.
Proof.
  unfold uniq.
  assert (H : forall l acc, NoDup acc -> NoDup (fold_left (fun acc x => insertN x acc) l acc) /\
                            forall x, In x (fold_left (fun acc x => insertN x acc) l acc) <-> In x acc \/ In x l).
  { clear l. induction l as [|y t IH]; intros acc Ha; cbn [fold_left]; [split; [exact Ha | intros x; cbn; tauto]|].
    destruct (IH (insertN y acc) (insertN_nodup y acc Ha)) as [N E]. split; [exact N|].
    intros x. rewrite E, in_insertN. cbn [In]. split; [intros [[->|H]|H]; auto | intros [H|[->|H]]; auto]. }
  destruct (H l [] (NoDup_nil _)) as [N E]. split; [exact N|]. intros x. rewrite E. cbn. tauto.
Qed.

Lemma take_order_spec set o ord o' :
  NoDup set -> take_order set o = (ord, o') -> NoDup ord /\ forall x, In x ord <-> In x set.
Proof.
  intros Hn H. unfold take_order in H. destruct o as [|ans rest].
  - injection H as <- <-. split; [exact Hn | tauto].
  - injection H as <- <-. set (a := uniq (filter (fun x => memN x set) ans)).
    destruct (uniq_spec (filter (fun x => memN x set) ans)) as [Na Ea]. fold a in Na, Ea.
    assert (Ha : forall x, In x a -> In x set).
    { intros x Hx. apply Ea in Hx. apply filter_In in Hx as [_ Hx]. apply memN_In, Hx. }
    split.
    + apply NoDup_app_intro; [exact Na | apply NoDup_filter, Hn |].
      intros x Hx Hy. apply filter_In in Hy as [_ Hy]. apply negb_true_iff, memN_false in Hy. contradiction.
    + intros x. rewrite in_app_iff, filter_In, negb_true_iff. split.
      * intros [H|[H _]]; [apply Ha, H | exact H].
      * intros H. destruct (memN x a) eqn:E; [left; apply memN_In, E | right; split; [exact H | reflexivity]].
Qed.

(* ---------------------------------------------------------------- add_assets_to_proposal_output *)

Definition last_assets (p : tprop) : list N := o_assets (last (t_outputs p) op_new).

Lemma add_asset_facts p a : t_outputs p <> [] ->
  t_outputs (add_asset p a) <> [] /\ last_assets (add_asset p a) = insertN a (last_assets p) /\
  t_assets (add_asset p a) = insertN a (t_assets p) /\ t_utxos (add_asset p a) = t_utxos p.
Proof.
  intros Ho. unfold add_asset, last_assets. cbn [t_outputs t_assets t_utxos].
  destruct (list_snoc_cases (t_outputs p)) as [E|[t [x E]]]; [contradiction|]. rewrite E, map_last_snoc, !last_snoc.
  split; [apply snoc_ne|]. repeat split.
Qed.

Lemma step_add_asset c p a :
  t_outputs p <> [] -> ~ In a (t_assets p) -> bound_of c (insertN a (last_assets p)) <= cx_max_value c ->
  step c p (OpAddAsset a) = Ok (add_asset p a).
Proof.
  intros Ho Ha Hb. cbn [step]. destruct (t_outputs p) eqn:E; [contradiction Ho; reflexivity|]. rewrite <- E.
  apply memN_false in Ha. rewrite Ha. unfold last_assets in Hb.
  destruct (bound_of c (insertN a (o_assets (last (t_outputs p) op_new))) <=? cx_max_value c) eqn:B; [reflexivity|lia].
Qed.

Lemma fold_add_asset_facts : forall l p, t_outputs p <> [] ->
  let q := fold_left add_asset l p in
  t_outputs q <> [] /\ t_utxos q = t_utxos p /\ (forall a, In a (t_assets q) <-> In a (t_assets p) \/ In a l).
Proof.
  induction l as [|a t IH]; intros p Ho; cbn [fold_left]; [repeat split; auto; intros [H|[]]; exact H|].
  destruct (add_asset_facts p a Ho) as (O & _ & A & U). destruct (IH _ O) as (O' & U' & A').
  split; [exact O'|]. split; [rewrite U', U; reflexivity|]. intros x. rewrite A', A, in_insertN. cbn [In].
  split; [intros [[->|H]|H]; auto | intros [H|[->|H]]; auto].
Qed.

Lemma place_assets_run c : forall assets cur acc0 def0 acc dfr p,
  t_outputs p <> [] -> last_assets p = cur -> NoDup assets -> (forall a, In a assets -> ~ In a (t_assets p)) ->
  place_assets c cur assets acc0 def0 = Ok (acc, dfr) ->
  exists added dl, acc = acc0 ++ added /\ dfr = def0 ++ dl /\ Permutation (added ++ dl) assets /\
    run c p (map OpAddAsset added) = Ok (fold_left add_asset added p).
Proof.
  induction assets as [|a t IH]; intros cur acc0 def0 acc dfr p Ho Hc Hn Hd H; cbn [place_assets] in H.
  - injection H as <- <-. exists [], []. rewrite !app_nil_r. repeat split; constructor.
  - inversion Hn as [|? ? Ha Ht]; subst.
    destruct (bound_of c (insertN a (last_assets p)) <=? cx_max_value c) eqn:B.
    + destruct (add_asset_facts p a Ho) as (O & L & A & _).
      assert (Hd' : forall x, In x t -> ~ In x (t_assets (add_asset p a))).
      { intros x Hx. rewrite A, in_insertN. intros [->|H']; [contradiction | apply (Hd x (or_intror Hx) H')]. }
      destruct (IH _ _ _ _ _ (add_asset p a) O L Ht Hd' H) as (added & dl & E1 & E2 & P & R).
      exists (a :: added), dl. split; [rewrite E1, <- app_assoc; reflexivity|]. split; [exact E2|].
      split; [cbn [app]; constructor; exact P|]. cbn [map run fold_left].
      rewrite (step_add_asset c p a Ho (Hd a (or_introl eq_refl)) ltac:(lia)). cbn [bind]. exact R.
    + destruct (last_assets p) eqn:El; [discriminate|]. rewrite <- El in *.
      destruct (IH _ _ _ _ _ p Ho eq_refl Ht (fun x Hx => Hd x (or_intror Hx)) H) as (added & dl & E1 & E2 & P & R).
      exists added, (a :: dl). split; [exact E1|]. split; [rewrite E2, <- app_assoc; reflexivity|].
      split; [eapply perm_trans; [apply Permutation_sym, Permutation_middle | constructor; exact P] | exact R].
Qed.

Lemma add_assets_run c create_new p ordered p' dfr :
  t_outputs p <> [] -> NoDup ordered -> (forall a, In a ordered -> ~ In a (t_assets p)) ->
  add_assets_to_output c create_new p ordered = Ok (p', dfr) ->
  exists ops, run c p ops = Ok p' /\ t_outputs p' <> [] /\ t_utxos p' = t_utxos p /\
    NoDup dfr /\ (forall a, In a dfr -> In a ordered /\ ~ In a (t_assets p')) /\
    (forall a, In a ordered -> In a (t_assets p') \/ In a dfr) /\ (forall a, In a (t_assets p) -> In a (t_assets p')).
Proof.
  intros Ho Hn Hd H. unfold add_assets_to_output in H. apply bindR in H as [[acc dl0] [Hp H]]. injection H as <- <-. cbn [fst snd].
  set (p1 := if create_new then add_new_output p else p).
  assert (P1 : t_outputs p1 <> [] /\ t_utxos p1 = t_utxos p /\ t_assets p1 = t_assets p /\
               last_assets p1 = (if create_new then [] else match t_outputs p with [] => [] | _ => o_assets (last (t_outputs p) op_new) end) /\
               run c p (if create_new then [OpNewOutput] else []) = Ok p1).
  { unfold p1. destruct create_new.
    - unfold add_new_output, last_assets. cbn [t_outputs t_utxos t_assets]. rewrite last_snoc. repeat split. apply snoc_ne.
    - repeat split; auto. unfold last_assets. destruct (t_outputs p); [contradiction Ho; reflexivity | reflexivity]. }
  destruct P1 as (O1 & U1 & A1 & L1 & R1).
  assert (Hd1 : forall a, In a ordered -> ~ In a (t_assets p1)) by (rewrite A1; exact Hd).
  destruct (place_assets_run c ordered _ [] [] acc dl0 p1 O1 L1 Hn Hd1 Hp) as (added & dl & E1 & E2 & P & R).
  cbn [app] in E1, E2. subst acc dl0.
  destruct (fold_add_asset_facts added p1 O1) as (O2 & U2 & A2).
  assert (Nad : NoDup (added ++ dl)) by (eapply Permutation_NoDup; [apply Permutation_sym, P | exact Hn]).
  exists ((if create_new then [OpNewOutput] else []) ++ map OpAddAsset added).
  split; [eapply run_app_ok; eassumption|]. split; [exact O2|]. split; [rewrite U2, U1; reflexivity|].
  split; [apply nodup_app_inv in Nad; tauto|]. split.
  - intros a Ha. split; [eapply Permutation_in; [exact P | apply in_or_app; right; exact Ha]|].
    rewrite A2, A1. intros [H|H].
    + apply (Hd a); [eapply Permutation_in; [exact P | apply in_or_app; right; exact Ha] | exact H].
    + destruct (nodup_app_inv _ _ Nad) as [_ D]. apply (D a H Ha).
  - split.
    + intros a Ha. apply (Permutation_in _ (Permutation_sym P)) in Ha. apply in_app_iff in Ha as [Ha|Ha]; [left; apply A2; right; exact Ha | right; exact Ha].
    + intros a Ha. apply A2. left. rewrite A1. exact Ha.
Qed.

Lemma place_loop_run c : forall fuel create_new p assets o p1 cn o1,
  t_outputs p <> [] -> NoDup assets -> (forall a, In a assets -> ~ In a (t_assets p)) ->
  place_loop fuel c create_new p assets o = Ok (p1, cn, o1) ->
  exists ops, run c p ops = Ok p1 /\ t_outputs p1 <> [] /\ t_utxos p1 = t_utxos p /\
    (forall a, In a assets -> In a (t_assets p1)) /\ (forall a, In a (t_assets p) -> In a (t_assets p1)).
Proof.
  induction fuel as [|f IH]; intros create_new p assets o p1 cn o1 Ho Hn Hd H; cbn [place_loop] in H; [discriminate|].
  destruct (take_order assets o) as [ordered o'] eqn:Et.
  destruct (take_order_spec _ _ _ _ Hn Et) as [No Eo].
  apply bindR in H as [[q dfr] [Ha H]]. cbn [fst snd] in H.
  destruct (add_assets_run c create_new p ordered q dfr Ho No (fun a Hx => Hd a (proj1 (Eo a) Hx)) Ha)
    as (ops1 & R1 & O1 & U1 & Nd & D1 & C1 & M1).
  destruct dfr as [|d dt].
  - injection H as <- <- <-. exists ops1. split; [exact R1|]. split; [exact O1|]. split; [exact U1|]. split; [|exact M1].
    intros a Hx. apply Eo in Hx. destruct (C1 a Hx) as [H|[]]. exact H.
  - destruct (IH true q (d :: dt) o' p1 cn o1 O1 Nd (fun a Hx => proj2 (D1 a Hx)) H) as (ops2 & R2 & O2 & U2 & C2 & M2).
    exists (ops1 ++ ops2). split; [eapply run_app_ok; eassumption|]. split; [exact O2|]. split; [rewrite U2, U1; reflexivity|].
    split; [|intros a Hx; apply M2, M1, Hx].
    intros a Hx. apply Eo in Hx. destruct (C1 a Hx) as [H'|H']; [apply M2, H' | apply C2, H'].
Qed.

(* ---------------------------------------------------------------- prototype_append *)

(* every UTxO lists an asset at most once (its multiasset is a map) *)
Definition utxos_ok (c : ctx) : Prop := forall u, NoDup (uassets c u).

Lemma last_assets_in_out p a : t_outputs p <> [] -> In a (last_assets p) -> In a (out_assets p).
Proof.
  intros Ho Ha. unfold out_assets, last_assets in *. destruct (list_snoc_cases (t_outputs p)) as [E|[t [x E]]]; [contradiction|].
  rewrite E in *. rewrite last_snoc in Ha. rewrite map_app, concat_app. apply in_or_app. right. cbn. rewrite app_nil_r. exact Ha.
Qed.

Lemma prototype_append_run c st p u o p4 adas mk o' :
  utxos_ok c -> Inv c p -> asset_free c (free_adas st) ->
  prototype_append c st p u o = Ok (Some (p4, adas, mk), o') ->
  exists ops, run c p ops = Ok p4 /\ t_utxos p4 = t_utxos p ++ u :: adas /\ incl adas (free_adas st) /\ t_outputs p4 <> [].
Proof.
  intros Hu I Hf H. unfold prototype_append in H.
  set (in_output := match t_outputs p with [] => [] | _ => o_assets (last (t_outputs p) op_new) end) in *.
  set (afa := filter (fun a => negb (memN a in_output) && negb (memN a (t_assets p))) (uassets c u)) in *.
  set (p0 := match t_outputs p with [] => add_new_output p | _ => p end) in *.
  assert (P0 : t_outputs p0 <> [] /\ t_utxos p0 = t_utxos p /\ t_assets p0 = t_assets p /\
               run c p (match t_outputs p with [] => [OpNewOutput] | _ => [] end) = Ok p0).
  { unfold p0. destruct (t_outputs p) eqn:E.
    - unfold add_new_output. cbn [t_outputs t_utxos t_assets]. repeat split. rewrite E. discriminate.
    - repeat split. rewrite E. discriminate. }
  destruct P0 as (O0 & U0 & A0 & R0).
  apply bindR in H as [[[p1 cn] o1] [Hl H]].
  assert (Nafa : NoDup afa) by (apply NoDup_filter, Hu).
  assert (Dafa : forall a, In a afa -> ~ In a (t_assets p0)).
  { intros a Ha. apply filter_In in Ha as [_ Ha]. apply andb_true_iff in Ha as [_ Ha]. apply negb_true_iff, memN_false in Ha. rewrite A0. exact Ha. }
  destruct (place_loop_run c _ _ _ _ _ _ _ _ O0 Nafa Dafa Hl) as (ops1 & R1 & O1 & U1 & C1 & M1).
  apply bindR in H as [p2 [Ha H]]. apply bindR in H as [[p3 sz] [Hs H]]. cbn [fst snd] in H.
  destruct (cx_max_tx c <? sz); [destruct (is_nilb (t_utxos p)); discriminate|].
  (* the UTxO is added after all its assets are in the transaction *)
  assert (Sub : subsetN (map fst (ui_assets (utxo_of c u))) (t_assets p1) = true).
  { unfold subsetN. apply forallb_forall. intros a Hx. apply memN_In.
    destruct (memN a in_output) eqn:E1.
    - apply M1. rewrite A0. apply memN_In in E1. apply (inv_assets_eq c p I). unfold in_output in E1.
      destruct (t_outputs p) eqn:Eo; [contradiction|]. rewrite <- Eo in E1. apply last_assets_in_out; [rewrite Eo; discriminate | exact E1].
    - destruct (memN a (t_assets p)) eqn:E2.
      + apply M1. rewrite A0. apply memN_In, E2.
      + apply C1. apply filter_In. split; [exact Hx | rewrite E1, E2; reflexivity]. }
  assert (Rs : step c p1 (OpAddUtxo u) = Ok p2).
  { cbn [step]. destruct (t_outputs p1) eqn:E; [contradiction O1; reflexivity|]. rewrite Sub. exact Ha. }
  destruct (add_utxo_outputs _ _ _ _ Ha) as [O2 U2].
  assert (O2' : t_outputs p2 <> []) by (rewrite O2; exact O1).
  destruct (set_min_outputs _ _ _ _ Hs O2') as [O3 U3].
  assert (R3 : run c p (match t_outputs p with [] => [OpNewOutput] | _ => [] end ++ ops1 ++ [OpAddUtxo u] ++ [OpSetMinAda]) = Ok p3).
  { eapply run_app_ok; [exact R0|]. eapply run_app_ok; [exact R1|]. eapply run_app_ok; [cbn [run]; rewrite Rs; reflexivity|].
    eapply set_min_run. exact Hs. }
  assert (U3' : t_utxos p3 = t_utxos p ++ [u]) by (rewrite U3, U2, U1, U0; reflexivity).
  apply bindR in H as [need [_ H]]. destruct (0 <? need).
  - apply bindR in H as [t [Ht H]]. destruct t as [[q used]|]; [|discriminate]. injection H as <- <- <- <-.
    destruct (try_append_run c (free_adas st) p3 q used Hf (or_intror O3) Ht) as (ops2 & R4 & U4 & I4 & O4).
    eexists. split; [eapply run_app_ok; [exact R3 | exact R4]|].
    split; [rewrite U4, U3', <- app_assoc; reflexivity|]. split; [exact I4 | exact O4].
  - injection H as <- <- <- <-. eexists. split; [exact R3|]. split; [exact U3'|]. split; [intros x [] | exact O3].
Qed.

(* ---------------------------------------------------------------- make_candidate: where a candidate comes from *)

Definition came_from (c : ctx) (st : pools) (p : tprop) (x : cand * N) : Prop :=
  In (snd x) (free_assets st) /\ exists o1 o2, prototype_append c st p (snd x) o1 = Ok (Some (fst x), o2).
Definition opt_from (c : ctx) (st : pools) (p : tprop) (b : option (cand * N)) : Prop :=
  forall x, b = Some x -> came_from c st p x.

Lemma scan_utxos_from c st p cf : forall us best o ret res o',
  (forall u, In u us -> In u (free_assets st)) -> opt_from c st p best ->
  scan_utxos c st p cf us best o = Ok (ret, res, o') -> opt_from c st p res.
Proof.
  induction us as [|u t IH]; intros best o ret res o' Hu Hb H; cbn [scan_utxos] in H.
  - injection H as _ <- _. exact Hb.
  - apply bindR in H as [[r o1] [Hp H]]. cbn [fst snd] in H. destruct r as [cd|].
    + assert (F : came_from c st p (cd, u)) by (split; [apply Hu; left; reflexivity | exists o, o1; exact Hp]).
      assert (Fo : opt_from c st p (Some (cd, u))) by (intros x E; injection E as <-; exact F).
      destruct (snd cd); [destruct cf|].
      * injection H as _ <- _. exact Fo.
      * eapply IH; [intros v Hv; apply Hu; right; exact Hv | exact Fo | exact H].
      * injection H as _ <- _. exact Fo.
    + eapply IH; [intros v Hv; apply Hu; right; exact Hv | exact Hb | exact H].
Qed.

Lemma free_holders_incl c st a u : In u (free_holders c st a) -> In u (free_assets st).
Proof. unfold free_holders. intros H. apply filter_In in H. tauto. Qed.

Lemma make_candidate_from c st p cf : NoDup (free_assets st) -> forall assets best o res o',
  opt_from c st p best -> make_candidate c st p cf assets best o = Ok (res, o') -> opt_from c st p res.
Proof.
  intros Hn. induction assets as [|a t IH]; intros best o res o' Hb H; cbn [make_candidate] in H.
  - injection H as <- _. exact Hb.
  - destruct (free_holders c st a) as [|h ht] eqn:Eh; [eapply IH; eassumption|]. rewrite <- Eh in H.
    destruct (take_order (free_holders c st a) o) as [ord o1] eqn:Et.
    assert (Nh : NoDup (free_holders c st a)) by (apply NoDup_filter, Hn).
    destruct (take_order_spec _ _ _ _ Nh Et) as [_ Eo].
    apply bindR in H as [[[ret cd] o2] [Hs H]].
    assert (F : opt_from c st p cd).
    { eapply scan_utxos_from; [|exact Hb|exact Hs]. intros u Hu. apply (free_holders_incl c st a), Eo, Hu. }
    destruct ret; [injection H as <- _; exact F | eapply IH; [exact F | exact H]].
Qed.

Lemma opt_from_none c st p : opt_from c st p None.
Proof. intros x E. discriminate. Qed.

Lemma try_append_asset_from c st p o x o' :
  NoDup (free_assets st) -> try_append_asset c st p o = Ok (Some x, o') -> came_from c st p x.
Proof.
  intros Hn H. unfold try_append_asset in H. apply bindR in H as [[r1 o1] [H1 H]]. cbn [fst snd] in H.
  pose proof (make_candidate_from c st p false Hn _ _ _ _ _ (opt_from_none c st p) H1) as F1.
  destruct r1 as [cd|]; [injection H as <- _; apply F1; reflexivity|].
  apply bindR in H as [[r2 o2] [H2 H]]. cbn [fst snd] in H.
  pose proof (make_candidate_from c st p false Hn _ _ _ _ _ (opt_from_none c st p) H2) as F2.
  destruct r2 as [cd|]; [injection H as <- _; apply F2; reflexivity|].
  apply (make_candidate_from c st p true Hn _ _ _ _ _ (opt_from_none c st p) H). reflexivity.
Qed.

(* ---------------------------------------------------------------- the pools *)

Definition flat (st : pools) : list N := free_assets st ++ free_adas st.
Definition pools_ok (c : ctx) (st : pools) : Prop := NoDup (flat st) /\ asset_free c (free_adas st).

Lemma removeN_app x l m : removeN x (l ++ m) = removeN x l ++ removeN x m.
Proof. unfold removeN. apply filter_app. Qed.
Lemma removeN_notin x l : ~ In x l -> removeN x l = l.
Proof.
  intros H. unfold removeN. induction l as [|y t IH]; [reflexivity|]. cbn [filter].
  destruct (x =? y) eqn:E; [apply N.eqb_eq in E; subst; exfalso; apply H; left; reflexivity|].
  cbn [negb]. rewrite IH; [reflexivity|]. intros Hx. apply H. right. exact Hx.
Qed.
Lemma remove_all_app_r xs : forall l m, remove_all xs (l ++ m) = remove_all xs l ++ remove_all xs m.
Proof.
  induction xs as [|x t IH]; intros l m; [reflexivity|]. unfold remove_all. cbn [fold_left].
  fold (remove_all t (removeN x (l ++ m))). rewrite removeN_app, IH. reflexivity.
Qed.
Lemma remove_all_notin xs : forall l, (forall x, In x xs -> ~ In x l) -> remove_all xs l = l.
Proof.
  induction xs as [|x t IH]; intros l H; [reflexivity|]. unfold remove_all. cbn [fold_left]. fold (remove_all t (removeN x l)).
  rewrite removeN_notin by (apply H; left; reflexivity). apply IH. intros y Hy. apply H. right. exact Hy.
Qed.
Lemma remove_all_nodup xs : forall l, NoDup l -> NoDup (remove_all xs l).
Proof.
  induction xs as [|x t IH]; intros l H; [exact H|]. unfold remove_all. cbn [fold_left]. fold (remove_all t (removeN x l)).
  apply IH, removeN_nodup, H.
Qed.

Lemma flat_after_asset st u adas :
  NoDup (flat st) -> In u (free_assets st) -> incl adas (free_adas st) ->
  removeN u (free_assets st) ++ remove_all adas (free_adas st) = remove_all (u :: adas) (flat st).
Proof.
  intros Hn Hu Ha. unfold flat in *. destruct (nodup_app_inv _ _ Hn) as [_ D].
  unfold remove_all at 2. cbn [fold_left]. fold (remove_all adas (removeN u (free_assets st ++ free_adas st))).
  rewrite removeN_app, (removeN_notin u (free_adas st)) by (apply D, Hu).
  rewrite remove_all_app_r. f_equal. symmetry. apply remove_all_notin.
  intros x Hx Hy. apply removeN_In in Hy as [Hy _]. apply (D x Hy), Ha, Hx.
Qed.

Lemma try_append_next_run c st p o p' st' o' :
  utxos_ok c -> Inv c p -> pools_ok c st -> (p = tp_new \/ t_outputs p <> []) ->
  try_append_next c st p o = Ok (Some (p', st'), o') ->
  exists ops consumed, run c p ops = Ok p' /\ t_utxos p' = t_utxos p ++ consumed /\ incl consumed (flat st) /\
    flat st' = remove_all consumed (flat st) /\ pools_ok c st' /\ t_outputs p' <> [].
Proof.
  intros Hu I [Hn Hf] Hp H. unfold try_append_next in H.
  assert (Nfa : NoDup (free_assets st)).
  { unfold flat in Hn. clear - Hn. induction (free_assets st) as [|x t IH]; [constructor|]. cbn [app] in Hn. inversion Hn; subst.
    constructor; [intros H; apply H1, in_or_app; left; exact H | apply IH; assumption]. }
  destruct (free_assets st) as [|a0 at0] eqn:Efa.
  - destruct (free_adas st) as [|d0 dt0] eqn:Efd; [discriminate|]. rewrite <- Efd in *.
    apply bindR in H as [r [Hr H]]. destruct r as [[q used]|]; [|discriminate]. injection H as <- <- _.
    destruct (try_append_run c (free_adas st) p q used Hf Hp Hr) as (ops & R & U & Iu & O).
    exists ops, used. unfold flat in *. rewrite Efa in *. cbn [free_assets free_adas app] in *.
    split; [exact R|]. split; [exact U|]. split; [exact Iu|]. split; [reflexivity|].
    split; [|exact O]. split; [cbn [app]; apply remove_all_nodup, Hn | eapply asset_free_sub; [apply remove_all_incl | exact Hf]].
  - rewrite <- Efa in *. apply bindR in H as [[r o1] [Hr H]]. cbn [fst snd] in H.
    destruct r as [[[[q adas] mk] u]|]; [|discriminate]. injection H as <- <- _.
    destruct (try_append_asset_from c st p o _ _ Nfa Hr) as [Hin [oa [ob Hpa]]]. cbn [fst snd] in *.
    destruct (prototype_append_run c st p u oa q adas mk ob Hu I Hf Hpa) as (ops & R & U & Ia & O).
    exists ops, (u :: adas). split; [exact R|]. split; [exact U|].
    split; [intros x [<-|Hx]; unfold flat; apply in_or_app; [left; exact Hin | right; apply Ia, Hx]|].
    assert (E : flat (mkPools (removeN u (free_assets st)) (remove_all adas (free_adas st))) = remove_all (u :: adas) (flat st))
      by (unfold flat at 1; cbn [free_assets free_adas]; apply flat_after_asset; assumption).
    split; [exact E|]. split; [|exact O]. split; [rewrite E; apply remove_all_nodup, Hn|].
    cbn [free_adas]. eapply asset_free_sub; [apply remove_all_incl | exact Hf].
Qed.

Lemma fill_all_run c : utxos_ok c -> forall fuel st p o p' st' o',
  Inv c p -> pools_ok c st -> (p = tp_new \/ t_outputs p <> []) ->
  fill_all fuel c st p o = Ok (p', st', o') ->
  exists ops consumed, run c p ops = Ok p' /\ t_utxos p' = t_utxos p ++ consumed /\ incl consumed (flat st) /\
    flat st' = remove_all consumed (flat st) /\ pools_ok c st'.
Proof.
  intros Hu. induction fuel as [|f IH]; intros st p o p' st' o' I Hk Hp H; cbn [fill_all] in H; [discriminate|].
  apply bindR in H as [[r o1] [Hr H]]. cbn [fst snd] in H. destruct r as [[q st1]|].
  - destruct (try_append_next_run c st p o q st1 o1 Hu I Hk Hp Hr) as (ops1 & cons1 & R1 & U1 & I1 & E1 & K1 & O1).
    assert (Iq : Inv c q) by (eapply run_inv; eassumption).
    destruct (IH st1 q o1 p' st' o' Iq K1 (or_intror O1) H) as (ops2 & cons2 & R2 & U2 & I2 & E2 & K2).
    exists (ops1 ++ ops2), (cons1 ++ cons2). split; [eapply run_app_ok; eassumption|].
    split; [rewrite U2, U1, app_assoc; reflexivity|].
    split; [apply incl_app; [exact I1 | intros x Hx; apply I2 in Hx; rewrite E1 in Hx; eapply remove_all_incl, Hx]|].
    split; [rewrite E2, E1, remove_all_app; reflexivity | exact K2].
  - injection H as <- <- _. exists [], []. rewrite app_nil_r. repeat split; try apply Hk. intros x [].
Qed.

(* the complete batcher is an instance of the abstract batch, whatever the oracle *)
Theorem build_all_batch c : utxos_ok c -> forall fuel st o txs,
  pools_ok c st -> build_all fuel c st o = Ok txs -> exists plan, batch c (flat st) plan = Ok txs.
Proof.
  intros Hu. induction fuel as [|f IH]; intros st o txs Hk H; cbn [build_all] in H.
  - destruct (pools_empty st) eqn:E; [|discriminate]. injection H as <-. exists [].
    unfold pools_empty in E. apply andb_true_iff in E as [E1 E2]. unfold flat.
    destruct (free_assets st), (free_adas st); try discriminate. reflexivity.
  - destruct (pools_empty st) eqn:E.
    + injection H as <-. exists []. unfold pools_empty in E. apply andb_true_iff in E as [E1 E2]. unfold flat.
      destruct (free_assets st), (free_adas st); try discriminate. reflexivity.
    + apply bindR in H as [[[p st'] o'] [Hfill H]]. apply bindR in H as [[p' tx] [Hfin H]]. apply bindR in H as [rest [Hrest H]].
      injection H as <-. cbn [snd].
      destruct (fill_all_run c Hu _ st tp_new o p st' o' (inv_new c) Hk (or_introl eq_refl) Hfill) as (ops & consumed & R & U & I & E' & K').
      cbn [tp_new t_utxos app] in U.
      destruct (IH st' o' rest K' Hrest) as [plan Hplan].
      exists (ops :: plan). cbn [batch].
      assert (Hne : flat st <> []).
      { unfold pools_empty in E. unfold flat. destruct (free_assets st), (free_adas st); cbn in E; try discriminate. }
      destruct (flat st) as [|f0 ft] eqn:Ef; [contradiction Hne; reflexivity|]. rewrite <- Ef in *.
      unfold batch_step. rewrite R. cbn [bind].
      assert (Sub : subsetN (t_utxos p) (flat st) = true).
      { unfold subsetN. apply forallb_forall. intros x Hx. apply memN_In, I. rewrite U in Hx. exact Hx. }
      rewrite Sub, Hfin. cbn [bind fst snd]. rewrite U, <- E', Hplan. reflexivity.
Qed.

Lemma initial_pools_ok c : pools_ok c (initial_pools c) /\ Permutation (flat (initial_pools c)) (all_indices c).
Proof.
  assert (P : Permutation (flat (initial_pools c)) (all_indices c)).
  { unfold flat, initial_pools, ada_pool. cbn [free_assets free_adas]. pose proof (pools_cover c) as PC.
    destruct (free_pools false c) as [fa fd]. cbn [fst snd].
    eapply perm_trans; [apply Permutation_app_head, sort_pool_perm | exact PC]. }
  split; [|exact P]. split.
  - eapply Permutation_NoDup; [apply Permutation_sym, P | apply idx_from_nodup].
  - apply ada_pool_asset_free.
Qed.

(* C13 in full, for EVERY iteration order of the hash sets: when the batcher succeeds, its transactions spend every
   supplied UTxO exactly once and each of them is valid *)
Theorem full_send_all_sound c o txs :
  utxos_ok c -> ctx_wf c -> full_send_all c o = Ok txs ->
  Permutation (concat (map x_inputs txs)) (all_indices c) /\ Forall (tx_valid c) txs.
Proof.
  intros Hu W H. unfold full_send_all in H. destruct (initial_pools_ok c) as [K P].
  destruct (build_all_batch c Hu _ _ _ _ K H) as [plan Hb]. split.
  - eapply perm_trans; [eapply batch_partition; [apply K | exact Hb] | exact P].
  - eapply batch_valid; [exact W | | exact Hb]. intros u Hx. eapply Permutation_in; [exact P | exact Hx].
Qed.
