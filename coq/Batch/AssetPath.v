(* Batch/AssetPath.v — the COMPLETE send-all batcher, asset path included.  The only thing the code does that is not a
   function of its input is the iteration order of `HashSet`s; here that order is an explicit ORACLE (a script of
   orders, consumed in call order, as recorded by hook H2), so the model is deterministic given the oracle, and the
   theorems of AssetPathProofs.v quantify over every oracle.
     rust/src/builders/batch_tools/asset_categorizer.rs
        AssetCategorizer::new: assets_counts (count of further holders, stable sort descending, 113-166)
        try_append_next_utxos (230-254), try_append_next_asset_utxos (256-275), get_asset_intersections (333-344),
        get_policy_intersections (346-365), prototype_append (367-432), add_assets_to_proposal_output (434-489),
        make_candidate (569-596), remove_assets_utxo (634-646)
     rust/src/builders/tx_batch_builder.rs  TxBatchBuilder::build (84-119)
   (the pure-ADA functions and the finalisation are those of PureAda.v / Proposal.v).
   Where an order matters: (1) make_candidate iterates free_asset_to_utxos[asset] (a HashSet of UTxOs) and returns at the
   first acceptable candidate; (2) add_assets_to_proposal_output iterates the set of assets to place, the value-size
   test making the result depend on the order.  Every other HashSet / HashMap is only tested for membership or summed.
   No proofs in this file. *)
From CSL Require Import Base.Prelude Base.U64 Batch.Calc Batch.Proposal Batch.PureAda.
Local Open Scope N_scope.

(* ---------------------------------------------------------------- the oracle *)

Definition oracle := list (list N).

Definition uniq (l : list N) : list N := fold_left (fun acc x => insertN x acc) l [].

(* the order in which a set with the elements [set] is iterated: the oracle's next answer, completed / restricted so
   that it is a permutation of [set] whatever the oracle says (no answer left: the canonical order) *)
Definition take_order (set : list N) (o : oracle) : list N * oracle :=
  match o with
  | [] => (set, [])
  | ans :: rest =>
      let a := uniq (filter (fun x => memN x set) ans) in
      (a ++ filter (fun x => negb (memN x a)) set, rest)
  end.

(* ---------------------------------------------------------------- static tables *)

Definition uassets (c : ctx) (u : N) : list N := map fst (ui_assets (utxo_of c u)).

Fixpoint idxs (i : N) (n : nat) : list N := match n with O => [] | S k => i :: idxs (i + 1) k end.

(* assets_counts: (asset, number of holders after the first), sorted by that count, descending, stable *)
Definition holders (c : ctx) (a : N) : N :=
  lenN (filter (fun x => memN a (map fst (ui_assets x))) (cx_utxos c)).
Fixpoint insert_desc (key : N -> N) (a : N) (l : list N) : list N :=
  match l with
  | [] => [a]
  | b :: t => if key b <? key a then a :: b :: t else b :: insert_desc key a t
  end.
Definition asset_order (c : ctx) : list N :=
  fold_left (fun acc a => insert_desc (holders c) a acc) (idxs 0 (length (cx_assets c))) [].

(* ---------------------------------------------------------------- the dynamic state of the categorizer *)

Record pools := mkPools {
  free_assets : list N;       (* keys of free_utxo_to_assets: free UTxOs that hold assets, ascending *)
  free_adas : list N }.       (* free_ada_utxos: free pure-ADA UTxOs, ascending by amount *)

(* free_asset_to_utxos[a] *)
Definition free_holders (c : ctx) (st : pools) (a : N) : list N :=
  filter (fun u => memN a (uassets c u)) (free_assets st).

(* ---------------------------------------------------------------- add_assets_to_proposal_output *)

(* the loop over the assets in iteration order; [cur] = assets of the output so far (old_value_state) *)
Fixpoint place_assets (c : ctx) (cur assets acc deferred : list N) : result (list N * list N) :=
  match assets with
  | [] => Ok (acc, deferred)
  | a :: t =>
      if bound_of c (insertN a cur) <=? cx_max_value c
      then place_assets c (insertN a cur) t (acc ++ [a]) deferred
      else match cur with
           | [] => Err                       (* "Asset can not be places into tx, asset size is too big" *)
           | _ => place_assets c cur t acc (deferred ++ [a])
           end
  end.

Definition add_assets_to_output (c : ctx) (create_new : bool) (p : tprop) (ordered : list N)
  : result (tprop * list N) :=
  let base := if create_new then []
              else match t_outputs p with [] => [] | _ => o_assets (last (t_outputs p) op_new) end in
  let* r := place_assets c base ordered [] [] in
  let p1 := if create_new then add_new_output p else p in
  Ok (fold_left add_asset (fst r) p1, snd r).

(* the `while let Some(next_assets) = add_assets_to_proposal_output(..)` loop of prototype_append *)
Fixpoint place_loop (fuel : nat) (c : ctx) (create_new : bool) (p : tprop) (assets : list N) (o : oracle)
  : result (tprop * bool * oracle) :=
  match fuel with
  | O => OutOfFuel
  | S f =>
      let '(ordered, o1) := take_order assets o in
      let* r := add_assets_to_output c create_new p ordered in
      match snd r with
      | [] => Ok (fst r, create_new, o1)
      | d => place_loop f c true (fst r) d o1
      end
  end.

(* ---------------------------------------------------------------- prototype_append *)

(* a candidate: the new proposal, the pure-ADA UTxOs it took, makes_new_outputs *)
Definition cand : Type := (tprop * list N * bool)%type.

Definition prototype_append (c : ctx) (st : pools) (p : tprop) (u : N) (o : oracle)
  : result (option cand * oracle) :=
  let in_output := match t_outputs p with [] => [] | _ => o_assets (last (t_outputs p) op_new) end in
  let asset_for_add :=
    filter (fun a => negb (memN a in_output) && negb (memN a (t_assets p))) (uassets c u) in
  let p0 := match t_outputs p with [] => add_new_output p | _ => p end in
  let* r := place_loop (S (S (length asset_for_add))) c false p0 asset_for_add o in
  let '(p1, create_new, o1) := r in
  let* p2 := add_utxo c p1 u in
  let* s := set_min_ada_for_tx c p2 in
  if cx_max_tx c <? snd s then
    (if is_nilb (t_utxos p) then Err else Ok (None, o1))        (* "Utxo can not be places into tx" / give up *)
  else
    let* need := get_need_ada (fst s) in
    if 0 <? need then
      let* t := try_append_pure c (free_adas st) (fst s) in
      match t with
      | Some (p4, used) => Ok (Some (p4, used, create_new), o1)
      | None => Ok (None, o1)
      end
    else Ok (Some (fst s, [], create_new), o1).

(* ---------------------------------------------------------------- make_candidate *)

(* the inner loop over the UTxOs holding an asset: (returned?, candidate / best so far, oracle) *)
Fixpoint scan_utxos (c : ctx) (st : pools) (p : tprop) (choose_first : bool) (us : list N)
         (best : option (cand * N)) (o : oracle) : result (bool * option (cand * N) * oracle) :=
  match us with
  | [] => Ok (false, best, o)
  | u :: t =>
      let* r := prototype_append c st p u o in
      match fst r with
      | None => scan_utxos c st p choose_first t best (snd r)
      | Some cd =>
          if snd cd then
            (if choose_first then Ok (true, Some (cd, u), snd r)
             else scan_utxos c st p choose_first t (Some (cd, u)) (snd r))
          else Ok (true, Some (cd, u), snd r)
      end
  end.

Fixpoint make_candidate (c : ctx) (st : pools) (p : tprop) (choose_first : bool) (assets : list N)
         (best : option (cand * N)) (o : oracle) : result (option (cand * N) * oracle) :=
  match assets with
  | [] => Ok (best, o)
  | a :: t =>
      match free_holders c st a with
      | [] => make_candidate c st p choose_first t best o          (* free_asset_to_utxos.get(index) = None *)
      | us =>
          let '(ord, o1) := take_order us o in
          let* r := scan_utxos c st p choose_first ord best o1 in
          match r with
          | (true, cd, o2) => Ok (cd, o2)
          | (false, best', o2) => make_candidate c st p choose_first t best' o2
          end
      end
  end.

(* ---------------------------------------------------------------- try_append_next_asset_utxos *)

Definition is_free_asset (c : ctx) (st : pools) (a : N) : bool :=
  match free_holders c st a with [] => false | _ => true end.

Definition asset_intersections (c : ctx) (st : pools) (p : tprop) : list N :=
  filter (fun a => memN a (t_assets p) && is_free_asset c st a) (asset_order c).

Definition policy_intersections (c : ctx) (st : pools) (p : tprop) : list N :=
  let pols := map (fun a => ai_policy (asset_of c a)) (t_assets p) in
  filter (fun a => memN (ai_policy (asset_of c a)) pols && memN a (idxs 0 (length (cx_assets c))) && is_free_asset c st a)
         (asset_order c).

Definition try_append_asset (c : ctx) (st : pools) (p : tprop) (o : oracle) : result (option (cand * N) * oracle) :=
  let* r1 := make_candidate c st p false (asset_intersections c st p) None o in
  match fst r1 with
  | Some cd => Ok (Some cd, snd r1)
  | None =>
      let* r2 := make_candidate c st p false (policy_intersections c st p) None (snd r1) in
      match fst r2 with
      | Some cd => Ok (Some cd, snd r2)
      | None => make_candidate c st p true (asset_order c) None (snd r2)
      end
  end.

(* ---------------------------------------------------------------- try_append_next_utxos and the build loop *)

(* the new proposal, the asset UTxO and the pure-ADA UTxOs that leave the pools *)
Definition try_append_next (c : ctx) (st : pools) (p : tprop) (o : oracle)
  : result (option (tprop * pools) * oracle) :=
  match free_assets st with
  | _ :: _ =>
      let* r := try_append_asset c st p o in
      match fst r with
      | Some ((p', adas, _), u) =>
          Ok (Some (p', mkPools (removeN u (free_assets st)) (remove_all adas (free_adas st))), snd r)
      | None => Ok (None, snd r)
      end
  | [] =>
      match free_adas st with
      | [] => Ok (None, o)
      | _ =>
          let* r := try_append_pure c (free_adas st) p in
          match r with
          | Some (p', used) => Ok (Some (p', mkPools [] (remove_all used (free_adas st))), o)
          | None => Ok (None, o)
          end
      end
  end.

Definition pools_size (st : pools) : nat := length (free_assets st) + length (free_adas st).
Definition pools_empty (st : pools) : bool := is_nilb (free_assets st) && is_nilb (free_adas st).

Fixpoint fill_all (fuel : nat) (c : ctx) (st : pools) (p : tprop) (o : oracle) : result (tprop * pools * oracle) :=
  match fuel with
  | O => OutOfFuel
  | S f =>
      let* r := try_append_next c st p o in
      match fst r with
      | None => Ok (p, st, snd r)
      | Some (p', st') => fill_all f c st' p' (snd r)
      end
  end.

Fixpoint build_all (fuel : nat) (c : ctx) (st : pools) (o : oracle) : result (list atx) :=
  if pools_empty st then Ok []
  else match fuel with
       | O => OutOfFuel
       | S f =>
           let* r := fill_all (S (pools_size st)) c st tp_new o in
           let '(p, st', o') := r in
           let* tx := finalise c p in                    (* Err when nothing could be appended *)
           let* rest := build_all f c st' o' in
           Ok (snd tx :: rest)
       end.

(* create_send_all, given the iteration orders *)
Definition initial_pools (c : ctx) : pools := mkPools (fst (free_pools false c)) (ada_pool c).
Definition full_send_all (c : ctx) (o : oracle) : result (list atx) :=
  build_all (S (length (cx_utxos c))) c (initial_pools c) o.

(* AssetCategorizer::new reports an error when the grand ADA total or the grand total of an asset (UtxosStat::new) does
   not fit in 64 bits.  (Its third check, calc_utxo_output_overhead = (|output| + 160) * coins_per_utxo_byte per UTxO,
   overflows only for coins_per_utxo_byte above 10^16 and is not modelled.) *)
Definition new_ok (c : ctx) : bool :=
  (cx_ada_total c <? two64) && forallb (fun a => ai_total a <? two64) (cx_assets c).
Definition create_send_all_model (c : ctx) (o : oracle) : result (list atx) :=
  if new_ok c then full_send_all c o else Err.
