(* Batch/CalcProofs.v — the arithmetic calculators agree with the real encoders (part 1: heads and estimators).
     struct_size_head          get_struct_size n = length (encode_head m n)            for every n (no bound needed)
     struct_size_mono/_bounds  monotone, between 1 and 9
     output_cost_safe          estimate_output_cost: the returned cost is the min-ADA cost of the returned size, and the
                               returned size is >= the size of the output once it holds max(used, cost) coins (exact unless
                               the pessimistic bound was taken)
     fee_safe                  estimate_fee: fee = a * size + b and size >= tx size with that fee and the predicted last coin
     fee_legacy_bound_refuted  the bound before /repo 5dc758e is NOT safe (witness) *)
From CSL Require Import Base.Prelude Base.U64 Cbor.Head Cbor.HeadProofs Batch.Calc.
Local Open Scope N_scope.

Lemma struct_size_head_size n : get_struct_size n = head_size n.
Proof.
  unfold get_struct_size, head_size, MAX_INLINE_ENCODING.
  destruct (n <=? 23) eqn:A, (n <? 24) eqn:B; try lia; reflexivity.
Qed.

Theorem struct_size_head m n : get_struct_size n = N.of_nat (length (encode_head m n)).
Proof. rewrite head_length. apply struct_size_head_size. Qed.

Lemma struct_size_mono a b : a <= b -> get_struct_size a <= get_struct_size b.
Proof. rewrite !struct_size_head_size. apply head_size_mono. Qed.

Lemma struct_size_bounds n : 1 <= get_struct_size n <= 9.
Proof. rewrite struct_size_head_size. apply head_size_bounds. Qed.

Lemma coin_size_max n : get_coin_size n <= get_coin_size coin_max.
Proof. unfold get_coin_size. pose proof (struct_size_bounds n). change (get_struct_size coin_max) with 9. lia. Qed.

(* ---------------------------------------------------------------- checked arithmetic *)

Lemma calc_size_cost_ok cpb size c : calc_size_cost cpb size = Ok c -> c = (size + 160) * cpb.
Proof.
  unfold calc_size_cost, checked_add, checked_mul. destruct (size + 160 <? two64); cbn [bind]; [|discriminate].
  destruct ((size + 160) * cpb <? two64); [|discriminate]. intros H; injection H as <-. reflexivity.
Qed.

Lemma min_fee_ok size a b f : min_fee_for_size size a b = Ok f -> f = size * a + b.
Proof.
  unfold min_fee_for_size, checked_add, checked_mul. destruct (size * a <? two64); cbn [bind]; [|discriminate].
  destruct (size * a + b <? two64); [|discriminate]. intros H; injection H as <-. reflexivity.
Qed.

Lemma bind_ok {A B} (r : result A) (f : A -> result B) b :
  bind r f = Ok b -> exists a, r = Ok a /\ f a = Ok b.
Proof. destruct r; cbn [bind]; try discriminate. intros H. eexists; split; [reflexivity|exact H]. Qed.

(* ---------------------------------------------------------------- estimate_output_cost *)

(* the size of the output when its coin is [c], given that [size] was measured with the coin [used] *)
Definition size_with_coin (used size c : N) : N := size - get_coin_size used + get_coin_size c.

Lemma output_cost_loop_safe cpb swc used :
  used < (swc + get_coin_size used + 160) * cpb ->
  forall k last cost sz,
  swc + get_coin_size used <= last ->
  output_cost_loop k cpb swc last = Ok (Some (cost, sz)) ->
  cost = (sz + 160) * cpb /\ swc + get_coin_size cost = sz /\ used < cost.
Proof.
  intros Hu. induction k as [|k IH]; intros last cost sz Hlo H; cbn [output_cost_loop] in H; [discriminate|].
  apply bind_ok in H as [c [Hc H]]. apply calc_size_cost_ok in Hc.
  assert (Hc' : used < c) by (subst c; nia).
  destruct (swc + get_coin_size c =? last) eqn:E.
  - injection H as <- <-. apply N.eqb_eq in E. repeat split; assumption.
  - eapply IH; [|exact H]. pose proof (struct_size_mono used c ltac:(lia)). unfold get_coin_size. lia.
Qed.

(* C13_estimators_safe, output part.  Premise: the measured size contains the coin it was measured with. *)
Theorem output_cost_safe used size cpb cost sz :
  get_coin_size used <= size ->
  estimate_output_cost used size cpb = Ok (cost, sz) ->
  cost = (sz + 160) * cpb /\
  size_with_coin used size (N.max used cost) <= sz /\
  (sz <> size + get_coin_size coin_max -> size_with_coin used size (N.max used cost) = sz).
Proof.
  intros Hsz H. unfold estimate_output_cost in H. unfold size_with_coin.
  apply bind_ok in H as [c0 [Hc0 H]]. apply calc_size_cost_ok in Hc0.
  destruct (c0 <=? used) eqn:E.
  - injection H as <- <-. rewrite N.max_l by lia. repeat split; [exact Hc0 | lia | lia].
  - apply bind_ok in H as [r [Hr H]]. destruct r as [[c s]|].
    + injection H as <- <-.
      apply (output_cost_loop_safe cpb (size - get_coin_size used) used) in Hr as [A [B C]].
      * rewrite N.max_r by lia. repeat split; [exact A | lia | lia].
      * replace (size - get_coin_size used + get_coin_size used) with size by lia. subst c0. lia.
      * pose proof (struct_size_mono used c0 ltac:(lia)). unfold get_coin_size. lia.
    + apply bind_ok in H as [pc [Hpc H]]. apply calc_size_cost_ok in Hpc. injection H as <- <-.
      assert (used < pc) by (subst pc c0; nia).
      rewrite N.max_r by lia. pose proof (coin_size_max pc).
      repeat split; [exact Hpc | lia | intros X; contradiction X; reflexivity].
Qed.

(* ---------------------------------------------------------------- estimate_fee *)

Lemma fee_loop_safe base a b mn dp : forall k last fee sz,
  fee_loop k base a b mn dp last = Ok (Some (fee, sz)) ->
  fee = sz * a + b /\ recalc_size_with_dependable_value (base + get_coin_size fee) fee mn dp = sz.
Proof.
  induction k as [|k IH]; intros last fee sz H; cbn [fee_loop] in H; [discriminate|].
  apply bind_ok in H as [c [Hc H]]. apply min_fee_ok in Hc.
  destruct (recalc_size_with_dependable_value (base + get_coin_size c) c mn dp =? last) eqn:E.
  - injection H as <- <-. apply N.eqb_eq in E. split; assumption.
  - eapply IH; exact H.
Qed.

Lemma recalc_bound size c mn dp :
  recalc_size_with_dependable_value size c mn dp <=
  size + match dp with Some _ => get_coin_size coin_max | None => 0 end.
Proof.
  unfold recalc_size_with_dependable_value. destruct dp as [d|]; [|lia].
  destruct mn as [m|]; [destruct (d - c <? m)|]; apply N.add_le_mono_l, coin_size_max.
Qed.

(* C13_estimators_safe, fee part: the fee is the linear fee of the returned size, and the returned size is at
   least the size of the transaction carrying that fee and the last-output coin predicted from it (equal
   when the iteration settled) *)
Theorem fee_safe base mn dp a b fee sz :
  estimate_fee base mn dp a b = Ok (fee, sz) ->
  fee = sz * a + b /\
  recalc_size_with_dependable_value (base + get_coin_size fee) fee mn dp <= sz.
Proof.
  unfold estimate_fee, estimate_fee_gen. intros H.
  apply bind_ok in H as [c0 [Hc0 H]]. apply bind_ok in H as [r [Hr H]]. destruct r as [[f s]|].
  - injection H as <- <-. apply fee_loop_safe in Hr as [A B]. split; [exact A | lia].
  - apply bind_ok in H as [pc [Hpc H]]. apply min_fee_ok in Hpc. injection H as <- <-. split; [exact Hpc|].
    pose proof (recalc_bound (base + get_coin_size pc) pc mn dp). pose proof (coin_size_max pc).
    destruct dp; lia.
Qed.

(* the pessimistic bound before the repair left out the coin of the last output: with mainnet fee parameters,
   a 215-byte transaction without fee and last-output coin, and 2^32 + 165284 lovelace to distribute, the
   returned size 224 is below the 229 bytes of the transaction that carries the returned fee *)
Theorem fee_legacy_bound_refuted :
  exists base mn dp a b fee sz,
    estimate_fee_gen true base mn dp a b = Ok (fee, sz) /\
    sz < recalc_size_with_dependable_value (base + get_coin_size fee) fee mn dp.
Proof.
  exists 215, (Some 978370), (Some 4295132580), 44, 155381. eexists. eexists.
  split; [vm_compute; reflexivity | vm_compute; reflexivity].
Qed.
