(* Batch/PureAdaProofs.v — on UTxO sets without assets the batcher is modelled completely (Batch/PureAda.v) and
   REFINES the abstract batch of Batch/Proposal.v: every successful run is a plan of accepted operation sequences.
   Hence the full C13 statement holds there without any abstraction:
     batch_valid        every transaction of ANY successful batch is valid (C13_finalise for each)
     pure_build_batch   pure_build = Ok txs  ->  exists plan, batch c pool plan = Ok txs
     pure_ada_full      no_assets c -> pure_send_all c = Ok txs -> inputs partition all UTxOs /\ every tx valid *)
From CSL Require Import Base.Prelude Base.U64 Batch.Calc Batch.CalcProofs Batch.EncProofs Batch.IntermediateProofs
  Batch.Proposal Batch.ProposalProofs Batch.BatchProofs Batch.PureAda.
From Coq Require Import Permutation.
Local Open Scope N_scope.

(* ---------------------------------------------------------------- every transaction of a successful batch is valid *)

Lemma remove_all_incl us free : incl (remove_all us free) free.
Proof.
  revert free. induction us as [|x t IH]; intros free; [apply incl_refl|]. unfold remove_all. cbn [fold_left].
  fold (remove_all t (removeN x free)). intros y Hy. apply IH in Hy. apply removeN_In in Hy. tauto.
Qed.

Theorem batch_valid c : ctx_wf c -> forall plan free txs,
  incl free (all_indices c) -> batch c free plan = Ok txs -> Forall (tx_valid c) txs.
Proof.
  intros W. induction plan as [|ops rest IH]; intros free txs Hi H; cbn [batch] in H.
  - destruct free; [injection H as <-; constructor | discriminate].
  - destruct free as [|f0 fr] eqn:Ef; [discriminate|]. rewrite <- Ef in *.
    apply bindR in H as [[free' tx] [Hs H]]. apply bindR in H as [txs' [Hb H]]. injection H as <-. cbn [fst snd] in *.
    unfold batch_step in Hs. apply bindR in Hs as [p [Hrun Hs]].
    destruct (subsetN (t_utxos p) free) eqn:Sub; [|discriminate].
    apply bindR in Hs as [[p' tx'] [Hfin Hs]]. injection Hs as <- <-. cbn [snd].
    constructor.
    + apply (finalise_full c ops p p' tx' W Hrun); [|exact Hfin]. intros u Hu. apply Hi. eapply subsetN_In; eassumption.
    + eapply IH; [|exact Hb]. intros u Hu. apply Hi. eapply remove_all_incl. exact Hu.
Qed.

(* ---------------------------------------------------------------- the pure-ADA functions as operation sequences *)

Lemma run_app c : forall o1 o2 p, run c p (o1 ++ o2) = let* q := run c p o1 in run c q o2.
Proof.
  induction o1 as [|o t IH]; intros o2 p; [reflexivity|]. cbn [app run]. destruct (step c p o); cbn [bind]; auto.
Qed.

Lemma run_app_ok c o1 o2 p q r : run c p o1 = Ok q -> run c q o2 = Ok r -> run c p (o1 ++ o2) = Ok r.
Proof. intros H1 H2. rewrite run_app, H1. exact H2. Qed.

Definition asset_free (c : ctx) (l : list N) : Prop := forall u, In u l -> ui_assets (utxo_of c u) = [].

Lemma add_utxo_outputs c p u p' : add_utxo c p u = Ok p' -> t_outputs p' = t_outputs p /\ t_utxos p' = t_utxos p ++ [u].
Proof.
  unfold add_utxo. destruct (memN u (t_utxos p)); [discriminate|]. intros H. apply bindR in H as [t [_ H]].
  apply bindR in H as [ow [_ H]]. injection H as <-. split; reflexivity.
Qed.

Lemma add_utxo_step c p u p' :
  ui_assets (utxo_of c u) = [] -> t_outputs p <> [] -> add_utxo c p u = Ok p' -> step c p (OpAddUtxo u) = Ok p'.
Proof.
  intros Ha Ho H. cbn [step]. destruct (t_outputs p); [contradiction Ho; reflexivity|]. rewrite Ha. cbn [map subsetN forallb]. exact H.
Qed.

Lemma add_utxos_run c : forall us p p',
  asset_free c us -> t_outputs p <> [] -> add_utxos c p us = Ok p' ->
  run c p (map OpAddUtxo us) = Ok p' /\ t_outputs p' <> [] /\ t_utxos p' = t_utxos p ++ us.
Proof.
  induction us as [|u t IH]; intros p p' Hf Ho H; cbn [add_utxos] in H.
  - injection H as <-. rewrite app_nil_r. repeat split; auto.
  - apply bindR in H as [q [Hq H]]. destruct (add_utxo_outputs _ _ _ _ Hq) as [Eo Eu].
    destruct (IH q p' (fun v Hv => Hf v (or_intror Hv)) ltac:(rewrite Eo; exact Ho) H) as (R & O & U).
    cbn [map run]. rewrite (add_utxo_step c p u q (Hf u (or_introl eq_refl)) Ho Hq). cbn [bind].
    split; [exact R|]. split; [exact O|]. rewrite U, Eu, <- app_assoc. reflexivity.
Qed.

Lemma set_min_run c p q sz : set_min_ada_for_tx c p = Ok (q, sz) -> run c p [OpSetMinAda] = Ok q.
Proof. intros H. cbn [run step]. rewrite H. reflexivity. Qed.

Lemma set_min_outputs c p q sz : set_min_ada_for_tx c p = Ok (q, sz) -> t_outputs p <> [] -> t_outputs q <> [] /\ t_utxos q = t_utxos p.
Proof.
  intros H Ho. destruct (set_min_same _ _ _ _ H) as (A & _ & _ & _ & _ & F). split; [|symmetry; exact A].
  intros E. rewrite E in F. destruct (t_outputs p); [contradiction Ho; reflexivity | discriminate].
Qed.

Lemma by_amount_incl c : forall rp ignore left acc r,
  by_amount c rp ignore left acc = Ok r -> incl r (rev acc ++ rp).
Proof.
  induction rp as [|u t IH]; intros ignore left acc r H; cbn [by_amount] in H.
  - destruct (left =? 0); [injection H as <-; rewrite app_nil_r; apply incl_refl | discriminate].
  - destruct (memN u ignore).
    + apply IH in H. intros x Hx. apply H in Hx. apply in_app_iff in Hx as [Hx|Hx]; apply in_or_app; [left; exact Hx | right; right; exact Hx].
    + destruct (left - ui_ada (utxo_of c u) =? 0).
      * injection H as <-. cbn [rev]. intros x Hx. apply in_app_iff in Hx as [Hx|[<-|[]]]; apply in_or_app; [left; exact Hx | right; left; reflexivity].
      * apply IH in H. cbn [rev] in H. intros x Hx. apply H in Hx. rewrite <- app_assoc in Hx. cbn [app] in Hx. exact Hx.
Qed.

Lemma topup_run c pool orig : asset_free c pool -> forall fuel p used size p2 used2 size2,
  t_outputs p <> [] ->
  topup_loop fuel c pool orig p used size = Ok (p2, used2, size2) ->
  exists ops added, run c p ops = Ok p2 /\ used2 = used ++ added /\ t_utxos p2 = t_utxos p ++ added /\
                    incl added pool /\ t_outputs p2 <> [].
Proof.
  intros Hf. induction fuel as [|f IH]; intros p used size p2 used2 size2 Ho H; cbn [topup_loop] in H.
  - apply bindR in H as [need [_ H]]. destruct (need =? 0); [|discriminate]. injection H as <- <- <-.
    exists [], []. rewrite !app_nil_r. repeat split; auto. intros x [].
  - apply bindR in H as [need [_ H]]. destruct (need =? 0).
    + injection H as <- <- <-. exists [], []. rewrite !app_nil_r. repeat split; auto. intros x [].
    + apply bindR in H as [next [Hn H]]. apply bindR in H as [p1 [Ha H]]. apply bindR in H as [[q sz] [Hs H]]. cbn [fst snd] in H.
      destruct ((cx_max_tx c <? sz) && orig); [discriminate|].
      assert (Hnp : incl next pool).
      { apply by_amount_incl in Hn. cbn [rev app] in Hn. intros x Hx. apply Hn in Hx. apply in_rev. exact Hx. }
      destruct (add_utxos_run c next p p1 (fun u Hu => Hf u (Hnp u Hu)) Ho Ha) as (R1 & O1 & U1).
      destruct (set_min_outputs _ _ _ _ Hs O1) as [Oq Uq].
      destruct (IH q (used ++ next) sz p2 used2 size2 Oq H) as (ops & added & R & E & U & I & O).
      exists (map OpAddUtxo next ++ [OpSetMinAda] ++ ops), (next ++ added).
      split; [eapply run_app_ok; [exact R1|]; eapply run_app_ok; [eapply set_min_run; exact Hs | exact R]|].
      split; [rewrite E, app_assoc; reflexivity|]. split; [rewrite U, Uq, U1, app_assoc; reflexivity|].
      split; [apply incl_app; assumption | exact O].
Qed.

Lemma try_append_run c pool p p2 used :
  asset_free c pool -> (p = tp_new \/ t_outputs p <> []) ->
  try_append_pure c pool p = Ok (Some (p2, used)) ->
  exists ops, run c p ops = Ok p2 /\ t_utxos p2 = t_utxos p ++ used /\ incl used pool /\ t_outputs p2 <> [].
Proof.
  intros Hf Hp H. unfold try_append_pure in H. apply bindR in H as [need [Hneed H]]. apply bindR in H as [start [Hst H]].
  destruct start as [[p1 used1]|]; [|discriminate].
  apply bindR in H as [[q sz] [Hs H]]. cbn [fst snd] in H. apply bindR in H as [[[p3 used3] size3] [Ht H]].
  destruct (cx_max_tx c <? size3); [discriminate|]. injection H as <- <-.
  (* the start: either one UTxO was added (after an output was created if there was none), or nothing *)
  assert (S1 : exists ops1, run c p ops1 = Ok p1 /\ t_utxos p1 = t_utxos p ++ used1 /\ incl used1 pool /\ t_outputs p1 <> []).
  { destruct (need =? 0) eqn:En.
    - destruct (rev pool) as [|u rp] eqn:Er; [discriminate|]. apply bindR in Hst as [p1' [Ha Hst]]. injection Hst as <- <-.
      assert (Hu : In u pool) by (apply in_rev; rewrite Er; left; reflexivity).
      destruct (t_outputs p) eqn:Eo.
      + destruct (add_utxo_outputs _ _ _ _ Ha) as [E1 E2].
        assert (Ono : t_outputs (add_new_output p) <> []) by (unfold add_new_output; cbn [t_outputs]; apply snoc_ne).
        exists [OpNewOutput; OpAddUtxo u]. cbn [run step bind]. fold (step c (add_new_output p) (OpAddUtxo u)).
        rewrite (add_utxo_step c _ u p1' (Hf u Hu) Ono Ha). cbn [bind].
        split; [reflexivity|]. split; [rewrite E2; reflexivity|]. split; [intros x [<-|[]]; exact Hu | rewrite E1; exact Ono].
      + assert (Ono : t_outputs p <> []) by (rewrite Eo; discriminate).
        destruct (add_utxo_outputs _ _ _ _ Ha) as [E1 E2].
        exists [OpAddUtxo u]. cbn [run]. rewrite (add_utxo_step c _ u p1' (Hf u Hu) Ono Ha). cbn [bind].
        split; [reflexivity|]. split; [exact E2|]. split; [intros x [<-|[]]; exact Hu | rewrite E1; exact Ono].
    - injection Hst as <- <-. exists []. rewrite app_nil_r. split; [reflexivity|]. split; [reflexivity|]. split; [intros x []|].
      destruct Hp as [->|Ho]; [|exact Ho]. exfalso. vm_compute in Hneed. injection Hneed as <-. discriminate. }
  destruct S1 as (ops1 & R1 & U1 & I1 & O1).
  destruct (set_min_outputs _ _ _ _ Hs O1) as [Oq Uq].
  destruct (topup_run c pool _ Hf _ _ _ _ _ _ _ Oq Ht) as (ops2 & added & R2 & E2 & U2 & I2 & O2).
  exists (ops1 ++ [OpSetMinAda] ++ ops2).
  split; [eapply run_app_ok; [exact R1|]; eapply run_app_ok; [eapply set_min_run; exact Hs | exact R2]|].
  split; [rewrite U2, Uq, U1, E2, app_assoc; reflexivity|]. split; [rewrite E2; apply incl_app; assumption | exact O2].
Qed.

Lemma remove_all_app a b l : remove_all (a ++ b) l = remove_all b (remove_all a l).
Proof. unfold remove_all. apply fold_left_app. Qed.

Lemma asset_free_sub c l m : incl m l -> asset_free c l -> asset_free c m.
Proof. intros H F u Hu. apply F, H, Hu. Qed.

Lemma fill_run c : forall fuel pool p p' pool',
  asset_free c pool -> (p = tp_new \/ t_outputs p <> []) ->
  fill fuel c pool p = Ok (p', pool') ->
  exists ops consumed, run c p ops = Ok p' /\ t_utxos p' = t_utxos p ++ consumed /\ incl consumed pool /\
                       pool' = remove_all consumed pool.
Proof.
  induction fuel as [|f IH]; intros pool p p' pool' Hf Hp H; cbn [fill] in H.
  - destruct pool; [|discriminate]. injection H as <- <-. exists [], []. rewrite app_nil_r. repeat split. intros x [].
  - destruct pool as [|u0 t0] eqn:Epool; [injection H as <- <-; exists [], []; rewrite app_nil_r; repeat split; intros x []|].
    rewrite <- Epool in *. apply bindR in H as [r [Hr H]]. destruct r as [[q used]|].
    + destruct (try_append_run c pool p q used Hf Hp Hr) as (ops1 & R1 & U1 & I1 & O1).
      destruct (IH (remove_all used pool) q p' pool' (asset_free_sub c _ _ (remove_all_incl used pool) Hf) (or_intror O1) H)
        as (ops2 & cons2 & R2 & U2 & I2 & E2).
      exists (ops1 ++ ops2), (used ++ cons2).
      split; [eapply run_app_ok; eassumption|]. split; [rewrite U2, U1, app_assoc; reflexivity|].
      split; [apply incl_app; [exact I1 | intros x Hx; eapply remove_all_incl, I2, Hx]|].
      rewrite remove_all_app. exact E2.
    + injection H as <- <-. exists [], []. rewrite app_nil_r. repeat split. intros x [].
Qed.

(* the complete pure-ADA batcher is an instance of the abstract batch *)
Theorem pure_build_batch c : forall fuel pool txs,
  asset_free c pool -> pure_build fuel c pool = Ok txs -> exists plan, batch c pool plan = Ok txs.
Proof.
  induction fuel as [|f IH]; intros pool txs Hf H; cbn [pure_build] in H.
  - destruct pool; [|discriminate]. injection H as <-. exists []. reflexivity.
  - destruct pool as [|u0 t0] eqn:Epool; [injection H as <-; exists []; reflexivity|]. rewrite <- Epool in *.
    apply bindR in H as [[p pool'] [Hfill H]]. apply bindR in H as [[p' tx] [Hfin H]]. apply bindR in H as [rest [Hrest H]].
    injection H as <-. cbn [fst snd] in *.
    destruct (fill_run c _ pool tp_new p pool' Hf (or_introl eq_refl) Hfill) as (ops & consumed & R & U & I & E).
    cbn [tp_new t_utxos app] in U.
    destruct (IH pool' rest) as [plan Hplan]; [rewrite E; eapply asset_free_sub; [apply remove_all_incl | exact Hf] | exact Hrest|].
    exists (ops :: plan). cbn [batch]. rewrite Epool. rewrite <- Epool. unfold batch_step. rewrite R. cbn [bind].
    assert (Sub : subsetN (t_utxos p) pool = true).
    { unfold subsetN. apply forallb_forall. intros x Hx. apply memN_In, I. rewrite U in Hx. exact Hx. }
    rewrite Sub, Hfin. cbn [bind fst snd]. rewrite U, <- E, Hplan. reflexivity.
Qed.

(* ---------------------------------------------------------------- the sorted pool *)

Lemma insert_sorted_perm c u l : Permutation (insert_sorted c u l) (u :: l).
Proof.
  induction l as [|v t IH]; cbn [insert_sorted]; [apply Permutation_refl|].
  destruct (ui_ada (utxo_of c u) <? ui_ada (utxo_of c v)); [apply Permutation_refl|].
  eapply perm_trans; [apply perm_skip, IH | apply perm_swap].
Qed.

Lemma sort_pool_perm c l : Permutation (sort_pool c l) l.
Proof.
  unfold sort_pool. assert (H : forall l acc, Permutation (fold_left (fun acc u => insert_sorted c u acc) l acc) (acc ++ l)).
  { clear l. induction l as [|u t IH]; intros acc; cbn [fold_left]; [rewrite app_nil_r; apply Permutation_refl|].
    eapply perm_trans; [apply IH|]. eapply perm_trans; [apply Permutation_app_tail, insert_sorted_perm|].
    cbn [app]. apply Permutation_middle. }
  apply (H l []).
Qed.

Lemma indices_where_false {A} (f : A -> bool) l i : forallb (fun x => negb (f x)) l = true -> indices_where f l i = [].
Proof.
  revert i. induction l as [|x t IH]; intros i H; [reflexivity|]. cbn [forallb] in H. apply andb_true_iff in H as [H1 H2].
  cbn [indices_where]. apply negb_true_iff in H1. rewrite H1. cbn [app]. apply IH, H2.
Qed.

Lemma indices_where_sound {A} (f : A -> bool) (l : list A) (d : A) : forall i u,
  In u (indices_where f l i) -> i <= u /\ f (nth (N.to_nat (u - i)) l d) = true.
Proof.
  induction l as [|x t IH]; intros i u H; cbn [indices_where] in H; [contradiction|].
  apply in_app_iff in H as [H|H].
  - destruct (f x) eqn:E; [|contradiction]. destruct H as [<-|[]]. replace (i - i) with 0 by lia. cbn. split; [lia|exact E].
  - destruct (IH _ _ H) as [L F]. split; [lia|]. replace (N.to_nat (u - i)) with (S (N.to_nat (u - (i + 1)))) by lia. exact F.
Qed.

Lemma ada_pool_asset_free c : asset_free c (ada_pool c).
Proof.
  intros u Hu. unfold ada_pool in Hu. apply (Permutation_in _ (sort_pool_perm c _)) in Hu.
  unfold free_pools in Hu. cbn [snd] in Hu.
  destruct (indices_where_sound (is_ada_utxo false) (cx_utxos c) dummy_u 0 u Hu) as [_ F].
  replace (u - 0) with u in F by lia. unfold utxo_of, nthN.
  destruct (nth_error (cx_utxos c) (N.to_nat u)) as [x|] eqn:E; [|reflexivity].
  rewrite (nth_error_nth _ _ dummy_u E) in F. unfold is_ada_utxo, is_asset_utxo in F. destruct (ui_assets x); [reflexivity|discriminate].
Qed.

(* C13 in full on UTxO sets without assets: nothing is abstracted here *)
Theorem pure_ada_full c txs :
  ctx_wf c -> no_assets c = true -> pure_send_all c = Ok txs ->
  Permutation (concat (map x_inputs txs)) (all_indices c) /\ Forall (tx_valid c) txs.
Proof.
  intros W Hn H. unfold pure_send_all in H.
  destruct (pure_build_batch c _ _ _ (ada_pool_asset_free c) H) as [plan Hb].
  assert (P : Permutation (ada_pool c) (all_indices c)).
  { unfold ada_pool. eapply perm_trans; [apply sort_pool_perm|]. pose proof (pools_cover c) as PC.
    unfold free_pools in *. cbn [snd]. rewrite (indices_where_false is_asset_utxo (cx_utxos c) 0 Hn) in PC. exact PC. }
  split.
  - eapply perm_trans; [eapply batch_partition; [|exact Hb] | exact P].
    eapply Permutation_NoDup; [apply Permutation_sym, P | apply idx_from_nodup].
  - eapply batch_valid; [exact W | | exact Hb]. intros u Hu. eapply Permutation_in; [exact P | exact Hu].
Qed.
