(* Batch/TerminationProofs.v — termination of every loop of the batcher: with the fuel the model passes, no function of
   Batch/PureAda.v / Batch/AssetPath.v ever answers OutOfFuel, for every oracle.  The measures:
     place_loop     every further round (a new output) places at least one asset or reports "asset too big"
     topup_loop     every round takes at least one pure-ADA UTxO not taken before
     fill / fill_all every accepted candidate removes at least one UTxO from the pools (this uses the invariant that an
                    accepted proposal has no ADA shortage: try_append_pure_ada_utxo entered with a shortage that vanishes
                    after set_min_ada_for_tx returns a candidate that consumes nothing, and the build loop would spin)
     pure_build / build_all  every finished transaction spends at least one UTxO *)
From CSL Require Import Base.Prelude Base.U64 Batch.Calc Batch.CalcProofs Batch.EncProofs Batch.IntermediateProofs
  Batch.Proposal Batch.ProposalProofs Batch.BatchProofs Batch.PureAda Batch.PureAdaProofs Batch.AssetPath
  Batch.AssetPathProofs Batch.NoOofProofs.
From Coq Require Import Permutation.
Local Open Scope N_scope.

(* ---------------------------------------------------------------- place_loop *)

Lemma place_assets_len c : forall assets cur acc dfr acc' dfr',
  place_assets c cur assets acc dfr = Ok (acc', dfr') ->
  (length dfr' <= length dfr + length assets)%nat /\
  (cur = [] -> assets <> [] -> (length dfr' < length dfr + length assets)%nat).
Proof.
  induction assets as [|a t IH]; intros cur acc dfr acc' dfr' H; cbn [place_assets] in H.
  - injection H as _ <-. split; [cbn; lia | intros _ X; contradiction X; reflexivity].
  - destruct (bound_of c (insertN a cur) <=? cx_max_value c).
    + destruct (IH _ _ _ _ _ H) as [L _]. cbn [length]. split; [lia | intros _ _; lia].
    + destruct cur as [|x cur']; [discriminate|]. destruct (IH _ _ _ _ _ H) as [L _]. rewrite app_length in L. cbn [length] in *.
      split; [lia | intros X; discriminate].
Qed.

Lemma take_order_length set o ord o' : NoDup set -> take_order set o = (ord, o') -> length ord = length set.
Proof.
  intros Hn H. destruct (take_order_spec _ _ _ _ Hn H) as [No Eo].
  apply Permutation_length. apply NoDup_Permutation; assumption.
Qed.

Lemma place_loop_no_oof c : forall fuel (create_new : bool) p assets o,
  NoDup assets -> t_outputs p <> [] -> (forall a, In a assets -> ~ In a (t_assets p)) ->
  (length assets + (if create_new then 0 else 1) < fuel)%nat ->
  no_oof (place_loop fuel c create_new p assets o).
Proof.
  induction fuel as [|f IH]; intros create_new p assets o Hn Ho Hd Hf; [lia|]. cbn [place_loop].
  destruct (take_order assets o) as [ordered o1] eqn:Et.
  pose proof (take_order_length _ _ _ _ Hn Et) as Hl. destruct (take_order_spec _ _ _ _ Hn Et) as [No Eo].
  apply bind_no_oof; [auto with noof|].
  intros [q dfr] Ha. cbn [fst snd].
  destruct (add_assets_run c create_new p ordered q dfr Ho No (fun a Hx => Hd a (proj1 (Eo a) Hx)) Ha)
    as (_ & _ & O1 & _ & Nd & D1 & _ & _).
  destruct dfr as [|d dt] eqn:Ed; [discriminate|]. rewrite <- Ed in *.
  apply IH; [exact Nd | exact O1 | intros a Hx; apply (D1 a Hx) |].
  unfold add_assets_to_output in Ha. apply bindR in Ha as [[acc dl] [Hp Ha]]. injection Ha as _ E. cbn [snd] in E. subst dl.
  destruct (place_assets_len c _ _ _ _ _ _ Hp) as [L1 L2]. cbn [length] in *.
  destruct create_new.
  - assert (ordered <> []) by (intros X; rewrite X in Hp; cbn in Hp; injection Hp as _ Y; rewrite <- Y in Ed; discriminate).
    specialize (L2 eq_refl H). lia.
  - lia.
Qed.

(* ---------------------------------------------------------------- topup_loop *)

Lemma by_amount_spec c : forall rp ignore left acc r,
  by_amount c rp ignore left acc = Ok r -> NoDup rp -> left <> 0 ->
  exists nw, r = rev acc ++ nw /\ nw <> [] /\ NoDup nw /\ incl nw rp /\ (forall x, In x nw -> ~ In x ignore).
Proof.
  induction rp as [|u t IH]; intros ignore left acc r H Hn Hl; cbn [by_amount] in H.
  - destruct (left =? 0) eqn:E; [apply N.eqb_eq in E; contradiction | discriminate].
  - inversion Hn as [|? ? Hu Ht]; subst. destruct (memN u ignore) eqn:M.
    + destruct (IH _ _ _ _ H Ht Hl) as (nw & E & Ne & Nd & I & D). exists nw. repeat split; auto. intros x Hx. right. apply I, Hx.
    + apply memN_false in M. destruct (left - ui_ada (utxo_of c u) =? 0) eqn:E.
      * injection H as <-. exists [u]. cbn [rev]. split; [reflexivity|]. split; [discriminate|].
        split; [constructor; [intros []|constructor]|]. split; [intros x [<-|[]]; left; reflexivity | intros x [<-|[]]; exact M].
      * apply N.eqb_neq in E. destruct (IH _ _ _ _ H Ht E) as (nw & E' & Ne & Nd & I & D). cbn [rev] in E'.
        exists (u :: nw). rewrite E', <- app_assoc. split; [reflexivity|]. split; [discriminate|].
        split; [constructor; [intros Hx; apply Hu, I, Hx | exact Nd]|]. split.
        -- intros x [<-|Hx]; [left; reflexivity | right; apply I, Hx].
        -- intros x [<-|Hx]; [exact M | apply D, Hx].
Qed.

Lemma topup_no_oof c pool orig : NoDup pool -> forall fuel p used size,
  NoDup used -> incl used pool -> (length pool - length used < fuel)%nat ->
  no_oof (topup_loop fuel c pool orig p used size).
Proof.
  intros Np. induction fuel as [|f IH]; intros p used size Nu Iu Hf; [lia|]. cbn [topup_loop].
  apply bind_no_oof; [auto with noof|]. intros need _. destruct (need =? 0) eqn:En; [discriminate|]. apply N.eqb_neq in En.
  apply bind_no_oof; [auto with noof|]. intros next Hn.
  destruct (by_amount_spec c _ _ _ _ _ Hn (NoDup_rev Np) En) as (nw & E & Ne & Nd & I & D).
  cbn [rev app] in E. subst next.
  apply bind_no_oof; [auto with noof|]. intros p1 _. apply bind_no_oof; [auto with noof|]. intros [q sz] _. cbn [fst snd].
  destruct ((cx_max_tx c <? sz) && orig); [discriminate|].
  assert (Inw : incl nw pool) by (intros x Hx; apply in_rev, I, Hx).
  assert (Nun : NoDup (used ++ nw)) by (apply NoDup_app_intro; [exact Nu | exact Nd | intros x Hx Hy; apply (D x Hy Hx)]).
  apply IH; [exact Nun | apply incl_app; assumption |].
  pose proof (NoDup_incl_length Nun (incl_app Iu Inw)) as L. rewrite app_length in *.
  destruct nw; [contradiction Ne; reflexivity|]. cbn [length] in *. lia.
Qed.

Lemma try_append_pure_no_oof c pool p : NoDup pool -> no_oof (try_append_pure c pool p).
Proof.
  intros Np. unfold try_append_pure. apply bind_no_oof; [auto with noof|]. intros need _.
  apply bind_no_oof.
  - destruct (need =? 0); [|discriminate]. destruct (rev pool); [discriminate|]. noof.
  - intros [[p1 used]|] Hs; [|discriminate]. apply bind_no_oof; [auto with noof|]. intros [q sz] _. cbn [fst snd].
    apply bind_no_oof.
    + destruct (need =? 0).
      * destruct (rev pool) as [|u rp] eqn:Er; [discriminate|]. apply bindR in Hs as [p1' [_ Hs]]. injection Hs as _ <-.
        assert (Hu : In u pool) by (apply in_rev; rewrite Er; left; reflexivity).
        apply topup_no_oof; [exact Np | constructor; [intros []|constructor] | intros x [<-|[]]; exact Hu | cbn [length]; lia].
      * injection Hs as _ <-. apply topup_no_oof; [exact Np | constructor | intros x [] | cbn [length]; lia].
    + intros [[p2 u2] s2] _. destruct (cx_max_tx c <? s2); discriminate.
Qed.

(* ---------------------------------------------------------------- prototype_append, make_candidate *)

Lemma prototype_append_no_oof c st p u o : utxos_ok c -> NoDup (free_adas st) -> no_oof (prototype_append c st p u o).
Proof.
  intros Hu Np. unfold prototype_append.
  set (in_output := match t_outputs p with [] => [] | _ => o_assets (last (t_outputs p) op_new) end).
  set (afa := filter (fun a => negb (memN a in_output) && negb (memN a (t_assets p))) (uassets c u)).
  set (p0 := match t_outputs p with [] => add_new_output p | _ => p end).
  assert (O0 : t_outputs p0 <> [] /\ t_assets p0 = t_assets p).
  { unfold p0. destruct (t_outputs p) eqn:E; [unfold add_new_output; cbn [t_outputs t_assets]; split; [apply snoc_ne|reflexivity] | split; [rewrite E; discriminate | reflexivity]]. }
  apply bind_no_oof.
  - apply place_loop_no_oof; [apply NoDup_filter, Hu | apply O0 | | lia].
    intros a Ha. apply filter_In in Ha as [_ Ha]. apply andb_true_iff in Ha as [_ Ha]. apply negb_true_iff, memN_false in Ha.
    destruct O0 as [_ ->]. exact Ha.
  - intros [[p1 cn] o1] _. apply bind_no_oof; [auto with noof|]. intros p2 _. apply bind_no_oof; [auto with noof|]. intros [p3 sz] _.
    cbn [fst snd]. destruct (cx_max_tx c <? sz); [destruct (is_nilb (t_utxos p)); discriminate|].
    apply bind_no_oof; [auto with noof|]. intros need _. destruct (0 <? need); [|discriminate].
    apply bind_no_oof; [apply try_append_pure_no_oof, Np|]. intros [[q used]|] _; discriminate.
Qed.

Lemma scan_utxos_no_oof c st p cf : utxos_ok c -> NoDup (free_adas st) -> forall us best o,
  no_oof (scan_utxos c st p cf us best o).
Proof.
  intros Hu Np. induction us as [|u t IH]; intros best o; cbn [scan_utxos]; [discriminate|].
  apply bind_no_oof; [apply prototype_append_no_oof; assumption|]. intros [[cd|] o1] _; cbn [fst snd]; [|apply IH].
  destruct (snd cd); [destruct cf; [discriminate | apply IH] | discriminate].
Qed.

Lemma make_candidate_no_oof c st p cf : utxos_ok c -> NoDup (free_adas st) -> forall assets best o,
  no_oof (make_candidate c st p cf assets best o).
Proof.
  intros Hu Np. induction assets as [|a t IH]; intros best o; cbn [make_candidate]; [discriminate|].
  destruct (free_holders c st a) as [|h ht]; [apply IH|]. destruct (take_order (h :: ht) o) as [ord o1].
  apply bind_no_oof; [apply scan_utxos_no_oof; assumption|]. intros [[[] cd] o2] _; [discriminate | apply IH].
Qed.

Lemma try_append_asset_no_oof c st p o : utxos_ok c -> NoDup (free_adas st) -> no_oof (try_append_asset c st p o).
Proof.
  intros Hu Np. unfold try_append_asset. apply bind_no_oof; [apply make_candidate_no_oof; assumption|].
  intros [[cd|] o1] _; cbn [fst snd]; [discriminate|]. apply bind_no_oof; [apply make_candidate_no_oof; assumption|].
  intros [[cd|] o2] _; cbn [fst snd]; [discriminate|]. apply make_candidate_no_oof; assumption.
Qed.

Lemma try_append_next_no_oof c st p o : utxos_ok c -> NoDup (free_adas st) -> no_oof (try_append_next c st p o).
Proof.
  intros Hu Np. unfold try_append_next. destruct (free_assets st).
  - destruct (free_adas st) eqn:E; [discriminate|]. rewrite <- E in *.
    apply bind_no_oof; [apply try_append_pure_no_oof, Np|]. intros [[q used]|] _; discriminate.
  - apply bind_no_oof; [apply try_append_asset_no_oof; assumption|]. intros [[[[[q adas] mk] u]|] o1] _; discriminate.
Qed.

(* ---------------------------------------------------------------- accepted proposals have no shortage, and consume *)

Lemma topup_need c pool orig : forall fuel p used size p2 u2 s2,
  topup_loop fuel c pool orig p used size = Ok (p2, u2, s2) ->
  get_need_ada p2 = Ok 0 /\ exists more, u2 = used ++ more.
Proof.
  induction fuel as [|f IH]; intros p used size p2 u2 s2 H; cbn [topup_loop] in H.
  - apply bindR in H as [need [Hn H]]. destruct (need =? 0) eqn:E; [|discriminate]. injection H as <- <- <-.
    apply N.eqb_eq in E. subst. split; [exact Hn | exists []; rewrite app_nil_r; reflexivity].
  - apply bindR in H as [need [Hn H]]. destruct (need =? 0) eqn:E.
    + injection H as <- <- <-. apply N.eqb_eq in E. subst. split; [exact Hn | exists []; rewrite app_nil_r; reflexivity].
    + apply bindR in H as [next [_ H]]. apply bindR in H as [p1 [_ H]]. apply bindR in H as [[q sz] [_ H]]. cbn [fst snd] in H.
      destruct ((cx_max_tx c <? sz) && orig); [discriminate|]. destruct (IH _ _ _ _ _ _ H) as [A [more B]].
      split; [exact A | exists (next ++ more); rewrite B, app_assoc; reflexivity].
Qed.

Lemma try_append_pure_need c pool p p2 used :
  try_append_pure c pool p = Ok (Some (p2, used)) ->
  get_need_ada p2 = Ok 0 /\ (get_need_ada p = Ok 0 -> exists u more, used = u :: more /\ In u pool).
Proof.
  intros H. unfold try_append_pure in H. apply bindR in H as [need [Hneed H]]. apply bindR in H as [start [Hst H]].
  destruct start as [[p1 used1]|]; [|discriminate]. apply bindR in H as [[q sz] [_ H]]. cbn [fst snd] in H.
  apply bindR in H as [[[p3 used3] size3] [Ht H]]. destruct (cx_max_tx c <? size3); [discriminate|]. injection H as <- <-.
  destruct (topup_need _ _ _ _ _ _ _ _ _ _ Ht) as [A [more B]]. split; [exact A|].
  intros H0. rewrite Hneed in H0. injection H0 as ->. change (0 =? 0) with true in Hst. cbn iota in Hst.
  destruct (rev pool) as [|u rp] eqn:Er; [discriminate|]. apply bindR in Hst as [p1' [_ Hst]]. injection Hst as _ <-.
  exists u, more. split; [rewrite B; reflexivity | apply in_rev; rewrite Er; left; reflexivity].
Qed.

Lemma prototype_append_need c st p u o p4 adas mk o' :
  prototype_append c st p u o = Ok (Some (p4, adas, mk), o') -> get_need_ada p4 = Ok 0.
Proof.
  intros H. unfold prototype_append in H. apply bindR in H as [[[p1 cn] o1] [_ H]].
  apply bindR in H as [p2 [_ H]]. apply bindR in H as [[p3 sz] [_ H]]. cbn [fst snd] in H.
  destruct (cx_max_tx c <? sz); [destruct (is_nilb (t_utxos p)); discriminate|].
  apply bindR in H as [need [Hn H]]. destruct (0 <? need) eqn:E.
  - apply bindR in H as [t [Ht H]]. destruct t as [[q used]|]; [|discriminate]. injection H as <- _ _ _.
    apply (try_append_pure_need _ _ _ _ _ Ht).
  - injection H as <- _ _ _. assert (need = 0) as -> by lia. exact Hn.
Qed.

Lemma remove_all_filter xs : forall l, remove_all xs l = filter (fun y => negb (memN y xs)) l.
Proof.
  induction xs as [|x t IH]; intros l; [cbn; induction l as [|y l' IHl]; [reflexivity | cbn; rewrite <- IHl; reflexivity]|].
  unfold remove_all. cbn [fold_left]. fold (remove_all t (removeN x l)). rewrite IH. unfold removeN.
  induction l as [|y l' IHl]; [reflexivity|]. cbn [filter].
  assert (M : memN y (x :: t) = (y =? x) || memN y t) by reflexivity. rewrite M, (N.eqb_sym y x).
  destruct (x =? y); cbn [negb orb]; [exact IHl|].
  cbn [filter]. destruct (memN y t); cbn [negb]; [exact IHl | rewrite IHl; reflexivity].
Qed.

Lemma filter_length_le {A} (f : A -> bool) l : (length (filter f l) <= length l)%nat.
Proof. induction l as [|x t IH]; [cbn; lia|]. cbn [filter]. destruct (f x); cbn [length]; lia. Qed.

Lemma remove_all_shrinks xs l x : In x xs -> In x l -> (length (remove_all xs l) < length l)%nat.
Proof.
  intros Hx Hl. rewrite remove_all_filter. induction l as [|y t IH]; [contradiction|]. cbn [filter].
  destruct Hl as [->|Hl].
  - apply memN_In in Hx. rewrite Hx. cbn [negb length]. pose proof (filter_length_le (fun y => negb (memN y xs)) t). lia.
  - specialize (IH Hl). destruct (negb (memN y xs)); cbn [length]; lia.
Qed.

Lemma removeN_shrinks x l : In x l -> (length (removeN x l) < length l)%nat.
Proof.
  intros H. change (removeN x l) with (remove_all [x] l). apply (remove_all_shrinks [x] l x); [left; reflexivity | exact H].
Qed.

Lemma remove_all_length_le xs l : (length (remove_all xs l) <= length l)%nat.
Proof. rewrite remove_all_filter. apply filter_length_le. Qed.

Lemma try_append_next_progress c st p o p' st' o' :
  NoDup (free_assets st) -> get_need_ada p = Ok 0 ->
  try_append_next c st p o = Ok (Some (p', st'), o') ->
  get_need_ada p' = Ok 0 /\ (pools_size st' < pools_size st)%nat.
Proof.
  intros Nfa Hneed H. unfold try_append_next in H. unfold pools_size.
  destruct (free_assets st) as [|a0 at0] eqn:Efa.
  - destruct (free_adas st) as [|d0 dt0] eqn:Efd; [discriminate|]. rewrite <- Efd in *.
    apply bindR in H as [r [Hr H]]. destruct r as [[q used]|]; [|discriminate]. injection H as <- <- _.
    destruct (try_append_pure_need _ _ _ _ _ Hr) as [A B]. destruct (B Hneed) as (u & more & -> & Hu).
    split; [exact A|]. cbn [free_assets free_adas length]. apply (remove_all_shrinks _ _ u); [left; reflexivity | exact Hu].
  - rewrite <- Efa in *. apply bindR in H as [[r o1] [Hr H]]. cbn [fst snd] in H.
    destruct r as [[[[q adas] mk] u]|]; [|discriminate]. injection H as <- <- _.
    destruct (try_append_asset_from c st p o _ _ Nfa Hr) as [Hin [oa [ob Hpa]]]. cbn [fst snd] in *.
    split; [eapply prototype_append_need; exact Hpa|]. cbn [free_assets free_adas].
    pose proof (removeN_shrinks u _ Hin). pose proof (remove_all_length_le adas (free_adas st)). lia.
Qed.

(* ---------------------------------------------------------------- the fill and build loops *)

Lemma pools_ok_parts c st : pools_ok c st -> NoDup (free_assets st) /\ NoDup (free_adas st).
Proof.
  intros [Hn _]. unfold flat in Hn. split.
  - clear - Hn. induction (free_assets st) as [|x t IH]; [constructor|]. cbn [app] in Hn. inversion Hn; subst.
    constructor; [intros H; apply H1, in_or_app; left; exact H | apply IH; assumption].
  - apply nodup_app_inv in Hn. tauto.
Qed.

Lemma fill_all_no_oof c : utxos_ok c -> forall fuel st p o,
  Inv c p -> pools_ok c st -> (p = tp_new \/ t_outputs p <> []) -> get_need_ada p = Ok 0 ->
  (pools_size st < fuel)%nat -> no_oof (fill_all fuel c st p o).
Proof.
  intros Hu. induction fuel as [|f IH]; intros st p o I K Hp Hn Hf; [lia|]. cbn [fill_all].
  destruct (pools_ok_parts c st K) as [Nfa Nfd].
  apply bind_no_oof; [apply try_append_next_no_oof; assumption|]. intros [[[q st1]|] o1] Hr; cbn [fst snd]; [|discriminate].
  destruct (try_append_next_run c st p o q st1 o1 Hu I K Hp Hr) as (ops & cons & R & _ & _ & _ & K1 & O1).
  destruct (try_append_next_progress c st p o q st1 o1 Nfa Hn Hr) as [N1 L1].
  apply IH; [eapply run_inv; eassumption | exact K1 | right; exact O1 | exact N1 | lia].
Qed.

Lemma need_tp_new : get_need_ada tp_new = Ok 0.
Proof. reflexivity. Qed.

Lemma pools_size_flat st : pools_size st = length (flat st).
Proof. unfold pools_size, flat. rewrite app_length. reflexivity. Qed.

(* C13 termination: the build loop of the complete batcher terminates for every oracle *)
Theorem build_all_no_oof c : utxos_ok c -> forall fuel st o,
  pools_ok c st -> (pools_size st < fuel)%nat -> no_oof (build_all fuel c st o).
Proof.
  intros Hu. induction fuel as [|f IH]; intros st o K Hf; [lia|]. cbn [build_all].
  destruct (pools_empty st); [discriminate|].
  apply bind_no_oof; [apply fill_all_no_oof; [exact Hu | apply inv_new | exact K | left; reflexivity | apply need_tp_new | lia]|].
  intros [[p st'] o'] Hfill. apply bind_no_oof; [auto with noof|]. intros [p' tx] Hfin. apply bind_no_oof; [|intros; discriminate].
  destruct (fill_all_run c Hu _ st tp_new o p st' o' (inv_new c) K (or_introl eq_refl) Hfill) as (ops & consumed & R & U & I & E' & K').
  cbn [tp_new t_utxos app] in U. apply IH; [exact K'|].
  (* finalise succeeded, so the proposal spent at least one UTxO *)
  assert (Hne : consumed <> []).
  { unfold finalise, finalise_gen in Hfin. rewrite U in Hfin. destruct consumed; [discriminate | discriminate]. }
  destruct consumed as [|x xs]; [contradiction Hne; reflexivity|].
  rewrite !pools_size_flat in *. rewrite E'.
  pose proof (remove_all_shrinks (x :: xs) (flat st) x (or_introl eq_refl) (I x (or_introl eq_refl))). lia.
Qed.

Theorem full_send_all_terminates c o : utxos_ok c -> no_oof (full_send_all c o).
Proof.
  intros Hu. unfold full_send_all. destruct (initial_pools_ok c) as [K P]. apply build_all_no_oof; [exact Hu | exact K|].
  rewrite pools_size_flat, (Permutation_length P). unfold all_indices.
  assert (L : forall n i, length (idx_from i n) = n) by (induction n; intros; cbn [idx_from length]; [reflexivity | rewrite IHn; reflexivity]).
  rewrite L. lia.
Qed.

(* ---------------------------------------------------------------- the oracle-free pure-ADA batcher (PureAda.v) *)

Lemma fill_no_oof c : forall fuel pool p,
  NoDup pool -> asset_free c pool -> (p = tp_new \/ t_outputs p <> []) -> get_need_ada p = Ok 0 ->
  (length pool < fuel)%nat -> no_oof (fill fuel c pool p).
Proof.
  induction fuel as [|f IH]; intros pool p Np Hf Hp Hn Hl; [lia|]. cbn [fill]. destruct pool as [|u0 t0] eqn:Ep; [discriminate|].
  rewrite <- Ep in *. apply bind_no_oof; [apply try_append_pure_no_oof, Np|]. intros [[q used]|] Hr; [|discriminate].
  destruct (try_append_pure_need _ _ _ _ _ Hr) as [A B]. destruct (B Hn) as (u & more & E & Hu).
  destruct (try_append_run c pool p q used Hf Hp Hr) as (_ & _ & _ & _ & O).
  apply IH; [apply remove_all_nodup, Np | eapply asset_free_sub; [apply remove_all_incl | exact Hf] | right; exact O | exact A |].
  pose proof (remove_all_shrinks used pool u ltac:(rewrite E; left; reflexivity) Hu). lia.
Qed.

Theorem pure_build_no_oof c : forall fuel pool,
  NoDup pool -> asset_free c pool -> (length pool < fuel)%nat -> no_oof (pure_build fuel c pool).
Proof.
  induction fuel as [|f IH]; intros pool Np Hf Hl; [lia|]. cbn [pure_build]. destruct pool as [|u0 t0] eqn:Ep; [discriminate|].
  rewrite <- Ep in *.
  apply bind_no_oof; [apply fill_no_oof; [exact Np | exact Hf | left; reflexivity | apply need_tp_new | lia]|].
  intros [p pool'] Hfill. apply bind_no_oof; [auto with noof|]. intros [p' tx] Hfin. apply bind_no_oof; [|intros; discriminate].
  cbn [fst snd] in *.
  destruct (fill_run c _ pool tp_new p pool' Hf (or_introl eq_refl) Hfill) as (ops & consumed & R & U & I & E).
  cbn [tp_new t_utxos app] in U.
  assert (Hne : consumed <> []) by (unfold finalise, finalise_gen in Hfin; rewrite U in Hfin; destruct consumed; discriminate).
  destruct consumed as [|x xs]; [contradiction Hne; reflexivity|]. subst pool'.
  apply IH; [apply remove_all_nodup, Np | eapply asset_free_sub; [apply remove_all_incl | exact Hf]|].
  pose proof (remove_all_shrinks (x :: xs) pool x (or_introl eq_refl) (I x (or_introl eq_refl))). lia.
Qed.

Theorem pure_send_all_terminates c : no_oof (pure_send_all c).
Proof.
  unfold pure_send_all. apply pure_build_no_oof; [| apply ada_pool_asset_free |].
  - unfold ada_pool. eapply Permutation_NoDup; [apply Permutation_sym, sort_pool_perm|].
    unfold free_pools. cbn [snd]. generalize 0 at 1. induction (cx_utxos c) as [|x t IH]; intros i; cbn [indices_where]; [constructor|].
    destruct (is_ada_utxo false x); cbn [app]; [constructor; [|apply IH] | apply IH].
    intros H. destruct (indices_where_sound (is_ada_utxo false) t dummy_u (i + 1) i H) as [L _]. lia.
  - unfold ada_pool. rewrite (Permutation_length (sort_pool_perm c _)). unfold free_pools. cbn [snd].
    assert (L : forall (l : list uinfo) i, (length (indices_where (is_ada_utxo false) l i) <= length l)%nat).
    { induction l as [|x t IH]; intros i; cbn [indices_where length]; [lia|]. rewrite app_length. specialize (IH (i + 1)).
      destruct (is_ada_utxo false x); cbn [length]; lia. }
    specialize (L (cx_utxos c) 0). lia.
Qed.

(* ---------------------------------------------------------------- the top-up defect *)

(* the repaired loop always leaves the proposal without a shortage (topup_need above); the single round of the code before
   /repo 180f5b3 does not: the UTxO added for the shortage raises the fee by more than it leaves over (corpus witness w3:
   1 ADA with an asset, topped up with 0.302 ADA), and with nothing left to append the proposal was finalised as it was *)
Theorem topup_once_refuted :
  exists c p pool p2 used size n,
    run c tp_new [OpNewOutput; OpAddAsset 0; OpAddUtxo 0; OpSetMinAda] = Ok p /\
    topup_once c pool false p [] 0 = Ok (p2, used, size) /\ get_need_ada p2 = Ok n /\ 0 < n.
Proof.
  exists (mkCtx [mkUinfo 1000000 36 0 true [(0, 5)]; mkUinfo 302000 36 0 false []] [mkAinfo 0 3 5] [KVkey]
                57 44 155381 4310 5000 16384 1302000).
  eexists. exists [1]. do 4 eexists.
  split; [vm_compute; reflexivity|]. split; [vm_compute; reflexivity|]. split; vm_compute; reflexivity.
Qed.
