(* Batch/Calc.v — the arithmetic size / cost calculators of the send-all batcher, as the code computes them.
     rust/src/builders/batch_tools/cbor_calculator.rs      CborCalculator::{get_struct_size, get_wrapped_struct_size,
         get_tag_size, get_coin_size, get_fake_vkey_size, get_output_size, get_value_struct_size,
         get_bare_tx_body_size, get_witnesses_set_struct_size, get_bare_tx_size, estimate_output_cost,
         estimate_fee, recalc_size_with_dependable_value}                                   (lines 12-225)
     rust/src/builders/batch_tools/assets_calculator.rs    IntermediatePolicyState::add_asset, IntermediateOutputValue::
         {new, set_coin, add_asset, is_empty}, AssetsCalculator::{new (policy_size), calc_value_size,
         add_asset_to_intermediate_value, build_intermediate_value, build_empty_intermediate_value}   (lines 8-193)
     rust/src/builders/batch_tools/witnesses_calculator.rs WitnessesCalculator::{new, add_vkey, add_boostrap, get_full_size}
     rust/src/utils.rs MinOutputAdaCalculator::calc_size_cost (813-819);  rust/src/fees.rs min_fee_for_size (34-38)
   Sizes (usize) are naturals [N] (no 64-bit wrap is modelled for sizes: they are bounded by the input length);
   coins (BigNum) use checked arithmetic: [Err] on overflow, as checked_add / checked_mul do.
   Not modelled here: get_address_size / get_boostrap_witness_size (they serialise a real object and take its length:
   the model takes these lengths as data).  No proofs in this file. *)
From CSL Require Import Base.Prelude Base.U64.
Local Open Scope N_scope.

Definition sumN (l : list N) : N := fold_right N.add 0 l.
Definition lenN {A} (l : list A) : N := N.of_nat (length l).

(* ---------------------------------------------------------------- cbor_calculator.rs *)

Definition MAX_INLINE_ENCODING : N := 23.

Definition get_struct_size (items_count : N) : N :=
  if items_count <=? MAX_INLINE_ENCODING then 1
  else if items_count <? 256 then 2
  else if items_count <? 65536 then 3
  else if items_count <? 4294967296 then 5
  else 9.

Definition get_tag_size (tag : N) : N := get_struct_size tag.
Definition get_wrapped_struct_size (items_count : N) : N := get_tag_size 258 + get_struct_size items_count.
Definition get_coin_size (coin : N) : N := get_struct_size coin.
Definition get_fake_vkey_size : N := 101.
Definition coin_max : N := 18446744073709551615.

(* get_output_size: legacy output = array(2) head + address as a byte string *)
Definition get_output_size (address_size : N) : N :=
  get_struct_size 2 + address_size + get_struct_size address_size.

Definition get_value_struct_size (ada_only : bool) : N := if ada_only then 0 else get_struct_size 2.

(* TxBodyNames::to_u64 and the `wrapped` table of get_bare_tx_body_size (a set field is written as #6.258([...])) *)
Definition body_field_wrapped (k : N) : bool := (k =? 0) || (k =? 4) || (k =? 13) || (k =? 14) || (k =? 18).
Definition get_bare_tx_body_size (fields : list N) : N :=
  get_struct_size (lenN fields) +
  sumN (map (fun k => if body_field_wrapped k then get_wrapped_struct_size k else get_struct_size k) fields).

Definition get_witnesses_set_struct_size (fields : list N) : N :=
  get_struct_size (lenN fields) + sumN (map get_struct_size fields).

Definition get_bare_tx_size (has_auxiliary : bool) : N :=
  get_struct_size 4 + 1 + (if has_auxiliary then 0 else 1).

(* MinOutputAdaCalculator::calc_size_cost: (size + 160) * coins_per_byte, checked *)
Definition calc_size_cost (cpb size : N) : result N :=
  let* s := checked_add size 160 in checked_mul s cpb.

(* fees.rs min_fee_for_size: size * coefficient + constant, checked *)
Definition min_fee_for_size (size a b : N) : result N :=
  let* m := checked_mul size a in checked_add m b.

(* the `for _ in 0..3` loop of estimate_output_cost *)
Fixpoint output_cost_loop (k : nat) (cpb size_without_coin last_size : N) : result (option (N * N)) :=
  match k with
  | O => Ok None
  | S k' =>
      let* current_cost := calc_size_cost cpb last_size in
      let new_size := size_without_coin + get_coin_size current_cost in
      if new_size =? last_size then Ok (Some (current_cost, last_size))
      else output_cost_loop k' cpb size_without_coin new_size
  end.

Definition estimate_output_cost (used_coins output_size cpb : N) : result (N * N) :=
  let* current_cost := calc_size_cost cpb output_size in
  if current_cost <=? used_coins then Ok (current_cost, output_size)
  else
    let size_without_coin := output_size - get_coin_size used_coins in
    let last_size := size_without_coin + get_coin_size current_cost in
    let* r := output_cost_loop 3 cpb size_without_coin last_size in
    match r with
    | Some cs => Ok cs
    | None =>
        let max_size := output_size + get_coin_size coin_max in
        let* pessimistic_cost := calc_size_cost cpb max_size in
        Ok (pessimistic_cost, max_size)
    end.

(* recalc_size_with_dependable_value *)
Definition recalc_size_with_dependable_value (size current_cost : N) (min_dep dep : option N) : N :=
  match dep with
  | Some d =>
      let remain := d - current_cost in                     (* checked_sub(..).unwrap_or(0) *)
      let remain := match min_dep with Some m => if remain <? m then m else remain | None => remain end in
      size + get_coin_size remain
  | None => size
  end.

Fixpoint fee_loop (k : nat) (base a b : N) (min_dep dep : option N) (last_size : N) : result (option (N * N)) :=
  match k with
  | O => Ok None
  | S k' =>
      let* current_cost := min_fee_for_size last_size a b in
      let new_size := recalc_size_with_dependable_value (base + get_coin_size current_cost) current_cost min_dep dep in
      if new_size =? last_size then Ok (Some (current_cost, last_size))
      else fee_loop k' base a b min_dep dep new_size
  end.

(* estimate_fee (with the repaired pessimistic bound, /repo 5dc758e: the coin that depends on the fee is
   covered as well; [legacy_bound = true] gives the bound before the repair) *)
Definition estimate_fee_gen (legacy_bound : bool) (tx_size_without_fee : N) (min_dep dep : option N) (a b : N)
  : result (N * N) :=
  let* current_cost := min_fee_for_size tx_size_without_fee a b in
  let last_size := recalc_size_with_dependable_value
                     (tx_size_without_fee + get_coin_size current_cost) current_cost min_dep dep in
  let* r := fee_loop 3 tx_size_without_fee a b min_dep dep last_size in
  match r with
  | Some cs => Ok cs
  | None =>
      let max_size := tx_size_without_fee + get_coin_size coin_max +
                      (match dep with Some _ => if legacy_bound then 0 else get_coin_size coin_max | None => 0 end) in
      let* pessimistic_cost := min_fee_for_size max_size a b in
      Ok (pessimistic_cost, max_size)
  end.
Definition estimate_fee := estimate_fee_gen false.

(* ---------------------------------------------------------------- assets_calculator.rs *)

(* AssetCategorizer::new: asset_name_size = head of the byte string + its length; AssetsCalculator::new: policy_size *)
Definition asset_name_size (name_len : N) : N := get_struct_size name_len + name_len.
Definition policy_size : N := 28 + get_struct_size 28.

(* calc_value_size: [groups] = for every policy of the output, its assets as (name length, quantity in the
   output = sum over the used UTxOs); the array(2) head of a value with assets is NOT included (added by
   AssetCategorizer::estimate_output_cost through get_value_struct_size) *)
Definition calc_group_size (g : list (N * N)) : N :=
  policy_size + get_struct_size (lenN g) +
  sumN (map (fun a => asset_name_size (fst a) + get_coin_size (snd a)) g).
Definition calc_value_size (coin : N) (groups : list (list (N * N))) : N :=
  get_coin_size coin +
  (if 0 <? lenN groups then get_struct_size (lenN groups) else 0) +
  sumN (map calc_group_size groups).

(* IntermediatePolicyState: the assets of a policy (indices) and the running size *)
Record ipolicy := mkIPolicy { ip_assets : list N; ip_total : N }.
Definition ip_new : ipolicy := mkIPolicy [] 0.
Definition memN (x : N) (l : list N) : bool := existsb (N.eqb x) l.

Definition ip_add_asset (p : ipolicy) (asset size coin_size : N) : ipolicy :=
  if memN asset (ip_assets p) then p
  else
    let n := lenN (ip_assets p) in
    let s := if 0 <? n then ip_total p - get_struct_size n else ip_total p in
    let s := s + get_struct_size (n + 1) in
    mkIPolicy (asset :: ip_assets p) (s + size + coin_size).

(* IntermediateOutputValue: HashMap<PolicyIndex, IntermediatePolicyState> as an association list *)
Record ivalue := mkIValue { iv_policies : list (N * ipolicy); iv_total : N }.
Definition iv_new : ivalue := mkIValue [] 0.
Definition iv_set_coin (v : ivalue) (coin : N) : ivalue := mkIValue (iv_policies v) (iv_total v + get_coin_size coin).
Definition iv_is_empty (v : ivalue) : bool :=
  sumN (map (fun kp => lenN (ip_assets (snd kp))) (iv_policies v)) <=? 0.

Fixpoint iv_find (k : N) (l : list (N * ipolicy)) : option ipolicy :=
  match l with [] => None | (k', p) :: t => if k =? k' then Some p else iv_find k t end.
Fixpoint iv_replace (k : N) (p : ipolicy) (l : list (N * ipolicy)) : list (N * ipolicy) :=
  match l with [] => [] | (k', q) :: t => if k =? k' then (k', p) :: t else (k', q) :: iv_replace k p t end.

Definition iv_add_asset (v : ivalue) (policy asset policy_sz asset_sz coin_sz : N) : ivalue :=
  let total := if iv_is_empty v then iv_total v + get_struct_size 2 else iv_total v in
  match iv_find policy (iv_policies v) with
  | Some p =>
      let old_size := total - ip_total p in
      let p' := ip_add_asset p asset asset_sz coin_sz in
      mkIValue (iv_replace policy p' (iv_policies v)) (old_size + ip_total p')
  | None =>
      let n := lenN (iv_policies v) in
      let s := if 0 <? n then total - get_struct_size n else total in
      let p' := ip_add_asset ip_new asset asset_sz coin_sz in
      let s := s + ip_total p' in
      let s := s + get_struct_size (n + 1) in
      mkIValue ((policy, p') :: iv_policies v) (s + policy_sz)
  end.

(* ---------------------------------------------------------------- witnesses_calculator.rs *)

Definition WS_VKEYS : N := 0.
Definition WS_BOOTSTRAPS : N := 2.

Record witcalc := mkWit {
  w_vkeys : N; w_boot : N;
  w_boot_sizes : list N;          (* serialised size of the fake bootstrap witness of every Byron address *)
  w_fields : list N;              (* used_fields *)
  w_total : N }.
Definition wit_new : witcalc := mkWit 0 0 [] [] 0.

Definition wit_open_field (w : witcalc) (f : N) : list N * N :=
  let t := if 0 <? lenN (w_fields w) then w_total w - get_witnesses_set_struct_size (w_fields w) else w_total w in
  let fs := if memN f (w_fields w) then w_fields w else f :: w_fields w in
  (fs, t + get_witnesses_set_struct_size fs).

Definition wit_add_vkey (w : witcalc) : witcalc :=
  let '(fs, t) := if w_vkeys w =? 0 then wit_open_field w WS_VKEYS else (w_fields w, w_total w) in
  let t := if negb (w_vkeys w =? 0) then t - get_wrapped_struct_size (w_vkeys w) else t in
  let n := w_vkeys w + 1 in
  mkWit n (w_boot w) (w_boot_sizes w) fs (t + get_wrapped_struct_size n + get_fake_vkey_size).

Definition wit_add_bootstrap (w : witcalc) (witness_size : N) : witcalc :=
  let '(fs, t) := if w_boot w =? 0 then wit_open_field w WS_BOOTSTRAPS else (w_fields w, w_total w) in
  let t := if negb (w_boot w =? 0) then t - get_wrapped_struct_size (w_boot w) else t in
  let n := w_boot w + 1 in
  mkWit (w_vkeys w) n (w_boot_sizes w ++ [witness_size]) fs (t + get_wrapped_struct_size n + witness_size).
