(* Batch/EncProofs.v — every calculator formula equals the length of the real encoder's output (Codec/Schema.v [enc] on
   the schemas of Ledger/Schemas.v) for the object the proposal denotes (Batch/Denote.v).  For ALL counts and widths.
     value_size_exact    calc_value_size + get_value_struct_size = |enc Value|
     output_size_exact   get_output_size + ... = |enc TransactionOutput|
     vkey_witness_size   |enc Vkeywitness| = 101 = get_fake_vkey_size
     wit_total_closed    the incremental WitnessesCalculator total is the closed form, for any order of additions
     witness_set_exact   closed form = |enc TransactionWitnessSet|
     tx_size_exact       bare tx + bare body + witnesses + outputs + fee + inputs = |enc Transaction| *)
From CSL Require Import Base.Prelude Base.U64 Cbor.Head Cbor.HeadProofs Codec.Schema Ledger.Schemas
  Batch.Calc Batch.CalcProofs Batch.Denote.
Local Open Scope N_scope.

Lemma lenN_app {A} (a b : list A) : lenN (a ++ b) = lenN a + lenN b.
Proof. unfold lenN. rewrite app_length. lia. Qed.
Lemma lenN_cons {A} (x : A) l : lenN (x :: l) = 1 + lenN l.
Proof. unfold lenN. cbn [length]. lia. Qed.
Lemma lenN_nil {A} : lenN (@nil A) = 0.
Proof. reflexivity. Qed.
Lemma lenN_head m n : lenN (encode_head m n) = get_struct_size n.
Proof. unfold lenN. symmetry. apply struct_size_head. Qed.
Lemma lenN_map {A B} (f : A -> B) l : lenN (map f l) = lenN l.
Proof. unfold lenN. rewrite map_length. reflexivity. Qed.
Lemma lenN_concat_map {A} (f : A -> bytes) l : lenN (concat (map f l)) = sumN (map (fun x => lenN (f x)) l).
Proof.
  induction l as [|x t IH]; [reflexivity|]. cbn [map concat sumN fold_right]. rewrite lenN_app, IH. reflexivity.
Qed.
Lemma sumN_map_ext {A} (f g : A -> N) l : (forall x, In x l -> f x = g x) -> sumN (map f l) = sumN (map g l).
Proof.
  induction l as [|x t IH]; intros H; [reflexivity|]. cbn [map sumN fold_right].
  rewrite (H x (or_introl eq_refl)). f_equal. apply IH. intros. apply H. right. assumption.
Qed.

(* ---------------------------------------------------------------- values *)

Lemma enc_assets_len (g : list (bytes * N)) :
  lenN (enc Assets (assets_val g)) =
  get_struct_size (lenN g) + sumN (map (fun a => asset_name_size (lenN (fst a)) + get_coin_size (snd a)) g).
Proof.
  unfold Assets, assets_val. cbn [enc]. rewrite lenN_app, lenN_head, map_length. f_equal.
  rewrite map_map, lenN_concat_map. apply sumN_map_ext. intros [n q] _. cbn [fst snd].
  unfold AssetNameS, Coin, U64. cbn [enc]. rewrite !lenN_app, !lenN_head. unfold asset_name_size, get_coin_size, lenN. lia.
Qed.

Lemma enc_ma_len (gs : groups) :
  Forall (fun p => lenN (fst p) = 28) gs ->
  lenN (enc MultiAsset (ma_val gs)) =
  get_struct_size (lenN gs) + sumN (map calc_group_size (groups_shape gs)).
Proof.
  intros H. unfold MultiAsset, ma_val. cbn [enc]. rewrite lenN_app, lenN_head, map_length. f_equal.
  unfold groups_shape. rewrite !map_map, lenN_concat_map. apply sumN_map_ext. intros [p g] Hin. cbn [fst snd].
  rewrite Forall_forall in H. specialize (H _ Hin). cbn [fst] in H.
  rewrite lenN_app. fold Assets. rewrite enc_assets_len. unfold H28. cbn [enc]. rewrite lenN_app, lenN_head.
  fold (lenN p). rewrite H. unfold calc_group_size, policy_size. rewrite lenN_map, map_map. cbn [fst snd].
  assert (R : forall x y z w : N, x + y + (z + w) = y + x + z + w) by (intros; lia). apply R.
Qed.

(* C13: the value-size calculator (calc_value_size + the array head added by estimate_output_cost) is exact *)
Theorem value_size_exact coin (gs : groups) :
  Forall (fun p => lenN (fst p) = 28) gs ->
  lenN (enc Value (value_val coin gs)) =
  calc_value_size coin (groups_shape gs) + get_value_struct_size (is_nil gs).
Proof.
  intros H. unfold calc_value_size, value_val. destruct gs as [|g gs'].
  - unfold Value, choice, Coin, U64. cbn. rewrite lenN_head. unfold get_coin_size.
    change (0 <? 0) with false. cbn iota. lia.
  - set (l := g :: gs') in *. unfold Value, choice. cbn [cl enc enc_cl app]. unfold arr. cbn [sl enc enc_sl slen].
    rewrite !lenN_app, lenN_head. fold MultiAsset. rewrite (enc_ma_len l H). unfold Coin, U64. cbn [enc].
    rewrite lenN_head. change (lenN (@nil N)) with 0.
    assert (E : lenN (groups_shape l) = lenN l) by (unfold groups_shape; apply lenN_map). rewrite E.
    assert (0 <? lenN l = true) as -> by (unfold l; rewrite lenN_cons; lia).
    assert (is_nil l = false) as -> by reflexivity. cbn [get_value_struct_size]. unfold get_coin_size.
    change (1 + (1 + 0)) with 2. lia.
Qed.

(* C13: the output size AssetCategorizer::estimate_output_cost starts from *)
Theorem output_size_exact d addr coin (gs : groups) :
  Forall (fun p => lenN (fst p) = 28) gs ->
  lenN (enc (TransactionOutput d) (output_val addr coin gs)) =
  get_output_size (lenN addr) + calc_value_size coin (groups_shape gs) + get_value_struct_size (is_nil gs).
Proof.
  intros H. unfold TransactionOutput, output_val, choice. cbn [cl enc enc_cl app].
  unfold TransactionOutputArr. cbn [sl enc enc_sl slen app]. rewrite !lenN_app, lenN_head. change (lenN (@nil N)) with 0.
  rewrite (value_size_exact coin gs H). unfold AddressS. cbn [enc]. rewrite lenN_app, lenN_head.
  unfold get_output_size. fold (lenN addr). change (1 + (1 + 0)) with 2. lia.
Qed.

(* ---------------------------------------------------------------- witnesses *)

Theorem vkey_witness_size vk sg :
  lenN vk = 32 -> lenN sg = 64 -> lenN (enc Vkeywitness (vkeywit_val vk sg)) = get_fake_vkey_size.
Proof.
  intros Hv Hs. unfold Vkeywitness, vkeywit_val, arr, H32. cbn [sl enc enc_sl slen].
  rewrite !lenN_app, !lenN_head. change (lenN (@nil N)) with 0. fold (lenN vk) (lenN sg). rewrite Hv, Hs. reflexivity.
Qed.

(* closed form of the WitnessesCalculator total *)
Definition wit_fields (v b : N) : list N :=
  (if 0 <? b then [WS_BOOTSTRAPS] else []) ++ (if 0 <? v then [WS_VKEYS] else []).
Definition wit_closed (v : N) (boots : list N) : N :=
  if (v =? 0) && (lenN boots =? 0) then 0
  else
    1 + (if 0 <? v then 1 + get_wrapped_struct_size v + get_fake_vkey_size * v else 0)
      + (if 0 <? lenN boots then 1 + get_wrapped_struct_size (lenN boots) + sumN boots else 0).

Definition b2n (b : bool) : N := if b then 1 else 0.

Definition wit_inv (w : witcalc) : Prop :=
  w_boot w = lenN (w_boot_sizes w) /\
  w_total w = wit_closed (w_vkeys w) (w_boot_sizes w) /\
  lenN (w_fields w) = b2n (0 <? w_vkeys w) + b2n (0 <? w_boot w) /\
  (forall f, In f (w_fields w) -> f = WS_VKEYS \/ f = WS_BOOTSTRAPS) /\
  memN WS_VKEYS (w_fields w) = (0 <? w_vkeys w) /\
  memN WS_BOOTSTRAPS (w_fields w) = (0 <? w_boot w).

Lemma wit_inv_new : wit_inv wit_new.
Proof. unfold wit_inv, wit_new. cbn. repeat split; auto. intros f []. Qed.

Lemma sumN_app a b : sumN (a ++ b) = sumN a + sumN b.
Proof. induction a as [|x t IH]; [reflexivity|]. cbn [app]. change (sumN (x :: t ++ b)) with (x + sumN (t ++ b)). change (sumN (x :: t)) with (x + sumN t). rewrite IH. lia. Qed.

Lemma ws_struct_size fs :
  (forall f, In f fs -> f = WS_VKEYS \/ f = WS_BOOTSTRAPS) -> lenN fs <= 23 ->
  get_witnesses_set_struct_size fs = 1 + lenN fs.
Proof.
  intros Hf Hl. unfold get_witnesses_set_struct_size.
  assert (get_struct_size (lenN fs) = 1) as ->.
  { unfold get_struct_size, MAX_INLINE_ENCODING. destruct (lenN fs <=? 23) eqn:E; [reflexivity|lia]. }
  f_equal. clear Hl. induction fs as [|f t IH]; [reflexivity|].
  cbn [map]. change (sumN (get_struct_size f :: map get_struct_size t)) with (get_struct_size f + sumN (map get_struct_size t)).
  rewrite IH by (intros; apply Hf; right; assumption). rewrite lenN_cons.
  destruct (Hf f (or_introl eq_refl)) as [-> | ->]; reflexivity.
Qed.

Lemma b2n_le b : b2n b <= 1.
Proof. destruct b; cbn; lia. Qed.

(* opening a field of the witness-set map: the struct size grows by one key *)
Lemma wit_open_field_spec w f :
  wit_inv w -> (f = WS_VKEYS \/ f = WS_BOOTSTRAPS) -> memN f (w_fields w) = false ->
  wit_open_field w f = (f :: w_fields w, w_total w + 1 + (if 0 <? lenN (w_fields w) then 0 else 1)).
Proof.
  intros (Hb & Ht & Hl & Hf & Hv & Hbo) Hff Hm. unfold wit_open_field. rewrite Hm.
  pose proof (b2n_le (0 <? w_vkeys w)). pose proof (b2n_le (0 <? w_boot w)).
  rewrite (ws_struct_size (f :: w_fields w)); [| intros g [<-|Hg]; auto | rewrite lenN_cons; lia].
  rewrite lenN_cons. destruct (0 <? lenN (w_fields w)) eqn:E.
  - rewrite (ws_struct_size (w_fields w)) by (auto || lia). f_equal.
    (* the total contains the struct size: it is at least 1 + number of fields *)
    assert (1 + lenN (w_fields w) <= w_total w); [|lia].
    rewrite Ht, Hl. unfold wit_closed. rewrite <- Hb.
    destruct (w_vkeys w =? 0) eqn:E1, (w_boot w =? 0) eqn:E2; cbn [andb].
    + exfalso. assert (0 <? w_vkeys w = false) as X by lia. assert (0 <? w_boot w = false) as Y by lia.
      rewrite Hl, X, Y in E. cbn in E. discriminate.
    + assert (0 <? w_vkeys w = false) as -> by lia. assert (0 <? w_boot w = true) as -> by lia. cbn [b2n]. lia.
    + assert (0 <? w_vkeys w = true) as -> by lia. assert (0 <? w_boot w = false) as -> by lia. cbn [b2n]. lia.
    + assert (0 <? w_vkeys w = true) as -> by lia. assert (0 <? w_boot w = true) as -> by lia. cbn [b2n]. lia.
  - f_equal. assert (lenN (w_fields w) = 0) as -> by lia. lia.
Qed.

Lemma wrapped_pos n : 4 <= get_wrapped_struct_size n.
Proof. unfold get_wrapped_struct_size, get_tag_size. change (get_struct_size 258) with 3. pose proof (struct_size_bounds n). lia. Qed.

Lemma memN_cons x y l : memN x (y :: l) = (x =? y) || memN x l.
Proof. reflexivity. Qed.

Lemma wit_inv_add_vkey w : wit_inv w -> wit_inv (wit_add_vkey w).
Proof.
  intros I. pose proof I as (Hb & Ht & Hl & Hf & Hv & Hbo). unfold wit_add_vkey.
  pose proof (wrapped_pos (w_vkeys w)) as Wv.
  destruct (w_vkeys w =? 0) eqn:Ev.
  - apply N.eqb_eq in Ev.
    rewrite (wit_open_field_spec w WS_VKEYS I (or_introl eq_refl)) by (rewrite Hv, Ev; reflexivity).
    cbn [negb]. unfold wit_inv. cbn [w_vkeys w_boot w_boot_sizes w_fields w_total].
    rewrite Ev in *. change (0 + 1) with 1. change (0 <? 1) with true. change (0 <? 0) with false in *. cbn [b2n] in *.
    split; [|split; [|split; [|split; [|split]]]].
    + exact Hb.
    + rewrite Ht, Hl. unfold wit_closed. change (1 =? 0) with false. change (0 =? 0) with true. cbn [andb]. rewrite <- Hb.
      change (0 <? 1) with true. change (0 <? 0) with false. unfold get_fake_vkey_size.
      destruct (0 <? w_boot w) eqn:E; cbn [b2n].
      * assert (w_boot w =? 0 = false) as -> by lia. change (0 <? 0 + 1) with true. cbn iota. lia.
      * assert (w_boot w =? 0 = true) as -> by lia. change (0 <? 0 + 0) with false. cbn iota. lia.
    + rewrite lenN_cons, Hl. lia.
    + intros f [<-|Hin]; auto.
    + reflexivity.
    + rewrite memN_cons, Hbo. reflexivity.
  - apply N.eqb_neq in Ev. cbn [negb]. unfold wit_inv. cbn [w_vkeys w_boot w_boot_sizes w_fields w_total].
    assert (0 <? w_vkeys w = true) as P by lia. assert (0 <? w_vkeys w + 1 = true) as P1 by lia.
    rewrite P in *. rewrite P1. repeat split; auto.
    rewrite Ht. unfold wit_closed. assert (w_vkeys w =? 0 = false) as -> by lia. assert (w_vkeys w + 1 =? 0 = false) as -> by lia.
    cbn [andb]. rewrite P, P1. unfold get_fake_vkey_size. destruct (0 <? lenN (w_boot_sizes w)); lia.
Qed.

Lemma wit_inv_add_bootstrap w sz : wit_inv w -> wit_inv (wit_add_bootstrap w sz).
Proof.
  intros I. pose proof I as (Hb & Ht & Hl & Hf & Hv & Hbo). unfold wit_add_bootstrap.
  pose proof (wrapped_pos (w_boot w)) as Wb.
  assert (Hlen : lenN (w_boot_sizes w ++ [sz]) = w_boot w + 1) by (rewrite lenN_app, Hb; reflexivity).
  destruct (w_boot w =? 0) eqn:Ev.
  - apply N.eqb_eq in Ev.
    rewrite (wit_open_field_spec w WS_BOOTSTRAPS I (or_intror eq_refl)) by (rewrite Hbo, Ev; reflexivity).
    cbn [negb]. unfold wit_inv. cbn [w_vkeys w_boot w_boot_sizes w_fields w_total].
    assert (w_boot_sizes w = []) as Hnil.
    { destruct (w_boot_sizes w); [reflexivity|]. rewrite Ev, lenN_cons in Hb. lia. }
    rewrite Ev in *. change (0 + 1) with 1 in *. change (0 <? 1) with true. change (0 <? 0) with false in *. cbn [b2n] in *.
    split; [|split; [|split; [|split; [|split]]]].
    + symmetry; exact Hlen.
    + rewrite Ht, Hl, Hnil. unfold wit_closed. cbn [app]. change (lenN [sz]) with 1. change (lenN (@nil N)) with 0.
      change (1 =? 0) with false. change (0 =? 0) with true. rewrite !andb_false_r, andb_true_r.
      change (0 <? 1) with true. change (0 <? 0) with false. change (sumN [sz]) with (sz + 0).
      destruct (0 <? w_vkeys w) eqn:E; cbn [b2n].
      * assert (w_vkeys w =? 0 = false) as -> by lia. change (0 <? 1 + 0) with true. cbn iota. lia.
      * assert (w_vkeys w =? 0 = true) as -> by lia. change (0 <? 0 + 0) with false. cbn iota. lia.
    + rewrite lenN_cons, Hl. lia.
    + intros f [<-|Hin]; auto.
    + rewrite memN_cons, Hv. reflexivity.
    + reflexivity.
  - apply N.eqb_neq in Ev. cbn [negb]. unfold wit_inv. cbn [w_vkeys w_boot w_boot_sizes w_fields w_total].
    assert (0 <? w_boot w = true) as P by lia. assert (0 <? w_boot w + 1 = true) as P1 by lia.
    rewrite P in *. rewrite P1. repeat split; auto.
    rewrite Ht. unfold wit_closed. rewrite Hlen, <- Hb, sumN_app. change (sumN [sz]) with (sz + 0).
    assert (w_boot w =? 0 = false) as -> by lia. assert (w_boot w + 1 =? 0 = false) as -> by lia.
    rewrite !andb_false_r. rewrite P, P1. destruct (0 <? w_vkeys w); lia.
Qed.

(* any sequence of add_vkey / add_boostrap calls (the order in which owners are met) keeps the invariant *)
Inductive wit_op := WVkey | WBoot (sz : N).
Definition wit_step (w : witcalc) (o : wit_op) : witcalc :=
  match o with WVkey => wit_add_vkey w | WBoot sz => wit_add_bootstrap w sz end.

Theorem wit_total_closed ops :
  let w := fold_left wit_step ops wit_new in
  wit_inv w /\ w_total w = wit_closed (w_vkeys w) (w_boot_sizes w).
Proof.
  cbn zeta. assert (H : forall w, wit_inv w -> wit_inv (fold_left wit_step ops w)).
  { induction ops as [|o t IH]; intros w I; [exact I|]. cbn [fold_left]. apply IH.
    destruct o; [apply wit_inv_add_vkey | apply wit_inv_add_bootstrap]; exact I. }
  specialize (H _ wit_inv_new). split; [exact H | apply H].
Qed.

Lemma enc_set_len s (l : list val) :
  lenN (enc (SSetOf s) (VList l)) = get_wrapped_struct_size (lenN l) + sumN (map (fun x => lenN (enc s x)) l).
Proof.
  cbn [enc]. rewrite !lenN_app, !lenN_head, lenN_concat_map. unfold get_wrapped_struct_size, get_tag_size, lenN. lia.
Qed.

Lemma sumN_const (l : list val) f c : (forall x, In x l -> f x = c) -> sumN (map f l) = c * lenN l.
Proof.
  induction l as [|x t IH]; intros H; [cbn; lia|]. cbn [map]. change (sumN (f x :: map f t)) with (f x + sumN (map f t)).
  rewrite IH by (intros; apply H; right; assumption). rewrite (H x (or_introl eq_refl)), lenN_cons. lia.
Qed.

(* C13: the witness-set size the calculator accumulates is the size of the encoded witness set *)
Theorem witness_set_exact d (vks boots : list val) :
  (forall x, In x vks -> lenN (enc Vkeywitness x) = get_fake_vkey_size) ->
  (vks <> [] \/ boots <> []) ->
  lenN (enc (TransactionWitnessSet d) (ws_val vks boots)) =
  wit_closed (lenN vks) (map (fun b => lenN (enc BootstrapWitness b)) boots).
Proof.
  intros Hv Hne. unfold TransactionWitnessSet, mapS, ws_val. cbn [kl].
  unfold wit_closed. rewrite lenN_map.
  destruct vks as [|v vt], boots as [|b bt].
  - destruct Hne as [X|X]; contradiction X; reflexivity.
  - cbn [opt_set enc count_kl enc_kl present is_empty_val negb app]. fold BootstrapWitnesses.
    rewrite !lenN_app. unfold enc_uint. rewrite !lenN_head. unfold BootstrapWitnesses. rewrite enc_set_len.
    change (lenN (@nil val)) with 0. rewrite lenN_cons. change (0 =? 0) with true. 
    assert (1 + lenN bt =? 0 = false) as -> by lia. assert (0 <? 1 + lenN bt = true) as -> by lia.
    cbn [andb]. change (0 <? 0) with false. cbn iota. change (lenN (@nil N)) with 0.
    change (get_struct_size (0 + (0 + (1 + (0 + (0 + (0 + (0 + (0 + 0))))))))) with 1. change (get_struct_size 2) with 1. lia.
  - cbn [opt_set enc count_kl enc_kl present is_empty_val negb app]. fold Vkeywitnesses.
    rewrite !lenN_app. unfold enc_uint. rewrite !lenN_head. unfold Vkeywitnesses. rewrite enc_set_len.
    rewrite (sumN_const _ _ _ Hv). change (lenN (@nil val)) with 0. rewrite lenN_cons.
    assert (1 + lenN vt =? 0 = false) as -> by lia. assert (0 <? 1 + lenN vt = true) as -> by lia.
    cbn [andb]. change (0 <? 0) with false. cbn iota. change (lenN (@nil N)) with 0.
    change (get_struct_size (1 + (0 + (0 + (0 + (0 + (0 + (0 + (0 + 0))))))))) with 1. change (get_struct_size 0) with 1. lia.
  - cbn [opt_set enc count_kl enc_kl present is_empty_val negb app]. fold Vkeywitnesses BootstrapWitnesses.
    rewrite !lenN_app. unfold enc_uint. rewrite !lenN_head. unfold Vkeywitnesses, BootstrapWitnesses. rewrite !enc_set_len.
    rewrite (sumN_const _ _ _ Hv). rewrite !lenN_cons.
    assert (1 + lenN vt =? 0 = false) as -> by lia. assert (0 <? 1 + lenN vt = true) as -> by lia.
    assert (0 <? 1 + lenN bt = true) as -> by lia.
    cbn [andb]. change (lenN (@nil N)) with 0.
    change (get_struct_size (1 + (0 + (1 + (0 + (0 + (0 + (0 + (0 + 0))))))))) with 1.
    change (get_struct_size 0) with 1. change (get_struct_size 2) with 1. lia.
Qed.

(* C13: the transaction size AssetCategorizer::get_tx_proposal_size adds up (bare tx, bare body with the fields
   inputs/outputs/fee, witness set, output list, fee, input list) is the size of the encoded transaction *)
Theorem tx_size_exact d (ins outs : list val) (fee : N) (ws : val) :
  lenN (enc (Transaction d) (tx_val (body_val ins outs fee) ws)) =
  get_bare_tx_size false + get_bare_tx_body_size [0; 1; 2] + lenN (enc (TransactionWitnessSet d) ws) +
  (get_struct_size (lenN outs) + sumN (map (fun o => lenN (enc (TransactionOutput d) o)) outs)) +
  get_coin_size fee +
  (get_struct_size (lenN ins) + sumN (map (fun i => lenN (enc TransactionInput i)) ins)).
Proof.
  unfold Transaction, tx_val, arr. cbn [sl enc enc_sl slen]. rewrite !lenN_app, lenN_head.
  change (lenN [245]) with 1. change (lenN [246]) with 1. change (lenN (@nil N)) with 0.
  assert (B : lenN (enc (TransactionBody d) (body_val ins outs fee)) =
              get_bare_tx_body_size [0; 1; 2] +
              (get_struct_size (lenN outs) + sumN (map (fun o => lenN (enc (TransactionOutput d) o)) outs)) +
              get_coin_size fee +
              (get_struct_size (lenN ins) + sumN (map (fun i => lenN (enc TransactionInput i)) ins))).
  { unfold TransactionBody, mapS, body_val. cbn [kl enc count_kl enc_kl present is_empty_val negb app].
    rewrite !lenN_app. unfold enc_uint. rewrite !lenN_head.
    fold TransactionInputs. fold (TransactionOutputs d). unfold TransactionInputs at 1. rewrite enc_set_len.
    unfold TransactionOutputs. cbn [enc]. rewrite !lenN_app, !lenN_head, lenN_concat_map. fold (lenN outs).
    change (lenN (@nil N)) with 0. unfold Coin, U64. cbn [enc]. rewrite lenN_head.
    unfold get_bare_tx_body_size, get_wrapped_struct_size, get_tag_size, get_coin_size.
    cbn [map body_field_wrapped]. change (lenN [0; 1; 2]) with 3.
    change (get_struct_size (1 + (1 + (1 + (0 + (0 + (0 + (0 + (0 + (0 + (0 + (0 + (0 + (0 + (0 + (0 + (0 + (0 + (0 + (0 + (0 + (0 + 0)))))))))))))))))))))) with 1.
    change (get_struct_size 3) with 1. change (get_struct_size 0) with 1. change (get_struct_size 1) with 1.
    change (get_struct_size 2) with 1. change (get_struct_size 258) with 3.
    change (body_field_wrapped 0) with true. change (body_field_wrapped 1) with false.
    change (body_field_wrapped 2) with false. cbn iota. change (sumN [3 + 1; 1; 1]) with 6.
    lia. }
  rewrite B. unfold get_bare_tx_size. change (get_struct_size (1 + (1 + (1 + (1 + 0))))) with 1.
  change (get_struct_size 4) with 1. lia.
Qed.

(* a transaction input [txid (32 bytes), index]: the size get_inputs_sizes measures on the real object *)
Lemma input_size txid ix : lenN txid = 32 ->
  lenN (enc TransactionInput (input_val txid ix)) = 1 + 34 + get_struct_size ix.
Proof.
  intros H. unfold TransactionInput, input_val, arr, H32, U32. cbn [sl enc enc_sl slen].
  rewrite !lenN_app, !lenN_head. fold (lenN txid). rewrite H. change (lenN (@nil N)) with 0.
  change (get_struct_size (1 + (1 + 0))) with 1. change (get_struct_size 32) with 2. lia.
Qed.
