(* Batch/BatchSpec.v — the C13 statement, executable.

   The statement of property C13 about the RESULT of `create_send_all` (tx_batch_builder.rs:119-127):
   given the supplied UTxO set, the target address, the protocol parameters and the list of
   transactions the implementation returned (as bytes), together with — for every transaction — the
   bytes of the same transaction signed with one key per distinct owner (produced by the harness with
   real Ed25519 / Byron bootstrap signatures), decide

     P  partition    the inputs of all transactions together are exactly the supplied UTxOs, each once
     T  target       every output pays the target address
     B  balance      per transaction: sum of the spent UTxOs = outputs + fee, in lovelace and in every asset
     F  fee          fee >= a * |signed tx| + b, where the signed tx carries exactly one vkey witness per
                     distinct payment key hash and one bootstrap witness per distinct Byron address among the
                     spent UTxOs (and the same body)
     S  size         |tx| <= max_tx_size and |signed tx| <= max_tx_size
     V  value size   every output's value serialises to at most max_value_size bytes
     M  min ADA      every output's coin >= coins_per_utxo_byte * (160 + |output|)
     K  body shape   the body has no field that moves value (only inputs, outputs, fee; ttl / validity
                     start tolerated)

   Sizes of outputs and values are those of the shortest-head (canonical) re-encoding of the parsed item;
   the transaction size is the length of the byte string itself.

   No proofs here (BatchProofs.v: [judge_sound], the executable judge implies the Prop-level statement).
   Reads transactions with the generic CBOR parser Cbor/Item.v only, i.e. independently of the
   library's own (de)serialisers and of the size calculator under test. *)
From CSL Require Import Base.Prelude Cbor.Head Cbor.Item.
Local Open Scope N_scope.

(* ------------------------------------------------------------------------------ data *)

Definition asset_entry : Type := (bytes * bytes * N)%type.      (* policy id, asset name, quantity *)

Record utxo := mkUtxo {
  u_txid : bytes; u_ix : N;              (* TransactionInput *)
  u_addr : bytes;                        (* owner address, raw bytes *)
  u_coin : N;
  u_assets : list asset_entry }.

Record config := mkConfig {
  c_a : N; c_b : N;                      (* LinearFee: coefficient, constant *)
  c_cpb : N;                             (* coins_per_utxo_byte *)
  c_max_value : N; c_max_tx : N }.

Record pout := mkPout {
  po_addr : bytes; po_coin : N; po_assets : list asset_entry;
  po_size : N;                            (* serialised size of the output *)
  po_vsize : N }.                         (* serialised size of its value *)

Record ptx := mkPtx {
  pt_inputs : list (bytes * N);
  pt_outputs : list pout;
  pt_fee : N;
  pt_keys : list N;                       (* keys of the body map *)
  pt_body : item;
  pt_nvkeys : N; pt_nboot : N;             (* witnesses in the witness set: key 0, key 2 *)
  pt_wit_other : bool;                    (* any other witness-set field *)
  pt_valid : bool;                        (* is_valid = true and auxiliary data = null *)
  pt_size : N }.                          (* length of the byte string *)

(* ------------------------------------------------------------------------------ reading a transaction *)

Definition obind {A B} (o : option A) (f : A -> option B) : option B :=
  match o with Some a => f a | None => None end.
Notation "'do' x '<-' o ';' k" := (obind o (fun x => k)) (at level 200, x name, o at level 100, k at level 200).

Fixpoint omap {A B} (f : A -> option B) (l : list A) : option (list B) :=
  match l with
  | [] => Some []
  | x :: t => do y <- f x; do r <- omap f t; Some (y :: r)
  end.

Definition read_input (it : item) : option (bytes * N) :=
  match it with
  | IArray _ [IBytes h; IUint i] => Some (h, i)
  | _ => None
  end.

(* a set of inputs: #6.258([...]) or a plain array *)
Definition read_inputs (it : item) : option (list (bytes * N)) :=
  match it with
  | ITag 258 (IArray _ xs) => omap read_input xs
  | IArray _ xs => omap read_input xs
  | _ => None
  end.

Definition read_asset (p : bytes) (kv : item * item) : option asset_entry :=
  match kv with
  | (IBytes n, IUint q) => Some (p, n, q)
  | _ => None
  end.
Definition read_policy (kv : item * item) : option (list asset_entry) :=
  match kv with
  | (IBytes p, IMap _ assets) => omap (read_asset p) assets
  | _ => None
  end.
Definition read_value (it : item) : option (N * list asset_entry) :=
  match it with
  | IUint c => Some (c, [])
  | IArray _ [IUint c; IMap _ pols] => do l <- omap read_policy pols; Some (c, concat l)
  | _ => None
  end.

(* legacy output [address, value] or the map form with exactly the keys 0 and 1 *)
Definition read_output (it : item) : option pout :=
  match it with
  | IArray _ [IBytes a; v] =>
      do cv <- read_value v; Some (mkPout a (fst cv) (snd cv) (item_size it) (item_size v))
  | IMap _ [(IUint 0, IBytes a); (IUint 1, v)] =>
      do cv <- read_value v; Some (mkPout a (fst cv) (snd cv) (item_size it) (item_size v))
  | _ => None
  end.

Definition count_wits (o : option item) : option N :=
  match o with
  | None => Some 0
  | Some (ITag 258 (IArray _ xs)) => Some (len xs)
  | Some (IArray _ xs) => Some (len xs)
  | Some _ => None
  end.

Definition read_tx (bs : bytes) : option ptx :=
  match parse_exact bs with
  | Ok (IArray _ [body; wits; valid; aux]) =>
      do keys <- uint_keys body;
      do wkeys <- uint_keys wits;
      do i <- map_lookup_uint 0 body;
      do ins <- read_inputs i;
      do o <- map_lookup_uint 1 body;
      do ol <- as_array o;
      do outs <- omap read_output ol;
      do f <- map_lookup_uint 2 body;
      do fee <- as_uint f;
      do nv <- count_wits (map_lookup_uint 0 wits);
      do nb <- count_wits (map_lookup_uint 2 wits);
      Some (mkPtx ins outs fee keys body nv nb
                  (existsb (fun k => negb ((k =? 0) || (k =? 2))) wkeys)
                  (item_eqb valid (ISimple 21) && item_eqb aux (ISimple 22))
                  (len bs))
  | _ => None
  end.

(* ------------------------------------------------------------------------------ owners *)

(* who must sign to spend a UTxO at this address (address.rs header nibble):
   0..7 Shelley base / pointer / enterprise: payment credential = bytes 1..28, a script when the
   type nibble is odd; 8 Byron (the whole address identifies the bootstrap witness) *)
Inductive owner := OKey (h : bytes) | OByron (a : bytes) | OScript | OOther.

Definition addr_owner (a : bytes) : owner :=
  match a with
  | [] => OOther
  | h :: t =>
      let k := h / 16 in
      if k <? 8 then (if k mod 2 =? 0 then OKey (firstn 28 t) else OScript)
      else if k =? 8 then OByron a
      else OOther
  end.

Fixpoint memb (x : bytes) (l : list bytes) : bool :=
  match l with [] => false | y :: t => bytes_eqb x y || memb x t end.
Fixpoint dedup (l : list bytes) : list bytes :=
  match l with [] => [] | x :: t => if memb x t then dedup t else x :: dedup t end.

Definition key_owners (addrs : list bytes) : list bytes :=
  dedup (flat_map (fun a => match addr_owner a with OKey h => [h] | _ => [] end) addrs).
Definition byron_owners (addrs : list bytes) : list bytes :=
  dedup (flat_map (fun a => match addr_owner a with OByron b => [b] | _ => [] end) addrs).
Definition has_unsignable (addrs : list bytes) : bool :=
  existsb (fun a => match addr_owner a with OScript | OOther => true | _ => false end) addrs.

(* ------------------------------------------------------------------------------ the statement *)

Definition input_eqb (a b : bytes * N) : bool := bytes_eqb (fst a) (fst b) && (snd a =? snd b).
Fixpoint mem_input (x : bytes * N) (l : list (bytes * N)) : bool :=
  match l with [] => false | y :: t => input_eqb x y || mem_input x t end.
Fixpoint nodup_inputs (l : list (bytes * N)) : bool :=
  match l with [] => true | x :: t => negb (mem_input x t) && nodup_inputs t end.

Definition utxo_input (u : utxo) : bytes * N := (u_txid u, u_ix u).
Fixpoint find_utxo (x : bytes * N) (us : list utxo) : option utxo :=
  match us with
  | [] => None
  | u :: t => if input_eqb x (utxo_input u) then Some u else find_utxo x t
  end.

(* P: no input twice (over all transactions), every input is a supplied UTxO, and as many as supplied *)
Definition partition_ok (us : list utxo) (txs : list ptx) : bool :=
  let all := flat_map pt_inputs txs in
  nodup_inputs all && forallb (fun x => mem_input x (map utxo_input us)) all && (len all =? len us).

(* total quantity of asset (p, n) in a list of entries *)
Definition asset_total (p n : bytes) (es : list asset_entry) : N :=
  fold_right (fun e acc => match e with (p', n', q) =>
                if bytes_eqb p p' && bytes_eqb n n' then q + acc else acc end) 0 es.
Definition jsum (l : list N) : N := fold_right N.add 0 l.

Definition spent (us : list utxo) (t : ptx) : list utxo :=
  flat_map (fun x => match find_utxo x us with Some u => [u] | None => [] end) (pt_inputs t).

Definition balance_coin_ok (us : list utxo) (t : ptx) : bool :=
  jsum (map u_coin (spent us t)) =? jsum (map po_coin (pt_outputs t)) + pt_fee t.
Definition balance_assets_ok (us : list utxo) (t : ptx) : bool :=
  let ins := flat_map u_assets (spent us t) in
  let outs := flat_map po_assets (pt_outputs t) in
  forallb (fun e => match e with (p, n, _) => asset_total p n ins =? asset_total p n outs end) (ins ++ outs).

Definition target_ok (target : bytes) (t : ptx) : bool :=
  forallb (fun o => bytes_eqb (po_addr o) target) (pt_outputs t).

Definition body_shape_ok (t : ptx) : bool :=
  forallb (fun k => (k =? 0) || (k =? 1) || (k =? 2) || (k =? 3) || (k =? 8)) (pt_keys t).

(* the signed transaction: same body, exactly one vkey witness per distinct key owner and one bootstrap
   witness per distinct Byron owner, nothing else, valid flag, no auxiliary data *)
Definition signed_ok (us : list utxo) (t s : ptx) : bool :=
  let addrs := map u_addr (spent us t) in
  item_eqb (pt_body t) (pt_body s) &&
  (pt_nvkeys s =? len (key_owners addrs)) && (pt_nboot s =? len (byron_owners addrs)) &&
  negb (pt_wit_other s) && pt_valid s.

Definition fee_ok (c : config) (t s : ptx) : bool := c_a c * pt_size s + c_b c <=? pt_fee t.
Definition size_ok (c : config) (t s : ptx) : bool := (pt_size t <=? c_max_tx c) && (pt_size s <=? c_max_tx c).
Definition value_size_ok (c : config) (t : ptx) : bool :=
  forallb (fun o => po_vsize o <=? c_max_value c) (pt_outputs t).
Definition min_ada_ok (c : config) (t : ptx) : bool :=
  forallb (fun o => c_cpb c * (160 + po_size o) <=? po_coin o) (pt_outputs t).

(* violation codes (first component), transaction number (second; 0 for P) *)
Definition V_PARSE := 1.   Definition V_PARTITION := 2.  Definition V_TARGET := 3.
Definition V_COIN := 4.    Definition V_ASSETS := 5.     Definition V_FEE := 6.
Definition V_SIZE := 7.    Definition V_VALUE_SIZE := 8. Definition V_MIN_ADA := 9.
Definition V_SHAPE := 10.  Definition V_SIGNED := 11.    Definition V_VALID := 12.

Definition flag (b : bool) (code i : N) : list (N * N) := if b then [] else [(code, i)].

Definition judge_tx (c : config) (target : bytes) (us : list utxo) (i : N) (t s : ptx) : list (N * N) :=
  flag (target_ok target t) V_TARGET i ++
  flag (balance_coin_ok us t) V_COIN i ++
  flag (balance_assets_ok us t) V_ASSETS i ++
  flag (body_shape_ok t) V_SHAPE i ++
  flag (pt_valid t) V_VALID i ++
  flag (signed_ok us t s) V_SIGNED i ++
  flag (fee_ok c t s) V_FEE i ++
  flag (size_ok c t s) V_SIZE i ++
  flag (value_size_ok c t) V_VALUE_SIZE i ++
  flag (min_ada_ok c t) V_MIN_ADA i.

Fixpoint judge_txs (c : config) (target : bytes) (us : list utxo) (i : N) (ts : list (ptx * ptx)) : list (N * N) :=
  match ts with
  | [] => []
  | (t, s) :: r => judge_tx c target us i t s ++ judge_txs c target us (i + 1) r
  end.

(* premises of the statement: the supplied UTxOs are a set *)
Definition utxos_distinct (us : list utxo) : bool := nodup_inputs (map utxo_input us).

(* the whole statement on parsed transactions: the list of violations (empty = holds) *)
Definition judge_parsed (c : config) (target : bytes) (us : list utxo) (ts : list (ptx * ptx)) : list (N * N) :=
  flag (partition_ok us (map fst ts)) V_PARTITION 0 ++ judge_txs c target us 0 ts.

(* on bytes: (transaction, signed transaction) pairs *)
Fixpoint read_pairs (i : N) (l : list (bytes * bytes)) : list (N * N) * list (ptx * ptx) :=
  match l with
  | [] => ([], [])
  | (a, b) :: r =>
      let '(bad, ok) := read_pairs (i + 1) r in
      match read_tx a, read_tx b with
      | Some t, Some s => (bad, (t, s) :: ok)
      | _, _ => ((V_PARSE, i) :: bad, ok)
      end
  end.

Definition judge (c : config) (target : bytes) (us : list utxo) (l : list (bytes * bytes)) : list (N * N) :=
  let '(bad, ts) := read_pairs 0 l in
  match bad with
  | [] => judge_parsed c target us ts
  | _ => bad
  end.

(* summary figures for the evidence / replay files *)
Definition tx_summary (t : ptx) : list N :=
  [len (pt_inputs t); len (pt_outputs t); pt_fee t; pt_size t; pt_nvkeys t; pt_nboot t].
