(* Batch/NoOofProofs.v — the functions without fuel never answer OutOfFuel (they are built from Ok / Err only).
   Bookkeeping for Batch/TerminationProofs.v. *)
From CSL Require Import Base.Prelude Base.U64 Batch.Calc Batch.Proposal Batch.PureAda Batch.AssetPath.
Local Open Scope N_scope.

Definition no_oof {A} (r : result A) : Prop := r <> OutOfFuel.

Lemma bind_no_oof {A B} (r : result A) (f : A -> result B) :
  no_oof r -> (forall a, r = Ok a -> no_oof (f a)) -> no_oof (bind r f).
Proof. unfold no_oof. destruct r; cbn [bind]; intros H1 H2; try congruence. apply H2. reflexivity. Qed.

Create HintDb noof.
Ltac noof_step :=
  match goal with
  | |- no_oof (bind _ _) => apply bind_no_oof; [|intros ? _]
  | |- no_oof (Ok _) => discriminate
  | |- no_oof Err => discriminate
  | |- no_oof (if ?b then _ else _) => destruct b
  | |- no_oof (match ?x with _ => _ end) => destruct x
  end.
Ltac noof := repeat (noof_step; cbn [fst snd]); auto with noof.

Lemma noof_checked_add a b : no_oof (checked_add a b).  Proof. unfold checked_add. noof. Qed.
Lemma noof_checked_mul a b : no_oof (checked_mul a b).  Proof. unfold checked_mul. noof. Qed.
#[export] Hint Resolve noof_checked_add noof_checked_mul : noof.
Lemma noof_calc_size_cost a b : no_oof (calc_size_cost a b).  Proof. unfold calc_size_cost. noof. Qed.
Lemma noof_min_fee a b d : no_oof (min_fee_for_size a b d).  Proof. unfold min_fee_for_size. noof. Qed.
#[export] Hint Resolve noof_calc_size_cost noof_min_fee : noof.
Lemma noof_output_cost_loop k : forall a b d, no_oof (output_cost_loop k a b d).
Proof. induction k as [|k IH]; intros; cbn [output_cost_loop]; noof. Qed.
#[export] Hint Resolve noof_output_cost_loop : noof.
Lemma noof_estimate_output_cost a b d : no_oof (estimate_output_cost a b d).
Proof. unfold estimate_output_cost. noof. Qed.
Lemma noof_fee_loop k : forall a b d e f g, no_oof (fee_loop k a b d e f g).
Proof. induction k as [|k IH]; intros; cbn [fee_loop]; noof. Qed.
#[export] Hint Resolve noof_estimate_output_cost noof_fee_loop : noof.
Lemma noof_estimate_fee l a b d e f : no_oof (estimate_fee_gen l a b d e f).
Proof. unfold estimate_fee_gen. noof. Qed.
Lemma noof_estimate_fee' a b d e f : no_oof (estimate_fee a b d e f).
Proof. apply noof_estimate_fee. Qed.
#[export] Hint Resolve noof_estimate_fee noof_estimate_fee' : noof.

Lemma noof_checked_sum l : no_oof (checked_sum l).
Proof. induction l; cbn [checked_sum]; noof. Qed.
#[export] Hint Resolve noof_checked_sum : noof.
Lemma noof_total_outputs p : no_oof (get_total_ada_for_outputs p).  Proof. unfold get_total_ada_for_outputs. noof. Qed.
#[export] Hint Resolve noof_total_outputs : noof.
Lemma noof_need p : no_oof (get_need_ada p).  Proof. unfold get_need_ada. noof. Qed.
Lemma noof_unused p : no_oof (get_unused_ada p).  Proof. unfold get_unused_ada. noof. Qed.
#[export] Hint Resolve noof_need noof_unused : noof.
Lemma noof_add_address c o w a : no_oof (add_address c o w a).  Proof. unfold add_address. noof. Qed.
#[export] Hint Resolve noof_add_address : noof.
Lemma noof_add_utxo c p u : no_oof (add_utxo c p u).  Proof. unfold add_utxo. noof. Qed.
Lemma noof_add_last p : no_oof (add_last_ada_to_last_output p).  Proof. unfold add_last_ada_to_last_output. noof. Qed.
#[export] Hint Resolve noof_add_utxo noof_add_last : noof.
Lemma noof_omapR {A B} (f : A -> result B) l : (forall x, no_oof (f x)) -> no_oof (omapR f l).
Proof. intros H. induction l; cbn [omapR]; noof. Qed.
Lemma noof_out_qty c u a : no_oof (out_qty c u a).  Proof. unfold out_qty. noof. Qed.
#[export] Hint Resolve noof_out_qty : noof.
Lemma noof_out_groups c u a : no_oof (out_groups c u a).
Proof. unfold out_groups. apply noof_omapR. intros g. apply noof_omapR. intros x. noof. Qed.
#[export] Hint Resolve noof_out_groups : noof.
Lemma noof_estimate_output c u o : no_oof (estimate_output c u o).  Proof. unfold estimate_output. noof. Qed.
#[export] Hint Resolve noof_estimate_output : noof.
Lemma noof_recalc_output c u o : no_oof (recalc_output c u o).  Proof. unfold recalc_output. noof. Qed.
#[export] Hint Resolve noof_recalc_output : noof.
Lemma noof_recalculate c p : no_oof (recalculate_outputs c p).
Proof. unfold recalculate_outputs. apply bind_no_oof; [apply noof_omapR; auto with noof | intros; discriminate]. Qed.
#[export] Hint Resolve noof_recalculate : noof.
Lemma noof_estimate_fee_p l c p : no_oof (estimate_fee_p l c p).  Proof. unfold estimate_fee_p. noof. Qed.
#[export] Hint Resolve noof_estimate_fee_p : noof.
Lemma noof_set_min_gen l c p : no_oof (set_min_ada_for_tx_gen l c p).  Proof. unfold set_min_ada_for_tx_gen. noof. Qed.
Lemma noof_set_min c p : no_oof (set_min_ada_for_tx c p).  Proof. apply noof_set_min_gen. Qed.
#[export] Hint Resolve noof_set_min_gen noof_set_min : noof.
Lemma noof_check_finished c p s : no_oof (check_finished c p s).  Proof. unfold check_finished. noof. Qed.
Lemma noof_create_tx c p : no_oof (create_tx c p).
Proof. unfold create_tx. apply bind_no_oof; [apply noof_omapR; intros; noof | intros; discriminate]. Qed.
#[export] Hint Resolve noof_check_finished noof_create_tx : noof.
Lemma noof_finalise w c p : no_oof (finalise_gen w c p).  Proof. unfold finalise_gen. noof. Qed.
Lemma noof_finalise' c p : no_oof (finalise c p).  Proof. apply noof_finalise. Qed.
#[export] Hint Resolve noof_finalise noof_finalise' : noof.

Lemma noof_by_amount c : forall rp ig l acc, no_oof (by_amount c rp ig l acc).
Proof. induction rp; intros; cbn [by_amount]; noof. Qed.
Lemma noof_add_utxos c : forall us p, no_oof (add_utxos c p us).
Proof. induction us; intros; cbn [add_utxos]; noof. Qed.
#[export] Hint Resolve noof_by_amount noof_add_utxos : noof.
Lemma noof_place_assets c : forall assets cur acc d, no_oof (place_assets c cur assets acc d).
Proof. induction assets; intros; cbn [place_assets]; noof. Qed.
#[export] Hint Resolve noof_place_assets : noof.
Lemma noof_add_assets c cn p o : no_oof (add_assets_to_output c cn p o).  Proof. unfold add_assets_to_output. noof. Qed.
#[export] Hint Resolve noof_add_assets : noof.
