(* Batch/ProposalProofs.v — invariants of transaction proposals under ANY accepted operation sequence, and what a
   finalised proposal denotes.  Part 1: helpers, the invariant, its preservation. *)
From CSL Require Import Base.Prelude Base.U64 Batch.Calc Batch.CalcProofs Batch.EncProofs Batch.IntermediateProofs Batch.Proposal.
From Coq Require Import Permutation.
Local Open Scope N_scope.

(* ---------------------------------------------------------------- generic helpers *)

Lemma bindR {A B} (r : result A) (f : A -> result B) b :
  bind r f = Ok b -> exists a, r = Ok a /\ f a = Ok b.
Proof. destruct r; cbn [bind]; try discriminate. intros H. eexists; split; [reflexivity|exact H]. Qed.

Lemma checked_add_ok a b s : checked_add a b = Ok s -> s = a + b.
Proof. unfold checked_add. destruct (a + b <? two64); [intros H; injection H as <-; reflexivity | discriminate]. Qed.

Lemma checked_sum_ok l s : checked_sum l = Ok s -> s = sumN l.
Proof.
  revert s. induction l as [|x t IH]; intros s H; cbn [checked_sum] in H; [injection H as <-; reflexivity|].
  apply bindR in H as [s' [H1 H2]]. apply checked_add_ok in H2. rewrite (IH _ H1) in H2. rewrite sumN_cons. exact H2.
Qed.

Lemma memN_In x l : memN x l = true <-> In x l.
Proof.
  unfold memN. rewrite existsb_exists. split; [intros [y [Hy E]]; apply N.eqb_eq in E; subst; exact Hy |
                                              intros H; exists x; split; [exact H | apply N.eqb_refl]].
Qed.
Lemma memN_false x l : memN x l = false <-> ~ In x l.
Proof. rewrite <- memN_In. destruct (memN x l); split; congruence. Qed.

Lemma omapR_ok {A B} (f : A -> result B) l r : omapR f l = Ok r -> Forall2 (fun x y => f x = Ok y) l r.
Proof.
  revert r. induction l as [|x t IH]; intros r H; cbn [omapR] in H; [injection H as <-; constructor|].
  apply bindR in H as [y [Hy H]]. apply bindR in H as [r' [Hr H]]. injection H as <-. constructor; [exact Hy | apply IH, Hr].
Qed.

Lemma Forall2_length' {A B} (R : A -> B -> Prop) l m : Forall2 R l m -> lenN l = lenN m.
Proof. induction 1 as [|x y l m _ _ IH]; [reflexivity|]. unfold lenN in *. cbn [length]. lia. Qed.

Lemma map_last_length {A} (f : A -> A) l : length (map_last f l) = length l.
Proof. induction l as [|x [|y t] IH]; [reflexivity|reflexivity|]. cbn [map_last length] in *. rewrite IH. reflexivity. Qed.

Lemma map_last_cons_ne {A} (f : A -> A) y l : l <> [] -> map_last f (y :: l) = y :: map_last f l.
Proof. destruct l; [intros X; contradiction X; reflexivity | reflexivity]. Qed.
Lemma snoc_ne {A} (l : list A) x : l ++ [x] <> [].
Proof. destruct l; discriminate. Qed.
Lemma map_last_snoc {A} (f : A -> A) l x : map_last f (l ++ [x]) = l ++ [f x].
Proof.
  induction l as [|y t IH]; [reflexivity|]. cbn [app]. rewrite map_last_cons_ne by apply snoc_ne. rewrite IH. reflexivity.
Qed.

Lemma list_snoc_cases {A} (l : list A) : l = [] \/ exists t x, l = t ++ [x].
Proof.
  induction l as [|y t IH]; [left; reflexivity|]. right. destruct IH as [->|[t' [x ->]]].
  - exists [], y. reflexivity.
  - exists (y :: t'), x. reflexivity.
Qed.

Lemma last_cons_ne {A} (y : A) l d : l <> [] -> last (y :: l) d = last l d.
Proof. destruct l; [intros X; contradiction X; reflexivity | reflexivity]. Qed.
Lemma last_snoc {A} (l : list A) x d : last (l ++ [x]) d = x.
Proof. induction l as [|y t IH]; [reflexivity|]. cbn [app]. rewrite last_cons_ne by apply snoc_ne. exact IH. Qed.

(* ---------------------------------------------------------------- the invariant of proposals *)

Definition vkey_count (c : ctx) (owners : list N) : N :=
  lenN (filter (fun o => match owner_of c o with KVkey => true | _ => false end) owners).
Definition byron_sizes (c : ctx) (owners : list N) : list N :=
  flat_map (fun o => match owner_of c o with KByron sz => [sz] | _ => [] end) owners.
Definition out_assets (p : tprop) : list N := concat (map o_assets (t_outputs p)).
Definition utxo_assets (c : ctx) (u : N) : list N := map fst (ui_assets (utxo_of c u)).

Record Inv (c : ctx) (p : tprop) : Prop := mkInv {
  inv_nodup : NoDup (t_utxos p);
  inv_total : t_total_ada p = sumN (map (fun u => ui_ada (utxo_of c u)) (t_utxos p));
  inv_wit : wit_inv (t_wit p);
  inv_vkeys : w_vkeys (t_wit p) = vkey_count c (t_owners p);
  inv_boots : w_boot_sizes (t_wit p) = byron_sizes c (t_owners p);
  inv_owners : forall u, In u (t_utxos p) -> In (ui_owner (utxo_of c u)) (t_owners p);
  inv_noscript : forall o, In o (t_owners p) -> owner_of c o <> KScript;
  inv_owners_nodup : NoDup (t_owners p);
  inv_assets_nodup : NoDup (out_assets p);
  inv_assets_eq : forall a, In a (t_assets p) <-> In a (out_assets p);
  inv_assets_cover : forall u a, In u (t_utxos p) -> In a (utxo_assets c u) -> In a (t_assets p);
  inv_bound : Forall (fun o => o_assets o = [] \/ bound_of c (o_assets o) <= cx_max_value c) (t_outputs p);
  inv_has_output : t_utxos p <> [] -> t_outputs p <> [] }.

Lemma inv_new c : Inv c tp_new.
Proof.
  constructor; cbn; try constructor; try tauto; try reflexivity.
  - apply wit_inv_new.
Qed.

(* operations that only touch coins, sizes and the fee *)
Definition same_structure (p q : tprop) : Prop :=
  t_utxos p = t_utxos q /\ t_assets p = t_assets q /\ t_total_ada p = t_total_ada q /\
  t_owners p = t_owners q /\ t_wit p = t_wit q /\ map o_assets (t_outputs p) = map o_assets (t_outputs q).

Lemma inv_same c p q : same_structure p q -> Inv c p -> Inv c q.
Proof.
  intros (A & B & C & D & E & F) I. destruct I. unfold out_assets in *.
  constructor; unfold out_assets; rewrite <- ?A, <- ?B, <- ?C, <- ?D, <- ?E, <- ?F; auto.
  - clear - F inv_bound0. revert F inv_bound0. generalize (t_outputs q). induction (t_outputs p) as [|o t IH]; intros [|o' t'] F H; try discriminate; [constructor|].
    cbn [map] in F. injection F as F1 F2. inversion H; subst. constructor; [rewrite <- F1; assumption | apply IH; assumption].
  - intros H1 H2. apply inv_has_output0; [exact H1|]. rewrite H2 in F. destruct (t_outputs p); [reflexivity|discriminate].
Qed.

Lemma out_assets_new_output p : out_assets (add_new_output p) = out_assets p.
Proof. unfold out_assets, add_new_output. cbn [t_outputs]. rewrite map_app, concat_app. cbn. rewrite app_nil_r. reflexivity. Qed.

Lemma inv_add_new_output c p : Inv c p -> Inv c (add_new_output p).
Proof.
  intros I. destruct I. constructor; rewrite ?out_assets_new_output; auto.
  - unfold add_new_output. cbn [t_outputs]. apply Forall_app. split; [assumption | constructor; [left; reflexivity | constructor]].
  - intros _. unfold add_new_output. cbn [t_outputs]. apply snoc_ne.
Qed.

Lemma in_insertN x a l : In x (insertN a l) <-> x = a \/ In x l.
Proof.
  unfold insertN. destruct (memN a l) eqn:E.
  - apply memN_In in E. split; [tauto | intros [->|H]; assumption].
  - rewrite in_app_iff. cbn [In]. split; [intros [H|[H|[]]]; auto | intros [->|H]; auto].
Qed.

Lemma NoDup_snoc {A} (l : list A) x : NoDup l -> ~ In x l -> NoDup (l ++ [x]).
Proof.
  intros H Hx. apply NoDup_app_remove_r with (l' := []) || idtac.
  induction H as [|y t Hy Ht IH]; [constructor; [intros []|constructor]|].
  cbn [app]. constructor.
  - rewrite in_app_iff. cbn [In]. intros [H|[H|[]]]; [contradiction | subst; apply Hx; left; reflexivity].
  - apply IH. intros H. apply Hx. right. exact H.
Qed.

Lemma inv_add_asset c p a :
  Inv c p -> t_outputs p <> [] -> memN a (t_assets p) = false ->
  bound_of c (insertN a (o_assets (last (t_outputs p) op_new))) <= cx_max_value c ->
  Inv c (add_asset p a).
Proof.
  intros I Hne Hm Hb. destruct I.
  destruct (list_snoc_cases (t_outputs p)) as [E|[t [lst E]]]; [contradiction|].
  assert (Hnot : ~ In a (out_assets p)).
  { intros H. apply inv_assets_eq0 in H. apply memN_false in Hm. contradiction. }
  rewrite E, last_snoc in Hb.
  assert (Hins : insertN a (o_assets lst) = o_assets lst ++ [a]).
  { unfold insertN. destruct (memN a (o_assets lst)) eqn:M; [|reflexivity]. exfalso. apply Hnot.
    unfold out_assets. rewrite E, map_app, concat_app. apply in_or_app. right. cbn. rewrite app_nil_r. apply memN_In, M. }
  assert (Hout : out_assets (add_asset p a) = out_assets p ++ [a]).
  { unfold out_assets, add_asset. cbn [t_outputs]. rewrite E, map_last_snoc, !map_app, !concat_app. cbn [map concat o_assets].
    rewrite Hins, !app_nil_r, app_assoc. reflexivity. }
  constructor; rewrite ?Hout; auto.
  - apply NoDup_snoc; assumption.
  - intros x. unfold add_asset. cbn [t_assets]. rewrite in_insertN, in_app_iff. cbn [In]. rewrite inv_assets_eq0.
    split; [intros [->|H]; auto | intros [H|[->|[]]]; auto].
  - intros u x Hu Hx. unfold add_asset. cbn [t_assets]. apply in_insertN. right. eapply inv_assets_cover0; eassumption.
  - unfold add_asset. cbn [t_outputs]. rewrite E, map_last_snoc. rewrite E in inv_bound0.
    apply Forall_app in inv_bound0 as [F1 F2]. apply Forall_app. split; [exact F1|].
    constructor; [right; cbn [o_assets]; exact Hb | constructor].
  - intros _. unfold add_asset. cbn [t_outputs]. rewrite E, map_last_snoc. apply snoc_ne.
Qed.

Lemma vkey_count_snoc c l o :
  vkey_count c (l ++ [o]) = vkey_count c l + match owner_of c o with KVkey => 1 | _ => 0 end.
Proof.
  unfold vkey_count. rewrite filter_app, lenN_app. cbn [filter]. destruct (owner_of c o); cbn; lia.
Qed.
Lemma byron_sizes_snoc c l o :
  byron_sizes c (l ++ [o]) = byron_sizes c l ++ match owner_of c o with KByron sz => [sz] | _ => [] end.
Proof. unfold byron_sizes. rewrite flat_map_app. cbn [flat_map]. rewrite app_nil_r. reflexivity. Qed.

Lemma subsetN_In l m : subsetN l m = true -> forall x, In x l -> In x m.
Proof. unfold subsetN. rewrite forallb_forall. intros H x Hx. apply memN_In, H, Hx. Qed.

Ltac split7 := split; [|split; [|split; [|split; [|split; [|split]]]]].

Lemma inv_add_utxo c p u p' :
  Inv c p -> t_outputs p <> [] -> subsetN (utxo_assets c u) (t_assets p) = true -> add_utxo c p u = Ok p' -> Inv c p'.
Proof.
  intros I Hout Hsub H. destruct I. unfold add_utxo in H.
  destruct (memN u (t_utxos p)) eqn:Mu; [discriminate|]. apply memN_false in Mu.
  apply bindR in H as [total [Ht H]]. apply checked_add_ok in Ht.
  apply bindR in H as [[owners' wit'] [Ha H]]. injection H as <-. cbn [fst snd].
  assert (W : wit_inv wit' /\ w_vkeys wit' = vkey_count c owners' /\ w_boot_sizes wit' = byron_sizes c owners' /\
              In (ui_owner (utxo_of c u)) owners' /\ (forall o, In o (t_owners p) -> In o owners') /\
              (forall o, In o owners' -> owner_of c o <> KScript) /\ NoDup owners').
  { unfold add_address in Ha. destruct (memN (ui_owner (utxo_of c u)) (t_owners p)) eqn:Mo.
    - injection Ha as <- <-. apply memN_In in Mo. split7; auto.
    - apply memN_false in Mo. set (o := ui_owner (utxo_of c u)) in *.
      assert (ND : NoDup (t_owners p ++ [o])) by (apply NoDup_snoc; assumption).
      assert (IN : In o (t_owners p ++ [o])) by (apply in_or_app; right; left; reflexivity).
      assert (MONO : forall x, In x (t_owners p) -> In x (t_owners p ++ [o])) by (intros; apply in_or_app; left; assumption).
      destruct (owner_of c o) eqn:K; try discriminate; injection Ha as <- <-;
        (split7; [ | | | exact IN | exact MONO | | exact ND]).
      + apply wit_inv_add_vkey; assumption.
      + rewrite vkey_count_snoc, K. unfold wit_add_vkey. destruct (w_vkeys (t_wit p) =? 0); [destruct (wit_open_field _ _)|]; cbn [w_vkeys]; lia.
      + rewrite byron_sizes_snoc, K, app_nil_r. unfold wit_add_vkey. destruct (w_vkeys (t_wit p) =? 0); [destruct (wit_open_field _ _)|]; cbn [w_boot_sizes]; assumption.
      + intros x Hx. apply in_app_iff in Hx as [Hx|[<-|[]]]; [apply inv_noscript0, Hx | rewrite K; discriminate].
      + apply wit_inv_add_bootstrap; assumption.
      + rewrite vkey_count_snoc, K. unfold wit_add_bootstrap. destruct (w_boot (t_wit p) =? 0); [destruct (wit_open_field _ _)|]; cbn [w_vkeys]; lia.
      + rewrite byron_sizes_snoc, K. unfold wit_add_bootstrap. destruct (w_boot (t_wit p) =? 0); [destruct (wit_open_field _ _)|]; cbn [w_boot_sizes]; congruence.
      + intros x Hx. apply in_app_iff in Hx as [Hx|[<-|[]]]; [apply inv_noscript0, Hx | rewrite K; discriminate].
      + assumption.
      + rewrite vkey_count_snoc, K. lia.
      + rewrite byron_sizes_snoc, K, app_nil_r. assumption.
      + intros x Hx. apply in_app_iff in Hx as [Hx|[<-|[]]]; [apply inv_noscript0, Hx | rewrite K; discriminate]. }
  destruct W as (W1 & W2 & W3 & W4 & W5 & W6 & W7).
  constructor; cbn [t_utxos t_total_ada t_wit t_owners t_assets t_outputs]; unfold out_assets in *; cbn [t_outputs]; auto.
  - apply NoDup_snoc; assumption.
  - rewrite map_app, sumN_app. cbn [map]. rewrite sumN_cons. change (sumN []) with 0. lia.
  - intros x Hx. apply in_app_iff in Hx as [Hx|[<-|[]]]; [apply W5, inv_owners0, Hx | exact W4].
  - intros x a Hx Ha'. apply in_app_iff in Hx as [Hx|[<-|[]]]; [eapply inv_assets_cover0; eassumption|].
    eapply subsetN_In; eassumption.
Qed.

(* ---------------------------------------------------------------- coin-only operations keep the structure *)

Lemma map_last_assets (f : oprop -> oprop) l :
  (forall o, o_assets (f o) = o_assets o) -> map o_assets (map_last f l) = map o_assets l.
Proof.
  intros H. destruct (list_snoc_cases l) as [->|[t [x ->]]]; [reflexivity|].
  rewrite map_last_snoc, !map_app. cbn [map]. rewrite H. reflexivity.
Qed.

Lemma recalc_output_assets c used o o' : recalc_output c used o = Ok o' -> o_assets o' = o_assets o.
Proof. unfold recalc_output. intros H. apply bindR in H as [cs [_ H]]. injection H as <-. reflexivity. Qed.

Lemma omapR_assets c used l l' : omapR (recalc_output c used) l = Ok l' -> map o_assets l' = map o_assets l.
Proof.
  intros H. apply omapR_ok in H. induction H as [|o o' t t' Ho _ IH]; [reflexivity|].
  cbn [map]. rewrite (recalc_output_assets _ _ _ _ Ho), IH. reflexivity.
Qed.

Lemma recalculate_same c p p1 : recalculate_outputs c p = Ok p1 -> same_structure p p1 /\ t_fee p1 = t_fee p.
Proof.
  unfold recalculate_outputs. intros H. apply bindR in H as [outs [Ho H]]. injection H as <-.
  unfold same_structure. cbn. repeat split. symmetry. eapply omapR_assets; eassumption.
Qed.

Lemma set_min_same c p p' sz : set_min_ada_for_tx c p = Ok (p', sz) -> same_structure p p'.
Proof.
  unfold set_min_ada_for_tx, set_min_ada_for_tx_gen. intros H. apply bindR in H as [p1 [H1 H]].
  apply bindR in H as [fs [_ H]]. injection H as <- _. apply recalculate_same in H1 as [(A & B & C & D & E & F) _].
  unfold same_structure. cbn. repeat split; assumption.
Qed.

Lemma add_last_same p p1 : add_last_ada_to_last_output p = Ok p1 -> same_structure p p1.
Proof.
  unfold add_last_ada_to_last_output. intros H. apply bindR in H as [unused [_ H]].
  destruct (t_outputs p) eqn:E; [injection H as <-; unfold same_structure; repeat split; reflexivity|].
  rewrite <- E in H. apply bindR in H as [total [_ H]]. injection H as <-. unfold same_structure.
  cbn [t_utxos t_assets t_total_ada t_owners t_wit t_outputs]. repeat split.
  symmetry. apply map_last_assets. reflexivity.
Qed.

(* ---------------------------------------------------------------- every accepted operation sequence keeps the invariant *)

Lemma step_inv c p o p' : Inv c p -> step c p o = Ok p' -> Inv c p'.
Proof.
  intros I H. destruct o as [|a|u|]; cbn [step] in H.
  - injection H as <-. apply inv_add_new_output, I.
  - destruct (t_outputs p) eqn:E; [discriminate|]. rewrite <- E in H.
    destruct (memN a (t_assets p)) eqn:M; [discriminate|].
    destruct (bound_of c (insertN a (o_assets (last (t_outputs p) op_new))) <=? cx_max_value c) eqn:B; [|discriminate].
    injection H as <-. apply inv_add_asset; [exact I | rewrite E; discriminate | exact M | lia].
  - destruct (t_outputs p) eqn:E; [discriminate|].
    destruct (subsetN (map fst (ui_assets (utxo_of c u))) (t_assets p)) eqn:S; [|discriminate].
    eapply inv_add_utxo; [exact I | rewrite E; discriminate | exact S | exact H].
  - apply bindR in H as [[q sz] [Hs H]]. injection H as <-. cbn [fst]. eapply inv_same; [eapply set_min_same; exact Hs | exact I].
Qed.

Theorem run_inv c : forall ops p p', Inv c p -> run c p ops = Ok p' -> Inv c p'.
Proof.
  induction ops as [|o t IH]; intros p p' I H; cbn [run] in H; [injection H as <-; exact I|].
  apply bindR in H as [q [Hq H]]. eapply IH; [eapply step_inv; eassumption | exact H].
Qed.

(* ---------------------------------------------------------------- what set_min_ada_for_tx establishes *)

Definition out_ok (c : ctx) (used : list N) (o : oprop) : Prop :=
  exists gs, out_groups c used (o_assets o) = Ok gs /\
    o_min_ada o = (o_size o + 160) * cx_cpb c /\ o_min_ada o <= o_total_ada o /\
    real_out_size c (o_total_ada o) gs <= o_size o.

Lemma group_insert_ne pol a gs : group_insert pol a gs <> [].
Proof.
  unfold group_insert. destruct (group_has pol gs) eqn:E; [|discriminate].
  destruct gs as [|[k l] t]; [discriminate|]. cbn [group_update]. destruct (pol =? k); discriminate.
Qed.

Lemma groups_of_nil_iff c assets : groups_of c assets = [] <-> assets = [].
Proof.
  unfold groups_of. split; [|intros ->; reflexivity].
  assert (H : forall l gs, gs <> [] -> fold_left (fun gs a => group_insert (ai_policy (asset_of c a)) a gs) l gs <> []).
  { induction l as [|a t IH]; intros gs Hgs; [exact Hgs|]. cbn [fold_left]. apply IH, group_insert_ne. }
  destruct assets as [|a t]; [reflexivity|]. cbn [fold_left]. intros E. exfalso. eapply H; [|exact E]. apply group_insert_ne.
Qed.

Lemma out_groups_nilb c used assets gs : out_groups c used assets = Ok gs -> is_nilb gs = is_nilb assets.
Proof.
  unfold out_groups. intros H. apply omapR_ok in H. 
  destruct assets as [|a t].
  - change (groups_of c []) with (@nil (N * list N)) in H. inversion H. reflexivity.
  - destruct (groups_of c (a :: t)) eqn:E; [apply groups_of_nil_iff in E; discriminate|]. inversion H. reflexivity.
Qed.

Lemma calc_value_size_coin coin coin' s : calc_value_size coin' s + get_coin_size coin = calc_value_size coin s + get_coin_size coin'.
Proof. unfold calc_value_size. lia. Qed.

Lemma recalc_output_ok c used o o' : recalc_output c used o = Ok o' -> out_ok c used o'.
Proof.
  unfold recalc_output, estimate_output. intros H. apply bindR in H as [[cost sz] [He H]]. injection H as <-.
  apply bindR in He as [gs [Hg He]]. cbn [fst snd] in *.
  pose proof (out_groups_nilb _ _ _ _ Hg) as Hn.
  set (output_size := categorizer_output_size c + calc_value_size (o_total_ada o) (shape_of gs) +
                      get_value_struct_size match o_assets o with [] => true | _ :: _ => false end) in *.
  assert (Hsz : get_coin_size (o_total_ada o) <= output_size) by (unfold output_size, calc_value_size; lia).
  destruct (output_cost_safe _ _ _ _ _ Hsz He) as (A & B & _).
  exists gs. cbn [o_assets o_min_ada o_total_ada o_size]. split; [exact Hg|]. split; [exact A|].
  assert (Hmax : (if o_total_ada o <? cost then cost else o_total_ada o) = N.max (o_total_ada o) cost).
  { destruct (o_total_ada o <? cost) eqn:E; [rewrite N.max_r by lia | rewrite N.max_l by lia]; reflexivity. }
  rewrite Hmax. split; [lia|].
  unfold size_with_coin in B. unfold real_out_size, real_value_size. rewrite Hn.
  pose proof (calc_value_size_coin (o_total_ada o) (N.max (o_total_ada o) cost) (shape_of gs)) as Hc.
  unfold output_size, categorizer_output_size in *. unfold is_nilb.
  destruct (o_assets o); lia.
Qed.

Lemma recalculate_ok c p p1 : recalculate_outputs c p = Ok p1 -> Forall (out_ok c (t_utxos p1)) (t_outputs p1).
Proof.
  unfold recalculate_outputs. intros H. apply bindR in H as [outs [Ho H]]. injection H as <-. cbn [t_utxos t_outputs].
  apply omapR_ok in Ho. induction Ho as [|o o' t t' H1 _ IH]; constructor; [eapply recalc_output_ok; exact H1 | exact IH].
Qed.

Lemma set_min_post c p p' sz :
  set_min_ada_for_tx c p = Ok (p', sz) ->
  exists p1, recalculate_outputs c p = Ok p1 /\ estimate_fee_p false c p1 = Ok (t_fee p', sz) /\
             t_outputs p' = t_outputs p1 /\ t_utxos p' = t_utxos p1 /\ t_total_ada p' = t_total_ada p1 /\
             t_wit p' = t_wit p1 /\ t_owners p' = t_owners p1 /\ t_utxos p1 = t_utxos p /\ t_total_ada p1 = t_total_ada p /\
             Forall (out_ok c (t_utxos p')) (t_outputs p').
Proof.
  unfold set_min_ada_for_tx, set_min_ada_for_tx_gen. intros H. apply bindR in H as [p1 [H1 H]].
  apply bindR in H as [[f s] [Hf H]]. injection H as <- <-. exists p1. cbn [fst snd t_fee t_outputs t_utxos t_total_ada t_wit t_owners].
  pose proof (recalculate_ok _ _ _ H1) as Hok. pose proof (recalculate_same _ _ _ H1) as [(A & _ & C & _) _].
  repeat split; auto.
Qed.

(* ---------------------------------------------------------------- finalisation *)

Lemma check_finished_ok c p sz :
  check_finished c p sz = Ok tt ->
  sumN (map o_total_ada (t_outputs p)) + t_fee p = t_total_ada p /\ sz <= cx_max_tx c.
Proof.
  unfold check_finished, get_need_ada, get_unused_ada, get_total_ada_for_outputs. intros H.
  apply bindR in H as [need [Hn H]]. apply bindR in H as [unused [Hu H]].
  apply bindR in Hn as [outs [Ho Hn]]. apply bindR in Hn as [nd [Hnd Hn]]. injection Hn as <-.
  apply bindR in Hu as [outs' [Ho' Hu]]. apply bindR in Hu as [nd' [Hnd' Hu]]. injection Hu as <-.
  rewrite Ho in Ho'. injection Ho' as <-. rewrite Hnd in Hnd'. injection Hnd' as <-.
  apply checked_sum_ok in Ho. apply checked_add_ok in Hnd.
  destruct (0 <? nd - t_total_ada p) eqn:E1; [discriminate|].
  destruct (0 <? t_total_ada p - nd) eqn:E2; [discriminate|].
  destruct (cx_max_tx c <? sz) eqn:E3; [discriminate|]. subst. split; lia.
Qed.

Lemma create_tx_ok c p tx :
  create_tx c p = Ok tx ->
  x_inputs tx = t_utxos p /\ x_fee tx = t_fee p /\ x_owners tx = t_owners p /\
  Forall2 (fun o x => fst x = o_total_ada o /\ out_groups c (t_utxos p) (o_assets o) = Ok (snd x)) (t_outputs p) (x_outputs tx).
Proof.
  unfold create_tx. intros H. apply bindR in H as [outs [Ho H]]. injection H as <-. cbn [x_inputs x_fee x_owners x_outputs].
  repeat split. apply omapR_ok in Ho. induction Ho as [|o x t t' H1 _ IH]; constructor; [|exact IH].
  apply bindR in H1 as [gs [Hg H1]]. injection H1 as <-. cbn [fst snd]. split; [reflexivity|exact Hg].
Qed.

Lemma sumN_le2 {A B} (R : A -> B -> Prop) (f : A -> N) (g : B -> N) l m :
  Forall2 R l m -> (forall x y, R x y -> f x <= g y) -> sumN (map f l) <= sumN (map g m).
Proof.
  intros H HR. induction H as [|x y l m Hxy _ IH]; [cbn; lia|]. cbn [map]. rewrite !sumN_cons. specialize (HR _ _ Hxy). lia.
Qed.
Lemma sumN_eq2 {A B} (R : A -> B -> Prop) (f : A -> N) (g : B -> N) l m :
  Forall2 R l m -> (forall x y, R x y -> f x = g y) -> sumN (map f l) = sumN (map g m).
Proof.
  intros H HR. induction H as [|x y l m Hxy _ IH]; [reflexivity|]. cbn [map]. rewrite !sumN_cons. rewrite (HR _ _ Hxy), IH. reflexivity.
Qed.

Lemma sumN_In_le (f : oprop -> N) l x : In x l -> f x <= sumN (map f l).
Proof.
  induction l as [|y t IH]; [intros []|]. cbn [map]. rewrite sumN_cons. intros [->|H]; [lia | specialize (IH H); lia].
Qed.

Lemma last_In {A} (l : list A) d : l <> [] -> In (last l d) l.
Proof.
  intros H. destruct (list_snoc_cases l) as [->|[t [x ->]]]; [contradiction H; reflexivity|].
  rewrite last_snoc. apply in_or_app. right. left. reflexivity.
Qed.

Lemma real_out_size_coin c coin gs : get_coin_size coin <= real_out_size c coin gs.
Proof. unfold real_out_size, real_value_size, calc_value_size. lia. Qed.

(* C13_finalise (coins, fee, sizes, min ADA): for ANY accepted operation sequence, a finalised proposal denotes a
   transaction that is balanced in lovelace, whose fee covers its real size, that fits max_tx_size and whose outputs
   hold their minimum ADA *)
Theorem finalise_sound c ops p p' tx :
  run c tp_new ops = Ok p -> finalise c p = Ok (p', tx) ->
  Inv c p' /\ x_inputs tx = t_utxos p' /\ x_fee tx = t_fee p' /\ x_owners tx = t_owners p' /\
  Forall2 (fun o x => fst x = o_total_ada o /\ out_groups c (t_utxos p') (o_assets o) = Ok (snd x)) (t_outputs p') (x_outputs tx) /\
  sumN (map (fun u => ui_ada (utxo_of c u)) (x_inputs tx)) = sumN (map fst (x_outputs tx)) + x_fee tx /\
  real_tx_size c tx <= cx_max_tx c /\
  real_tx_size c tx * cx_a c + cx_b c <= x_fee tx /\
  Forall (fun o => (real_out_size c (fst o) (snd o) + 160) * cx_cpb c <= fst o) (x_outputs tx).
Proof.
  intros Hrun Hfin. pose proof (run_inv c ops tp_new p (inv_new c) Hrun) as I.
  unfold finalise, finalise_gen in Hfin. destruct (t_utxos p) eqn:Eu; [discriminate|]. cbn iota in Hfin.
  apply bindR in Hfin as [p1 [Hlast Hfin]]. apply bindR in Hfin as [[q sz] [Hset Hfin]]. cbn [fst snd] in Hfin.
  apply bindR in Hfin as [[] [Hchk Hfin]]. apply bindR in Hfin as [tx' [Hct Hfin]]. injection Hfin as <- <-.
  assert (I1 : Inv c p1) by (eapply inv_same; [eapply add_last_same; exact Hlast | exact I]).
  assert (Iq : Inv c q) by (eapply inv_same; [eapply set_min_same; exact Hset | exact I1]).
  destruct (set_min_post _ _ _ _ Hset) as (r & Hrec & Hfee & Eo & Eus & Eta & Ew & Eow & Eus1 & Eta1 & Hok).
  destruct (check_finished_ok _ _ _ Hchk) as [Hbal Hsz].
  destruct (create_tx_ok _ _ _ Hct) as (X1 & X2 & X3 & X4).
  split; [exact Iq|]. split; [exact X1|]. split; [exact X2|]. split; [exact X3|]. split; [exact X4|].
  assert (Hcoins : sumN (map fst (x_outputs tx')) = sumN (map o_total_ada (t_outputs q))).
  { symmetry. eapply sumN_eq2; [exact X4|]. intros o x [E _]. symmetry. exact E. }
  split.
  { rewrite X1, X2, Hcoins. rewrite <- (inv_total c q Iq). lia. }
  (* the outputs of the transaction are no larger than recorded *)
  assert (Hreal : sumN (map (fun o => real_out_size c (fst o) (snd o)) (x_outputs tx')) <= sumN (map o_size (t_outputs q))).
  { assert (F : Forall2 (fun (x : N * list (list (N * N * N))) (o : oprop) => real_out_size c (fst x) (snd x) <= o_size o) (x_outputs tx') (t_outputs q)).
    { clear - X4 Hok. induction X4 as [|o x t t' [E1 E2] _ IH]; [constructor|]. inversion Hok as [|? ? [gs (G1 & G2 & G3 & G4)] Hok']; subst.
      constructor; [|apply IH, Hok']. rewrite E2 in G1. injection G1 as <-. rewrite E1. exact G4. }
    eapply sumN_le2; [exact F|]. intros x o H. exact H. }
  assert (Hlen : lenN (x_outputs tx') = lenN (t_outputs q)) by (symmetry; eapply Forall2_length'; exact X4).
  (* outputs are not empty *)
  assert (Hne : t_outputs q <> []).
  { apply (inv_has_output c q Iq). rewrite Eus, Eus1. destruct (add_last_same _ _ Hlast) as [Ea _]. rewrite <- Ea, Eu. discriminate. }
  (* the fee estimate *)
  unfold estimate_fee_p in Hfee. rewrite <- Eo in Hfee. destruct (t_outputs q) as [|o0 t0] eqn:Eq; [contradiction Hne; reflexivity|].
  rewrite <- Eq in *. set (lst := last (t_outputs q) op_new) in *.
  apply bindR in Hfee as [unused [Hun Hfee]]. apply bindR in Hfee as [d0 [Hd0 Hfee]]. apply bindR in Hfee as [d [Hd Hfee]].
  apply checked_add_ok in Hd0, Hd.
  unfold get_unused_ada, get_total_ada_for_outputs in Hun. rewrite <- Eo in Hun.
  apply bindR in Hun as [outs [Ho Hun]]. apply bindR in Hun as [nd [Hnd Hun]]. injection Hun as <-.
  apply checked_sum_ok in Ho. apply checked_add_ok in Hnd.
  destruct (fee_safe _ _ _ _ _ _ _ Hfee) as [Fa Fb].
  unfold recalc_size_with_dependable_value in Fb.
  assert (Hlast_in : In lst (t_outputs q)) by (apply last_In; exact Hne).
  assert (Hlast_sz : get_coin_size (o_total_ada lst) <= sumN (map o_size (t_outputs q))).
  { pose proof (sumN_In_le o_size _ _ Hlast_in). rewrite Forall_forall in Hok. destruct (Hok _ Hlast_in) as [gs (_ & _ & _ & G)].
    pose proof (real_out_size_coin c (o_total_ada lst) gs). lia. }
  (* the coin predicted for the last output is at least the coin it holds *)
  set (remain := if d - t_fee q <? o_min_ada lst then o_min_ada lst else d - t_fee q) in *.
  assert (Hrem : o_total_ada lst <= remain).
  { assert (o_total_ada lst <= d - t_fee q); [|unfold remain; destruct (d - t_fee q <? o_min_ada lst) eqn:Erem; lia].
    pose proof (sumN_In_le o_total_ada _ _ Hlast_in). rewrite Eta in Hbal. subst d d0 nd outs. lia. }
  pose proof (struct_size_mono _ _ Hrem) as Hw.
  (* the size of the real transaction *)
  assert (Hwit : wit_size (owner_vkeys c (x_owners tx')) (owner_boots c (x_owners tx')) = w_total (t_wit q)).
  { rewrite X3. destruct (inv_wit c q Iq) as (_ & Wt & _). rewrite Wt, (inv_vkeys c q Iq), (inv_boots c q Iq). reflexivity. }
  assert (Hrt : real_tx_size c tx' <= sz).
  { unfold real_tx_size. rewrite Hwit, Hlen, X1, X2.
    unfold get_tx_proposal_size in Fb. rewrite <- Eo, Eq in Fb. rewrite <- Eq in Fb. rewrite <- Ew, <- Eus in Fb.
    unfold get_coin_size in *. lia. }
  split; [lia|]. split; [rewrite X2, Fa; nia|].
  (* min ADA *)
  clear - X4 Hok. induction X4 as [|o x t t' [E1 E2] _ IH]; [constructor|]. inversion Hok as [|? ? [gs (G1 & G2 & G3 & G4)] Hok']; subst.
  constructor; [|apply IH, Hok']. rewrite E2 in G1. injection G1 as <-. rewrite E1. rewrite G2 in G3. nia.
Qed.
