(* Schema-directed CBOR codec: a deep embedding of the shapes the library's (cddl-codegen derived)
   serializers produce, one encoder [enc] and one decoder [dec] interpreting it.
   Model definitions only (proofs in SchemaProofs.v).

   [enc] is the wire format the Rust serializers write.  [dec] is the Rust deserializers
   RESTRICTED to the encodings the serializers produce plus some slack (any head width; keys of a
   map-struct must come in ascending order; containers definite): on that subset it returns what
   the Rust code returns (checked by correspondence); outside it the model answers Err where the
   Rust code may be more lenient.  All loops are bounded by the input length, so [dec] is total
   by construction and has no fuel. *)
From CSL Require Import Base.Prelude Cbor.Head.
Local Open Scope N_scope.

Inductive presence := Req | Opt | OptNE.   (* required / optional / optional, absent when empty *)
(* order of the entries of a map on the wire: insertion order with distinct keys (LinkedHashMap),
   bytewise order of the encoded keys (BTreeMap with a derived Ord that agrees with it), the derived
   order of RewardAddress (network id, then key-before-script, then hash), or insertion order with
   REPEATED keys allowed (Vec of pairs: Mint, Redeemers in map form, PlutusMap with several values
   under one key) *)
Inductive key_order := KInsertion | KBytewise | KRewardAddr | KMulti.

Inductive schema :=
| SUint (lim : N)                  (* unsigned integer < lim (lim <= 2^64) *)
| SNint                            (* negative integer -1-n, n < 2^64 *)
| SBytes (lo hi : N)               (* definite byte string, lo <= length <= hi *)
| SText (hi : N)                   (* definite text string (UTF-8 bytes), length <= hi *)
| SBool
| SArr (fs : slist)                (* [f1, ..., fn], fixed arity *)
| SMap (fs : klist)                (* {k: v}, distinct uint keys, in the writer's order *)
| SVar (alts : vlist)              (* [index, fields...] *)
| SArrOf (lo : N) (s : schema)     (* definite array of at least lo items *)
| SSetOf (s : schema)              (* #6.258([* s]), pairwise distinct *)
| SMapOf (lo : N) (ord : key_order) (k v : schema)   (* definite map with at least lo entries *)
| SNullable (s : schema)           (* null / s *)
| STag (t : N) (s : schema)        (* #6.t(s) *)
| SInBytes (s : schema)            (* bytes .cbor s *)
| SChoice (alts : clist)           (* alternatives told apart by the major type of the first byte *)
| STagChoice (alts : clist)        (* #6.t_i(s_i): alternatives told apart by the tag number *)
| SArrAny (s : schema)             (* array of s, definite (VAlt 0) or indefinite with break (VAlt 1): PlutusList *)
| SBBytes                          (* bounded bytes: definite when <= 64 bytes, else indefinite with 64-byte chunks *)
| SNamed (id : N) (s : schema)     (* s, with a name the generator and the domain refinement can refer to *)
| SArrOpt (fs : slist) (o : schema) (* [f1, ..., fn] (VAlt 0 (VList l)) or [f1, ..., fn, o] (VAlt 1 (VList (x :: l)), x the
                                      trailing item): the legacy transaction output with its optional data hash *)
with slist := SNil | SCons (s : schema) (r : slist)
with klist := KNil | KCons (key : N) (p : presence) (s : schema) (r : klist)
with vlist := ANil | ACons (idx : N) (fs : slist) (r : vlist)
with clist := CNil | CCons (d : N) (s : schema) (r : clist).

Inductive val :=
| VNat (n : N)
| VNeg (n : N)                      (* the integer -1-n *)
| VBytes (b : bytes)
| VText (b : bytes)
| VBool (b : bool)
| VNull
| VList (l : list val)              (* SArr fields; SArrOf / SSetOf items *)
| VStruct (l : list (option val))   (* SMap: one slot per field of the schema *)
| VVar (i : nat) (l : list val)     (* SVar: i-th alternative and its fields *)
| VMap (l : list (val * val))       (* SMapOf, in wire order *)
| VAlt (i : nat) (v : val).         (* SChoice / STagChoice: i-th alternative *)

Fixpoint klen (fs : klist) : N := match fs with KNil => 0 | KCons _ _ _ r => 1 + klen r end.
Fixpoint slen (fs : slist) : N := match fs with SNil => 0 | SCons _ r => 1 + slen r end.

(* ---- the major type an encoding starts with (None: depends on the value) ---- *)
Fixpoint first_major (s : schema) : option N :=
  match s with
  | SUint _ => Some 0 | SNint => Some 1 | SBytes _ _ => Some 2 | SText _ => Some 3 | SBool => Some 7
  | SArr _ => Some 4 | SMap _ => Some 5 | SVar _ => Some 4 | SArrOf _ _ => Some 4 | SSetOf _ => Some 6
  | SMapOf _ _ _ _ => Some 5 | SNullable _ => None | STag _ _ => Some 6 | SInBytes _ => Some 2
  | SChoice _ => None | STagChoice _ => Some 6 | SArrAny _ => Some 4 | SBBytes => Some 2
  | SNamed _ s' => first_major s'
  | SArrOpt _ _ => Some 4
  end.

(* can an encoding start with a byte of major type 7 (so that it could be mistaken for a break)? *)
Fixpoint has_disc (d : N) (alts : clist) : bool :=
  match alts with CNil => false | CCons e _ r => (d =? e) || has_disc d r end.
Fixpoint may_start7 (s : schema) : bool :=
  match s with
  | SBool => true | SNullable _ => true | SChoice alts => has_disc 7 alts | SNamed _ s' => may_start7 s' | _ => false
  end.

(* write_bounded_bytes: chunks of 64 bytes, each written as a definite byte string *)
Fixpoint chunk64 (fuel : nat) (b : bytes) : list bytes :=
  match fuel with
  | O => []
  | S f => match b with [] => [] | _ => firstn 64 b :: chunk64 f (skipn 64 b) end
  end.
Definition enc_chunk (c : bytes) : bytes := encode_head 2 (N.of_nat (length c)) ++ c.

(* ---- encoder ---- *)
Definition enc_uint (n : N) : bytes := encode_head 0 n.
Definition is_empty_val (v : val) : bool :=
  match v with
  | VList [] => true | VMap [] => true
  | VAlt _ (VList []) => true | VAlt _ (VMap []) => true     (* a collection behind a choice of wire forms *)
  | _ => false
  end.
(* is the field written?  (opt64 / opt64_non_empty in the Rust map-length computations) *)
Definition present (p : presence) (o : option val) : bool :=
  match o with
  | None => false
  | Some v => match p with OptNE => negb (is_empty_val v) | _ => true end
  end.

Fixpoint count_kl (fs : klist) (l : list (option val)) {struct fs} : N :=
  match fs, l with
  | KCons _ p _ r, o :: t => (if present p o then 1 else 0) + count_kl r t
  | _, _ => 0
  end.

Fixpoint enc (s : schema) (v : val) {struct s} : bytes :=
  match s, v with
  | SUint _, VNat n => encode_head 0 n
  | SNint, VNeg n => encode_head 1 n
  | SBytes _ _, VBytes b => encode_head 2 (N.of_nat (length b)) ++ b
  | SText _, VText b => encode_head 3 (N.of_nat (length b)) ++ b
  | SBool, VBool b => [if b then 245 else 244]
  | SArr fs, VList l => encode_head 4 (slen fs) ++ enc_sl fs l
  | SMap fs, VStruct l => encode_head 5 (count_kl fs l) ++ enc_kl fs l
  | SVar alts, VVar i l => enc_vl alts i l
  | SArrOf _ s', VList l => encode_head 4 (N.of_nat (length l)) ++ concat (map (enc s') l)
  | SSetOf s', VList l => encode_head 6 258 ++ encode_head 4 (N.of_nat (length l)) ++ concat (map (enc s') l)
  | SMapOf _ _ k v', VMap l =>
      encode_head 5 (N.of_nat (length l)) ++ concat (map (fun kv => enc k (fst kv) ++ enc v' (snd kv)) l)
  | SNullable s', VNull => [246]
  | SNullable s', v' => enc s' v'
  | STag t s', v' => encode_head 6 t ++ enc s' v'
  | SInBytes s', v' => let b := enc s' v' in encode_head 2 (N.of_nat (length b)) ++ b
  | SChoice alts, VAlt i v' => enc_cl false alts i v'
  | STagChoice alts, VAlt i v' => enc_cl true alts i v'
  | SArrAny s', VAlt O (VList l) => encode_head 4 (N.of_nat (length l)) ++ concat (map (enc s') l)
  | SArrAny s', VAlt (S O) (VList l) => 159 :: concat (map (enc s') l) ++ [255]
  | SBBytes, VBytes b =>
      if N.of_nat (length b) <=? 64 then encode_head 2 (N.of_nat (length b)) ++ b
      else 95 :: concat (map enc_chunk (chunk64 (length b) b)) ++ [255]
  | SNamed _ s', v' => enc s' v'
  | SArrOpt fs o, VAlt O (VList l) => encode_head 4 (slen fs) ++ enc_sl fs l
  | SArrOpt fs o, VAlt (S O) (VList (x :: l)) => encode_head 4 (1 + slen fs) ++ enc_sl fs l ++ enc o x
  | _, _ => []
  end
with enc_sl (fs : slist) (l : list val) {struct fs} : bytes :=
  match fs, l with
  | SCons s r, v :: t => enc s v ++ enc_sl r t
  | _, _ => []
  end
with enc_kl (fs : klist) (l : list (option val)) {struct fs} : bytes :=
  match fs, l with
  | KCons k p s r, o :: t =>
      (match o with
       | Some v => if present p o then enc_uint k ++ enc s v else []
       | None => []
       end) ++ enc_kl r t
  | _, _ => []
  end
with enc_vl (alts : vlist) (i : nat) (l : list val) {struct alts} : bytes :=
  match alts with
  | ANil => []
  | ACons idx fs r =>
      match i with
      | O => encode_head 4 (1 + slen fs) ++ enc_uint idx ++ enc_sl fs l
      | S i' => enc_vl r i' l
      end
  end
with enc_cl (tagged : bool) (alts : clist) (i : nat) (v : val) {struct alts} : bytes :=
  match alts with
  | CNil => []
  | CCons d s r =>
      match i with
      | O => (if tagged then encode_head 6 d else []) ++ enc s v
      | S i' => enc_cl tagged r i' v
      end
  end.

(* ---- well-formed schemas ---- *)
(* keys of a map-struct: pairwise distinct, listed in the order the writer emits them (ascending for
   every type except the witness set, which writes 0,1,2,3,6,7,4,5) *)
Fixpoint key_fresh (k : N) (fs : klist) : bool :=
  match fs with KNil => true | KCons j _ _ r => negb (k =? j) && key_fresh k r end.
Fixpoint keys_nodup (fs : klist) : bool :=
  match fs with
  | KNil => true
  | KCons k _ _ r => key_fresh k r && (k <? two64) && keys_nodup r
  end.
Fixpoint idx_fresh (i : N) (alts : vlist) : bool :=
  match alts with ANil => true | ACons j _ r => negb (i =? j) && idx_fresh i r end.
Fixpoint disc_fresh (d : N) (alts : clist) : bool :=
  match alts with CNil => true | CCons e _ r => negb (d =? e) && disc_fresh d r end.
Definition not_major7 (s : schema) : bool :=
  match first_major s with Some m => negb (m =? 7) | None => false end.

Fixpoint wfs (s : schema) : bool :=
  match s with
  | SUint lim => lim <=? two64
  | SNint | SBool => true
  | SBytes lo hi => hi <? two64
  | SText hi => hi <? two64
  | SArr fs => wfs_sl fs && (slen fs <? two64)
  | SMap fs => wfs_kl fs && keys_nodup fs && (klen fs <? two64)
  | SVar alts => wfs_vl alts
  | SArrOf _ s' => wfs s'
  | SSetOf s' => wfs s'
  | SMapOf _ _ k v => wfs k && wfs v
  | SNullable s' => wfs s' && negb (may_start7 s')
  | STag t s' => (t <? two64) && wfs s'
  | SInBytes s' => wfs s'
  | SChoice alts => wfs_cl false alts
  | STagChoice alts => wfs_cl true alts
  | SArrAny s' => wfs s' && negb (may_start7 s')
  | SBBytes => true
  | SNamed _ s' => wfs s'
  | SArrOpt fs o => wfs_sl fs && wfs o && (1 + slen fs <? two64)
  end
with wfs_sl (fs : slist) : bool :=
  match fs with SNil => true | SCons s r => wfs s && wfs_sl r end
with wfs_kl (fs : klist) : bool :=
  match fs with KNil => true | KCons _ _ s r => wfs s && wfs_kl r end
with wfs_vl (alts : vlist) : bool :=
  match alts with
  | ANil => true
  | ACons i fs r => (i <? two64) && wfs_sl fs && (1 + slen fs <? two64) && idx_fresh i r && wfs_vl r
  end
with wfs_cl (tagged : bool) (alts : clist) : bool :=
  match alts with
  | CNil => true
  | CCons d s r =>
      wfs s && disc_fresh d r && wfs_cl tagged r &&
      (if tagged then d <? two64
       else match first_major s with Some m => m =? d | None => false end)
  end.

(* ---- well-formed values of a schema (the domain of the round-trip theorem) ---- *)
Definition bytes_okb (b : bytes) : bool := forallb (fun x => x <? 256) b.
Fixpoint nodupb (l : list bytes) : bool :=
  match l with
  | [] => true
  | x :: t => negb (existsb (fun y => if list_eq_dec N.eq_dec x y then true else false) t) && nodupb t
  end.
(* strict lexicographic order on byte strings: the order of BTreeMap keys as seen on the wire *)
Fixpoint bytes_ltb (a b : bytes) : bool :=
  match a, b with
  | [], [] => false
  | [], _ :: _ => true
  | _ :: _, [] => false
  | x :: a', y :: b' => (x <? y) || ((x =? y) && bytes_ltb a' b')
  end.
Fixpoint sortedb (l : list bytes) : bool :=
  match l with
  | x :: ((y :: _) as t) => bytes_ltb x y && sortedb t
  | _ => true
  end.

(* 0x58 0x1d h hash  |->  network, kind, hash *)
Definition reward_sort_key (e : bytes) : bytes :=
  match e with a :: b :: h :: t => (h mod 16) :: (h / 16) :: t | _ => e end.

Fixpoint wfv (s : schema) (v : val) {struct s} : bool :=
  match s, v with
  | SUint lim, VNat n => n <? lim
  | SNint, VNeg n => n <? two64
  | SBytes lo hi, VBytes b => bytes_okb b && (lo <=? N.of_nat (length b)) && (N.of_nat (length b) <=? hi)
  | SText hi, VText b => bytes_okb b && (N.of_nat (length b) <=? hi)
  | SBool, VBool _ => true
  | SArr fs, VList l => wfv_sl fs l
  | SMap fs, VStruct l => wfv_kl fs l
  | SVar alts, VVar i l => wfv_vl alts i l
  | SArrOf lo s', VList l => forallb (wfv s') l && (lo <=? N.of_nat (length l)) && (N.of_nat (length l) <? two64)
  | SSetOf s', VList l => forallb (wfv s') l && nodupb (map (enc s') l) && (N.of_nat (length l) <? two64)
  | SMapOf lo ord k v', VMap l =>
      forallb (fun kv => wfv k (fst kv) && wfv v' (snd kv)) l && (lo <=? N.of_nat (length l)) &&
      (N.of_nat (length l) <? two64) &&
      (match ord with
       | KInsertion => nodupb (map (fun kv => enc k (fst kv)) l)
       | KBytewise => sortedb (map (fun kv => enc k (fst kv)) l)
       | KRewardAddr => sortedb (map (fun kv => reward_sort_key (enc k (fst kv))) l)
       | KMulti => true
       end)
  | SNullable s', VNull => true
  | SNullable s', v' => wfv s' v'
  | STag _ s', v' => wfv s' v'
  | SInBytes s', v' => wfv s' v' && (N.of_nat (length (enc s' v')) <? two64)
  | SChoice alts, VAlt i v' => wfv_cl alts i v'
  | STagChoice alts, VAlt i v' => wfv_cl alts i v'
  | SArrAny s', VAlt O (VList l) => forallb (wfv s') l && (N.of_nat (length l) <? two64)
  | SArrAny s', VAlt (S O) (VList l) => forallb (wfv s') l
  | SBBytes, VBytes b => bytes_okb b
  | SNamed _ s', v' => wfv s' v'
  | SArrOpt fs o, VAlt O (VList l) => wfv_sl fs l
  | SArrOpt fs o, VAlt (S O) (VList (x :: l)) => wfv_sl fs l && wfv o x
  | _, _ => false
  end
with wfv_sl (fs : slist) (l : list val) {struct fs} : bool :=
  match fs, l with
  | SNil, [] => true
  | SCons s r, v :: t => wfv s v && wfv_sl r t
  | _, _ => false
  end
with wfv_kl (fs : klist) (l : list (option val)) {struct fs} : bool :=
  match fs, l with
  | KNil, [] => true
  | KCons _ p s r, o :: t =>
      (match o with
       | Some v => wfv s v && (match p with OptNE => negb (is_empty_val v) | _ => true end)
       | None => match p with Req => false | _ => true end
       end) && wfv_kl r t
  | _, _ => false
  end
with wfv_vl (alts : vlist) (i : nat) (l : list val) {struct alts} : bool :=
  match alts with
  | ANil => false
  | ACons _ fs r => match i with O => wfv_sl fs l | S i' => wfv_vl r i' l end
  end
with wfv_cl (alts : clist) (i : nat) (v : val) {struct alts} : bool :=
  match alts with
  | CNil => false
  | CCons _ s r => match i with O => wfv s v | S i' => wfv_cl r i' v end
  end.

(* ---- decoder ---- *)
Definition parser (A : Type) := bytes -> result (A * bytes).

Definition dec_head_m (m : N) : parser N := fun bs =>
  match decode_head bs with
  | Some (m', Arg n, r) => if m' =? m then Ok (n, r) else Err
  | _ => Err
  end.
Definition take_bytes (n : N) : parser bytes := fun bs =>
  if N.of_nat (length bs) <? n then Err
  else match split_at (N.to_nat n) bs with Some (p, r) => Ok (p, r) | None => Err end.
Definition peek_major (bs : bytes) : option N :=
  match bs with b :: _ => Some (b / 32) | [] => None end.

(* n items with the same parser; the caller guarantees n <= length of the input *)
Fixpoint dec_n {A} (p : parser A) (n : nat) : parser (list A) := fun bs =>
  match n with
  | O => Ok ([], bs)
  | S n' => let* '(x, r) := p bs in let* '(xs, r') := dec_n p n' r in Ok (x :: xs, r')
  end.
Definition dec_counted {A} (p : parser A) (n : N) : parser (list A) := fun bs =>
  if N.of_nat (length bs) <? n then Err else dec_n p (N.to_nat n) bs.

(* items until a break byte; fuel = length of the input + 1, and every step must make progress,
   so the OutOfFuel branch is unreachable (lemma dec_until_break_fuel) *)
Fixpoint dec_until_break {A} (p : parser A) (fuel : nat) : parser (list A) := fun bs =>
  match fuel with
  | O => OutOfFuel
  | S f =>
    match bs with
    | [] => Err
    | b :: r =>
      if b =? 255 then Ok ([], r)
      else let* '(x, r') := p bs in
           if (length r' <? length bs)%nat then
             let* '(xs, r'') := dec_until_break p f r' in Ok (x :: xs, r'')
           else Err
    end
  end.
(* one chunk of an indefinite byte string: definite, at most 64 bytes *)
Definition dec_chunk : parser bytes := fun bs =>
  let* '(n, r) := dec_head_m 2 bs in
  if n <=? 64 then take_bytes n r else Err.

Fixpoint dec (s : schema) {struct s} : parser val :=
  match s with
  | SUint lim => fun bs => let* '(n, r) := dec_head_m 0 bs in if n <? lim then Ok (VNat n, r) else Err
  | SNint => fun bs => let* '(n, r) := dec_head_m 1 bs in Ok (VNeg n, r)
  | SBytes lo hi => fun bs =>
      let* '(n, r) := dec_head_m 2 bs in
      if (lo <=? n) && (n <=? hi) then let* '(b, r') := take_bytes n r in Ok (VBytes b, r') else Err
  | SText hi => fun bs =>
      let* '(n, r) := dec_head_m 3 bs in
      if n <=? hi then let* '(b, r') := take_bytes n r in Ok (VText b, r') else Err
  | SBool => fun bs =>
      match bs with
      | b :: r => if b =? 244 then Ok (VBool false, r) else if b =? 245 then Ok (VBool true, r) else Err
      | [] => Err
      end
  | SArr fs => fun bs =>
      let* '(n, r) := dec_head_m 4 bs in
      if n =? slen fs then let* '(l, r') := dec_sl fs r in Ok (VList l, r') else Err
  | SMap fs => fun bs =>
      let* '(n, r) := dec_head_m 5 bs in
      let* '(l, rem, r') := dec_kl fs n r in
      if rem =? 0 then Ok (VStruct l, r') else Err
  | SVar alts => fun bs =>
      let* '(n, r) := dec_head_m 4 bs in
      let* '(idx, r') := dec_head_m 0 r in
      dec_vl alts idx n O r'
  | SArrOf lo s' => fun bs =>
      let* '(n, r) := dec_head_m 4 bs in
      if lo <=? n then let* '(l, r') := dec_counted (dec s') n r in Ok (VList l, r') else Err
  | SSetOf s' => fun bs =>
      let* '(t, r0) := dec_head_m 6 bs in
      if t =? 258 then
        let* '(n, r) := dec_head_m 4 r0 in
        let* '(l, r') := dec_counted (dec s') n r in Ok (VList l, r')
      else Err
  | SMapOf lo _ k v => fun bs =>
      let* '(n, r) := dec_head_m 5 bs in
      if lo <=? n then
        let* '(l, r') := dec_counted (fun b => let* '(x, b1) := dec k b in let* '(y, b2) := dec v b1 in Ok ((x, y), b2)) n r in
        Ok (VMap l, r')
      else Err
  | SNullable s' => fun bs =>
      match bs with
      | b :: r => if b =? 246 then Ok (VNull, r) else dec s' bs
      | [] => Err
      end
  | STag t s' => fun bs =>
      let* '(t', r) := dec_head_m 6 bs in
      if t' =? t then dec s' r else Err
  | SInBytes s' => fun bs =>
      let* '(n, r) := dec_head_m 2 bs in
      let* '(b, r') := take_bytes n r in
      match dec s' b with
      | Ok (v, []) => Ok (v, r')
      | _ => Err
      end
  | SChoice alts => fun bs =>
      match peek_major bs with
      | Some m => dec_cl alts m O bs
      | None => Err
      end
  | STagChoice alts => fun bs =>
      let* '(t, r) := dec_head_m 6 bs in dec_cl alts t O r
  | SArrAny s' => fun bs =>
      match decode_head bs with
      | Some (m, Arg n, r) =>
          if m =? 4 then let* '(l, r') := dec_counted (dec s') n r in Ok (VAlt 0 (VList l), r') else Err
      | Some (m, Indef, r) =>
          if m =? 4 then let* '(l, r') := dec_until_break (dec s') (S (length r)) r in Ok (VAlt 1 (VList l), r') else Err
      | None => Err
      end
  | SBBytes => fun bs =>
      match decode_head bs with
      | Some (m, Arg n, r) =>
          if (m =? 2) && (n <=? 64) then let* '(b, r') := take_bytes n r in Ok (VBytes b, r') else Err
      | Some (m, Indef, r) =>
          if m =? 2 then let* '(cs, r') := dec_until_break dec_chunk (S (length r)) r in Ok (VBytes (concat cs), r') else Err
      | None => Err
      end
  | SNamed _ s' => dec s'
  | SArrOpt fs o => fun bs =>
      let* '(n, r) := dec_head_m 4 bs in
      if n =? slen fs then let* '(l, r') := dec_sl fs r in Ok (VAlt 0 (VList l), r')
      else if n =? 1 + slen fs then
        let* '(l, r1) := dec_sl fs r in let* '(x, r2) := dec o r1 in Ok (VAlt 1 (VList (x :: l)), r2)
      else Err
  end
with dec_sl (fs : slist) {struct fs} : parser (list val) :=
  match fs with
  | SNil => fun bs => Ok ([], bs)
  | SCons s r => fun bs => let* '(v, b1) := dec s bs in let* '(l, b2) := dec_sl r b1 in Ok (v :: l, b2)
  end
with dec_kl (fs : klist) {struct fs} : N -> bytes -> result (list (option val) * N * bytes) :=
  match fs with
  | KNil => fun rem bs => Ok ([], rem, bs)
  | KCons k p s r => fun rem bs =>
      let here :=
        if rem =? 0 then None
        else match dec_head_m 0 bs with
             | Ok (k', b1) => if k' =? k then Some b1 else None
             | _ => None
             end in
      match here with
      | Some b1 =>
          let* '(v, b2) := dec s b1 in
          if (match p with OptNE => is_empty_val v | _ => false end) then Err   (* the writers never emit it *)
          else let* '(l, rem', b3) := dec_kl r (rem - 1) b2 in Ok (Some v :: l, rem', b3)
      | None =>
          match p with
          | Req => Err
          | _ => let* '(l, rem', b3) := dec_kl r rem bs in Ok (None :: l, rem', b3)
          end
      end
  end
with dec_vl (alts : vlist) {struct alts} : N -> N -> nat -> parser val :=
  match alts with
  | ANil => fun _ _ _ _ => Err
  | ACons i fs r => fun idx n pos bs =>
      if idx =? i then
        if n =? 1 + slen fs then let* '(l, b1) := dec_sl fs bs in Ok (VVar pos l, b1) else Err
      else dec_vl r idx n (S pos) bs
  end
with dec_cl (alts : clist) {struct alts} : N -> nat -> parser val :=
  match alts with
  | CNil => fun _ _ _ => Err
  | CCons d s r => fun disc pos bs =>
      if disc =? d then let* '(v, b1) := dec s bs in Ok (VAlt pos v, b1)
      else dec_cl r disc (S pos) bs
  end.

(* ---- domain refinement ----
   [refined r s v]: the predicate [r id] holds at every node named [id] inside a schema-valid value.
   Used (outside the round-trip theorem, which holds on all of wfv) to delimit the values the
   library's WRITERS can produce when a constraint spans several fields. *)
Fixpoint refined (r : N -> val -> bool) (s : schema) (v : val) {struct s} : bool :=
  match s, v with
  | SArr fs, VList l => refined_sl r fs l
  | SMap fs, VStruct l => refined_kl r fs l
  | SVar alts, VVar i l => refined_vl r alts i l
  | SArrOf _ s', VList l => forallb (refined r s') l
  | SSetOf s', VList l => forallb (refined r s') l
  | SMapOf _ _ k v', VMap l => forallb (fun kv => refined r k (fst kv) && refined r v' (snd kv)) l
  | SNullable s', VNull => true
  | SNullable s', v' => refined r s' v'
  | STag _ s', v' => refined r s' v'
  | SInBytes s', v' => refined r s' v'
  | SChoice alts, VAlt i v' => refined_cl r alts i v'
  | STagChoice alts, VAlt i v' => refined_cl r alts i v'
  | SArrAny s', VAlt _ (VList l) => forallb (refined r s') l
  | SNamed id s', v' => r id v' && refined r s' v'
  | SArrOpt fs o, VAlt O (VList l) => refined_sl r fs l
  | SArrOpt fs o, VAlt (S O) (VList (x :: l)) => refined_sl r fs l && refined r o x
  | _, _ => true
  end
with refined_sl (r : N -> val -> bool) (fs : slist) (l : list val) {struct fs} : bool :=
  match fs, l with
  | SCons s t, v :: t' => refined r s v && refined_sl r t t'
  | _, _ => true
  end
with refined_kl (r : N -> val -> bool) (fs : klist) (l : list (option val)) {struct fs} : bool :=
  match fs, l with
  | KCons _ _ s t, o :: t' => (match o with Some v => refined r s v | None => true end) && refined_kl r t t'
  | _, _ => true
  end
with refined_vl (r : N -> val -> bool) (alts : vlist) (i : nat) (l : list val) {struct alts} : bool :=
  match alts with
  | ANil => true
  | ACons _ fs t => match i with O => refined_sl r fs l | S i' => refined_vl r t i' l end
  end
with refined_cl (r : N -> val -> bool) (alts : clist) (i : nat) (v : val) {struct alts} : bool :=
  match alts with
  | CNil => true
  | CCons _ s t => match i with O => refined r s v | S i' => refined_cl r t i' v end
  end.
