(* Values built through the public API that are NOT in the image of the decoders: an optional collection
   field set to a present-but-empty collection.  The writers skip such a field (and do not count it in the
   map length), so the decoder returns the value with the field absent: [norm] is that normalisation
   ("an empty optional collection counts as absent because that is how the wire format writes it"),
   [wfa] is the domain of API-buildable values (as [wfv], without the non-emptiness condition on
   OptNE fields), and [api_judge] is the executable round-trip statement the correspondence run evaluates
   on the implementation's own bytes.  Model definitions only (proofs in SchemaApiProofs.v). *)
From CSL Require Import Base.Prelude Cbor.Head Codec.Schema.
Local Open Scope N_scope.

Fixpoint norm (s : schema) (v : val) {struct s} : val :=
  match s, v with
  | SArr fs, VList l => VList (norm_sl fs l)
  | SMap fs, VStruct l => VStruct (norm_kl fs l)
  | SVar alts, VVar i l => VVar i (norm_vl alts i l)
  | SArrOf _ s', VList l => VList (map (norm s') l)
  | SSetOf s', VList l => VList (map (norm s') l)
  | SMapOf _ _ k v', VMap l => VMap (map (fun kv => (norm k (fst kv), norm v' (snd kv))) l)
  | SNullable s', VNull => VNull
  | SNullable s', v' => norm s' v'
  | STag _ s', v' => norm s' v'
  | SInBytes s', v' => norm s' v'
  | SChoice alts, VAlt i v' => VAlt i (norm_cl alts i v')
  | STagChoice alts, VAlt i v' => VAlt i (norm_cl alts i v')
  | SArrAny s', VAlt i (VList l) => VAlt i (VList (map (norm s') l))
  | SNamed _ s', v' => norm s' v'
  | SArrOpt fs o, VAlt O (VList l) => VAlt 0 (VList (norm_sl fs l))
  | SArrOpt fs o, VAlt (S O) (VList (x :: l)) => VAlt 1 (VList (norm o x :: norm_sl fs l))
  | _, v' => v'
  end
with norm_sl (fs : slist) (l : list val) {struct fs} : list val :=
  match fs, l with
  | SCons s r, v :: t => norm s v :: norm_sl r t
  | _, l' => l'
  end
with norm_kl (fs : klist) (l : list (option val)) {struct fs} : list (option val) :=
  match fs, l with
  | KCons _ p s r, o :: t =>
      (match o with
       | Some v => let v' := norm s v in
                   if (match p with OptNE => is_empty_val v' | _ => false end) then None else Some v'
       | None => None
       end) :: norm_kl r t
  | _, l' => l'
  end
with norm_vl (alts : vlist) (i : nat) (l : list val) {struct alts} : list val :=
  match alts with
  | ANil => l
  | ACons _ fs r => match i with O => norm_sl fs l | S i' => norm_vl r i' l end
  end
with norm_cl (alts : clist) (i : nat) (v : val) {struct alts} : val :=
  match alts with
  | CNil => v
  | CCons _ s r => match i with O => norm s v | S i' => norm_cl r i' v end
  end.

(* API-buildable values: [wfv] without "an OptNE field that is present is non-empty" *)
Fixpoint wfa (s : schema) (v : val) {struct s} : bool :=
  match s, v with
  | SUint lim, VNat n => n <? lim
  | SNint, VNeg n => n <? two64
  | SBytes lo hi, VBytes b => bytes_okb b && (lo <=? N.of_nat (length b)) && (N.of_nat (length b) <=? hi)
  | SText hi, VText b => bytes_okb b && (N.of_nat (length b) <=? hi)
  | SBool, VBool _ => true
  | SArr fs, VList l => wfa_sl fs l
  | SMap fs, VStruct l => wfa_kl fs l
  | SVar alts, VVar i l => wfa_vl alts i l
  | SArrOf lo s', VList l => forallb (wfa s') l && (lo <=? N.of_nat (length l)) && (N.of_nat (length l) <? two64)
  | SSetOf s', VList l => forallb (wfa s') l && nodupb (map (enc s') l) && (N.of_nat (length l) <? two64)
  | SMapOf lo ord k v', VMap l =>
      forallb (fun kv => wfa k (fst kv) && wfa v' (snd kv)) l && (lo <=? N.of_nat (length l)) &&
      (N.of_nat (length l) <? two64) &&
      (match ord with
       | KInsertion => nodupb (map (fun kv => enc k (fst kv)) l)
       | KBytewise => sortedb (map (fun kv => enc k (fst kv)) l)
       | KRewardAddr => sortedb (map (fun kv => reward_sort_key (enc k (fst kv))) l)
       | KMulti => true
       end)
  | SNullable s', VNull => true
  | SNullable s', v' => wfa s' v'
  | STag _ s', v' => wfa s' v'
  | SInBytes s', v' => wfa s' v' && (N.of_nat (length (enc s' v')) <? two64)
  | SChoice alts, VAlt i v' => wfa_cl alts i v'
  | STagChoice alts, VAlt i v' => wfa_cl alts i v'
  | SArrAny s', VAlt O (VList l) => forallb (wfa s') l && (N.of_nat (length l) <? two64)
  | SArrAny s', VAlt (S O) (VList l) => forallb (wfa s') l
  | SBBytes, VBytes b => bytes_okb b
  | SNamed _ s', v' => wfa s' v'
  | SArrOpt fs o, VAlt O (VList l) => wfa_sl fs l
  | SArrOpt fs o, VAlt (S O) (VList (x :: l)) => wfa_sl fs l && wfa o x
  | _, _ => false
  end
with wfa_sl (fs : slist) (l : list val) {struct fs} : bool :=
  match fs, l with
  | SNil, [] => true
  | SCons s r, v :: t => wfa s v && wfa_sl r t
  | _, _ => false
  end
with wfa_kl (fs : klist) (l : list (option val)) {struct fs} : bool :=
  match fs, l with
  | KNil, [] => true
  | KCons _ p s r, o :: t =>
      (match o with
       | Some v => wfa s v
       | None => match p with Req => false | _ => true end
       end) && wfa_kl r t
  | _, _ => false
  end
with wfa_vl (alts : vlist) (i : nat) (l : list val) {struct alts} : bool :=
  match alts with
  | ANil => false
  | ACons _ fs r => match i with O => wfa_sl fs l | S i' => wfa_vl r i' l end
  end
with wfa_cl (alts : clist) (i : nat) (v : val) {struct alts} : bool :=
  match alts with
  | CNil => false
  | CCons _ s r => match i with O => wfa s v | S i' => wfa_cl r i' v end
  end.

(* ---- the executable statement evaluated on the implementation (correspondence stream (ii)) ----
   x built through the API, b = x.to_bytes():
     obs_decoded      T::from_bytes(b) succeeded with some y
     obs_re           y.to_bytes()
     obs_clean        the library's own identities held: y == x where no normalisation applies,
                      T::from_bytes(re) == y and re-encodes to re, to_hex / from_hex agree with the byte entry points *)
Fixpoint bytes_eqb (a b : bytes) : bool :=
  match a, b with
  | [], [] => true
  | x :: a', y :: b' => (x =? y) && bytes_eqb a' b'
  | _, _ => false
  end.
Definition api_holds (b : bytes) (obs_decoded : bool) (obs_re : bytes) (obs_clean : bool) : bool :=
  obs_decoded && bytes_eqb obs_re b && obs_clean.
(* the model's side of the same case: the implementation's bytes are a complete encoding of a value in the
   domain of the round-trip theorem which is its own normal form and re-encodes to exactly these bytes *)
Definition api_model_accepts (s : schema) (b : bytes) : option bytes :=
  match dec s b with
  | Ok (v, []) => if wfv s v then Some (enc s v) else None
  | _ => None
  end.

(* ---- stream (iii): decode, mutate through a setter, encode ----
   [field_bytes s v k]: the bytes under key [k] of the map-struct at the root of [v] (through choices, names and tags),
   None when the field is absent or not written, or when the root is not in map form (e.g. a legacy array output).
   The judge compares them with the stand-alone serialisation of what the setter was given. *)
Fixpoint field_kl (fs : klist) (l : list (option val)) (k : N) : option bytes :=
  match fs, l with
  | KCons k' p s r, o :: t =>
      if k' =? k then match o with Some v => if present p o then Some (enc s v) else None | None => None end
      else field_kl r t k
  | _, _ => None
  end.
Fixpoint field_bytes (s : schema) (v : val) (k : N) {struct s} : option bytes :=
  match s, v with
  | SMap fs, VStruct l => field_kl fs l k
  | SNamed _ s', v' => field_bytes s' v' k
  | STag _ s', v' => field_bytes s' v' k
  | SChoice alts, VAlt i v' => field_cl alts i v' k
  | _, _ => None
  end
with field_cl (alts : clist) (i : nat) (v : val) (k : N) {struct alts} : option bytes :=
  match alts with
  | CNil => None
  | CCons _ s r => match i with O => field_bytes s v k | S i' => field_cl r i' v k end
  end.
(* the field the model finds in the complete decoding of [b] *)
Definition api_model_field (s : schema) (b : bytes) (k : N) : option bytes :=
  match dec s b with
  | Ok (v, []) => field_bytes s v k
  | _ => None
  end.
