(* The decoder as the library really behaves on repeated / unordered container entries, and the domain it lands in.

   [Codec/Schema.v]'s [dec] reads the wire shape only.  What the Rust decoders do with the entries of a container
   depends on the container kind (rust/src/serialization/**, C16 proved the behaviour on repeats for the set types):
     * set types (TransactionInputs, Certificates, Ed25519KeyHashes, Credentials, Vkeywitnesses, BootstrapWitnesses,
       VotingProposals, witness-set script / datum sets): `add_move` of every item - a repeated item is dropped
       SILENTLY, the first occurrence stays, order of first occurrences is kept            -> [dedup_first]
     * maps backed by a BTreeMap (MultiAsset, Assets, MintAssets, Costmdls, VotingProcedures, Committee members, ...):
       entries are inserted, a repeated key is a DuplicateKey error, iteration (= re-encoding) is in key order
                                                                                             -> [sort_strict]
     * maps backed by a LinkedHashMap (Withdrawals, metadata maps, ProposedProtocolParameterUpdates, MIR, aux-data set):
       insertion order is kept, a repeated key is a DuplicateKey error                       -> [nodupb] check
     * maps backed by a Vec of pairs (Mint, Redeemers in map form, PlutusMap): everything is kept (KMulti)
     * map-structs: duplicate keys are rejected by the key loop ([dec_kl] already does).
   [canon s v] applies exactly that to a value read by [dec]; [sdec s] = [dec s] followed by [canon s] is the decoder
   the theorems of SchemaSoundProofs.v speak about:  sdec s bs = Ok (v, rest) -> wfv s v   (decoder soundness), hence
   sdec s (enc s v ++ rest') = Ok (v, rest')  for every decoded v  (decode-then-encode is idempotent).
   Two checks of [canon] never fire on real input and only spare the proofs a size argument: a .cbor-in-bytes item whose
   re-encoding would be 2^64 bytes long, and an OptNE field that is empty after normalisation (dropping repeats or sorting
   never empties a collection; [dec_kl] has already rejected an empty one).
   Model definitions only. *)
From CSL Require Import Base.Prelude Cbor.Head Codec.Schema.
Local Open Scope N_scope.

Definition beqb (a b : bytes) : bool := if list_eq_dec N.eq_dec a b then true else false.

(* first occurrences, in order (C16: `add_move` keeps the first of equal items) *)
Fixpoint dedup_first {A} (key : A -> bytes) (l : list A) : list A :=
  match l with
  | [] => []
  | x :: t => x :: filter (fun y => negb (beqb (key x) (key y))) (dedup_first key t)
  end.

(* BTreeMap: insertion into the strictly sorted list; an equal key is an error *)
Fixpoint ins_sorted {A} (key : A -> bytes) (x : A) (l : list A) : option (list A) :=
  match l with
  | [] => Some [x]
  | y :: t =>
      if bytes_ltb (key x) (key y) then Some (x :: y :: t)
      else if bytes_ltb (key y) (key x) then
        match ins_sorted key x t with Some t' => Some (y :: t') | None => None end
      else None
  end.
Fixpoint sort_strict {A} (key : A -> bytes) (l : list A) : option (list A) :=
  match l with
  | [] => Some []
  | x :: t => match sort_strict key t with Some t' => ins_sorted key x t' | None => None end
  end.

Fixpoint mapM {A B} (f : A -> option B) (l : list A) : option (list B) :=
  match l with
  | [] => Some []
  | x :: t => match f x, mapM f t with Some y, Some t' => Some (y :: t') | _, _ => None end
  end.
Definition omap {A B} (f : A -> B) (o : option A) : option B := match o with Some a => Some (f a) | None => None end.

Fixpoint canon (s : schema) (v : val) {struct s} : option val :=
  match s, v with
  | SArr fs, VList l => omap VList (canon_sl fs l)
  | SMap fs, VStruct l => omap VStruct (canon_kl fs l)
  | SVar alts, VVar i l => omap (VVar i) (canon_vl alts i l)
  | SArrOf _ s', VList l => omap VList (mapM (canon s') l)
  | SSetOf s', VList l => omap (fun l' => VList (dedup_first (enc s') l')) (mapM (canon s') l)
  | SMapOf _ ord k v', VMap l =>
      match mapM (fun kv => match canon k (fst kv), canon v' (snd kv) with
                            | Some a, Some b => Some (a, b) | _, _ => None end) l with
      | Some l' =>
          match ord with
          | KMulti => Some (VMap l')
          | KInsertion => if nodupb (map (fun kv => enc k (fst kv)) l') then Some (VMap l') else None
          | KBytewise => omap VMap (sort_strict (fun kv => enc k (fst kv)) l')
          | KRewardAddr => omap VMap (sort_strict (fun kv => reward_sort_key (enc k (fst kv))) l')
          end
      | None => None
      end
  | SNullable s', VNull => Some VNull
  | SNullable s', v' => canon s' v'
  | STag _ s', v' => canon s' v'
  | SInBytes s', v' =>
      match canon s' v' with
      | Some w => if N.of_nat (length (enc s' w)) <? two64 then Some w else None
      | None => None
      end
  | SChoice alts, VAlt i v' => omap (VAlt i) (canon_cl alts i v')
  | STagChoice alts, VAlt i v' => omap (VAlt i) (canon_cl alts i v')
  | SArrAny s', VAlt i (VList l) => omap (fun l' => VAlt i (VList l')) (mapM (canon s') l)
  | SNamed _ s', v' => canon s' v'
  | SArrOpt fs o, VAlt O (VList l) => omap (fun l' => VAlt 0 (VList l')) (canon_sl fs l)
  | SArrOpt fs o, VAlt (S O) (VList (x :: l)) =>
      match canon o x, canon_sl fs l with Some x', Some l' => Some (VAlt 1 (VList (x' :: l'))) | _, _ => None end
  | _, v' => Some v'
  end
with canon_sl (fs : slist) (l : list val) {struct fs} : option (list val) :=
  match fs, l with
  | SCons s r, v :: t => match canon s v, canon_sl r t with Some v', Some t' => Some (v' :: t') | _, _ => None end
  | _, l' => Some l'
  end
with canon_kl (fs : klist) (l : list (option val)) {struct fs} : option (list (option val)) :=
  match fs, l with
  | KCons _ p s r, o :: t =>
      match (match o with
             | Some v => match canon s v with
                         | Some w => if (match p with OptNE => is_empty_val w | _ => false end) then None else Some (Some w)
                         | None => None
                         end
             | None => Some None
             end), canon_kl r t with
      | Some o', Some t' => Some (o' :: t')
      | _, _ => None
      end
  | _, l' => Some l'
  end
with canon_vl (alts : vlist) (i : nat) (l : list val) {struct alts} : option (list val) :=
  match alts with
  | ANil => Some l
  | ACons _ fs r => match i with O => canon_sl fs l | S i' => canon_vl r i' l end
  end
with canon_cl (alts : clist) (i : nat) (v : val) {struct alts} : option val :=
  match alts with
  | CNil => Some v
  | CCons _ s r => match i with O => canon s v | S i' => canon_cl r i' v end
  end.

(* the decoder the soundness theorem is about *)
Definition sdec (s : schema) : parser val := fun bs =>
  let* '(v, r) := dec s bs in
  match canon s v with Some v' => Ok (v', r) | None => Err end.

(* what the wire-shape decoder [dec] alone guarantees: [wfv] without the conditions on repeats / order of container
   entries and without the size bound of a .cbor-in-bytes re-encoding *)
Fixpoint wfp (s : schema) (v : val) {struct s} : bool :=
  match s, v with
  | SUint lim, VNat n => n <? lim
  | SNint, VNeg n => n <? two64
  | SBytes lo hi, VBytes b => bytes_okb b && (lo <=? N.of_nat (length b)) && (N.of_nat (length b) <=? hi)
  | SText hi, VText b => bytes_okb b && (N.of_nat (length b) <=? hi)
  | SBool, VBool _ => true
  | SArr fs, VList l => wfp_sl fs l
  | SMap fs, VStruct l => wfp_kl fs l
  | SVar alts, VVar i l => wfp_vl alts i l
  | SArrOf lo s', VList l => forallb (wfp s') l && (lo <=? N.of_nat (length l)) && (N.of_nat (length l) <? two64)
  | SSetOf s', VList l => forallb (wfp s') l && (N.of_nat (length l) <? two64)
  | SMapOf lo ord k v', VMap l =>
      forallb (fun kv => wfp k (fst kv) && wfp v' (snd kv)) l && (lo <=? N.of_nat (length l)) &&
      (N.of_nat (length l) <? two64)
  | SNullable s', VNull => true
  | SNullable s', v' => wfp s' v'
  | STag _ s', v' => wfp s' v'
  | SInBytes s', v' => wfp s' v'
  | SChoice alts, VAlt i v' => wfp_cl alts i v'
  | STagChoice alts, VAlt i v' => wfp_cl alts i v'
  | SArrAny s', VAlt O (VList l) => forallb (wfp s') l && (N.of_nat (length l) <? two64)
  | SArrAny s', VAlt (S O) (VList l) => forallb (wfp s') l
  | SBBytes, VBytes b => bytes_okb b
  | SNamed _ s', v' => wfp s' v'
  | SArrOpt fs o, VAlt O (VList l) => wfp_sl fs l
  | SArrOpt fs o, VAlt (S O) (VList (x :: l)) => wfp_sl fs l && wfp o x
  | _, _ => false
  end
with wfp_sl (fs : slist) (l : list val) {struct fs} : bool :=
  match fs, l with
  | SNil, [] => true
  | SCons s r, v :: t => wfp s v && wfp_sl r t
  | _, _ => false
  end
with wfp_kl (fs : klist) (l : list (option val)) {struct fs} : bool :=
  match fs, l with
  | KNil, [] => true
  | KCons _ p s r, o :: t =>
      (match o with
       | Some v => wfp s v
       | None => match p with Req => false | _ => true end
       end) && wfp_kl r t
  | _, _ => false
  end
with wfp_vl (alts : vlist) (i : nat) (l : list val) {struct alts} : bool :=
  match alts with
  | ANil => false
  | ACons _ fs r => match i with O => wfp_sl fs l | S i' => wfp_vl r i' l end
  end
with wfp_cl (alts : clist) (i : nat) (v : val) {struct alts} : bool :=
  match alts with
  | CNil => false
  | CCons _ s r => match i with O => wfp s v | S i' => wfp_cl r i' v end
  end.

(* the model's side of the implementation -> model direction: the bytes are a complete encoding that the library-faithful
   decoder accepts and that re-encodes to exactly these bytes (by C01_dec_sound the decoded value is in the domain of the
   round-trip theorems, so everything they say applies to it) *)
Definition sdec_accepts (s : schema) (b : bytes) : option bytes :=
  match sdec s b with
  | Ok (v, []) => Some (enc s v)
  | _ => None
  end.
