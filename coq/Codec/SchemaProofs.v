(* Generic round-trip theorem for the schema-directed codec: ONE proof for every schema. *)
From CSL Require Import Base.Prelude Cbor.Head Cbor.HeadProofs Codec.Schema.
Local Open Scope N_scope.

Scheme schema_ind' := Induction for schema Sort Prop
  with slist_ind' := Induction for slist Sort Prop
  with klist_ind' := Induction for klist Sort Prop
  with vlist_ind' := Induction for vlist Sort Prop
  with clist_ind' := Induction for clist Sort Prop.
Combined Scheme schema_mutind from schema_ind', slist_ind', klist_ind', vlist_ind', clist_ind'.

(* ---------- primitive lemmas ---------- *)
Lemma encode_head_first m n : exists c t, encode_head m n = (m * 32 + c) :: t /\ c < 32.
Proof.
  unfold encode_head.
  destruct (n <? 24) eqn:E; [exists n, []; split; [reflexivity|lia]|].
  destruct (n <? 256); [exists 24, (be 1 n); split; [reflexivity|lia]|].
  destruct (n <? 65536); [exists 25, (be 2 n); split; [reflexivity|lia]|].
  destruct (n <? 4294967296); [exists 26, (be 4 n)|exists 27, (be 8 n)]; split; try reflexivity; lia.
Qed.

Lemma encode_head_major m n : exists b t, encode_head m n = b :: t /\ b / 32 = m.
Proof.
  destruct (encode_head_first m n) as (c & t & -> & Hc). exists (m * 32 + c), t. split; [reflexivity|].
  apply (initial_byte m c Hc).
Qed.

Lemma dec_head_m_enc m n rest : n < two64 -> dec_head_m m (encode_head m n ++ rest) = Ok (n, rest).
Proof. intros H. unfold dec_head_m. rewrite decode_encode_head by exact H. rewrite N.eqb_refl. reflexivity. Qed.

Lemma take_bytes_app b rest : take_bytes (N.of_nat (length b)) (b ++ rest) = Ok (b, rest).
Proof.
  unfold take_bytes. rewrite app_length.
  destruct (N.of_nat (length b + length rest) <? N.of_nat (length b)) eqn:E; [lia|].
  rewrite Nat2N.id. rewrite split_at_app by reflexivity. reflexivity.
Qed.

Lemma dec_n_roundtrip {A} (p : parser A) (e : A -> bytes) (l : list A) rest :
  (forall x r, In x l -> p (e x ++ r) = Ok (x, r)) ->
  dec_n p (length l) (concat (map e l) ++ rest) = Ok (l, rest).
Proof.
  induction l as [|x t IH]; intros H; cbn [length dec_n map concat app]; [reflexivity|].
  rewrite <- app_assoc. rewrite H by (left; reflexivity). cbn [bind].
  rewrite IH by (intros y r Hy; apply H; right; exact Hy). reflexivity.
Qed.

Lemma concat_length_ge {A} (e : A -> bytes) (l : list A) :
  (forall x, In x l -> (1 <= length (e x))%nat) -> (length l <= length (concat (map e l)))%nat.
Proof.
  induction l as [|x t IH]; intros H; cbn [map concat length]; [lia|].
  rewrite app_length. specialize (H x (or_introl eq_refl)) as Hx.
  specialize (IH (fun y Hy => H y (or_intror Hy))). lia.
Qed.

Lemma dec_counted_roundtrip {A} (p : parser A) (e : A -> bytes) (l : list A) rest :
  (forall x r, In x l -> p (e x ++ r) = Ok (x, r)) ->
  (forall x, In x l -> (1 <= length (e x))%nat) ->
  dec_counted p (N.of_nat (length l)) (concat (map e l) ++ rest) = Ok (l, rest).
Proof.
  intros H1 H2. unfold dec_counted. rewrite app_length.
  pose proof (concat_length_ge e l H2).
  destruct (N.of_nat (length (concat (map e l)) + length rest) <? N.of_nat (length l)) eqn:E; [lia|].
  rewrite Nat2N.id. apply dec_n_roundtrip. exact H1.
Qed.

Lemma forallb_In {A} (f : A -> bool) l x : forallb f l = true -> In x l -> f x = true.
Proof. intros H Hx. rewrite forallb_forall in H. apply H. exact Hx. Qed.

(* ---------- first byte of an encoding ---------- *)
Definition fb_ok (s : schema) (bs : bytes) : Prop :=
  exists b t, bs = b :: t /\ (forall m, first_major s = Some m -> b / 32 = m) /\
              (may_start7 s = false -> b / 32 <> 7).

Lemma fb_head s m n t : first_major s = Some m -> m <> 7 -> fb_ok s (encode_head m n ++ t).
Proof.
  intros Hs H7. destruct (encode_head_major m n) as (b & t' & -> & Hb).
  exists b, (t' ++ t). rewrite Hs. split; [reflexivity|]. split; [intros m' E; injection E as <-; exact Hb|].
  intros _. rewrite Hb. exact H7.
Qed.
Lemma fb_head0 s m n : first_major s = Some m -> m <> 7 -> fb_ok s (encode_head m n).
Proof. intros H H7. rewrite <- (app_nil_r (encode_head m n)). apply fb_head; assumption. Qed.

Definition FB (s : schema) : Prop := wfs s = true -> forall v, wfv s v = true -> fb_ok s (enc s v).
Definition FBv (alts : vlist) : Prop :=
  forall i l, wfv_vl alts i l = true -> exists b t, enc_vl alts i l = b :: t /\ b / 32 = 4.
Definition FBc (alts : clist) : Prop :=
  forall tagged, wfs_cl tagged alts = true -> forall i v, wfv_cl alts i v = true ->
  exists b t, enc_cl tagged alts i v = b :: t /\ (tagged = true -> b / 32 = 6) /\
              (tagged = false -> has_disc (b / 32) alts = true).

Lemma first_byte_all :
  (forall s, FB s) /\ (forall fs : slist, True) /\ (forall fs : klist, True) /\ (forall a, FBv a) /\ (forall a, FBc a).
Proof.
  apply schema_mutind; unfold FB, FBv, FBc; try (intros; exact I).
  - (* SUint *) intros bits _ v Hv. destruct v; try discriminate. apply (fb_head0 (SUint bits) 0 n); [reflexivity|lia].
  - intros _ v Hv. destruct v; try discriminate. apply (fb_head0 SNint 1 n); [reflexivity|lia].
  - intros lo hi _ v Hv. destruct v; try discriminate. apply (fb_head (SBytes lo hi) 2); [reflexivity|lia].
  - intros hi _ v Hv. destruct v; try discriminate. apply (fb_head (SText hi) 3); [reflexivity|lia].
  - intros _ v Hv. destruct v; try discriminate.
    destruct b; eexists _, _; (split; [reflexivity|]); (split; [intros m E; injection E as <-; reflexivity|discriminate]).
  - intros fs _ _ v Hv. destruct v; try discriminate. apply (fb_head (SArr fs) 4); [reflexivity|lia].
  - intros fs _ _ v Hv. destruct v; try discriminate. apply (fb_head (SMap fs) 5); [reflexivity|lia].
  - intros alts IH _ v Hv. destruct v; try discriminate. cbn [enc wfv] in *.
    destruct (IH i l Hv) as (b & t & -> & Hb). exists b, t. split; [reflexivity|].
    split; [intros m E; injection E as <-; exact Hb|]. intros _. rewrite Hb. lia.
  - intros lo s _ _ v Hv. destruct v; try discriminate. apply (fb_head (SArrOf lo s) 4); [reflexivity|lia].
  - intros s _ _ v Hv. destruct v; try discriminate. apply (fb_head (SSetOf s) 6); [reflexivity|lia].
  - intros lo ord k _ v' _ _ v Hv. destruct v; try discriminate. apply (fb_head (SMapOf lo ord k v') 5); [reflexivity|lia].
  - (* SNullable *) intros s IH Hs v Hv. cbn [wfs] in Hs. apply andb_prop in Hs as [Hs _].
    destruct v; cbn [enc wfv] in Hv |- *;
      try (destruct (IH Hs _ Hv) as (b' & t' & E & _); exists b', t'; split; [exact E|]; split; [discriminate|discriminate]).
    exists 246, []. split; [reflexivity|]. split; discriminate.
  - intros t s _ _ v Hv. cbn [enc]. apply (fb_head (STag t s) 6); [reflexivity|lia].
  - intros s _ _ v Hv. cbn [enc]. apply (fb_head (SInBytes s) 2); [reflexivity|lia].
  - (* SChoice *) intros alts IH Hs v Hv. destruct v; try discriminate. cbn [enc wfv wfs] in *.
    destruct (IH false Hs i v Hv) as (b & t & -> & _ & Hd). exists b, t. split; [reflexivity|].
    split; [discriminate|]. cbn [may_start7]. intros H7 E. rewrite E in Hd. rewrite (Hd eq_refl) in H7. discriminate.
  - intros alts IH Hs v Hv. destruct v; try discriminate. cbn [enc wfv wfs] in *.
    destruct (IH true Hs i v Hv) as (b & t & -> & Hb & _). exists b, t. split; [reflexivity|].
    split; [intros m E; injection E as <-; apply Hb; reflexivity|]. intros _. rewrite (Hb eq_refl). lia.
  - (* SArrAny *) intros s _ _ v Hv. destruct v as [| | | | | | | | | |i v]; try discriminate.
    destruct i as [|[|i]]; destruct v; try discriminate; cbn [enc].
    + apply (fb_head (SArrAny s) 4); [reflexivity|lia].
    + eexists _, _. split; [reflexivity|]. split; [intros m E; injection E as <-; reflexivity|intros _; discriminate].
  - (* SBBytes *) intros _ v Hv. destruct v; try discriminate. cbn [enc].
    destruct (N.of_nat (length b) <=? 64).
    + apply (fb_head SBBytes 2); [reflexivity|lia].
    + eexists _, _. split; [reflexivity|]. split; [intros m E; injection E as <-; reflexivity|intros _; discriminate].
  - (* SNamed *) intros id s IH Hs v Hv. cbn [enc wfs wfv] in *. destruct (IH Hs v Hv) as (b & t & E & H1 & H2).
    exists b, t. split; [exact E|]. split; [exact H1|exact H2].
  - (* SArrOpt *) intros fs _ o _ _ v Hv. destruct v as [| | | | | | | | | |i v]; try discriminate.
    destruct i as [|[|i]]; destruct v as [| | | | | |l| | | |]; try discriminate; cbn [enc].
    + apply (fb_head (SArrOpt fs o) 4); [reflexivity|lia].
    + destruct l as [|x l]; [discriminate|]. apply (fb_head (SArrOpt fs o) 4); [reflexivity|lia].
  - (* ANil *) intros i l H. discriminate.
  - (* ACons *) intros idx fs _ r IH i l H. cbn [wfv_vl enc_vl] in *. destruct i as [|i'].
    + destruct (encode_head_major 4 (1 + slen fs)) as (b & t & -> & Hb). eexists _, _. split; [reflexivity|exact Hb].
    + apply IH. exact H.
  - (* CNil *) intros tagged _ i v H. discriminate.
  - (* CCons *) intros d s IHs r IHr tagged Hw i v H. cbn [wfs_cl wfv_cl enc_cl] in *.
    apply andb_prop in Hw as [Hw Hd]. apply andb_prop in Hw as [Hw Hr]. apply andb_prop in Hw as [Hs Hf].
    destruct i as [|i'].
    + destruct tagged.
      * destruct (encode_head_major 6 d) as (b & t & -> & Hb). eexists _, _. split; [reflexivity|].
        split; [intros _; exact Hb|discriminate].
      * destruct (IHs Hs v H) as (b & t & -> & Hm & _). exists b, t. split; [reflexivity|]. split; [discriminate|].
        intros _. destruct (first_major s) as [m|]; [|discriminate]. rewrite (Hm m eq_refl).
        cbn [has_disc]. assert (m = d) by lia. subst m. rewrite N.eqb_refl. reflexivity.
    + destruct (IHr tagged Hr i' v H) as (b & t & E & H6 & Hh). exists b, t. split; [exact E|]. split; [exact H6|].
      intros Ht. cbn [has_disc]. rewrite (Hh Ht). apply orb_true_r.
Qed.

Lemma first_byte s v : wfs s = true -> wfv s v = true -> fb_ok s (enc s v).
Proof. intros Hs Hv. exact (proj1 first_byte_all s Hs v Hv). Qed.

Lemma enc_nonempty s v : wfs s = true -> wfv s v = true -> (1 <= length (enc s v))%nat.
Proof. intros Hs Hv. destruct (first_byte s v Hs Hv) as (b & t & -> & _). cbn. lia. Qed.

Lemma enc_not_break s v : wfs s = true -> wfv s v = true -> may_start7 s = false ->
  exists b t, enc s v = b :: t /\ b <> 255.
Proof.
  intros Hs Hv H7. destruct (first_byte s v Hs Hv) as (b & t & E & _ & Hn). exists b, t. split; [exact E|].
  intros ->. apply (Hn H7). reflexivity.
Qed.

(* ---------- indefinite-length loops ---------- *)
Lemma dec_until_break_roundtrip {A} (p : parser A) (e : A -> bytes) (l : list A) :
  forall fuel rest,
  (forall x r, In x l -> p (e x ++ r) = Ok (x, r)) ->
  (forall x, In x l -> exists b t, e x = b :: t /\ b <> 255) ->
  (length (concat (map e l)) < fuel)%nat ->
  dec_until_break p fuel (concat (map e l) ++ 255 :: rest) = Ok (l, rest).
Proof.
  induction l as [|x t IH]; intros fuel rest H1 H2 Hf.
  - destruct fuel as [|f]; [cbn in Hf; lia|]. cbn [map concat app dec_until_break].
    change (255 =? 255) with true. reflexivity.
  - destruct fuel as [|f]; [cbn in Hf; lia|].
    cbn [map concat] in *. rewrite app_length in Hf.
    destruct (H2 x (or_introl eq_refl)) as (b & tl & Ex & Hb).
    rewrite <- app_assoc. cbn [dec_until_break].
    remember (concat (map e t) ++ 255 :: rest) as tail eqn:Et.
    assert (Hbs : e x ++ tail = b :: (tl ++ tail)) by (rewrite Ex; reflexivity).
    rewrite Hbs. destruct (b =? 255) eqn:E255; [lia|]. rewrite <- Hbs.
    rewrite H1 by (left; reflexivity). cbn [bind].
    assert (Hlt : (length tail <? length (e x ++ tail))%nat = true).
    { rewrite app_length, Ex. cbn [length]. apply Nat.ltb_lt. lia. }
    rewrite Hlt. subst tail. rewrite IH; [reflexivity| | |].
    + intros y r Hy. apply H1. right; exact Hy.
    + intros y Hy. apply H2. right; exact Hy.
    + rewrite Ex in Hf. cbn [length] in Hf. lia.
Qed.

(* fuel = length of the input + 1 is always enough: OutOfFuel is unreachable *)
Lemma dec_until_break_fuel {A} (p : parser A) :
  (forall bs, p bs <> OutOfFuel) ->
  forall fuel bs, (length bs < fuel)%nat -> dec_until_break p fuel bs <> OutOfFuel.
Proof.
  intros Hp. induction fuel as [|f IH]; intros bs Hf; [lia|]. cbn [dec_until_break].
  destruct bs as [|b r]; [discriminate|]. destruct (b =? 255); [discriminate|].
  destruct (p (b :: r)) as [[x r']| | |] eqn:E; cbn [bind]; try discriminate; [|exfalso; exact (Hp _ E)].
  destruct (length r' <? length (b :: r))%nat eqn:El; [|discriminate].
  apply Nat.ltb_lt in El. specialize (IH r' ltac:(lia)).
  destruct (dec_until_break p f r') as [[xs r'']| | |]; cbn [bind]; try discriminate. exact IH.
Qed.

Lemma chunk64_concat fuel : forall b, (length b <= fuel)%nat -> concat (chunk64 fuel b) = b.
Proof.
  induction fuel as [|f IH]; intros b Hb.
  - destruct b; [reflexivity|cbn in Hb; lia].
  - cbn [chunk64]. destruct b as [|x t] eqn:E; [reflexivity|]. rewrite <- E in *.
    cbn [concat]. rewrite IH; [apply firstn_skipn|].
    rewrite skipn_length. subst b. cbn [length] in *. lia.
Qed.

Lemma chunk64_bounds fuel : forall b c, In c (chunk64 fuel b) -> (1 <= length c <= 64)%nat.
Proof.
  induction fuel as [|f IH]; intros b c Hc; [destruct Hc|].
  cbn [chunk64] in Hc. destruct b as [|x t] eqn:E; [destruct Hc|]. rewrite <- E in *.
  destruct Hc as [<-|Hc]; [|exact (IH _ _ Hc)].
  rewrite firstn_length. subst b. cbn [length]. lia.
Qed.

Lemma decode_head_indef_arr r : decode_head (159 :: r) = Some (4, Indef, r).
Proof. reflexivity. Qed.
Lemma decode_head_indef_bytes r : decode_head (95 :: r) = Some (2, Indef, r).
Proof. reflexivity. Qed.

Lemma dec_chunk_enc c r : (length c <= 64)%nat -> dec_chunk (enc_chunk c ++ r) = Ok (c, r).
Proof.
  intros Hc. unfold dec_chunk, enc_chunk. rewrite <- app_assoc.
  rewrite dec_head_m_enc by (unfold two64; lia). cbn [bind].
  destruct (N.of_nat (length c) <=? 64) eqn:E; [|lia]. apply take_bytes_app.
Qed.

(* ---------- map-struct helpers ---------- *)
Lemma present_wf p s o :
  (match o with
   | Some v => wfv s v && (match p with OptNE => negb (is_empty_val v) | _ => true end)
   | None => match p with Req => false | _ => true end
   end) = true ->
  present p o = match o with Some _ => true | None => false end.
Proof.
  destruct o as [v|]; [|reflexivity]. intros H. apply andb_prop in H as [_ H].
  unfold present. destruct p; try reflexivity. exact H.
Qed.

Lemma count_kl_le fs : forall l, count_kl fs l <= klen fs.
Proof.
  induction fs as [|k p s r IH]; intros l; cbn [count_kl klen]; [lia|].
  destruct l as [|o t]; [lia|]. specialize (IH t). destruct (present p o); lia.
Qed.

Fixpoint key_in (k : N) (fs : klist) : bool :=
  match fs with KNil => false | KCons j _ _ r => (k =? j) || key_in k r end.

Lemma key_fresh_in k j fs : key_fresh k fs = true -> key_in j fs = true -> (j =? k) = false.
Proof.
  induction fs as [|i p s r IH]; cbn [key_fresh key_in]; [discriminate|].
  intros Hf Hi. apply andb_prop in Hf as [Hk Hf]. apply negb_true_iff in Hk.
  apply orb_prop in Hi as [Hi|Hi]; [|exact (IH Hf Hi)].
  destruct (j =? k) eqn:E; [|reflexivity]. lia.
Qed.

Lemma next_key fs : forall l, keys_nodup fs = true -> wfv_kl fs l = true -> count_kl fs l <> 0 ->
  exists k' tail, key_in k' fs = true /\ k' < two64 /\ enc_kl fs l = enc_uint k' ++ tail.
Proof.
  induction fs as [|k p s r IH]; intros l Hk Hv Hc; [cbn in Hc; congruence|].
  destruct l as [|o t]; [cbn in Hv; discriminate|].
  cbn [keys_nodup wfv_kl count_kl enc_kl key_in] in *.
  apply andb_prop in Hk as [Hk Hr]. apply andb_prop in Hk as [Hfr Hk64].
  apply andb_prop in Hv as [Ho Ht].
  rewrite (present_wf p s o Ho) in *.
  destruct o as [v|].
  - exists k, (enc s v ++ enc_kl r t). rewrite N.eqb_refl. repeat split; try lia. rewrite <- app_assoc. reflexivity.
  - destruct (IH t Hr Ht ltac:(lia)) as (k' & tail & Hnk1 & Hnk2 & Hnk3).
    exists k', tail. rewrite Hnk1, orb_true_r. repeat split; try lia. cbn [app]. exact Hnk3.
Qed.

(* ---------- the round-trip theorem ---------- *)
Definition RT (s : schema) : Prop :=
  wfs s = true -> forall v rest, wfv s v = true -> dec s (enc s v ++ rest) = Ok (v, rest).
Definition RTs (fs : slist) : Prop :=
  wfs_sl fs = true -> forall l rest, wfv_sl fs l = true -> dec_sl fs (enc_sl fs l ++ rest) = Ok (l, rest).
Definition RTk (fs : klist) : Prop :=
  wfs_kl fs = true -> keys_nodup fs = true -> forall l rest, wfv_kl fs l = true ->
  dec_kl fs (count_kl fs l) (enc_kl fs l ++ rest) = Ok (l, 0, rest).
Definition RTv (alts : vlist) : Prop :=
  wfs_vl alts = true -> forall i l, wfv_vl alts i l = true ->
  exists idx n body, enc_vl alts i l = encode_head 4 n ++ enc_uint idx ++ body /\ n < two64 /\ idx < two64 /\
    (forall j, idx_fresh j alts = true -> (idx =? j) = false) /\
    forall rest pos, dec_vl alts idx n pos (body ++ rest) = Ok (VVar (pos + i) l, rest).
Definition RTc (alts : clist) : Prop :=
  forall tagged, wfs_cl tagged alts = true -> forall i v, wfv_cl alts i v = true ->
  exists d body, enc_cl tagged alts i v = (if tagged then encode_head 6 d else []) ++ body /\
    (tagged = true -> d < two64) /\
    (tagged = false -> exists b t, body = b :: t /\ b / 32 = d) /\
    (forall e, disc_fresh e alts = true -> (d =? e) = false) /\
    forall rest pos, dec_cl alts d pos (body ++ rest) = Ok (VAlt (pos + i) v, rest).

Ltac split_ands :=
  repeat match goal with
         | H : (_ && _) = true |- _ => apply andb_prop in H; destruct H
         end.
Ltac split_and H := split_ands.
Ltac rw_hyps := repeat match goal with H : ?b = true |- context [?b] => rewrite H end.

Lemma roundtrip_all : (forall s, RT s) /\ (forall fs, RTs fs) /\ (forall fs, RTk fs) /\ (forall a, RTv a) /\ (forall a, RTc a).
Proof.
  apply schema_mutind; unfold RT, RTs, RTk, RTv, RTc.
  - (* SUint *) intros bits Hs v rest Hv. destruct v; try discriminate. cbn [enc dec wfv wfs] in *.
    assert (n < two64) by lia.
    rewrite dec_head_m_enc by assumption. cbn [bind]. rewrite Hv. reflexivity.
  - (* SNint *) intros _ v rest Hv. destruct v; try discriminate. cbn [enc dec wfv] in *.
    rewrite dec_head_m_enc by lia. reflexivity.
  - (* SBytes *) intros lo hi Hs v rest Hv. destruct v; try discriminate. cbn [enc dec wfv wfs] in *.
    split_and Hv. rewrite <- app_assoc. rewrite dec_head_m_enc by lia. cbn [bind].
    rw_hyps. cbn [andb]. rewrite take_bytes_app. reflexivity.
  - (* SText *) intros hi Hs v rest Hv. destruct v; try discriminate. cbn [enc dec wfv wfs] in *.
    split_and Hv. rewrite <- app_assoc. rewrite dec_head_m_enc by lia. cbn [bind].
    rw_hyps. rewrite take_bytes_app. reflexivity.
  - (* SBool *) intros _ v rest Hv. destruct v; try discriminate. destruct b; reflexivity.
  - (* SArr *) intros fs IH Hs v rest Hv. destruct v; try discriminate. cbn [enc dec wfv wfs] in *.
    split_and Hs. rewrite <- app_assoc. rewrite dec_head_m_enc by lia. cbn [bind]. rewrite N.eqb_refl.
    rewrite IH by assumption. reflexivity.
  - (* SMap *) intros fs IH Hs v rest Hv. destruct v; try discriminate. cbn [enc dec wfv wfs] in *.
    split_and Hs. pose proof (count_kl_le fs l).
    rewrite <- app_assoc. rewrite dec_head_m_enc by lia. cbn [bind].
    rewrite IH by assumption. cbn [bind]. reflexivity.
  - (* SVar *) intros alts IH Hs v rest Hv. destruct v; try discriminate. cbn [enc dec wfv wfs] in *.
    destruct (IH Hs i l Hv) as (idx & n & body & E & Hn & Hi & _ & D). rewrite E.
    rewrite <- !app_assoc. rewrite dec_head_m_enc by assumption. cbn [bind].
    unfold enc_uint. rewrite dec_head_m_enc by assumption. cbn [bind]. rewrite D. reflexivity.
  - (* SArrOf *) intros lo s IH Hs v rest Hv. destruct v; try discriminate. cbn [enc dec wfv wfs] in *.
    split_and Hv. rewrite <- app_assoc. rewrite dec_head_m_enc by lia. cbn [bind]. rw_hyps.
    rewrite dec_counted_roundtrip; [reflexivity| |].
    + intros x r Hx. apply IH; [assumption|]. eapply forallb_In; eassumption.
    + intros x Hx. apply enc_nonempty; [assumption|]. eapply forallb_In; eassumption.
  - (* SSetOf *) intros s IH Hs v rest Hv. destruct v; try discriminate. cbn [enc dec wfv wfs] in *.
    split_and Hv. rewrite <- !app_assoc. rewrite dec_head_m_enc by (unfold two64; lia). cbn [bind].
    change (258 =? 258) with true. cbv iota.
    rewrite dec_head_m_enc by lia. cbn [bind].
    rewrite dec_counted_roundtrip; [reflexivity| |].
    + intros x r Hx. apply IH; [assumption|]. eapply forallb_In; eassumption.
    + intros x Hx. apply enc_nonempty; [assumption|]. eapply forallb_In; eassumption.
  - (* SMapOf *) intros lo ord k IHk v' IHv Hs v rest Hv. destruct v; try discriminate. cbn [enc dec wfv wfs] in *.
    split_and Hs. split_and Hv. rewrite <- app_assoc. rewrite dec_head_m_enc by lia. cbn [bind]. rw_hyps.
    match goal with H : forallb _ l = true |- _ => rename H into Hall end.
    rewrite dec_counted_roundtrip; [reflexivity| |].
    + intros [x y] r Hx. pose proof (forallb_In _ _ _ Hall Hx) as Hxy. cbn [fst snd] in *. split_ands.
      rewrite <- app_assoc. rewrite IHk by assumption. cbn [bind]. rewrite IHv by assumption. reflexivity.
    + intros [x y] Hx. pose proof (forallb_In _ _ _ Hall Hx) as Hxy. cbn [fst snd] in *. split_ands.
      rewrite app_length. assert (1 <= length (enc k x))%nat by (apply enc_nonempty; assumption). lia.
  - (* SNullable *) intros s IH Hs v rest Hv. cbn [wfs] in Hs. split_and Hs.
    assert (Hgen : forall v0, wfv s v0 = true -> enc (SNullable s) v0 = enc s v0 \/ v0 = VNull).
    { intros v0 _. destruct v0; try (left; reflexivity). right; reflexivity. }
    destruct v; cbn [wfv] in Hv;
      try (cbn [enc dec];
           destruct (first_byte s _ ltac:(assumption) Hv) as (b' & t' & E & _ & Hb);
           match goal with H : negb (may_start7 s) = true |- _ => apply negb_true_iff in H; specialize (Hb H) end;
           rewrite E; cbn [app];
           destruct (b' =? 246) eqn:E246; [assert (b' = 246) by lia; subst b'; exfalso; apply Hb; reflexivity|];
           change (b' :: t' ++ rest) with ((b' :: t') ++ rest); rewrite <- E; apply IH; assumption).
    reflexivity.
  - (* STag *) intros t s IH Hs v rest Hv. cbn [enc dec wfv wfs] in *. split_and Hs.
    rewrite <- app_assoc. rewrite dec_head_m_enc by lia. cbn [bind]. rewrite N.eqb_refl. apply IH; assumption.
  - (* SInBytes *) intros s IH Hs v rest Hv. cbn [enc dec wfv wfs] in *. split_and Hv.
    rewrite <- app_assoc. rewrite dec_head_m_enc by lia. cbn [bind]. rewrite take_bytes_app. cbn [bind].
    rewrite <- (app_nil_r (enc s v)) at 1. rewrite IH by assumption. reflexivity.
  - (* SChoice *) intros alts IH Hs v rest Hv. destruct v; try discriminate. cbn [enc dec wfv wfs] in *.
    destruct (IH false Hs i v Hv) as (d & body & E & _ & Hb & _ & D). rewrite E. cbn [app].
    destruct (Hb eq_refl) as (b & t & -> & Hbd). cbn [app peek_major]. rewrite Hbd.
    change (b :: t ++ rest) with ((b :: t) ++ rest). rewrite D. reflexivity.
  - (* STagChoice *) intros alts IH Hs v rest Hv. destruct v; try discriminate. cbn [enc dec wfv wfs] in *.
    destruct (IH true Hs i v Hv) as (d & body & E & Hd & _ & _ & D). rewrite E.
    rewrite <- app_assoc. rewrite dec_head_m_enc by (apply Hd; reflexivity). cbn [bind]. rewrite D. reflexivity.
  - (* SArrAny *) intros s IH Hs v rest Hv. cbn [wfs] in Hs. split_ands.
    destruct v as [| | | | | | | | | |i v]; try discriminate.
    destruct i as [|[|i]]; destruct v; try discriminate; cbn [enc dec wfv] in *.
    + split_ands. rewrite <- app_assoc. rewrite decode_encode_head by lia. rewrite N.eqb_refl.
      rewrite dec_counted_roundtrip; [reflexivity| |].
      * intros x r Hx. apply IH; [assumption|]. eapply forallb_In; eassumption.
      * intros x Hx. apply enc_nonempty; [assumption|]. eapply forallb_In; eassumption.
    + cbn [app]. rewrite decode_head_indef_arr. rewrite N.eqb_refl. rewrite <- app_assoc. cbn [app].
      rewrite dec_until_break_roundtrip; [reflexivity| | |].
      * intros x r Hx. apply IH; [assumption|]. eapply forallb_In; eassumption.
      * intros x Hx. apply enc_not_break; [assumption| |].
        -- eapply forallb_In; eassumption.
        -- match goal with H : negb (may_start7 s) = true |- _ => apply negb_true_iff in H; exact H end.
      * rewrite app_length. cbn [length]. lia.
  - (* SBBytes *) intros _ v rest Hv. destruct v; try discriminate. cbn [enc dec].
    destruct (N.of_nat (length b) <=? 64) eqn:E64.
    + rewrite <- app_assoc. rewrite decode_encode_head by (unfold two64; lia). rewrite N.eqb_refl, E64. cbn [andb].
      rewrite take_bytes_app. reflexivity.
    + cbn [app]. rewrite decode_head_indef_bytes. rewrite N.eqb_refl. rewrite <- app_assoc. cbn [app].
      rewrite dec_until_break_roundtrip.
      * cbn [bind]. rewrite chunk64_concat by lia. reflexivity.
      * intros c r Hc. apply dec_chunk_enc. apply (chunk64_bounds _ _ _ Hc).
      * intros c Hc. unfold enc_chunk. destruct (encode_head_major 2 (N.of_nat (length c))) as (b0 & t0 & -> & Hb0).
        exists b0, (t0 ++ c). split; [reflexivity|]. intros ->. discriminate.
      * rewrite app_length. cbn [length]. lia.
  - (* SNamed *) intros id s IH Hs v rest Hv. cbn [enc dec wfs wfv] in *. apply IH; assumption.
  - (* SArrOpt *) intros fs IHfs o IHo Hs v rest Hv. cbn [wfs] in Hs. split_ands.
    destruct v as [| | | | | | | | | |i v]; try discriminate.
    destruct i as [|[|i]]; destruct v as [| | | | | |l| | | |]; try discriminate; cbn [enc dec wfv] in *.
    + rewrite <- app_assoc. rewrite dec_head_m_enc by lia. cbn [bind]. rewrite N.eqb_refl.
      rewrite IHfs by assumption. reflexivity.
    + destruct l as [|x l]; [discriminate|]. split_ands.
      rewrite <- !app_assoc. rewrite dec_head_m_enc by lia. cbn [bind].
      destruct (1 + slen fs =? slen fs) eqn:E; [lia|]. rewrite N.eqb_refl.
      rewrite IHfs by assumption. cbn [bind]. rewrite IHo by assumption. reflexivity.
  - (* SNil *) intros _ l rest Hv. destruct l; [reflexivity|discriminate].
  - (* SCons *) intros s IHs r IHr Hw l rest Hv. cbn [wfs_sl] in Hw. split_and Hw.
    destruct l as [|v t]; [discriminate|]. cbn [wfv_sl enc_sl dec_sl] in *. split_and Hv.
    rewrite <- app_assoc. rewrite IHs by assumption. cbn [bind]. rewrite IHr by assumption. reflexivity.
  - (* KNil *) intros _ _ l rest Hv. destruct l; [reflexivity|discriminate].
  - (* KCons *) intros k p s IHs r IHr Hw Hk l rest Hv. cbn [wfs_kl keys_nodup] in *. split_and Hw. split_and Hk.
    destruct l as [|o t]; [discriminate|]. cbn [wfv_kl count_kl enc_kl dec_kl] in *. split_and Hv.
    match goal with H : match o with Some _ => _ | None => _ end = true |- _ => rename H into Ho end.
    rewrite (present_wf p s o Ho).
    destruct o as [v|].
    + split_ands.
      destruct (1 + count_kl r t =? 0) eqn:E0; [lia|].
      rewrite <- !app_assoc. unfold enc_uint. rewrite dec_head_m_enc by lia. rewrite N.eqb_refl.
      rewrite IHs by assumption. cbn [bind].
      assert (Hemp : (match p with OptNE => is_empty_val v | _ => false end) = false).
      { destruct p; try reflexivity. apply negb_true_iff. assumption. }
      rewrite Hemp. replace (1 + count_kl r t - 1) with (count_kl r t) by lia.
      rewrite IHr by assumption. reflexivity.
    + cbn [app]. rewrite N.add_0_l.
      assert (Hhere : (if count_kl r t =? 0 then None
                       else match dec_head_m 0 (enc_kl r t ++ rest) with
                            | Ok (k', b1) => if k' =? k then Some b1 else None
                            | _ => None end) = None).
      { destruct (count_kl r t =? 0) eqn:E0; [reflexivity|].
        destruct (next_key r t ltac:(assumption) ltac:(assumption) ltac:(lia)) as (k' & tail & Hnk1 & Hnk2 & Hnk3).
        rewrite Hnk3. rewrite <- app_assoc. unfold enc_uint. rewrite dec_head_m_enc by assumption.
        rewrite (key_fresh_in k k' r) by assumption. reflexivity. }
      rewrite Hhere. destruct p; [discriminate| |];
        rewrite IHr by assumption; reflexivity.
  - (* ANil *) intros _ i l H. discriminate.
  - (* ACons *) intros idx fs IHfs r IHr Hw i l Hv. cbn [wfs_vl] in Hw. split_and Hw.
    cbn [wfv_vl enc_vl] in *. destruct i as [|i'].
    + exists idx, (1 + slen fs), (enc_sl fs l). repeat split; try lia; try reflexivity.
      * intros j Hj. cbn [idx_fresh] in Hj. apply andb_prop in Hj as [Hj _]. apply negb_true_iff in Hj. rewrite N.eqb_sym. exact Hj.
      * intros rest pos. cbn [dec_vl]. rewrite !N.eqb_refl. rewrite IHfs by assumption.
        cbn [bind]. rewrite Nat.add_0_r. reflexivity.
    + destruct (IHr ltac:(assumption) i' l Hv) as (idx' & n & body & E & Hn & Hi & Hf & D).
      exists idx', n, body. repeat split; try assumption.
      * intros j Hj. cbn [idx_fresh] in Hj. apply andb_prop in Hj as [_ Hj]. apply Hf. assumption.
      * intros rest pos. cbn [dec_vl]. rewrite (Hf idx ltac:(assumption)). rewrite D. rewrite Nat.add_succ_comm. reflexivity.
  - (* CNil *) intros tagged _ i v H. discriminate.
  - (* CCons *) intros d s IHs r IHr tagged Hw i v Hv. cbn [wfs_cl] in Hw. split_and Hw.
    cbn [wfv_cl enc_cl] in *. destruct i as [|i'].
    + exists d, (enc s v). repeat split.
      * intros ->. lia.
      * intros ->. destruct (first_byte s v ltac:(assumption) Hv) as (b & t & E & Hb & _).
        destruct (first_major s) as [m|]; [|discriminate]. specialize (Hb m eq_refl). exists b, t. split; [exact E|]. lia.
      * intros e He. cbn [disc_fresh] in He. apply andb_prop in He as [He _]. apply negb_true_iff in He. rewrite N.eqb_sym. exact He.
      * intros rest pos. cbn [dec_cl]. rewrite N.eqb_refl. rewrite IHs by assumption. cbn [bind].
        rewrite Nat.add_0_r. reflexivity.
    + destruct (IHr tagged ltac:(assumption) i' v Hv) as (d' & body & E & Hd & Hb & Hf & D).
      exists d', body. repeat split; try assumption.
      * intros e He. cbn [disc_fresh] in He. apply andb_prop in He as [_ He]. apply Hf. assumption.
      * intros rest pos. cbn [dec_cl]. rewrite (Hf d ltac:(assumption)). rewrite D. rewrite Nat.add_succ_comm. reflexivity.
Qed.

Theorem schema_roundtrip s v rest :
  wfs s = true -> wfv s v = true -> dec s (enc s v ++ rest) = Ok (v, rest).
Proof. intros Hs Hv. exact (proj1 roundtrip_all s Hs v rest Hv). Qed.

Corollary schema_reencode s v rest v' rest' :
  wfs s = true -> wfv s v = true -> dec s (enc s v ++ rest) = Ok (v', rest') -> enc s v' = enc s v /\ rest' = rest.
Proof. intros Hs Hv H. rewrite schema_roundtrip in H by assumption. injection H as <- <-. split; reflexivity. Qed.
