(* The round trip of API-built values: for every well-formed schema and every API-buildable value
   (an optional collection may be present but empty), decoding the encoding returns the NORMALISED
   value (such fields absent), which re-encodes to the same bytes; the normalisation changes nothing else. *)
From CSL Require Import Base.Prelude Cbor.Head Codec.Schema Codec.SchemaProofs Codec.SchemaApi.
Local Open Scope N_scope.

(* ---------- the normalisation keeps the outer shape of a value ---------- *)
Definition shape0 (v : val) : nat :=
  match v with
  | VList [] => 1 | VList _ => 2 | VMap [] => 3 | VMap _ => 4 | VNull => 8 | VAlt _ _ => 9 | _ => 0
  end%nat.
Definition shape (v : val) : nat :=
  match v with VAlt _ w => (10 + shape0 w)%nat | _ => shape0 v end.

Lemma shape0_of_shape v w : shape v = shape w -> shape0 v = shape0 w.
Proof.
  assert (E : forall x, shape0 x = if (10 <=? shape x)%nat then 9%nat else shape x).
  { intros x. destruct x as [| | | | | |l| | |l|i x]; try reflexivity.
    - destruct l; reflexivity.
    - destruct l; reflexivity. }
  intros H. rewrite !E, H. reflexivity.
Qed.
Lemma is_empty_shape v w : shape v = shape w -> is_empty_val v = is_empty_val w.
Proof.
  intros H.
  assert (E : forall x, is_empty_val x = match shape x with 1 | 3 | 11 | 13 => true | _ => false end%nat).
  { intros x. destruct x as [| | | | | |l| | |l|i x]; try reflexivity.
    - destruct l; reflexivity.
    - destruct l; reflexivity.
    - destruct x as [| | | | | |l| | |l|j y]; try reflexivity; destruct l; reflexivity. }
  rewrite !E, H. reflexivity.
Qed.
Lemma shape_list_len (a b : list val) : length a = length b -> shape (VList a) = shape (VList b).
Proof. destruct a, b; cbn; intros; try reflexivity; discriminate. Qed.
Lemma shape0_list_len (a b : list val) : length a = length b -> shape0 (VList a) = shape0 (VList b).
Proof. destruct a, b; cbn; intros; try reflexivity; discriminate. Qed.
Lemma shape_null v : shape v = shape VNull -> v = VNull.
Proof.
  destruct v as [| | | | | |l| | |l|i x]; cbn; intros H; try discriminate; try reflexivity.
  - destruct l; discriminate.
  - destruct l; discriminate.
Qed.

Definition SH (s : schema) : Prop := forall v, shape (norm s v) = shape v.
Definition SHs (fs : slist) : Prop := forall l, length (norm_sl fs l) = length l.
Definition SHc (alts : clist) : Prop := forall i v, shape (norm_cl alts i v) = shape v.

Lemma norm_shape_all :
  (forall s, SH s) /\ (forall fs, SHs fs) /\ (forall fs : klist, True) /\ (forall a : vlist, True) /\ (forall a, SHc a).
Proof.
  apply schema_mutind; unfold SH, SHs, SHc; try (intros; exact I).
  - intros lim v. destruct v; reflexivity.
  - intros v. destruct v; reflexivity.
  - intros lo hi v. destruct v; reflexivity.
  - intros hi v. destruct v; reflexivity.
  - intros v. destruct v; reflexivity.
  - (* SArr *) intros fs IH v. destruct v; try reflexivity. cbn [norm]. apply shape_list_len, IH.
  - (* SMap *) intros fs _ v. destruct v; reflexivity.
  - (* SVar *) intros alts _ v. destruct v; reflexivity.
  - (* SArrOf *) intros lo s _ v. destruct v; try reflexivity. cbn [norm]. apply shape_list_len, map_length.
  - (* SSetOf *) intros s _ v. destruct v; try reflexivity. cbn [norm]. apply shape_list_len, map_length.
  - (* SMapOf *) intros lo ord k _ v' _ v. destruct v; try reflexivity. cbn [norm]. destruct l; reflexivity.
  - (* SNullable *) intros s IH v. destruct v; try reflexivity; cbn [norm]; apply IH.
  - (* STag *) intros t s IH v. cbn [norm]. apply IH.
  - (* SInBytes *) intros s IH v. cbn [norm]. apply IH.
  - (* SChoice *) intros alts IH v. destruct v; try reflexivity. cbn [norm shape]. f_equal. apply shape0_of_shape, IH.
  - (* STagChoice *) intros alts IH v. destruct v; try reflexivity. cbn [norm shape]. f_equal. apply shape0_of_shape, IH.
  - (* SArrAny *) intros s _ v. destruct v as [| | | | | | | | | |i w]; try reflexivity.
    destruct w; try reflexivity. cbn [norm shape]. f_equal. apply shape0_list_len, map_length.
  - (* SBBytes *) intros v. destruct v; reflexivity.
  - (* SNamed *) intros id s IH v. cbn [norm]. apply IH.
  - (* SArrOpt *) intros fs IHfs o _ v. destruct v as [| | | | | | | | | |i w]; try reflexivity.
    destruct i as [|[|i]]; destruct w as [| | | | | |l| | | |]; try reflexivity; cbn [norm shape].
    + f_equal. apply shape0_list_len, IHfs.
    + destruct l as [|x l]; reflexivity.
  - (* SNil *) intros l. reflexivity.
  - (* SCons *) intros s _ r IHr l. destruct l as [|v t]; [reflexivity|]. cbn [norm_sl length]. f_equal. apply IHr.
  - (* CNil *) intros i v. reflexivity.
  - (* CCons *) intros d s IHs r IHr i v. cbn [norm_cl]. destruct i; [apply IHs|apply IHr].
Qed.

Lemma norm_shape s v : shape (norm s v) = shape v.
Proof. exact (proj1 norm_shape_all s v). Qed.
Lemma norm_is_empty s v : is_empty_val (norm s v) = is_empty_val v.
Proof. apply is_empty_shape, norm_shape. Qed.
Lemma norm_sl_length fs l : length (norm_sl fs l) = length l.
Proof. exact (proj1 (proj2 norm_shape_all) fs l). Qed.

(* ---------- normalised values are in the domain of the round-trip theorem, with the same encoding ---------- *)
Definition NW (s : schema) : Prop :=
  forall v, wfa s v = true -> wfv s (norm s v) = true /\ enc s (norm s v) = enc s v.
Definition NWs (fs : slist) : Prop :=
  forall l, wfa_sl fs l = true -> wfv_sl fs (norm_sl fs l) = true /\ enc_sl fs (norm_sl fs l) = enc_sl fs l.
Definition NWk (fs : klist) : Prop :=
  forall l, wfa_kl fs l = true ->
  wfv_kl fs (norm_kl fs l) = true /\ enc_kl fs (norm_kl fs l) = enc_kl fs l /\ count_kl fs (norm_kl fs l) = count_kl fs l.
Definition NWv (alts : vlist) : Prop :=
  forall i l, wfa_vl alts i l = true ->
  wfv_vl alts i (norm_vl alts i l) = true /\ enc_vl alts i (norm_vl alts i l) = enc_vl alts i l.
Definition NWc (alts : clist) : Prop :=
  forall i v, wfa_cl alts i v = true ->
  wfv_cl alts i (norm_cl alts i v) = true /\ forall tagged, enc_cl tagged alts i (norm_cl alts i v) = enc_cl tagged alts i v.

Lemma nw_list s (IH : NW s) l : forallb (wfa s) l = true ->
  forallb (wfv s) (map (norm s) l) = true /\ map (enc s) (map (norm s) l) = map (enc s) l.
Proof.
  induction l as [|x t IHl]; cbn [forallb map]; [intros _; split; reflexivity|].
  intros H. apply andb_prop in H as [Hx Ht]. destruct (IH x Hx) as [H1 H2]. destruct (IHl Ht) as [H3 H4].
  rewrite H1, H3, H2, H4. split; reflexivity.
Qed.
Lemma nw_pairs k v' (IHk : NW k) (IHv : NW v') l :
  forallb (fun kv => wfa k (fst kv) && wfa v' (snd kv)) l = true ->
  let l' := map (fun kv => (norm k (fst kv), norm v' (snd kv))) l in
  forallb (fun kv => wfv k (fst kv) && wfv v' (snd kv)) l' = true /\
  map (fun kv => enc k (fst kv) ++ enc v' (snd kv)) l' = map (fun kv => enc k (fst kv) ++ enc v' (snd kv)) l /\
  map (fun kv => enc k (fst kv)) l' = map (fun kv => enc k (fst kv)) l.
Proof.
  induction l as [|[x y] t IHl]; cbn [forallb map fst snd]; [intros _; repeat split; reflexivity|].
  intros H. apply andb_prop in H as [Hxy Ht]. apply andb_prop in Hxy as [Hx Hy].
  destruct (IHk x Hx) as [H1 H2]. destruct (IHv y Hy) as [H3 H4]. destruct (IHl Ht) as (H5 & H6 & H7).
  cbn zeta in *. rewrite H1, H3, H2, H4, H5, H6, H7. repeat split; reflexivity.
Qed.

Lemma val_eq_null (v : val) : v = VNull \/ v <> VNull.
Proof. destruct v; try (right; discriminate). left; reflexivity. Qed.
Lemma nullable_nn_wfv s w : w <> VNull -> wfv (SNullable s) w = wfv s w.
Proof. destruct w; try reflexivity. congruence. Qed.
Lemma nullable_nn_enc s w : w <> VNull -> enc (SNullable s) w = enc s w.
Proof. destruct w; try reflexivity. congruence. Qed.
Lemma nullable_nn_wfa s w : w <> VNull -> wfa (SNullable s) w = wfa s w.
Proof. destruct w; try reflexivity. congruence. Qed.
Lemma nullable_nn_norm s w : w <> VNull -> norm (SNullable s) w = norm s w.
Proof. destruct w; try reflexivity. congruence. Qed.

Lemma norm_wf_all : (forall s, NW s) /\ (forall fs, NWs fs) /\ (forall fs, NWk fs) /\ (forall a, NWv a) /\ (forall a, NWc a).
Proof.
  apply schema_mutind; unfold NW, NWs, NWk, NWv, NWc.
  - (* SUint *) intros lim v Hv. destruct v; try discriminate. split; [exact Hv|reflexivity].
  - intros v Hv. destruct v; try discriminate. split; [exact Hv|reflexivity].
  - intros lo hi v Hv. destruct v; try discriminate. split; [exact Hv|reflexivity].
  - intros hi v Hv. destruct v; try discriminate. split; [exact Hv|reflexivity].
  - intros v Hv. destruct v; try discriminate. split; [exact Hv|reflexivity].
  - (* SArr *) intros fs IH v Hv. destruct v; try discriminate. cbn [wfa norm wfv enc] in *.
    destruct (IH l Hv) as [Q1 Q2]. rewrite Q1, Q2. split; reflexivity.
  - (* SMap *) intros fs IH v Hv. destruct v; try discriminate. cbn [wfa norm wfv enc] in *.
    destruct (IH l Hv) as (Q1 & Q2 & Q3). rewrite Q1, Q2, Q3. split; reflexivity.
  - (* SVar *) intros alts IH v Hv. destruct v; try discriminate. cbn [wfa norm wfv enc] in *. apply IH. exact Hv.
  - (* SArrOf *) intros lo s IH v Hv. destruct v; try discriminate. cbn [wfa norm wfv enc] in *.
    split_ands. destruct (nw_list s IH l ltac:(assumption)) as [Q1 Q2].
    rewrite Q1, Q2, map_length. rw_hyps. split; reflexivity.
  - (* SSetOf *) intros s IH v Hv. destruct v; try discriminate. cbn [wfa norm wfv enc] in *.
    split_ands. destruct (nw_list s IH l ltac:(assumption)) as [Q1 Q2].
    rewrite Q1, Q2, map_length. rw_hyps. split; reflexivity.
  - (* SMapOf *) intros lo ord k IHk v' IHv v Hv. destruct v; try discriminate. cbn [wfa norm wfv enc] in *.
    split_ands. destruct (nw_pairs k v' IHk IHv l ltac:(assumption)) as (Q1 & Q2 & Q3). cbn zeta in *.
    rewrite Q1, Q2, map_length. rw_hyps. cbn [andb].
    split; [|reflexivity].
    destruct ord; try reflexivity.
    + rewrite Q3. assumption.
    + rewrite Q3. assumption.
    + rewrite <- (map_map (fun kv => enc k (fst kv)) reward_sort_key). rewrite Q3. rewrite map_map. assumption.
  - (* SNullable *) intros s IH v Hv. destruct (val_eq_null v) as [->|Hn]; [split; reflexivity|].
    rewrite nullable_nn_wfa in Hv by exact Hn. rewrite nullable_nn_norm by exact Hn.
    destruct (IH v Hv) as [Q1 Q2].
    assert (Hn' : norm s v <> VNull).
    { intros E. apply Hn. apply shape_null. rewrite <- (norm_shape s v), E. reflexivity. }
    rewrite nullable_nn_wfv by exact Hn'. rewrite !nullable_nn_enc by assumption. split; assumption.
  - (* STag *) intros t s IH v Hv. cbn [wfa norm wfv enc] in *. destruct (IH v Hv) as [Q1 Q2]. rewrite Q1, Q2. split; reflexivity.
  - (* SInBytes *) intros s IH v Hv. cbn [wfa norm wfv enc] in *. split_ands.
    destruct (IH v ltac:(assumption)) as [Q1 Q2]. rewrite Q1, Q2. rw_hyps. split; reflexivity.
  - (* SChoice *) intros alts IH v Hv. destruct v; try discriminate. cbn [wfa norm wfv enc] in *.
    destruct (IH i v Hv) as [Q1 Q2]. split; [exact Q1|apply Q2].
  - (* STagChoice *) intros alts IH v Hv. destruct v; try discriminate. cbn [wfa norm wfv enc] in *.
    destruct (IH i v Hv) as [Q1 Q2]. split; [exact Q1|apply Q2].
  - (* SArrAny *) intros s IH v Hv. destruct v as [| | | | | | | | | |i w]; try discriminate.
    destruct i as [|[|i]]; destruct w as [| | | | | |l| | | |]; try discriminate; cbn [wfa norm wfv enc] in *.
    + split_ands. destruct (nw_list s IH l ltac:(assumption)) as [Q1 Q2]. rewrite Q1, Q2, map_length. rw_hyps. split; reflexivity.
    + destruct (nw_list s IH l Hv) as [Q1 Q2]. rewrite Q1, Q2. split; reflexivity.
  - (* SBBytes *) intros v Hv. destruct v; try discriminate. split; [exact Hv|reflexivity].
  - (* SNamed *) intros id s IH v Hv. cbn [wfa norm wfv enc] in *. apply IH. exact Hv.
  - (* SArrOpt *) intros fs IHfs o IHo v Hv. destruct v as [| | | | | | | | | |i w]; try discriminate.
    destruct i as [|[|i]]; destruct w as [| | | | | |l| | | |]; try discriminate; cbn [wfa norm wfv enc] in *.
    + destruct (IHfs l Hv) as [Q1 Q2]. rewrite Q1, Q2. split; reflexivity.
    + destruct l as [|x l]; [discriminate|]. split_ands.
      destruct (IHfs l ltac:(assumption)) as [Q1 Q2]. destruct (IHo x ltac:(assumption)) as [Q3 Q4].
      rewrite Q1, Q2, Q3, Q4. split; reflexivity.
  - (* SNil *) intros l Hv. destruct l; [split; reflexivity|discriminate].
  - (* SCons *) intros s IHs r IHr l Hv. destruct l as [|v t]; [discriminate|]. cbn [wfa_sl norm_sl wfv_sl enc_sl] in *.
    split_ands. destruct (IHs v ltac:(assumption)) as [Q1 Q2]. destruct (IHr t ltac:(assumption)) as [Q3 Q4].
    rewrite Q1, Q2, Q3, Q4. split; reflexivity.
  - (* KNil *) intros l Hv. destruct l; [repeat split; reflexivity|discriminate].
  - (* KCons *) intros k p s IHs r IHr l Hv. destruct l as [|o t]; [discriminate|].
    cbn [wfa_kl norm_kl wfv_kl enc_kl count_kl] in *. split_ands.
    destruct (IHr t ltac:(assumption)) as (Q3 & Q4 & Q5). rewrite Q3, Q4, Q5.
    destruct o as [v|].
    + destruct (IHs v ltac:(assumption)) as [Q1 Q2]. cbn zeta.
      pose proof (norm_is_empty s v) as He.
      destruct p; cbn [present]; try (rewrite Q1, Q2; repeat split; reflexivity).
      (* OptNE *)
      rewrite He. destruct (is_empty_val v) eqn:Ev; cbn [negb present].
      * repeat split; reflexivity.
      * cbn [present]. rewrite ?He, Q1, Q2. cbn [negb andb]. repeat split; reflexivity.
    + destruct p; try discriminate; repeat split; reflexivity.
  - (* ANil *) intros i l Hv. discriminate.
  - (* ACons *) intros idx fs IHfs r IHr i l Hv. cbn [wfa_vl norm_vl wfv_vl enc_vl] in *. destruct i as [|i'].
    + destruct (IHfs l Hv) as [Q1 Q2]. rewrite Q2. split; [exact Q1|reflexivity].
    + apply IHr. exact Hv.
  - (* CNil *) intros i v Hv. discriminate.
  - (* CCons *) intros d s IHs r IHr i v Hv. cbn [wfa_cl norm_cl wfv_cl enc_cl] in *. destruct i as [|i'].
    + destruct (IHs v Hv) as [Q1 Q2]. split; [exact Q1|]. intros tagged. rewrite Q2. reflexivity.
    + apply IHr. exact Hv.
Qed.

Theorem norm_wfv s v : wfa s v = true -> wfv s (norm s v) = true.
Proof. intros H. exact (proj1 (proj1 norm_wf_all s v H)). Qed.
Theorem norm_enc s v : wfa s v = true -> enc s (norm s v) = enc s v.
Proof. intros H. exact (proj2 (proj1 norm_wf_all s v H)). Qed.

(* decoding the bytes of an API-built value yields its normalisation *)
Theorem api_roundtrip s v rest :
  wfs s = true -> wfa s v = true -> dec s (enc s v ++ rest) = Ok (norm s v, rest).
Proof.
  intros Hs Hv. rewrite <- (norm_enc s v Hv). apply schema_roundtrip; [exact Hs|apply norm_wfv; exact Hv].
Qed.
(* re-encoding the decoded value gives exactly the same bytes *)
Theorem api_reencode s v rest v' rest' :
  wfs s = true -> wfa s v = true -> dec s (enc s v ++ rest) = Ok (v', rest') -> enc s v' = enc s v /\ rest' = rest.
Proof.
  intros Hs Hv H. rewrite api_roundtrip in H by assumption. injection H as <- <-. split; [apply norm_enc; exact Hv|reflexivity].
Qed.

(* ---------- the normalisation changes nothing else: it is the identity on decoder-image values ---------- *)
Definition IDn (s : schema) : Prop := forall v, wfv s v = true -> norm s v = v /\ wfa s v = true.
Definition IDs (fs : slist) : Prop := forall l, wfv_sl fs l = true -> norm_sl fs l = l /\ wfa_sl fs l = true.
Definition IDk (fs : klist) : Prop := forall l, wfv_kl fs l = true -> norm_kl fs l = l /\ wfa_kl fs l = true.
Definition IDv (alts : vlist) : Prop := forall i l, wfv_vl alts i l = true -> norm_vl alts i l = l /\ wfa_vl alts i l = true.
Definition IDc (alts : clist) : Prop := forall i v, wfv_cl alts i v = true -> norm_cl alts i v = v /\ wfa_cl alts i v = true.

Lemma id_list s (IH : IDn s) l : forallb (wfv s) l = true -> map (norm s) l = l /\ forallb (wfa s) l = true.
Proof.
  induction l as [|x t IHl]; cbn [forallb map]; [intros _; split; reflexivity|].
  intros H. apply andb_prop in H as [Hx Ht]. destruct (IH x Hx) as [E1 E2]. destruct (IHl Ht) as [E3 E4].
  rewrite E1, E2, E3, E4. split; reflexivity.
Qed.
Lemma id_pairs k v' (IHk : IDn k) (IHv : IDn v') l :
  forallb (fun kv => wfv k (fst kv) && wfv v' (snd kv)) l = true ->
  map (fun kv => (norm k (fst kv), norm v' (snd kv))) l = l /\
  forallb (fun kv => wfa k (fst kv) && wfa v' (snd kv)) l = true.
Proof.
  induction l as [|[x y] t IHl]; cbn [forallb map fst snd]; [intros _; split; reflexivity|].
  intros H. apply andb_prop in H as [Hxy Ht]. apply andb_prop in Hxy as [Hx Hy].
  destruct (IHk x Hx) as [E1 E2]. destruct (IHv y Hy) as [E3 E4]. destruct (IHl Ht) as [E5 E6].
  rewrite E1, E2, E3, E4, E5, E6. split; reflexivity.
Qed.

Lemma norm_id_all : (forall s, IDn s) /\ (forall fs, IDs fs) /\ (forall fs, IDk fs) /\ (forall a, IDv a) /\ (forall a, IDc a).
Proof.
  apply schema_mutind; unfold IDn, IDs, IDk, IDv, IDc.
  - intros lim v Hv. destruct v; try discriminate. split; [reflexivity|exact Hv].
  - intros v Hv. destruct v; try discriminate. split; [reflexivity|exact Hv].
  - intros lo hi v Hv. destruct v; try discriminate. split; [reflexivity|exact Hv].
  - intros hi v Hv. destruct v; try discriminate. split; [reflexivity|exact Hv].
  - intros v Hv. destruct v; try discriminate. split; [reflexivity|exact Hv].
  - (* SArr *) intros fs IH v Hv. destruct v; try discriminate. cbn [wfa norm wfv] in *.
    destruct (IH l Hv) as [E1 E2]. rewrite E1, E2. split; reflexivity.
  - (* SMap *) intros fs IH v Hv. destruct v; try discriminate. cbn [wfa norm wfv] in *.
    destruct (IH l Hv) as [E1 E2]. rewrite E1, E2. split; reflexivity.
  - (* SVar *) intros alts IH v Hv. destruct v; try discriminate. cbn [wfa norm wfv] in *.
    destruct (IH i l Hv) as [E1 E2]. rewrite E1, E2. split; reflexivity.
  - (* SArrOf *) intros lo s IH v Hv. destruct v; try discriminate. cbn [wfa norm wfv] in *. split_ands.
    destruct (id_list s IH l ltac:(assumption)) as [E1 E2]. rewrite E1, E2. rw_hyps. split; reflexivity.
  - (* SSetOf *) intros s IH v Hv. destruct v; try discriminate. cbn [wfa norm wfv] in *. split_ands.
    destruct (id_list s IH l ltac:(assumption)) as [E1 E2]. rewrite E1, E2. rw_hyps. split; reflexivity.
  - (* SMapOf *) intros lo ord k IHk v' IHv v Hv. destruct v; try discriminate. cbn [wfa norm wfv] in *. split_ands.
    destruct (id_pairs k v' IHk IHv l ltac:(assumption)) as [E1 E2]. rewrite E1, E2. rw_hyps. split; reflexivity.
  - (* SNullable *) intros s IH v Hv. destruct (val_eq_null v) as [->|Hn]; [split; reflexivity|].
    rewrite nullable_nn_wfv in Hv by exact Hn. rewrite nullable_nn_norm, nullable_nn_wfa by exact Hn. apply IH. exact Hv.
  - (* STag *) intros t s IH v Hv. cbn [wfa norm wfv] in *. apply IH. exact Hv.
  - (* SInBytes *) intros s IH v Hv. cbn [wfa norm wfv] in *. split_ands.
    destruct (IH v ltac:(assumption)) as [E1 E2]. rewrite E1, E2. rw_hyps. split; reflexivity.
  - (* SChoice *) intros alts IH v Hv. destruct v; try discriminate. cbn [wfa norm wfv] in *.
    destruct (IH i v Hv) as [E1 E2]. rewrite E1, E2. split; reflexivity.
  - (* STagChoice *) intros alts IH v Hv. destruct v; try discriminate. cbn [wfa norm wfv] in *.
    destruct (IH i v Hv) as [E1 E2]. rewrite E1, E2. split; reflexivity.
  - (* SArrAny *) intros s IH v Hv. destruct v as [| | | | | | | | | |i w]; try discriminate.
    destruct i as [|[|i]]; destruct w as [| | | | | |l| | | |]; try discriminate; cbn [wfa norm wfv] in *.
    + split_ands. destruct (id_list s IH l ltac:(assumption)) as [E1 E2]. rewrite E1, E2. rw_hyps. split; reflexivity.
    + destruct (id_list s IH l Hv) as [E1 E2]. rewrite E1, E2. split; reflexivity.
  - (* SBBytes *) intros v Hv. destruct v; try discriminate. split; [reflexivity|exact Hv].
  - (* SNamed *) intros id s IH v Hv. cbn [wfa norm wfv] in *. apply IH. exact Hv.
  - (* SArrOpt *) intros fs IHfs o IHo v Hv. destruct v as [| | | | | | | | | |i w]; try discriminate.
    destruct i as [|[|i]]; destruct w as [| | | | | |l| | | |]; try discriminate; cbn [wfa norm wfv] in *.
    + destruct (IHfs l Hv) as [E1 E2]. rewrite E1, E2. split; reflexivity.
    + destruct l as [|x l]; [discriminate|]. split_ands.
      destruct (IHfs l ltac:(assumption)) as [E1 E2]. destruct (IHo x ltac:(assumption)) as [E3 E4].
      rewrite E1, E2, E3, E4. split; reflexivity.
  - (* SNil *) intros l Hv. destruct l; [split; reflexivity|discriminate].
  - (* SCons *) intros s IHs r IHr l Hv. destruct l as [|v t]; [discriminate|]. cbn [wfa_sl norm_sl wfv_sl] in *.
    split_ands. destruct (IHs v ltac:(assumption)) as [E1 E2]. destruct (IHr t ltac:(assumption)) as [E3 E4].
    rewrite E1, E2, E3, E4. split; reflexivity.
  - (* KNil *) intros l Hv. destruct l; [split; reflexivity|discriminate].
  - (* KCons *) intros k p s IHs r IHr l Hv. destruct l as [|o t]; [discriminate|].
    cbn [wfa_kl norm_kl wfv_kl] in *. split_ands.
    destruct (IHr t ltac:(assumption)) as [E3 E4]. rewrite E3, E4.
    destruct o as [v|].
    + split_ands. destruct (IHs v ltac:(assumption)) as [E1 E2]. cbn zeta. rewrite E1, E2.
      destruct p; try (split; reflexivity).
      match goal with H : negb (is_empty_val v) = true |- _ => apply negb_true_iff in H; rewrite H end.
      split; reflexivity.
    + destruct p; try discriminate; split; reflexivity.
  - (* ANil *) intros i l Hv. discriminate.
  - (* ACons *) intros idx fs IHfs r IHr i l Hv. cbn [wfa_vl norm_vl wfv_vl] in *. destruct i as [|i'].
    + apply IHfs. exact Hv.
    + apply IHr. exact Hv.
  - (* CNil *) intros i v Hv. discriminate.
  - (* CCons *) intros d s IHs r IHr i v Hv. cbn [wfa_cl norm_cl wfv_cl] in *. destruct i as [|i'].
    + apply IHs. exact Hv.
    + apply IHr. exact Hv.
Qed.

(* a value in the image of the decoder is its own normal form, and is API-buildable *)
Theorem norm_id s v : wfv s v = true -> norm s v = v.
Proof. intros H. exact (proj1 (proj1 norm_id_all s v H)). Qed.
Theorem wfv_wfa s v : wfv s v = true -> wfa s v = true.
Proof. intros H. exact (proj2 (proj1 norm_id_all s v H)). Qed.
Theorem norm_idem s v : wfa s v = true -> norm s (norm s v) = norm s v.
Proof. intros H. apply norm_id, norm_wfv, H. Qed.
