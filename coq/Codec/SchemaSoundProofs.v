(* Decoder soundness: whatever the (library-faithful) decoder [sdec] returns is in the domain [wfv] of the round-trip
   theorem, so decoding, encoding and decoding again is the identity on decoded values.  Generic over schemas. *)
From CSL Require Import Base.Prelude Cbor.Head Cbor.HeadProofs Num.IntRangeProofs Codec.Schema Codec.SchemaProofs Codec.SchemaSound.
Local Open Scope N_scope.

(* ---------- lists: first occurrences, strict sorting, mapM ---------- *)
Section Lists.
Context {A : Type} (key : A -> bytes).

Lemma beqb_refl a : beqb a a = true.
Proof. unfold beqb. destruct (list_eq_dec N.eq_dec a a); [reflexivity|congruence]. Qed.

Lemma existsb_filter_out a (l : list A) :
  existsb (beqb a) (map key (filter (fun y => negb (beqb a (key y))) l)) = false.
Proof.
  induction l as [|y t IH]; [reflexivity|]. cbn [filter]. destruct (beqb a (key y)) eqn:E; cbn [negb]; [exact IH|].
  cbn [map existsb]. rewrite E, IH. reflexivity.
Qed.
Lemma existsb_filter_sub g p (l : list A) :
  existsb g (map key l) = false -> existsb g (map key (filter p l)) = false.
Proof.
  induction l as [|y t IH]; [reflexivity|]. cbn [map existsb filter]. intros H. apply orb_false_elim in H as [H1 H2].
  destruct (p y); [cbn [map existsb]; rewrite H1, (IH H2); reflexivity|exact (IH H2)].
Qed.
Lemma nodupb_filter p (l : list A) : nodupb (map key l) = true -> nodupb (map key (filter p l)) = true.
Proof.
  induction l as [|y t IH]; [reflexivity|]. cbn [map nodupb filter]. intros H. apply andb_prop in H as [H1 H2].
  destruct (p y); [|exact (IH H2)]. cbn [map nodupb]. rewrite (IH H2), andb_true_r.
  apply negb_true_iff. apply negb_true_iff in H1. apply existsb_filter_sub. exact H1.
Qed.
Lemma dedup_first_nodup (l : list A) : nodupb (map key (dedup_first key l)) = true.
Proof.
  induction l as [|x t IH]; [reflexivity|]. cbn [dedup_first map nodupb].
  rewrite (nodupb_filter _ _ IH), andb_true_r. apply negb_true_iff. apply (existsb_filter_out (key x)).
Qed.
Lemma forallb_filter (P p : A -> bool) (l : list A) : forallb P l = true -> forallb P (filter p l) = true.
Proof.
  induction l as [|y t IH]; [reflexivity|]. cbn [forallb filter]. intros H. apply andb_prop in H as [H1 H2].
  destruct (p y); [cbn [forallb]; rewrite H1, (IH H2); reflexivity|exact (IH H2)].
Qed.
Lemma filter_length_le (p : A -> bool) (l : list A) : (length (filter p l) <= length l)%nat.
Proof. induction l as [|y t IH]; [cbn; lia|]. cbn [filter]. destruct (p y); cbn [length]; lia. Qed.
Lemma dedup_first_forallb (P : A -> bool) (l : list A) : forallb P l = true -> forallb P (dedup_first key l) = true.
Proof.
  induction l as [|x t IH]; [reflexivity|]. cbn [forallb dedup_first]. intros H. apply andb_prop in H as [H1 H2].
  rewrite H1. apply forallb_filter, IH, H2.
Qed.
Lemma dedup_first_length (l : list A) : (length (dedup_first key l) <= length l)%nat.
Proof.
  induction l as [|x t IH]; [cbn; lia|]. cbn [dedup_first length].
  pose proof (filter_length_le (fun y => negb (beqb (key x) (key y))) (dedup_first key t)). lia.
Qed.
Lemma filter_keep_all a (l : list A) :
  existsb (beqb a) (map key l) = false -> filter (fun y => negb (beqb a (key y))) l = l.
Proof.
  induction l as [|y t IH]; [reflexivity|]. cbn [map existsb filter]. intros H. apply orb_false_elim in H as [H1 H2].
  rewrite H1. cbn [negb]. rewrite (IH H2). reflexivity.
Qed.
Lemma dedup_first_id (l : list A) : nodupb (map key l) = true -> dedup_first key l = l.
Proof.
  induction l as [|x t IH]; [reflexivity|]. cbn [map nodupb dedup_first]. intros H. apply andb_prop in H as [H1 H2].
  rewrite (IH H2). apply negb_true_iff in H1. rewrite (filter_keep_all _ _ H1). reflexivity.
Qed.

(* strict sorting *)
Definition lbound (y : bytes) (l : list A) : bool := match l with [] => true | z :: _ => bytes_ltb y (key z) end.
Lemma sortedb_cons y (l : list A) : sortedb (y :: map key l) = lbound y l && sortedb (map key l).
Proof. destruct l; reflexivity. Qed.
Lemma ins_sorted_spec x : forall (l l' : list A), sortedb (map key l) = true -> ins_sorted key x l = Some l' ->
  sortedb (map key l') = true /\ length l' = S (length l) /\
  (forall y, lbound y l = true -> bytes_ltb y (key x) = true -> lbound y l' = true) /\
  (forall P : A -> bool, P x = true -> forallb P l = true -> forallb P l' = true).
Proof.
  induction l as [|y t IH]; intros l' Hs H; cbn [ins_sorted] in H.
  - injection H as <-. split; [reflexivity|]. split; [reflexivity|]. split.
    + intros z _ Hz. cbn [lbound]. exact Hz.
    + intros P Hx _. cbn [forallb]. rewrite Hx. reflexivity.
  - destruct (bytes_ltb (key x) (key y)) eqn:E1.
    + injection H as <-. split; [|split; [reflexivity|split]].
      * change (map key (x :: y :: t)) with (key x :: map key (y :: t)). rewrite sortedb_cons. cbn [lbound]. rewrite E1. exact Hs.
      * intros z _ Hz. cbn [lbound]. exact Hz.
      * intros P Hx Hl. cbn [forallb] in *. rewrite Hx. exact Hl.
    + destruct (bytes_ltb (key y) (key x)) eqn:E2; [|discriminate].
      destruct (ins_sorted key x t) as [t'|] eqn:E3; [|discriminate]. injection H as <-.
      cbn [map] in Hs. rewrite sortedb_cons in Hs. apply andb_prop in Hs as [Hb Hst].
      destruct (IH t' Hst eq_refl) as (S1 & S2 & S3 & S4). split; [|split; [|split]].
      * cbn [map]. rewrite sortedb_cons. rewrite S1, (S3 (key y) Hb E2). reflexivity.
      * cbn [length]. lia.
      * intros z Hz _. cbn [lbound] in *. exact Hz.
      * intros P Hx Hl. cbn [forallb] in *. apply andb_prop in Hl as [Hy Ht]. rewrite Hy. apply S4; assumption.
Qed.
Lemma sort_strict_spec : forall (l l' : list A), sort_strict key l = Some l' ->
  sortedb (map key l') = true /\ length l' = length l /\ (forall P : A -> bool, forallb P l = true -> forallb P l' = true).
Proof.
  induction l as [|x t IH]; intros l' H; cbn [sort_strict] in H.
  - injection H as <-. split; [reflexivity|]. split; [reflexivity|]. intros P HP; exact HP.
  - destruct (sort_strict key t) as [t'|] eqn:E; [|discriminate].
    destruct (IH t' eq_refl) as (S1 & S2 & S3).
    destruct (ins_sorted_spec x t' l' S1 H) as (T1 & T2 & _ & T4). split; [exact T1|]. split; [cbn [length]; lia|].
    intros P HP. cbn [forallb] in HP. apply andb_prop in HP as [Hx Ht]. apply T4; [exact Hx|apply S3; exact Ht].
Qed.
Lemma sort_strict_id : forall l : list A, sortedb (map key l) = true -> sort_strict key l = Some l.
Proof.
  induction l as [|x t IH]; [reflexivity|]. cbn [map]. rewrite sortedb_cons. intros H. apply andb_prop in H as [Hb Hs].
  cbn [sort_strict]. rewrite (IH Hs). destruct t as [|y t']; [reflexivity|]. cbn [ins_sorted]. cbn [lbound] in Hb. rewrite Hb. reflexivity.
Qed.
End Lists.

Lemma mapM_sound {A B} (f : A -> option B) (pre : A -> bool) (post : B -> bool) :
  (forall x y, pre x = true -> f x = Some y -> post y = true) ->
  forall l l', forallb pre l = true -> mapM f l = Some l' -> forallb post l' = true /\ length l' = length l.
Proof.
  intros Hf. induction l as [|x t IH]; intros l' Hp H; cbn [mapM] in H.
  - injection H as <-. split; reflexivity.
  - cbn [forallb] in Hp. apply andb_prop in Hp as [Hx Ht].
    destruct (f x) as [y|] eqn:E; [|discriminate]. destruct (mapM f t) as [t'|] eqn:E2; [|discriminate]. injection H as <-.
    destruct (IH t' Ht eq_refl) as [I1 I2]. cbn [forallb length]. rewrite (Hf x y Hx E), I1, I2. split; reflexivity.
Qed.
Lemma mapM_id {A} (f : A -> option A) (pre : A -> bool) :
  (forall x, pre x = true -> f x = Some x) -> forall l, forallb pre l = true -> mapM f l = Some l.
Proof.
  intros Hf. induction l as [|x t IH]; [reflexivity|]. cbn [forallb mapM]. intros H. apply andb_prop in H as [Hx Ht].
  rewrite (Hf x Hx), (IH Ht). reflexivity.
Qed.

Lemma nullable_wfv_up s w : wfv s w = true -> wfv (SNullable s) w = true.
Proof. destruct w; intros H; try exact H. reflexivity. Qed.
Lemma val_null_dec (v : val) : v = VNull \/ v <> VNull.
Proof. destruct v; try (right; discriminate). left; reflexivity. Qed.
Lemma nullable_nn_wfp s w : w <> VNull -> wfp (SNullable s) w = wfp s w.
Proof. destruct w; try reflexivity. congruence. Qed.
Lemma nullable_nn_canon s w : w <> VNull -> canon (SNullable s) w = canon s w.
Proof. destruct w; try reflexivity. congruence. Qed.
Lemma nullable_nn_wfv' s w : w <> VNull -> wfv (SNullable s) w = wfv s w.
Proof. destruct w; try reflexivity. congruence. Qed.

(* ---------- B: the normalisation lands in the domain ---------- *)
Definition CS (s : schema) : Prop := forall v w, wfp s v = true -> canon s v = Some w -> wfv s w = true.
Definition CSs (fs : slist) : Prop := forall l l', wfp_sl fs l = true -> canon_sl fs l = Some l' -> wfv_sl fs l' = true.
Definition CSk (fs : klist) : Prop := forall l l', wfp_kl fs l = true -> canon_kl fs l = Some l' -> wfv_kl fs l' = true.
Definition CSv (alts : vlist) : Prop := forall i l l', wfp_vl alts i l = true -> canon_vl alts i l = Some l' -> wfv_vl alts i l' = true.
Definition CSc (alts : clist) : Prop := forall i v w, wfp_cl alts i v = true -> canon_cl alts i v = Some w -> wfv_cl alts i w = true.

Ltac inv_some := repeat match goal with
  | H : Some _ = Some _ |- _ => injection H as H; try subst
  | H : None = Some _ |- _ => discriminate H
  | H : omap _ ?o = Some _ |- _ => let E := fresh "E" in destruct o eqn:E; cbn [omap] in H; [|discriminate H]
  end.

Lemma canon_sound_all : (forall s, CS s) /\ (forall fs, CSs fs) /\ (forall fs, CSk fs) /\ (forall a, CSv a) /\ (forall a, CSc a).
Proof.
  apply schema_mutind; unfold CS, CSs, CSk, CSv, CSc.
  - (* SUint *) intros lim v w Hv H. destruct v; try discriminate. cbn in H. inv_some. exact Hv.
  - intros v w Hv H. destruct v; try discriminate. cbn in H. inv_some. exact Hv.
  - intros lo hi v w Hv H. destruct v; try discriminate. cbn in H. inv_some. exact Hv.
  - intros hi v w Hv H. destruct v; try discriminate. cbn in H. inv_some. exact Hv.
  - intros v w Hv H. destruct v; try discriminate. cbn in H. inv_some. exact Hv.
  - (* SArr *) intros fs IH v w Hv H. destruct v; try discriminate. cbn [wfp canon] in *. inv_some. cbn [wfv]. eapply IH; eassumption.
  - (* SMap *) intros fs IH v w Hv H. destruct v; try discriminate. cbn [wfp canon] in *. inv_some. cbn [wfv]. eapply IH; eassumption.
  - (* SVar *) intros alts IH v w Hv H. destruct v; try discriminate. cbn [wfp canon] in *. inv_some. cbn [wfv]. eapply IH; eassumption.
  - (* SArrOf *) intros lo s IH v w Hv H. destruct v; try discriminate. cbn [wfp canon] in *. inv_some. cbn [wfv]. split_ands.
    destruct (mapM_sound (canon s) (wfp s) (wfv s) IH l l0 ltac:(assumption) ltac:(assumption)) as [M1 M2].
    rewrite M1, M2. rw_hyps. reflexivity.
  - (* SSetOf *) intros s IH v w Hv H. destruct v; try discriminate. cbn [wfp canon] in *. inv_some. cbn [wfv]. split_ands.
    destruct (mapM_sound (canon s) (wfp s) (wfv s) IH l l0 ltac:(assumption) ltac:(assumption)) as [M1 M2].
    rewrite (dedup_first_forallb (enc s) (wfv s) l0 M1), (dedup_first_nodup (enc s) l0). cbn [andb].
    pose proof (dedup_first_length (enc s) l0). apply N.ltb_lt.
    match goal with H : (N.of_nat (length l) <? two64) = true |- _ => apply N.ltb_lt in H end. lia.
  - (* SMapOf *) intros lo ord k IHk v' IHv v w Hv H. destruct v; try discriminate. cbn [wfp canon] in *. split_ands.
    match type of H with match mapM ?g l with _ => _ end = _ => destruct (mapM g l) as [l'|] eqn:EM; [|discriminate];
      assert (Hg : forall x y, (wfp k (fst x) && wfp v' (snd x)) = true -> g x = Some y -> (wfv k (fst y) && wfv v' (snd y)) = true) end.
    { intros [a b] y Hab Hy. cbn [fst snd] in *. apply andb_prop in Hab as [Ha Hb].
      destruct (canon k a) as [a'|] eqn:Ea; [|discriminate]. destruct (canon v' b) as [b'|] eqn:Eb; [|discriminate].
      injection Hy as <-. cbn [fst snd]. rewrite (IHk a a' Ha Ea), (IHv b b' Hb Eb). reflexivity. }
    destruct (mapM_sound _ _ _ Hg l l' ltac:(assumption) EM) as [M1 M2].
    destruct ord.
    + (* KInsertion *) destruct (nodupb (map (fun kv => enc k (fst kv)) l')) eqn:En; [|discriminate]. inv_some.
      cbn [wfv]. rewrite M1, M2, En. rw_hyps. reflexivity.
    + (* KBytewise *) inv_some. destruct (sort_strict_spec _ _ _ E) as (S1 & S2 & S3).
      cbn [wfv]. rewrite (S3 _ M1), S2, M2, S1. rw_hyps. reflexivity.
    + (* KRewardAddr *) inv_some. destruct (sort_strict_spec _ _ _ E) as (S1 & S2 & S3).
      cbn [wfv]. rewrite (S3 _ M1), S2, M2, S1. rw_hyps. reflexivity.
    + (* KMulti *) inv_some. cbn [wfv]. rewrite M1, M2. rw_hyps. reflexivity.
  - (* SNullable *) intros s IH v w Hv H. destruct (val_null_dec v) as [->|Hn]; [cbn in H; inv_some; reflexivity|].
    rewrite nullable_nn_wfp in Hv by exact Hn. rewrite nullable_nn_canon in H by exact Hn. apply nullable_wfv_up. eapply IH; eassumption.
  - (* STag *) intros t s IH v w Hv H. cbn [wfp canon wfv] in *. eapply IH; eassumption.
  - (* SInBytes *) intros s IH v w Hv H. cbn [wfp canon wfv] in *. destruct (canon s v) as [w'|] eqn:E; [|discriminate].
    destruct (N.of_nat (length (enc s w')) <? two64) eqn:EL; [|discriminate]. inv_some. rewrite (IH v w Hv E), EL. reflexivity.
  - (* SChoice *) intros alts IH v w Hv H. destruct v; try discriminate. cbn [wfp canon] in *. inv_some. cbn [wfv]. eapply IH; eassumption.
  - (* STagChoice *) intros alts IH v w Hv H. destruct v; try discriminate. cbn [wfp canon] in *. inv_some. cbn [wfv]. eapply IH; eassumption.
  - (* SArrAny *) intros s IH v w Hv H. destruct v as [| | | | | | | | | |i x]; try discriminate.
    destruct i as [|[|i]]; destruct x as [| | | | | |l| | | |]; try discriminate; cbn [wfp canon] in *; inv_some; cbn [wfv].
    + split_ands. destruct (mapM_sound (canon s) (wfp s) (wfv s) IH l l0 ltac:(assumption) ltac:(assumption)) as [M1 M2].
      rewrite M1, M2. rw_hyps. reflexivity.
    + destruct (mapM_sound (canon s) (wfp s) (wfv s) IH l l0 Hv ltac:(assumption)) as [M1 M2]. exact M1.
  - (* SBBytes *) intros v w Hv H. destruct v; try discriminate. cbn in H. inv_some. exact Hv.
  - (* SNamed *) intros id s IH v w Hv H. cbn [wfp canon wfv] in *. eapply IH; eassumption.
  - (* SArrOpt *) intros fs IHfs o IHo v w Hv H. destruct v as [| | | | | | | | | |i x]; try discriminate.
    destruct i as [|[|i]]; destruct x as [| | | | | |l| | | |]; try discriminate; cbn [wfp canon] in *.
    + inv_some. cbn [wfv]. eapply IHfs; eassumption.
    + destruct l as [|x l]; [discriminate|]. split_ands.
      destruct (canon o x) as [x'|] eqn:Ex; [|discriminate]. destruct (canon_sl fs l) as [l'|] eqn:El; [|discriminate]. inv_some.
      cbn [wfv]. rewrite (IHfs l l' ltac:(assumption) El), (IHo x x' ltac:(assumption) Ex). reflexivity.
  - (* SNil *) intros l l' Hv H. destruct l; [|discriminate]. cbn in H. inv_some. reflexivity.
  - (* SCons *) intros s IHs r IHr l l' Hv H. destruct l as [|v t]; [discriminate|]. cbn [wfp_sl canon_sl] in *. split_ands.
    destruct (canon s v) as [v'|] eqn:Ev; [|discriminate]. destruct (canon_sl r t) as [t'|] eqn:Et; [|discriminate]. inv_some.
    cbn [wfv_sl]. rewrite (IHs v v' ltac:(assumption) Ev), (IHr t t' ltac:(assumption) Et). reflexivity.
  - (* KNil *) intros l l' Hv H. destruct l; [|discriminate]. cbn in H. inv_some. reflexivity.
  - (* KCons *) intros k p s IHs r IHr l l' Hv H. destruct l as [|o t]; [discriminate|]. cbn [wfp_kl canon_kl] in *. split_ands.
    destruct (canon_kl r t) as [t'|] eqn:Et.
    2:{ destruct o as [v|]; [destruct (canon s v) as [w|]; [destruct (match p with OptNE => is_empty_val w | _ => false end)|]|]; discriminate. }
    destruct o as [v|].
    + destruct (canon s v) as [w|] eqn:Ev; [|discriminate].
      destruct (match p with OptNE => is_empty_val w | _ => false end) eqn:Ee; [discriminate|]. inv_some.
      cbn [wfv_kl]. rewrite (IHs v w ltac:(assumption) Ev), (IHr t t' ltac:(assumption) Et).
      destruct p; try reflexivity. rewrite Ee. reflexivity.
    + inv_some. cbn [wfv_kl]. rewrite (IHr t t' ltac:(assumption) Et).
      destruct p; try discriminate; reflexivity.
  - (* ANil *) intros i l l' Hv H. discriminate.
  - (* ACons *) intros idx fs IHfs r IHr i l l' Hv H. cbn [wfp_vl canon_vl wfv_vl] in *. destruct i; [eapply IHfs|eapply IHr]; eassumption.
  - (* CNil *) intros i v w Hv H. discriminate.
  - (* CCons *) intros d s IHs r IHr i v w Hv H. cbn [wfp_cl canon_cl wfv_cl] in *. destruct i; [eapply IHs|eapply IHr]; eassumption.
Qed.

Theorem canon_sound s v w : wfp s v = true -> canon s v = Some w -> wfv s w = true.
Proof. exact (proj1 canon_sound_all s v w). Qed.

(* ---------- C: the normalisation is the identity on the domain ---------- *)
Definition CI (s : schema) : Prop := forall v, wfv s v = true -> canon s v = Some v.
Definition CIs (fs : slist) : Prop := forall l, wfv_sl fs l = true -> canon_sl fs l = Some l.
Definition CIk (fs : klist) : Prop := forall l, wfv_kl fs l = true -> canon_kl fs l = Some l.
Definition CIv (alts : vlist) : Prop := forall i l, wfv_vl alts i l = true -> canon_vl alts i l = Some l.
Definition CIc (alts : clist) : Prop := forall i v, wfv_cl alts i v = true -> canon_cl alts i v = Some v.

Lemma canon_id_all : (forall s, CI s) /\ (forall fs, CIs fs) /\ (forall fs, CIk fs) /\ (forall a, CIv a) /\ (forall a, CIc a).
Proof.
  apply schema_mutind; unfold CI, CIs, CIk, CIv, CIc.
  - intros lim v Hv. destruct v; try discriminate. reflexivity.
  - intros v Hv. destruct v; try discriminate. reflexivity.
  - intros lo hi v Hv. destruct v; try discriminate. reflexivity.
  - intros hi v Hv. destruct v; try discriminate. reflexivity.
  - intros v Hv. destruct v; try discriminate. reflexivity.
  - (* SArr *) intros fs IH v Hv. destruct v; try discriminate. cbn [wfv canon] in *. rewrite (IH l Hv). reflexivity.
  - (* SMap *) intros fs IH v Hv. destruct v; try discriminate. cbn [wfv canon] in *. rewrite (IH l Hv). reflexivity.
  - (* SVar *) intros alts IH v Hv. destruct v; try discriminate. cbn [wfv canon] in *. rewrite (IH i l Hv). reflexivity.
  - (* SArrOf *) intros lo s IH v Hv. destruct v; try discriminate. cbn [wfv canon] in *. split_ands.
    rewrite (mapM_id (canon s) (wfv s) IH l ltac:(assumption)). reflexivity.
  - (* SSetOf *) intros s IH v Hv. destruct v; try discriminate. cbn [wfv canon] in *. split_ands.
    rewrite (mapM_id (canon s) (wfv s) IH l ltac:(assumption)). cbn [omap]. rewrite dedup_first_id by assumption. reflexivity.
  - (* SMapOf *) intros lo ord k IHk v' IHv v Hv. destruct v; try discriminate. cbn [wfv canon] in *. split_ands.
    rewrite (mapM_id _ (fun kv => wfv k (fst kv) && wfv v' (snd kv))); [| |assumption].
    2:{ intros [a b] Hab. cbn [fst snd] in *. apply andb_prop in Hab as [Ha Hb]. rewrite (IHk a Ha), (IHv b Hb). reflexivity. }
    destruct ord.
    + rw_hyps. reflexivity.
    + rewrite sort_strict_id by assumption. reflexivity.
    + rewrite sort_strict_id by assumption. reflexivity.
    + reflexivity.
  - (* SNullable *) intros s IH v Hv. destruct (val_null_dec v) as [->|Hn]; [reflexivity|].
    rewrite nullable_nn_wfv' in Hv by exact Hn. rewrite nullable_nn_canon by exact Hn. apply IH. exact Hv.
  - (* STag *) intros t s IH v Hv. cbn [wfv canon] in *. apply IH. exact Hv.
  - (* SInBytes *) intros s IH v Hv. cbn [wfv canon] in *. split_ands. rewrite (IH v ltac:(assumption)). rw_hyps. reflexivity.
  - (* SChoice *) intros alts IH v Hv. destruct v; try discriminate. cbn [wfv canon] in *. rewrite (IH i v Hv). reflexivity.
  - (* STagChoice *) intros alts IH v Hv. destruct v; try discriminate. cbn [wfv canon] in *. rewrite (IH i v Hv). reflexivity.
  - (* SArrAny *) intros s IH v Hv. destruct v as [| | | | | | | | | |i x]; try discriminate.
    destruct i as [|[|i]]; destruct x as [| | | | | |l| | | |]; try discriminate; cbn [wfv canon] in *.
    + split_ands. rewrite (mapM_id (canon s) (wfv s) IH l ltac:(assumption)). reflexivity.
    + rewrite (mapM_id (canon s) (wfv s) IH l Hv). reflexivity.
  - (* SBBytes *) intros v Hv. destruct v; try discriminate. reflexivity.
  - (* SNamed *) intros id s IH v Hv. cbn [wfv canon] in *. apply IH. exact Hv.
  - (* SArrOpt *) intros fs IHfs o IHo v Hv. destruct v as [| | | | | | | | | |i x]; try discriminate.
    destruct i as [|[|i]]; destruct x as [| | | | | |l| | | |]; try discriminate; cbn [wfv canon] in *.
    + rewrite (IHfs l Hv). reflexivity.
    + destruct l as [|x l]; [discriminate|]. split_ands. rewrite (IHo x ltac:(assumption)), (IHfs l ltac:(assumption)). reflexivity.
  - (* SNil *) intros l Hv. destruct l; [reflexivity|discriminate].
  - (* SCons *) intros s IHs r IHr l Hv. destruct l as [|v t]; [discriminate|]. cbn [wfv_sl canon_sl] in *. split_ands.
    rewrite (IHs v ltac:(assumption)), (IHr t ltac:(assumption)). reflexivity.
  - (* KNil *) intros l Hv. destruct l; [reflexivity|discriminate].
  - (* KCons *) intros k p s IHs r IHr l Hv. destruct l as [|o t]; [discriminate|]. cbn [wfv_kl canon_kl] in *. split_ands.
    rewrite (IHr t ltac:(assumption)). destruct o as [v|]; [|reflexivity]. split_ands.
    rewrite (IHs v ltac:(assumption)).
    destruct p; try reflexivity.
    match goal with H : negb (is_empty_val v) = true |- _ => apply negb_true_iff in H; rewrite H end. reflexivity.
  - (* ANil *) intros i l Hv. discriminate.
  - (* ACons *) intros idx fs IHfs r IHr i l Hv. cbn [wfv_vl canon_vl] in *. destruct i; [apply IHfs|apply IHr]; exact Hv.
  - (* CNil *) intros i v Hv. discriminate.
  - (* CCons *) intros d s IHs r IHr i v Hv. cbn [wfv_cl canon_cl] in *. destruct i; [apply IHs|apply IHr]; exact Hv.
Qed.

Theorem canon_id s v : wfv s v = true -> canon s v = Some v.
Proof. exact (proj1 canon_id_all s v). Qed.

(* ---------- A: what the wire-shape decoder guarantees ---------- *)
Lemma bytes_ok_app_inv a b : bytes_ok (a ++ b) -> bytes_ok a /\ bytes_ok b.
Proof. unfold bytes_ok. intros H. apply Forall_app in H. exact H. Qed.
Lemma bytes_ok_okb b : bytes_ok b -> bytes_okb b = true.
Proof.
  unfold bytes_ok, bytes_okb. intros H. apply forallb_forall. intros x Hx. apply N.ltb_lt.
  exact (proj1 (Forall_forall _ _) H x Hx).
Qed.
Lemma bytes_ok_concat (cs : list bytes) : Forall bytes_ok cs -> bytes_ok (concat cs).
Proof. induction 1 as [|c t Hc _ IH]; [apply Forall_nil|]. cbn [concat]. apply Forall_app. split; assumption. Qed.

Lemma dec_head_m_sound m bs n r : bytes_ok bs -> dec_head_m m bs = Ok (n, r) -> n < two64 /\ bytes_ok r.
Proof.
  intros Hb. unfold dec_head_m. destruct (decode_head bs) as [[[m' a] r']|] eqn:E; [|discriminate].
  destruct a as [n'|]; [|discriminate]. destruct (m' =? m); [|discriminate]. intros H. injection H as <- <-.
  split; [exact (decode_head_arg_bound _ _ _ _ Hb E)|].
  destruct (decode_head_suffix _ _ _ _ E) as (pre & -> & _). exact (proj2 (bytes_ok_app_inv _ _ Hb)).
Qed.
Lemma take_bytes_sound n bs p r : bytes_ok bs -> take_bytes n bs = Ok (p, r) ->
  bytes_ok p /\ bytes_ok r /\ N.of_nat (length p) = n.
Proof.
  intros Hb. unfold take_bytes. destruct (N.of_nat (length bs) <? n) eqn:E; [discriminate|].
  unfold split_at. destruct (N.to_nat n <=? length bs)%nat eqn:E2; [|discriminate]. intros H. injection H as <- <-.
  rewrite <- (firstn_skipn (N.to_nat n) bs) in Hb. apply bytes_ok_app_inv in Hb as [H1 H2].
  split; [exact H1|]. split; [exact H2|]. apply Nat.leb_le in E2. rewrite firstn_length_le by exact E2. apply N2Nat.id.
Qed.

Definition psound {A} (p : parser A) (P : A -> Prop) : Prop :=
  forall bs x r, bytes_ok bs -> p bs = Ok (x, r) -> P x /\ bytes_ok r.

Tactic Notation "inv_bind" hyp(H) "as" ident(x) ident(r) ident(E) :=
  match type of H with
  | bind ?e _ = Ok _ => destruct e as [[x r]| | |] eqn:E; cbn [bind] in H; [|discriminate H..]
  end.

Lemma dec_n_sound {A} (p : parser A) P : psound p P ->
  forall n bs l r, bytes_ok bs -> dec_n p n bs = Ok (l, r) -> Forall P l /\ bytes_ok r /\ length l = n.
Proof.
  intros Hp. induction n as [|n IH]; intros bs l r Hb H; cbn [dec_n] in H.
  - injection H as <- <-. repeat split; [apply Forall_nil|exact Hb].
  - inv_bind H as x r1 E. inv_bind H as xs r2 E0. injection H as <- <-.
    destruct (Hp _ _ _ Hb E) as [P1 B1]. destruct (IH _ _ _ B1 E0) as (P2 & B2 & L2).
    repeat split; [apply Forall_cons; assumption|exact B2|cbn [length]; lia].
Qed.
Lemma dec_counted_sound {A} (p : parser A) P : psound p P ->
  forall n bs l r, bytes_ok bs -> dec_counted p n bs = Ok (l, r) -> Forall P l /\ bytes_ok r /\ N.of_nat (length l) = n.
Proof.
  intros Hp n bs l r Hb. unfold dec_counted. destruct (N.of_nat (length bs) <? n); [discriminate|]. intros H.
  destruct (dec_n_sound p P Hp _ _ _ _ Hb H) as (P1 & B1 & L1). repeat split; [exact P1|exact B1|]. rewrite L1. apply N2Nat.id.
Qed.
Lemma dec_until_break_sound {A} (p : parser A) P : psound p P ->
  forall fuel bs l r, bytes_ok bs -> dec_until_break p fuel bs = Ok (l, r) -> Forall P l /\ bytes_ok r.
Proof.
  intros Hp. induction fuel as [|f IH]; intros bs l r Hb H; cbn [dec_until_break] in H; [discriminate|].
  destruct bs as [|b t]; [discriminate|]. destruct (b =? 255).
  - injection H as <- <-. split; [apply Forall_nil|]. inversion Hb; assumption.
  - inv_bind H as x r1 E. destruct (length r1 <? length (b :: t))%nat; [|discriminate]. inv_bind H as xs r2 E0. injection H as <- <-.
    destruct (Hp _ _ _ Hb E) as [P1 B1]. destruct (IH _ _ _ B1 E0) as [P2 B2].
    split; [apply Forall_cons; assumption|exact B2].
Qed.
Lemma dec_chunk_sound : psound dec_chunk bytes_ok.
Proof.
  intros bs c r Hb H. unfold dec_chunk in H. inv_bind H as n r1 E. destruct (n <=? 64); [|discriminate].
  destruct (dec_head_m_sound _ _ _ _ Hb E) as [_ B1]. destruct (take_bytes_sound _ _ _ _ B1 H) as (P1 & B2 & _). split; assumption.
Qed.
Lemma Forall_forallb {A} (f : A -> bool) l : Forall (fun x => f x = true) l -> forallb f l = true.
Proof. intros H. apply forallb_forall. intros x Hx. exact (proj1 (Forall_forall _ _) H x Hx). Qed.
Lemma nullable_wfp_up s w : wfp s w = true -> wfp (SNullable s) w = true.
Proof. destruct w; intros H; try exact H. reflexivity. Qed.

Definition DS (s : schema) : Prop := psound (dec s) (fun v => wfp s v = true).
Definition DSs (fs : slist) : Prop := psound (dec_sl fs) (fun l => wfp_sl fs l = true).
Definition DSk (fs : klist) : Prop := forall rem bs l rem' r, bytes_ok bs -> dec_kl fs rem bs = Ok (l, rem', r) ->
  wfp_kl fs l = true /\ bytes_ok r.
Definition DSv (alts : vlist) : Prop := forall idx n pos bs v r, bytes_ok bs -> dec_vl alts idx n pos bs = Ok (v, r) ->
  (exists i l, v = VVar (pos + i) l /\ wfp_vl alts i l = true) /\ bytes_ok r.
Definition DSc (alts : clist) : Prop := forall disc pos bs v r, bytes_ok bs -> dec_cl alts disc pos bs = Ok (v, r) ->
  (exists i w, v = VAlt (pos + i) w /\ wfp_cl alts i w = true) /\ bytes_ok r.

Lemma dec_wfp_all : (forall s, DS s) /\ (forall fs, DSs fs) /\ (forall fs, DSk fs) /\ (forall a, DSv a) /\ (forall a, DSc a).
Proof.
  apply schema_mutind; unfold DS, DSs, DSk, DSv, DSc, psound.
  - (* SUint *) intros lim bs v r Hb H. cbn [dec] in H. inv_bind H as n r1 E. destruct (n <? lim) eqn:El; [|discriminate]. injection H as <- <-.
    destruct (dec_head_m_sound _ _ _ _ Hb E) as [_ B]. split; [exact El|exact B].
  - (* SNint *) intros bs v r Hb H. cbn [dec] in H. inv_bind H as n r1 E. injection H as <- <-.
    destruct (dec_head_m_sound _ _ _ _ Hb E) as [Hn B]. split; [apply N.ltb_lt; exact Hn|exact B].
  - (* SBytes *) intros lo hi bs v r Hb H. cbn [dec] in H. inv_bind H as n r1 E. destruct ((lo <=? n) && (n <=? hi)) eqn:El; [|discriminate].
    inv_bind H as b r2 E0. injection H as <- <-. destruct (dec_head_m_sound _ _ _ _ Hb E) as [_ B].
    destruct (take_bytes_sound _ _ _ _ B E0) as (P1 & B2 & L). split; [|exact B2].
    cbn [wfp]. rewrite (bytes_ok_okb _ P1), L. exact El.
  - (* SText *) intros hi bs v r Hb H. cbn [dec] in H. inv_bind H as n r1 E. destruct (n <=? hi) eqn:El; [|discriminate].
    inv_bind H as b r2 E0. injection H as <- <-. destruct (dec_head_m_sound _ _ _ _ Hb E) as [_ B].
    destruct (take_bytes_sound _ _ _ _ B E0) as (P1 & B2 & L). split; [|exact B2].
    cbn [wfp]. rewrite (bytes_ok_okb _ P1), L. exact El.
  - (* SBool *) intros bs v r Hb H. cbn [dec] in H. destruct bs as [|b t]; [discriminate|]. inversion Hb; subst.
    destruct (b =? 244); [injection H as <- <-; split; [reflexivity|assumption]|].
    destruct (b =? 245); [injection H as <- <-; split; [reflexivity|assumption]|discriminate].
  - (* SArr *) intros fs IH bs v r Hb H. cbn [dec] in H. inv_bind H as n r1 E. destruct (n =? slen fs); [|discriminate]. inv_bind H as l r2 E0. injection H as <- <-.
    destruct (dec_head_m_sound _ _ _ _ Hb E) as [_ B]. destruct (IH _ _ _ B E0) as [P1 B2]. split; [exact P1|exact B2].
  - (* SMap *) intros fs IH bs v r Hb H. cbn [dec] in H. inv_bind H as n r1 E.
    destruct (dec_kl fs n r1) as [[[l rem] r']| | |] eqn:E0; cbn [bind] in H; try discriminate.
    destruct (rem =? 0); [|discriminate]. injection H as <- <-.
    destruct (dec_head_m_sound _ _ _ _ Hb E) as [_ B]. destruct (IH _ _ _ _ _ B E0) as [P1 B2]. split; [exact P1|exact B2].
  - (* SVar *) intros alts IH bs v r Hb H. cbn [dec] in H. inv_bind H as n r1 E. inv_bind H as idx r2 E0.
    destruct (dec_head_m_sound _ _ _ _ Hb E) as [_ B]. destruct (dec_head_m_sound _ _ _ _ B E0) as [_ B2].
    destruct (IH _ _ _ _ _ _ B2 H) as [(i & l & -> & Hw) B3]. split; [exact Hw|exact B3].
  - (* SArrOf *) intros lo s IH bs v r Hb H. cbn [dec] in H. inv_bind H as n r1 E. destruct (lo <=? n) eqn:El; [|discriminate]. inv_bind H as l r2 E0. injection H as <- <-.
    destruct (dec_head_m_sound _ _ _ _ Hb E) as [Hn B]. destruct (dec_counted_sound _ _ IH _ _ _ _ B E0) as (P1 & B2 & L).
    split; [|exact B2]. cbn [wfp]. rewrite (Forall_forallb _ _ P1), L, El. cbn [andb]. apply N.ltb_lt. exact Hn.
  - (* SSetOf *) intros s IH bs v r Hb H. cbn [dec] in H. inv_bind H as t r0 E. destruct (t =? 258); [|discriminate]. inv_bind H as n r1 E0. inv_bind H as l r2 E1. injection H as <- <-.
    destruct (dec_head_m_sound _ _ _ _ Hb E) as [_ B]. destruct (dec_head_m_sound _ _ _ _ B E0) as [Hn B2].
    destruct (dec_counted_sound _ _ IH _ _ _ _ B2 E1) as (P1 & B3 & L).
    split; [|exact B3]. cbn [wfp]. rewrite (Forall_forallb _ _ P1), L. cbn [andb]. apply N.ltb_lt. exact Hn.
  - (* SMapOf *) intros lo ord k IHk v' IHv bs v r Hb H. cbn [dec] in H. inv_bind H as n r1 E. destruct (lo <=? n) eqn:El; [|discriminate]. inv_bind H as l r2 E0. injection H as <- <-.
    destruct (dec_head_m_sound _ _ _ _ Hb E) as [Hn B].
    assert (Hp : psound (fun b => let* '(x, b1) := dec k b in let* '(y, b2) := dec v' b1 in Ok ((x, y), b2))
                        (fun kv => (wfp k (fst kv) && wfp v' (snd kv)) = true)).
    { intros bs' [x y] r' Hb' H'. inv_bind H' as x' b1 E1. inv_bind H' as y' b2 E2. injection H' as <- <- <-.
      destruct (IHk _ _ _ Hb' E1) as [P1 B1]. destruct (IHv _ _ _ B1 E2) as [P2 B2]. cbn [fst snd]. rewrite P1, P2. split; [reflexivity|exact B2]. }
    destruct (dec_counted_sound _ _ Hp _ _ _ _ B E0) as (P1 & B2 & L).
    split; [|exact B2]. cbn [wfp]. rewrite (Forall_forallb _ _ P1), L, El. cbn [andb]. apply N.ltb_lt. exact Hn.
  - (* SNullable *) intros s IH bs v r Hb H. cbn [dec] in H. destruct bs as [|b t]; [discriminate|].
    destruct (b =? 246); [injection H as <- <-; split; [reflexivity|inversion Hb; assumption]|].
    destruct (IH _ _ _ Hb H) as [P1 B]. split; [apply nullable_wfp_up; exact P1|exact B].
  - (* STag *) intros t s IH bs v r Hb H. cbn [dec] in H. inv_bind H as n r1 E. destruct (n =? t); [|discriminate].
    destruct (dec_head_m_sound _ _ _ _ Hb E) as [_ B]. exact (IH _ _ _ B H).
  - (* SInBytes *) intros s IH bs v r Hb H. cbn [dec] in H. inv_bind H as n r1 E. inv_bind H as b r2 E0.
    destruct (dec_head_m_sound _ _ _ _ Hb E) as [_ B]. destruct (take_bytes_sound _ _ _ _ B E0) as (P1 & B2 & _).
    destruct (dec s b) as [[w [|? ?]]| | |] eqn:E1; try discriminate. injection H as <- <-.
    destruct (IH _ _ _ P1 E1) as [P2 _]. split; [exact P2|exact B2].
  - (* SChoice *) intros alts IH bs v r Hb H. cbn [dec] in H. destruct (peek_major bs) as [m|]; [|discriminate].
    destruct (IH _ _ _ _ _ Hb H) as [(i & w & -> & Hw) B]. split; [exact Hw|exact B].
  - (* STagChoice *) intros alts IH bs v r Hb H. cbn [dec] in H. inv_bind H as t r1 E.
    destruct (dec_head_m_sound _ _ _ _ Hb E) as [_ B]. destruct (IH _ _ _ _ _ B H) as [(i & w & -> & Hw) B2]. split; [exact Hw|exact B2].
  - (* SArrAny *) intros s IH bs v r Hb H. cbn [dec] in H. destruct (decode_head bs) as [[[m a] r0]|] eqn:E; [|discriminate].
    assert (B : bytes_ok r0). { destruct (decode_head_suffix _ _ _ _ E) as (pre & -> & _). exact (proj2 (bytes_ok_app_inv _ _ Hb)). }
    destruct a as [n|].
    + destruct (m =? 4); [|discriminate]. inv_bind H as l r2 E0. injection H as <- <-.
      destruct (dec_counted_sound _ _ IH _ _ _ _ B E0) as (P1 & B2 & L). split; [|exact B2].
      cbn [wfp]. rewrite (Forall_forallb _ _ P1), L. cbn [andb]. apply N.ltb_lt. exact (decode_head_arg_bound _ _ _ _ Hb E).
    + destruct (m =? 4); [|discriminate]. inv_bind H as l r2 E0. injection H as <- <-.
      destruct (dec_until_break_sound _ _ IH _ _ _ _ B E0) as (P1 & B2). split; [|exact B2]. cbn [wfp]. exact (Forall_forallb _ _ P1).
  - (* SBBytes *) intros bs v r Hb H. cbn [dec] in H. destruct (decode_head bs) as [[[m a] r0]|] eqn:E; [|discriminate].
    assert (B : bytes_ok r0). { destruct (decode_head_suffix _ _ _ _ E) as (pre & -> & _). exact (proj2 (bytes_ok_app_inv _ _ Hb)). }
    destruct a as [n|].
    + destruct ((m =? 2) && (n <=? 64)); [|discriminate]. inv_bind H as b r2 E0. injection H as <- <-.
      destruct (take_bytes_sound _ _ _ _ B E0) as (P1 & B2 & _). split; [exact (bytes_ok_okb _ P1)|exact B2].
    + destruct (m =? 2); [|discriminate]. inv_bind H as cs r2 E0. injection H as <- <-.
      destruct (dec_until_break_sound _ _ dec_chunk_sound _ _ _ _ B E0) as (P1 & B2). split; [|exact B2].
      cbn [wfp]. apply bytes_ok_okb, bytes_ok_concat, P1.
  - (* SNamed *) intros id s IH bs v r Hb H. cbn [dec wfp] in *. exact (IH _ _ _ Hb H).
  - (* SArrOpt *) intros fs IHfs o IHo bs v r Hb H. cbn [dec] in H. inv_bind H as n r1 E. destruct (dec_head_m_sound _ _ _ _ Hb E) as [_ B].
    destruct (n =? slen fs).
    + inv_bind H as l r2 E0. injection H as <- <-. destruct (IHfs _ _ _ B E0) as [P1 B2]. split; [exact P1|exact B2].
    + destruct (n =? 1 + slen fs); [|discriminate]. inv_bind H as l r2 E0. inv_bind H as x r3 E1. injection H as <- <-.
      destruct (IHfs _ _ _ B E0) as [P1 B2]. destruct (IHo _ _ _ B2 E1) as [P2 B3]. split; [|exact B3]. cbn [wfp]. rewrite P1, P2. reflexivity.
  - (* SNil *) intros bs l r Hb H. cbn [dec_sl] in H. injection H as <- <-. split; [reflexivity|exact Hb].
  - (* SCons *) intros s IHs r0 IHr bs l r Hb H. cbn [dec_sl] in H. inv_bind H as x b1 E. inv_bind H as xs b2 E0. injection H as <- <-.
    destruct (IHs _ _ _ Hb E) as [P1 B1]. destruct (IHr _ _ _ B1 E0) as [P2 B2]. split; [|exact B2]. cbn [wfp_sl]. rewrite P1, P2. reflexivity.
  - (* KNil *) intros rem bs l rem' r Hb H. cbn [dec_kl] in H. injection H as <- <- <-. split; [reflexivity|exact Hb].
  - (* KCons *) intros k p s IHs r0 IHr rem bs l rem' r Hb H. cbn [dec_kl] in H.
    match type of H with match ?here with _ => _ end = _ => destruct here as [b1|] eqn:Eh end.
    + assert (B1 : bytes_ok b1).
      { destruct (rem =? 0); [discriminate|]. destruct (dec_head_m 0 bs) as [[k' b1']| | |] eqn:E; try discriminate.
        destruct (k' =? k); [|discriminate]. injection Eh as <-. exact (proj2 (dec_head_m_sound _ _ _ _ Hb E)). }
      inv_bind H as x b2 E. destruct (match p with OptNE => is_empty_val x | _ => false end); [discriminate|].
      destruct (dec_kl r0 (rem - 1) b2) as [[[l0 rem0] r1]| | |] eqn:E1; cbn [bind] in H; try discriminate. injection H as <- <- <-.
      destruct (IHs _ _ _ B1 E) as [P1 B2]. destruct (IHr _ _ _ _ _ B2 E1) as [P2 B3]. split; [|exact B3]. cbn [wfp_kl]. rewrite P1, P2. reflexivity.
    + destruct p; [discriminate| |];
        (destruct (dec_kl r0 rem bs) as [[[l0 rem0] r1]| | |] eqn:E1; cbn [bind] in H; try discriminate; injection H as <- <- <-;
         destruct (IHr _ _ _ _ _ Hb E1) as [P2 B3]; split; [cbn [wfp_kl]; rewrite P2; reflexivity|exact B3]).
  - (* ANil *) intros idx n pos bs v r Hb H. discriminate.
  - (* ACons *) intros i fs IHfs r0 IHr idx n pos bs v r Hb H. cbn [dec_vl] in H. destruct (idx =? i).
    + destruct (n =? 1 + slen fs); [|discriminate]. inv_bind H as l b1 E. injection H as <- <-. destruct (IHfs _ _ _ Hb E) as [P1 B1].
      split; [|exact B1]. exists O, l. rewrite Nat.add_0_r. split; [reflexivity|exact P1].
    + destruct (IHr _ _ _ _ _ _ Hb H) as [(j & l & -> & Hw) B]. split; [|exact B]. exists (S j), l. split; [f_equal; lia|exact Hw].
  - (* CNil *) intros disc pos bs v r Hb H. discriminate.
  - (* CCons *) intros d s IHs r0 IHr disc pos bs v r Hb H. cbn [dec_cl] in H. destruct (disc =? d).
    + inv_bind H as x b1 E. injection H as <- <-. destruct (IHs _ _ _ Hb E) as [P1 B1]. split; [|exact B1].
      exists O, x. rewrite Nat.add_0_r. split; [reflexivity|exact P1].
    + destruct (IHr _ _ _ _ _ Hb H) as [(j & w & -> & Hw) B]. split; [|exact B]. exists (S j), w. split; [f_equal; lia|exact Hw].
Qed.

Theorem dec_wfp s bs v r : bytes_ok bs -> dec s bs = Ok (v, r) -> wfp s v = true /\ bytes_ok r.
Proof. exact (proj1 dec_wfp_all s bs v r). Qed.

(* ---------- decoder soundness and its corollary ---------- *)
Theorem sdec_sound s bs v rest : bytes_ok bs -> sdec s bs = Ok (v, rest) -> wfv s v = true /\ bytes_ok rest.
Proof.
  intros Hb H. unfold sdec in H. destruct (dec s bs) as [[w r]| | |] eqn:E; cbn [bind] in H; try discriminate.
  destruct (canon s w) as [w'|] eqn:Ec; [|discriminate]. injection H as <- <-.
  destruct (dec_wfp _ _ _ _ Hb E) as [P B]. split; [exact (canon_sound _ _ _ P Ec)|exact B].
Qed.
(* on the domain the library-faithful decoder is the wire-shape decoder: it inverts the encoder *)
Theorem sdec_roundtrip s v rest : wfs s = true -> wfv s v = true -> sdec s (enc s v ++ rest) = Ok (v, rest).
Proof.
  intros Hs Hv. unfold sdec. rewrite schema_roundtrip by assumption. cbn [bind]. rewrite canon_id by exact Hv. reflexivity.
Qed.
(* decode, encode, decode: the identity on whatever was decoded *)
Theorem sdec_idempotent s bs v rest rest' :
  wfs s = true -> bytes_ok bs -> sdec s bs = Ok (v, rest) -> sdec s (enc s v ++ rest') = Ok (v, rest').
Proof. intros Hs Hb H. apply sdec_roundtrip; [exact Hs|]. exact (proj1 (sdec_sound _ _ _ _ Hb H)). Qed.
