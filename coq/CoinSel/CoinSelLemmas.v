(* C08 — auxiliary lemmas: Vec / BTreeSet / BTreeMap helpers of the model, quantities of values, the input map. *)
From CSL Require Import Base.Prelude Num.Value Num.ValueProofs Num.ValueNorm Num.ValueNormProofs CoinSel.CoinSel CoinSel.CoinSelSpec.
From Coq Require Import Permutation Sorting.Sorted.
Local Open Scope N_scope.

(* ------------------------------------------------------------------------------------------- *)
(* Vec::swap_remove, position *)

Lemma swap_remove_perm {A} (p : nat) (l : list A) x l' :
  swap_remove p l = Some (x, l') -> Permutation l (x :: l') /\ nth_error l p = Some x.
Proof.
  unfold swap_remove. destruct (nth_error l p) as [y|] eqn:E; [|discriminate].
  intros H. inversion H; subst y l'; clear H. split; [|reflexivity].
  assert (Hne : l <> []) by (intro; subst; destruct p; discriminate).
  pose proof (app_removelast_last x Hne) as Hl.
  remember (removelast l) as rl eqn:Hrl0. remember (last l x) as la eqn:Hla0. clear Hrl0 Hla0 Hne. subst l.
  assert (Hlen : (p < length (rl ++ [la]))%nat) by (apply nth_error_Some; congruence).
  rewrite app_length in Hlen. cbn in Hlen.
  destruct (Nat.eqb p (length rl)) eqn:Ep.
  - apply Nat.eqb_eq in Ep. rewrite nth_error_app2 in E by lia.
    replace (p - length rl)%nat with O in E by lia. cbn in E. inversion E; subst.
    apply Permutation_sym, Permutation_cons_append.
  - apply Nat.eqb_neq in Ep. assert (Hp : (p < length rl)%nat) by lia.
    rewrite nth_error_app1 in E by lia.
    pose proof (nth_error_split rl p E) as [l1 [l2 [Hrl Hl1]]].
    assert (F1 : firstn p rl = l1).
    { rewrite Hrl. rewrite <- Hl1. rewrite firstn_app. rewrite Nat.sub_diag. cbn. rewrite firstn_all. apply app_nil_r. }
    assert (F2 : skipn (S p) rl = l2).
    { rewrite Hrl. rewrite <- Hl1. rewrite skipn_app. rewrite skipn_all2 by (cbn; lia).
      replace (S (length l1) - length l1)%nat with 1%nat by lia. reflexivity. }
    change (match rl with [] => [] | _ :: l => skipn p l end) with (skipn (S p) rl).
    rewrite F1, F2. rewrite Hrl.
    rewrite <- app_assoc. cbn.
    (* l1 ++ x :: l2 ++ [la]  ~  x :: l1 ++ la :: l2 *)
    apply Permutation_trans with (x :: l1 ++ l2 ++ [la]).
    + apply Permutation_sym, Permutation_middle.
    + constructor. apply Permutation_app_head. apply Permutation_sym, Permutation_cons_append.
Qed.

Lemma position_nth i l p : position i l = Some p -> nth_error l p = Some i.
Proof.
  revert p. induction l as [|x l IH]; intros p; cbn; [discriminate|].
  destruct (Nat.eqb x i) eqn:E.
  - intros H; inversion H; subst. apply Nat.eqb_eq in E. subst. reflexivity.
  - destruct (position i l) as [q|]; cbn; [|discriminate]. intros H; inversion H; subst. cbn. apply IH. reflexivity.
Qed.

Lemma position_some i l : In i l -> exists p, position i l = Some p.
Proof.
  induction l as [|x l IH]; cbn; [tauto|]. intros [->|H].
  - rewrite Nat.eqb_refl. eauto.
  - destruct (Nat.eqb x i); [eauto|]. destruct (IH H) as [p ->]. cbn. eauto.
Qed.

Lemma replace_nth_length {A} p (x : A) l : length (replace_nth p x l) = length l.
Proof. revert p; induction l; intros [|p]; cbn; auto. Qed.

(* replacing position p (which holds j) by i *)
Lemma replace_nth_perm {A} p (i j : A) l :
  nth_error l p = Some j -> Permutation (j :: replace_nth p i l) (i :: l).
Proof.
  revert p. induction l as [|y l IH]; intros [|p]; cbn; try discriminate.
  - intros H; inversion H; subst. apply perm_swap.
  - intros H. apply Permutation_trans with (y :: j :: replace_nth p i l); [apply perm_swap|].
    apply Permutation_trans with (y :: i :: l); [constructor; apply IH; exact H|apply perm_swap].
Qed.

(* ------------------------------------------------------------------------------------------- *)
(* BTreeSet<usize> as a strictly increasing list *)

Definition sset (s : list nat) : Prop := StronglySorted Nat.lt s.

Lemma sset_nodup s : sset s -> NoDup s.
Proof.
  induction 1; constructor; auto. intro Hin. rewrite Forall_forall in H0. specialize (H0 _ Hin). lia.
Qed.

Lemma sset_seq a n : sset (seq a n).
Proof.
  revert a; induction n; intros a; cbn; constructor; [apply IHn|].
  apply Forall_forall. intros x Hx. apply in_seq in Hx. lia.
Qed.

Lemma set_remove_in i s x : In x (set_remove i s) <-> In x s /\ x <> i.
Proof.
  unfold set_remove. rewrite filter_In. split; intros [H1 H2]; split; auto.
  - intro; subst. rewrite Nat.eqb_refl in H2. discriminate.
  - apply Bool.negb_true_iff. apply Nat.eqb_neq. auto.
Qed.

Lemma sset_filter f s : sset s -> sset (filter f s).
Proof.
  induction 1; cbn; [constructor|]. destruct (f a); auto. constructor; auto.
  apply Forall_forall. intros x Hx. apply filter_In in Hx. rewrite Forall_forall in H0. apply H0. tauto.
Qed.

Lemma set_remove_sset i s : sset s -> sset (set_remove i s).
Proof. apply sset_filter. Qed.

Lemma set_insert_in i s x : In x (set_insert i s) <-> x = i \/ In x s.
Proof.
  induction s as [|y s IH]; cbn [set_insert]; [cbn [In]; intuition|].
  destruct (Nat.ltb i y) eqn:E1; [cbn [In]; intuition|].
  destruct (Nat.eqb i y) eqn:E2.
  - apply Nat.eqb_eq in E2. subst. cbn [In]. intuition.
  - cbn [In]. rewrite IH. intuition.
Qed.

Lemma set_insert_sset i s : sset s -> sset (set_insert i s).
Proof.
  induction 1 as [|y s Hs IH Hy]; cbn [set_insert]; [repeat constructor|].
  destruct (Nat.ltb i y) eqn:E1.
  - apply Nat.ltb_lt in E1. constructor; [constructor; auto|].
    constructor; auto. rewrite Forall_forall in *. intros x Hx. specialize (Hy _ Hx). lia.
  - destruct (Nat.eqb i y) eqn:E2; [constructor; auto|].
    apply Nat.ltb_ge in E1. apply Nat.eqb_neq in E2.
    constructor; auto. apply Forall_forall. intros x Hx. apply set_insert_in in Hx.
    rewrite Forall_forall in Hy. destruct Hx as [->|Hx]; [lia|auto].
Qed.

(* ------------------------------------------------------------------------------------------- *)
(* sort_by_key *)

Lemma ins_sorted_perm {A} (k : A -> N) x l : Permutation (ins_sorted k x l) (x :: l).
Proof.
  induction l as [|y l IH]; cbn; [reflexivity|].
  destruct (k x <=? k y); [reflexivity|].
  apply Permutation_trans with (y :: x :: l); [constructor; exact IH|apply perm_swap].
Qed.

Lemma stable_sort_perm {A} (k : A -> N) l : Permutation (stable_sort k l) l.
Proof.
  induction l as [|x l IH]; cbn; [reflexivity|].
  apply Permutation_trans with (x :: stable_sort k l); [apply ins_sorted_perm|constructor; exact IH].
Qed.

Definition key_sorted {A} (k : A -> N) (l : list A) : Prop := StronglySorted (fun a b => k a <= k b) l.

Lemma ins_sorted_sorted {A} (k : A -> N) x l : key_sorted k l -> key_sorted k (ins_sorted k x l).
Proof.
  induction 1 as [|y l Hl IH Hy]; cbn; [repeat constructor|].
  destruct (k x <=? k y) eqn:E.
  - apply N.leb_le in E. constructor; [constructor; auto|].
    constructor; auto. rewrite Forall_forall in *. intros z Hz. specialize (Hy _ Hz). cbn in *. lia.
  - apply N.leb_gt in E. constructor; auto.
    apply Forall_forall. intros z Hz.
    apply (Permutation_in _ (ins_sorted_perm k x l)) in Hz. destruct Hz as [<-|Hz]; [lia|].
    rewrite Forall_forall in Hy. auto.
Qed.

Lemma stable_sort_sorted {A} (k : A -> N) l : key_sorted k (stable_sort k l).
Proof. induction l; cbn; [constructor|apply ins_sorted_sorted; auto]. Qed.

(* ------------------------------------------------------------------------------------------- *)
(* gen_range under the script *)

Lemma next_choice_lt n cs : n <> O -> (fst (next_choice n cs) < n)%nat.
Proof.
  intros Hn. unfold next_choice. destruct cs as [|c cs]; cbn; [lia|].
  destruct (Nat.eqb n O) eqn:E; [apply Nat.eqb_eq in E; lia|].
  assert (c mod N.of_nat n < N.of_nat n) by (apply N.mod_lt; lia). lia.
Qed.

(* ------------------------------------------------------------------------------------------- *)
(* Quantities *)

Lemma by_val_Q sel v x : by_val sel v = Some x -> Q sel v = x.
Proof.
  destruct sel as [|p n]; cbn; [intros H; inversion H; reflexivity|].
  unfold qty, opt_ma_qty, ma_qty, ma_get_asset.
  destruct (multiasset_of v) as [m|]; [|discriminate].
  destruct (ma_get p m) as [a|]; [|discriminate].
  intros ->. reflexivity.
Qed.

Lemma by_val_none_Q sel v : by_val sel v = None -> Q sel v = 0.
Proof.
  destruct sel as [|p n]; cbn; [discriminate|].
  unfold qty, opt_ma_qty, ma_qty, ma_get_asset.
  destruct (multiasset_of v) as [m|]; [|reflexivity].
  destruct (ma_get p m) as [a|]; [|reflexivity].
  intros ->. reflexivity.
Qed.

Lemma by_or_zero_Q sel v : by_or_zero sel v = Q sel v.
Proof.
  unfold by_or_zero. destruct (by_val sel v) eqn:E.
  - symmetry. apply by_val_Q. exact E.
  - symmetry. apply by_val_none_Q. exact E.
Qed.

Lemma vadd_Q a b c : value_wf a -> value_wf b -> value_checked_add a b = Ok c ->
  (forall sel, Q sel c = Q sel a + Q sel b) /\ value_wf c.
Proof.
  intros Wa Wb E. destruct (value_checked_add_ok a b c Wa Wb E) as [C [Qq Wc]].
  split; [|exact Wc]. intros [|p n]; cbn; auto.
Qed.

Lemma value_new_wf x : x < two64 -> value_wf (value_new x).
Proof. intros H. unfold value_wf, value_wfb. cbn. apply N.ltb_lt in H. rewrite H. reflexivity. Qed.

Lemma Q_value_new sel x : Q sel (value_new x) = coin_only sel x.
Proof. destruct sel; reflexivity. Qed.

Lemma sumQ_app sel l1 l2 : sumQ sel (l1 ++ l2) = sumQ sel l1 + sumQ sel l2.
Proof. unfold sumQ. induction l1; cbn [app fold_right]; [reflexivity|]. rewrite IHl1. lia. Qed.

Lemma sumQ_perm sel l1 l2 : Permutation l1 l2 -> sumQ sel l1 = sumQ sel l2.
Proof. unfold sumQ. induction 1; cbn [fold_right]; lia. Qed.

Lemma sum_values_Q acc l r : value_wf acc -> Forall value_wf l -> sum_values acc l = Ok r ->
  (forall sel, Q sel r = Q sel acc + sumQ sel l) /\ value_wf r.
Proof.
  revert acc. induction l as [|x l IH]; intros acc Wacc Wl; cbn [sum_values].
  - intros H; inversion H; subst. split; auto. intros; unfold sumQ; cbn [fold_right]; lia.
  - destruct (value_checked_add acc x) as [a| | |] eqn:E; cbn [bind]; try discriminate.
    inversion Wl; subst. destruct (vadd_Q _ _ _ Wacc H1 E) as [Qa Wa].
    intros H. destruct (IH a Wa H2 H) as [Qr Wr]. split; auto.
    intros sel. rewrite Qr, Qa. unfold sumQ; cbn [fold_right]. lia.
Qed.

(* ------------------------------------------------------------------------------------------- *)
(* The input map *)

Lemma imap_insert_perm u m : ~ In (u_id u) (ids m) -> Permutation (imap_insert u m) (u :: m).
Proof.
  induction m as [|x m IH]; cbn; [reflexivity|]. intros Hn.
  destruct (N.compare (u_id u) (u_id x)) eqn:E.
  - apply N.compare_eq in E. exfalso. apply Hn. left. congruence.
  - reflexivity.
  - apply Permutation_trans with (x :: u :: m); [constructor; apply IH; tauto|apply perm_swap].
Qed.

Definition insert_all (added : list utxo) (m : imap) : imap := fold_left (fun m u => imap_insert u m) added m.

Lemma insert_all_app l1 l2 m : insert_all (l1 ++ l2) m = insert_all l2 (insert_all l1 m).
Proof. unfold insert_all. apply fold_left_app. Qed.

Lemma insert_all_perm added m : NoDup (ids m ++ ids added) -> Permutation (insert_all added m) (m ++ added).
Proof.
  revert m. induction added as [|u l IH]; intros m Hnd; cbn.
  - rewrite app_nil_r. reflexivity.
  - assert (Hu : ~ In (u_id u) (ids m)).
    { intro Hin. apply NoDup_remove_2 in Hnd. apply Hnd. apply in_or_app. left. exact Hin. }
    pose proof (imap_insert_perm u m Hu) as Hp.
    apply Permutation_trans with (imap_insert u m ++ l).
    + apply IH. unfold ids. cbn in Hnd.
      apply (Permutation_NoDup (l := (u_id u :: ids m) ++ ids l)).
      * apply Permutation_app_tail. apply Permutation_sym. exact (Permutation_map u_id Hp).
      * cbn. apply (Permutation_NoDup (l := ids m ++ u_id u :: ids l)); [|exact Hnd].
        apply Permutation_sym, Permutation_middle.
    + apply Permutation_trans with ((u :: m) ++ l); [apply Permutation_app_tail; exact Hp|].
      cbn. apply Permutation_middle.
Qed.

Lemma imap_of_list_perm l : NoDup (ids l) -> Permutation (imap_of_list l) l.
Proof. intros H. apply (insert_all_perm l []). exact H. Qed.

(* ------------------------------------------------------------------------------------------- *)
(* push_input's normalisation: same outpoint, same quantities, well formed *)

Lemma ids_norm l : ids (map norm_utxo l) = ids l.
Proof. unfold ids. rewrite map_map. reflexivity. Qed.

Lemma Q_norm sel v : value_wf v -> Q sel (value_without_empty_entries v) = Q sel v.
Proof.
  intros W. destruct (value_without_empty_entries_sem v W) as [C Hq]. destruct sel; cbn [Q]; auto.
Qed.

Lemma sumQ_norm sel l : Forall (fun u => value_wf (u_val u)) l ->
  sumQ sel (map u_val (map norm_utxo l)) = sumQ sel (map u_val l).
Proof.
  induction 1 as [|u l W _ IH]; [reflexivity|]. unfold sumQ in *. cbn [map fold_right norm_utxo u_val].
  rewrite IH. rewrite (Q_norm sel _ W). reflexivity.
Qed.

Lemma norm_wf l : Forall (fun u => value_wf (u_val u)) l -> Forall (fun u => value_wf (u_val u)) (map norm_utxo l).
Proof.
  induction 1; cbn [map]; constructor; auto. cbn [norm_utxo u_val]. apply value_without_empty_entries_wf. assumption.
Qed.
