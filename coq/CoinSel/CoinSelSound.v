(* C08 — soundness of add_inputs_from (the code as it is now) for every strategy, every offered list, every
   builder content and every sequence of random choices; arbitrary min_fee / fee_for_input. *)
From CSL Require Import Base.Prelude Num.Value Num.ValueProofs Num.ValueNorm Num.ValueNormProofs CoinSel.CoinSel CoinSel.CoinSelSpec CoinSel.CoinSelLemmas
  CoinSel.CoinSelProofs.
From Coq Require Import Permutation Sorting.Sorted.
Local Open Scope N_scope.

Lemma selectors_complete v p n : qty v p n <> 0 -> In (ByAsset p n) (asset_selectors v).
Proof.
  unfold qty, opt_ma_qty, asset_selectors. destruct (multiasset_of v) as [m|]; [|tauto].
  intros H. apply qty_in_entries in H.
  apply in_map_iff. exists (p, n, ma_qty m p n). split; auto.
Qed.

Lemma no_asset_qty v : value_has_asset v = false -> forall p n, qty v p n = 0.
Proof.
  unfold value_has_asset, qty, opt_ma_qty. destruct (multiasset_of v) as [m|]; [|reflexivity].
  intros H p n. destruct (N.eq_dec (ma_qty m p n) 0) as [E|E]; [exact E|].
  exfalso. pose proof (qty_in_entries m p n E) as Hin.
  assert (Hex : existsb (fun e : bytes * bytes * N => let '(_, _, q) := e in 0 <? q) (ma_entries m) = true).
  { apply existsb_exists. exists (p, n, ma_qty m p n). split; auto. apply N.ltb_lt. lia. }
  rewrite Hex in H. discriminate.
Qed.

Lemma outputs_no_assets sc : outputs_have_assets sc = false ->
  forall p n, sumQ (ByAsset p n) (map o_val (sc_outputs sc)) = 0.
Proof.
  unfold outputs_have_assets. intros H p n. induction (sc_outputs sc) as [|o l IH]; [reflexivity|].
  cbn [existsb] in H. apply Bool.orb_false_iff in H. destruct H as [H1 H2].
  unfold sumQ in *. cbn [map fold_right]. rewrite (IH H2).
  cbn [Q]. unfold qty. destruct (multiasset_of (o_val o)); [discriminate|]. reflexivity.
Qed.

Lemma rev_last_nth {A} (l : list A) u r : rev l = u :: r -> nth_error l (length l - 1) = Some u /\ removelast l = rev r.
Proof.
  intros H. assert (Hl : l = rev r ++ [u]) by (rewrite <- (rev_involutive l), H; reflexivity).
  subst l. split.
  - rewrite app_length. cbn [length]. rewrite nth_error_app2 by lia.
    replace (length (rev r) + 1 - 1 - length (rev r))%nat with O by lia. reflexivity.
  - apply removelast_last.
Qed.

Lemma removelast_prefix {A} (l : list A) i x : nth_error (removelast l) i = Some x -> nth_error l i = Some x.
Proof.
  destruct l as [|y l0] eqn:E; [cbn; auto|]. rewrite <- E in *.
  assert (Hne : l <> []) by (subst; discriminate).
  intros H. rewrite (app_removelast_last y Hne). rewrite nth_error_app1; auto.
  apply nth_error_Some. congruence.
Qed.

Lemma nodup_ids_nth (l : list utxo) i j u w :
  NoDup (ids l) -> nth_error l i = Some u -> nth_error l j = Some w -> u_id u = u_id w -> i = j.
Proof.
  intros Hnd Hi Hj Heq.
  assert (Hi' : nth_error (ids l) i = Some (u_id u)) by (unfold ids; rewrite nth_error_map, Hi; reflexivity).
  assert (Hj' : nth_error (ids l) j = Some (u_id u)) by (unfold ids; rewrite nth_error_map, Hj, Heq; reflexivity).
  rewrite NoDup_nth_error in Hnd. apply Hnd; [apply nth_error_Some; congruence|congruence].
Qed.

Lemma added_in offered tr u : In u (added_utxos offered tr) -> exists i, In i tr /\ nth_error offered i = Some u.
Proof.
  unfold added_utxos. intros H. apply in_flat_map in H. destruct H as [i [Hi Hu]].
  exists i. split; auto. destruct (nth_error offered i) as [w|]; [|destruct Hu].
  destruct Hu as [->|[]]. reflexivity.
Qed.

Lemma nodup_added offered tr : NoDup (ids offered) -> NoDup tr -> NoDup (ids (added_utxos offered tr)).
Proof.
  intros Hnd. induction tr as [|i tr IH]; intros Ht; [constructor|].
  inversion Ht; subst. change (i :: tr) with ([i] ++ tr). unfold added_utxos in *. rewrite flat_map_app. cbn [flat_map].
  destruct (nth_error offered i) as [u|] eqn:Eu; cbn [app]; [|apply IH; auto].
  unfold ids. cbn [map]. constructor; [|apply IH; auto].
  intro Hin. apply in_map_iff in Hin. destruct Hin as [w [Hw Hin]].
  apply added_in in Hin. destruct Hin as [j [Hj Hnj]].
  assert (i = j) by (eapply nodup_ids_nth; eauto). subst. tauto.
Qed.

Lemma id_mem_in x l : id_mem x l = true <-> In x l.
Proof.
  unfold id_mem. rewrite existsb_exists. split.
  - intros [y [Hy E]]. apply N.eqb_eq in E. subst. exact Hy.
  - intros H. exists x. split; auto. apply N.eqb_refl.
Qed.

Lemma filter_offered_incl l : forall seen, incl (filter_offered seen l) l.
Proof.
  induction l as [|u r IH]; intros seen; cbn [filter_offered]; [apply incl_refl|].
  destruct (id_mem (u_id u) seen).
  - apply incl_tl. apply IH.
  - intros x [<-|Hx]; [left; reflexivity|right; apply (IH _ x Hx)].
Qed.

Lemma filter_offered_nodup l : forall seen,
  NoDup (ids (filter_offered seen l)) /\ (forall x, In x (ids (filter_offered seen l)) -> ~ In x seen).
Proof.
  induction l as [|u r IH]; intros seen; cbn [filter_offered].
  - split; [constructor|intros x []].
  - destruct (id_mem (u_id u) seen) eqn:E; [apply IH|].
    destruct (IH (u_id u :: seen)) as [Hn Hd]. unfold ids in *. cbn [map]. split.
    + constructor; auto. intro Hin. apply (Hd _ Hin). left; reflexivity.
    + intros x [<-|Hx].
      * intro Hin. apply id_mem_in in Hin. congruence.
      * intro Hin. apply (Hd _ Hx). right; exact Hin.
Qed.

Section Sound.
  Variable min_fee : imap -> result N.
  Variable ffi : imap -> utxo -> result N.

  Lemma initial_ok offered sc st0 :
    scenario_wf offered sc -> NoDup (ids (sc_pre sc)) ->
    initial_state min_fee sc = (st0, Done tt) ->
    exists it0 ot0 f0, let m0 := initial_map sc in
      st0 = mkSt m0 it0 ot0 [] /\ value_wf it0 /\ value_wf ot0 /\ min_fee m0 = Ok f0 /\
      (forall s, Q s it0 = sumQ s (map u_val m0) + Q s (sc_implicit sc) + Q s (sc_mint sc)) /\
      (forall s, Q s ot0 = demand s sc f0).
  Proof.
    intros [_ [Wpre [Wout [Wimp [Wmint Wburn]]]]] Hnd H. unfold initial_state in H.
    set (m0 := initial_map sc) in *.
    assert (Wm0 : Forall value_wf (map u_val m0)).
    { apply Forall_forall. intros x Hx. apply in_map_iff in Hx. destruct Hx as [u [<- Hu]].
      assert (Hnd' : NoDup (ids (map norm_utxo (sc_pre sc)))) by (rewrite ids_norm; exact Hnd).
      apply (Permutation_in _ (imap_of_list_perm _ Hnd')) in Hu.
      pose proof (norm_wf _ Wpre) as Wn. rewrite Forall_forall in Wn. apply Wn. exact Hu. }
    destruct (total_input sc m0) as [it0| | |] eqn:Ei; cbn [of_result obind] in H; try discriminate H.
    match type of H with obind _ (of_result ?r) _ = _ => destruct r as [ot0| | |] eqn:Eo end;
      cbn [of_result obind] in H; try discriminate H.
    inversion H; subst st0; clear H.
    (* input side *)
    unfold total_input in Ei.
    destruct (sum_values value_zero (map u_val m0)) as [e| | |] eqn:E1; cbn [bind] in Ei; try discriminate Ei.
    destruct (value_checked_add e (sc_implicit sc)) as [x| | |] eqn:E2; cbn [bind] in Ei; try discriminate Ei.
    assert (Wz : value_wf value_zero) by (apply value_new_wf; reflexivity).
    assert (Hz : forall s, Q s value_zero = 0) by (intros [|]; reflexivity).
    destruct (sum_values_Q _ _ _ Wz Wm0 E1) as [Qe We].
    destruct (vadd_Q _ _ _ We Wimp E2) as [Qx Wx].
    destruct (vadd_Q _ _ _ Wx Wmint Ei) as [Qi Wi].
    (* output side *)
    destruct (total_output sc) as [t| | |] eqn:Et; cbn [bind] in Eo; try discriminate Eo.
    destruct (min_fee m0) as [f0| | |] eqn:Ef; cbn [bind] in Eo; try discriminate Eo.
    unfold total_output in Et.
    destruct (sum_values (value_new 0) (map o_val (sc_outputs sc))) as [eo| | |] eqn:F1; cbn [bind] in Et; try discriminate Et.
    destruct (value_checked_add eo (value_new (sc_deposit sc))) as [xo| | |] eqn:F2; cbn [bind] in Et; try discriminate Et.
    destruct (value_checked_add xo (sc_burn sc)) as [yo| | |] eqn:F3; cbn [bind] in Et; try discriminate Et.
    assert (Wouts : Forall value_wf (map o_val (sc_outputs sc))).
    { apply Forall_forall. intros x0 Hx. apply in_map_iff in Hx. destruct Hx as [o [<- Ho]].
      rewrite Forall_forall in Wout. apply Wout. exact Ho. }
    destruct (sum_values_Q _ _ _ Wz Wouts F1) as [Qeo Weo].
    destruct (vadd_new _ _ _ Weo F2) as [Qxo Wxo].
    destruct (vadd_Q _ _ _ Wxo Wburn F3) as [Qyo Wyo].
    assert (Ht : (forall s, Q s t = Q s yo + coin_only s (match sc_donation sc with Some d => d | None => 0 end)) /\ value_wf t).
    { destruct (sc_donation sc) as [d|].
      - destruct (vadd_new _ _ _ Wyo Et) as [Qt Wt]. split; auto.
      - inversion Et; subst. split; auto. intros s. destruct s; cbn [coin_only]; lia. }
    destruct Ht as [Qt Wt].
    destruct (vadd_new _ _ _ Wt Eo) as [Qo Wo].
    exists it0, ot0, f0. cbn zeta. conj; auto.
    - intros s. rewrite Qi, Qx, Qe, Hz. lia.
    - intros s. unfold demand. rewrite Qo, Qt, Qyo, Qxo, Qeo, Hz.
      destruct s; cbn [Q coin_only]; lia.
  Qed.

  (* from the invariant to the clauses of the specification *)
  Lemma clauses_of_inv eff sc it0 ot0 f0 st' excl :
    let m0 := initial_map sc in
    distinct_outpoints eff sc -> Forall (fun u => value_wf (u_val u)) eff ->
    min_fee m0 = Ok f0 ->
    (forall s, Q s it0 = sumQ s (map u_val m0) + Q s (sc_implicit sc) + Q s (sc_mint sc)) ->
    (forall s, Q s ot0 = demand s sc f0) ->
    Inv ffi eff m0 it0 ot0 st' -> NoDup (st_trace st') ->
    coin (st_out st') <= coin (st_in st') ->
    (excl = false -> forall p n, Q (ByAsset p n) (st_out st') <= Q (ByAsset p n) (st_in st')) ->
    sound_result min_fee ffi excl eff eff sc st'.
  Proof.
    intros m0 Hd Weff Hf Qi0 Qo0 I Hn Hc Ha.
    destruct I as [Iin [fees [Ifee Iout]] Iq Iwi Iwo Iidx].
    set (added := added_utxos eff (st_trace st')) in *.
    unfold distinct_outpoints in Hd.
    assert (Hnd_off : NoDup (ids eff)) by (eapply NoDup_app_l; eauto).
    assert (Hnd_pre : NoDup (ids (sc_pre sc))) by (eapply NoDup_app_r; eauto).
    assert (Hnd_added : NoDup (ids added)) by (apply nodup_added; auto).
    assert (Hincl : incl added eff).
    { intros u Hu. apply added_in in Hu. destruct Hu as [i [_ Hi]]. eapply nth_error_In; eauto. }
    assert (Wadded : Forall (fun u => value_wf (u_val u)) added).
    { apply Forall_forall. intros u Hu. rewrite Forall_forall in Weff. apply Weff. apply Hincl. exact Hu. }
    assert (Hm0 : Permutation m0 (map norm_utxo (sc_pre sc))).
    { apply imap_of_list_perm. rewrite ids_norm. exact Hnd_pre. }
    assert (Hall : NoDup (ids m0 ++ ids (map norm_utxo added))).
    { rewrite ids_norm. apply NoDup_app_intro; auto.
      - apply (Permutation_NoDup (Permutation_sym (Permutation_map u_id Hm0))). fold (ids (map norm_utxo (sc_pre sc))).
        rewrite ids_norm. exact Hnd_pre.
      - intros x Hx Hx2.
        apply (Permutation_in _ (Permutation_map u_id Hm0)) in Hx. fold (ids (map norm_utxo (sc_pre sc))) in Hx. rewrite ids_norm in Hx.
        apply (NoDup_app_disj _ _ x Hd); auto.
        unfold ids in *. apply in_map_iff in Hx2. destruct Hx2 as [u [<- Hu]]. apply in_map. apply Hincl. exact Hu. }
    assert (Hperm : Permutation (st_inputs st') (m0 ++ map norm_utxo added)).
    { rewrite Iin. apply insert_all_perm. exact Hall. }
    unfold sound_result, distinct_members, preserved. fold m0. fold added. conj.
    - exact Hnd_added.
    - exact Hincl.
    - intros u Hu. apply (Permutation_in _ (Permutation_sym Hperm)). apply in_or_app; auto.
    - intros u Hu. apply (Permutation_in _ Hperm) in Hu. apply in_app_or in Hu. exact Hu.
    - intros u Hu. apply (Permutation_in _ (Permutation_sym Hperm)). apply in_or_app; auto.
    - rewrite (Permutation_length Hperm). apply app_length.
    - assert (Hsup : forall s, supply s sc (st_inputs st') = Q s (st_in st')).
      { intros s. unfold supply. rewrite (sumQ_perm s _ _ (Permutation_map u_val Hperm)).
        rewrite map_app, sumQ_app. rewrite (sumQ_norm s added Wadded). rewrite Iq, Qi0. fold added. lia. }
      assert (Hdem : forall s, demand s sc (f0 + fees) = Q s (st_out st')).
      { intros s. rewrite Iout, Qo0. unfold demand. destruct s; cbn [coin_only]; lia. }
      exists (f0 + fees). conj.
      + unfold required_fee. rewrite Hf. cbn [bind]. fold added. rewrite Ifee. reflexivity.
      + unfold covers_coin, covers_q. rewrite Hsup, Hdem. exact Hc.
      + intros He p n. unfold covers_q. rewrite Hsup.
        replace (demand (ByAsset p n) sc 0) with (demand (ByAsset p n) sc (f0 + fees)) by (unfold demand; reflexivity).
        rewrite Hdem. apply Ha. exact He.
  Qed.

  Lemma sound_result_weaken excl offered eff sc st' :
    incl eff offered -> sound_result min_fee ffi excl eff eff sc st' -> sound_result min_fee ffi excl offered eff sc st'.
  Proof.
    intros Hi [[Hn Hm] R]. split; [|exact R]. split; [exact Hn|]. intros u Hu. apply Hi. apply Hm. exact Hu.
  Qed.

  Lemma asset_guard_covers st : asset_guard st = true -> forall p n, Q (ByAsset p n) (st_out st) <= Q (ByAsset p n) (st_in st).
  Proof.
    unfold asset_guard. intros H p n. cbn [Q]. unfold qty at 1, opt_ma_qty.
    destruct (multiasset_of (st_out st)) as [m|]; [|lia].
    destruct (N.eq_dec (ma_qty m p n) 0) as [E|E]; [rewrite E; lia|].
    pose proof (qty_in_entries m p n E) as Hin. rewrite forallb_forall in H. specialize (H _ Hin). cbn in H.
    apply N.leb_le in H. exact H.
  Qed.

  (* everything a successful run establishes *)
  Lemma select_inv strat cs offered sc st' :
    scenario_wf offered sc -> pre_distinct sc ->
    add_inputs_from min_fee ffi current strat cs offered sc = (st', Done tt) ->
    let eff := effective_offered current offered sc in
    let m0 := initial_map sc in
    exists it0 ot0 f0,
      incl eff offered /\ distinct_outpoints eff sc /\ Forall (fun u => value_wf (u_val u)) eff /\
      min_fee m0 = Ok f0 /\
      (forall s, Q s it0 = sumQ s (map u_val m0) + Q s (sc_implicit sc) + Q s (sc_mint sc)) /\
      (forall s, Q s ot0 = demand s sc f0) /\
      Inv ffi eff m0 it0 ot0 st' /\ NoDup (st_trace st') /\
      coin (st_out st') <= coin (st_in st') /\
      (forall p n, Q (ByAsset p n) (st_out st') <= Q (ByAsset p n) (st_in st')).
  Proof.
    intros Hwf Hnd_pre H eff m0. unfold pre_distinct in Hnd_pre.
    unfold add_inputs_from in H. fold eff in H.
    assert (Heff : eff = filter_offered (imap_ids (initial_map sc)) offered) by reflexivity.
    clearbody eff.
    destruct (initial_state min_fee sc) as [st0 x0] eqn:E0. ob H. destruct a.
    destruct (initial_ok _ _ _ Hwf Hnd_pre E0) as [it0 [ot0 [f0 [Hst0 [Wi [Wo [Hf [Qi0 Qo0]]]]]]]].
    cbn zeta in *. fold m0 in Hst0, Hf, Qi0.
    fold m0 in Heff.
    assert (Hincl : incl eff offered) by (rewrite Heff; apply filter_offered_incl).
    assert (Hd : distinct_outpoints eff sc).
    { unfold distinct_outpoints. destruct (filter_offered_nodup offered (imap_ids m0)) as [Hn Hdis]. rewrite <- Heff in *.
      apply NoDup_app_intro; auto. intros x Hx Hp. apply (Hdis x Hx).
      assert (Hnd' : NoDup (ids (map norm_utxo (sc_pre sc)))) by (rewrite ids_norm; exact Hnd_pre).
      apply (Permutation_in _ (Permutation_sym (Permutation_map u_id (imap_of_list_perm _ Hnd')))).
      fold (ids (map norm_utxo (sc_pre sc))). rewrite ids_norm. exact Hp. }
    assert (Woff : Forall (fun u => value_wf (u_val u)) eff).
    { apply Forall_forall. intros u Hu. pose proof (proj1 Hwf) as W. rewrite Forall_forall in W. apply W. apply Hincl. exact Hu. }
    exists it0, ot0, f0.
    assert (I0 : Inv ffi eff m0 it0 ot0 st0).
    { subst st0. constructor; cbn [st_inputs st_in st_out st_trace added_utxos flat_map insert_all fold_left map]; auto.
      - exists 0. split; [reflexivity|]. intros s. destruct s; cbn [coin_only]; lia.
      - intros s. unfold sumQ. cbn [fold_right]. lia. }
    destruct (prestep ffi current eff st0) as [avail [st1 x1]] eqn:Epre. unfold prestep in Epre.
    ob H. destruct a.
    assert (Hpre : (forall i u, nth_error avail i = Some u -> nth_error eff i = Some u) /\
                   Inv ffi eff m0 it0 ot0 st1 /\ Bk (seq 0 (length avail)) st1).
    { destruct ((coin (st_out st0) <=? coin (st_in st0)) && is_nil (st_inputs st0)).
      - destruct (rev eff) as [|u r] eqn:Er; [inversion Epre; subst; discriminate|].
        destruct (rev_last_nth _ _ _ Er) as [Hu Hrl].
        injection Epre as Ha Hadd. subst avail. cbn [v_prestep_fee current] in Hadd.
        destruct (add_input_ok _ _ Woff _ _ _ _ _ _ _ I0 Hu Hadd) as [I1 [Ht _]].
        conj; auto.
        + intros i x. apply removelast_prefix.
        + constructor.
          * apply seq_NoDup.
          * rewrite Ht. subst st0. cbn. repeat constructor. intros [].
          * intros i Hi. rewrite Ht. subst st0. cbn. intros [<-|[]]. apply in_seq in Hi.
            assert (length (removelast eff) = (length eff - 1)%nat).
            { rewrite Hrl, rev_length. rewrite <- (rev_length eff), Er. cbn. lia. }
            lia.
      - inversion Epre; subst. conj; auto. constructor.
        + apply seq_NoDup.
        + cbn. constructor.
        + intros i _ []. }
    destruct Hpre as [Havail [I1 B1]].
    pose proof (sset_seq 0 (length avail)) as S1.
    destruct (run_strategy ffi current strat cs avail sc st1) as [stR xR] eqn:Erun. ob H. destruct a.
    cbn [v_asset_guard current andb] in H.
    destruct (asset_guard stR) eqn:Eg; cbn [negb] in H; [|discriminate H]. inversion H; subst stR; clear H.
    assert (R : Inv ffi eff m0 it0 ot0 st' /\ NoDup (st_trace st') /\ coin (st_out st') <= coin (st_in st')).
    { unfold run_strategy in Erun. destruct strat.
      - destruct (outputs_have_assets sc); [discriminate Erun|].
        unfold drop_locals in Erun. destruct (lf_by ffi ByCoin avail (seq 0 (length avail)) st1) as [st2 r2] eqn:X2.
        destruct r2 as [aidx| | | |]; cbn [ob] in Erun; try discriminate Erun. inversion Erun; subst st2; clear Erun.
        destruct (lf_by_ok _ _ Woff _ _ _ _ Havail _ _ _ _ _ I1 B1 X2) as [I' [B' [_ [_ [_ Hc]]]]].
        conj; auto. apply B'.
      - destruct (outputs_have_assets sc); [discriminate Erun|].
        destruct (ri_by ffi current ByCoin true avail (sc_outputs sc) (seq 0 (length avail)) cs st1) as [st2 x2] eqn:X2.
        ob Erun. destruct a as [aset cs2].
        destruct (ri_by_ok _ _ Woff _ _ _ _ Havail _ _ _ _ _ _ _ _ _ I1 B1 S1 X2) as [I2 [B2 [S2 _]]].
        destruct (phase3_ok _ _ Woff _ _ _ _ Havail _ _ _ _ _ I2 B2 Erun) as [I' [Hn' [Hc' _]]]. conj; auto.
      - destruct (lf_multi ffi (asset_selectors (st_out st1)) avail (seq 0 (length avail)) st1) as [st2 x2] eqn:X2.
        ob Erun. unfold drop_locals in Erun.
        destruct (lf_by ffi ByCoin avail a st2) as [st3 r3] eqn:X3.
        destruct r3 as [aidx| | | |]; cbn [ob] in Erun; try discriminate Erun. inversion Erun; subst st3; clear Erun.
        destruct (lf_multi_ok _ _ Woff _ _ _ _ Havail _ _ _ _ _ I1 B1 X2) as [I2 [B2 _]].
        destruct (lf_by_ok _ _ Woff _ _ _ _ Havail _ _ _ _ _ I2 B2 X3) as [I' [B' [_ [_ [_ Hc3]]]]].
        conj; auto. apply B'.
      - destruct (ri_multi ffi current (asset_selectors (st_out st1)) avail (sc_outputs sc) (seq 0 (length avail)) cs st1) as [st2 x2] eqn:X2.
        ob Erun. destruct a as [aset cs2].
        destruct (ri_by ffi current ByCoin false avail (sc_outputs sc) aset cs2 st2) as [st3 x3] eqn:X3.
        ob Erun. destruct a as [aset3 cs3].
        destruct (ri_multi_ok _ _ Woff _ _ _ _ Havail _ _ _ _ _ _ _ _ I1 B1 S1 X2) as [I2 [B2 [S2 _]]].
        destruct (ri_by_ok _ _ Woff _ _ _ _ Havail _ _ _ _ _ _ _ _ _ I2 B2 S2 X3) as [I3 [B3 _]].
        destruct (phase3_ok _ _ Woff _ _ _ _ Havail _ _ _ _ _ I3 B3 Erun) as [I' [Hn' [Hc' _]]]. conj; auto. }
    destruct R as [I' [Hn' Hc']]. conj; auto.
    apply asset_guard_covers. exact Eg.
  Qed.

  (* C08_sound: no premise on the offered list *)
  Theorem sound_current strat cs offered sc st' :
    scenario_wf offered sc -> pre_distinct sc ->
    add_inputs_from min_fee ffi current strat cs offered sc = (st', Done tt) ->
    sound_result min_fee ffi false offered (effective_offered current offered sc) sc st'.
  Proof.
    intros Hwf Hp H.
    destruct (select_inv _ _ _ _ _ Hwf Hp H) as [it0 [ot0 [f0 [Hincl [Hd [Weff [Hf [Qi0 [Qo0 [I' [Hn' [Hc' Ha']]]]]]]]]]]].
    apply sound_result_weaken; auto.
    eapply clauses_of_inv; eauto.
  Qed.

  Lemma required_fee_final added : forall m fee,
    fee_additive min_fee ffi -> required_fee min_fee ffi m added = Ok fee ->
    min_fee (insert_all (map norm_utxo added) m) = Ok fee.
  Proof.
    induction added as [|u r IH]; intros m fee Ha H; unfold required_fee in H; cbn [marginal_fees map insert_all fold_left] in *.
    - destruct (min_fee m) as [f0| | |]; cbn [bind] in H; try discriminate H. inversion H; subst. f_equal. lia.
    - destruct (min_fee m) as [f0| | |] eqn:E0; cbn [bind] in H; try discriminate H.
      destruct (ffi m u) as [f| | |] eqn:Ef; cbn [bind] in H; try discriminate H.
      destruct (marginal_fees ffi (imap_insert (norm_utxo u) m) r) as [fs| | |] eqn:Er; cbn [bind] in H; try discriminate H.
      inversion H; subst. apply (IH (imap_insert (norm_utxo u) m)); auto. unfold required_fee. rewrite (Ha _ _ _ Ef _ E0). cbn [bind].
      rewrite Er. cbn [bind]. f_equal. lia.
  Qed.

  Theorem sound_current_min_fee strat cs offered sc st' :
    fee_additive min_fee ffi ->
    scenario_wf offered sc -> pre_distinct sc ->
    add_inputs_from min_fee ffi current strat cs offered sc = (st', Done tt) ->
    exists fee, min_fee (st_inputs st') = Ok fee /\ covers_coin sc (st_inputs st') fee.
  Proof.
    intros Ha Hwf Hp H.
    pose proof (sound_current _ _ _ _ _ Hwf Hp H) as [_ [_ [fee [Hf [Hc _]]]]].
    exists fee. split; auto.
    destruct (select_inv _ _ _ _ _ Hwf Hp H) as [it0 [ot0 [f0 [_ [_ [_ [_ [_ [_ [I' _]]]]]]]]]].
    rewrite (inv_inputs _ _ _ _ _ _ I'). apply required_fee_final; auto.
  Qed.

  Lemma initial_trace sc st0 : initial_state min_fee sc = (st0, Done tt) -> st_trace st0 = [] /\ st_inputs st0 = initial_map sc.
  Proof.
    unfold initial_state. intros H.
    destruct (total_input sc (initial_map sc)); cbn [of_result obind] in H; try discriminate H.
    match type of H with obind _ (of_result ?r) _ = _ => destruct r end; cbn [of_result obind] in H; try discriminate H.
    inversion H; subst. split; reflexivity.
  Qed.

  Lemma has_key_coin offered j : has_key ByCoin offered j = true <-> (j < length offered)%nat.
  Proof.
    unfold has_key. destruct (nth_error offered j) as [u|] eqn:E.
    - cbn. split; auto. intros _. apply nth_error_Some. congruence.
    - split; [discriminate|]. intros Hj. apply nth_error_None in E. lia.
  Qed.

  Lemma filter_all {A} (f : A -> bool) l : (forall x, In x l -> f x = true) -> filter f l = l.
  Proof. induction l as [|x l IH]; cbn; intros H; [reflexivity|]. rewrite (H x (or_introl eq_refl)). f_equal. apply IH. auto. Qed.

  Lemma added_seq offered : added_utxos offered (seq 0 (length offered)) = offered.
  Proof.
    unfold added_utxos.
    assert (G : forall pre l : list utxo, flat_map (fun i => match nth_error (pre ++ l) i with Some u => [u] | None => [] end)
                                       (seq (length pre) (length l)) = l).
    { intros pre l. revert pre. induction l as [|x l IH]; intros pre; cbn [length seq flat_map]; [reflexivity|].
      rewrite nth_error_app2 by lia. rewrite Nat.sub_diag. cbn [nth_error app]. f_equal.
      specialize (IH (pre ++ [x])). rewrite <- app_assoc in IH. cbn [app] in IH.
      rewrite app_length in IH. cbn [length] in IH. rewrite Nat.add_1_r in IH. exact IH. }
    apply (G [] offered).
  Qed.

  Lemma added_perm offered l1 l2 : Permutation l1 l2 -> Permutation (added_utxos offered l1) (added_utxos offered l2).
  Proof.
    unfold added_utxos. induction 1; cbn [flat_map].
    - reflexivity.
    - apply Permutation_app_head. assumption.
    - rewrite !app_assoc. apply Permutation_app_tail. apply Permutation_app_comm.
    - eapply Permutation_trans; eauto.
  Qed.

  (* insufficiency is reported only after every offered UTxO has been added, and they do not cover outputs + fee *)
  (* ----------------------------------------------------------------------------------------- *)
  (* Largest-first at the level of add_inputs_from (strategy LargestFirst), when more lovelace is needed than the
     builder already holds (so that the "at least one input" pre-step does not fire).  Positions refer to the
     effective offered list (offered UTxOs not yet in the builder, each outpoint once). *)

  Definition lf_outcome (st' : sel_state) (r' : outcome (list nat)) : outcome unit :=
    match r' with
    | Done _ => if asset_guard st' then Done tt else Insufficient
    | Insufficient => Insufficient | Failed => Failed | Panicked => Panicked | Fuel => Fuel
    end.

  Lemma lf_top_unfold cs offered sc st0 st' r :
    initial_state min_fee sc = (st0, Done tt) -> coin (st_in st0) < coin (st_out st0) ->
    add_inputs_from min_fee ffi current LargestFirst cs offered sc = (st', r) ->
    let eff := effective_offered current offered sc in
    (outputs_have_assets sc = true /\ st' = st0 /\ r = Failed) \/
    (outputs_have_assets sc = false /\ exists r', lf_by ffi ByCoin eff (seq 0 (length eff)) st0 = (st', r') /\
                                               r = lf_outcome st' r').
  Proof.
    intros E0 Hlt H eff. unfold add_inputs_from in H. fold eff in H. rewrite E0 in H. cbn [obind] in H.
    unfold prestep in H. apply N.leb_gt in Hlt. rewrite Hlt in H. cbn [andb obind] in H.
    unfold run_strategy in H. destruct (outputs_have_assets sc).
    - left. cbn [obind] in H. inversion H; subst. auto.
    - right. split; auto. unfold drop_locals in H.
      destruct (lf_by ffi ByCoin eff (seq 0 (length eff)) st0) as [st2 r2]. exists r2.
      destruct r2; cbn [ob obind] in H; try (inversion H; subst; split; reflexivity).
      cbn [v_asset_guard current andb] in H. destruct (asset_guard st2) eqn:Eg; cbn [negb] in H; inversion H; subst;
        split; try reflexivity; unfold lf_outcome; rewrite Eg; reflexivity.
  Qed.

  Theorem lf_order_top cs offered sc st0 st' r :
    initial_state min_fee sc = (st0, Done tt) -> coin (st_in st0) < coin (st_out st0) ->
    add_inputs_from min_fee ffi current LargestFirst cs offered sc = (st', r) ->
    let eff := effective_offered current offered sc in
    desc_sorted (key_of ByCoin eff) (st_trace st') /\
    (forall i, In i (st_trace st') -> (i < length eff)%nat) /\
    (forall i j, In i (st_trace st') -> (j < length eff)%nat -> ~ In j (st_trace st') ->
                 key_of ByCoin eff j <= key_of ByCoin eff i).
  Proof.
    intros E0 Hlt H eff. destruct (initial_trace _ _ E0) as [Ht0 _].
    pose proof (lf_top_unfold _ _ _ _ _ _ E0 Hlt H) as U. cbn zeta in U. fold eff in U.
    destruct U as [[_ [-> _]]|[_ [r' [Hlf _]]]].
    - rewrite Ht0. conj; [constructor|intros i []|intros i j []].
    - destruct (largest_first_order ffi eff eff (fun _ _ E => E) _ _ _ _ _ Hlf) as [taken [Htr [S1 [S2 S3]]]].
      rewrite Ht0 in Htr. cbn [app] in Htr. rewrite Htr. conj; auto.
      + intros i Hi. apply has_key_coin. apply S2. exact Hi.
      + intros i j Hi Hj Hnj. apply S3; auto. apply in_seq. lia. apply has_key_coin. exact Hj.
  Qed.

  Lemma sound_setup offered sc st0 :
    scenario_wf offered sc -> pre_distinct sc ->
    initial_state min_fee sc = (st0, Done tt) ->
    let eff := effective_offered current offered sc in
    exists it0 ot0 f0, let m0 := initial_map sc in
      st0 = mkSt m0 it0 ot0 [] /\ min_fee m0 = Ok f0 /\
      Forall (fun u => value_wf (u_val u)) eff /\
      (forall s, Q s it0 = sumQ s (map u_val m0) + Q s (sc_implicit sc) + Q s (sc_mint sc)) /\
      (forall s, Q s ot0 = demand s sc f0) /\
      Inv ffi eff m0 it0 ot0 st0.
  Proof.
    intros Hwf Hnd_pre E0 eff.
    destruct (initial_ok _ _ _ Hwf Hnd_pre E0) as [it0 [ot0 [f0 [Hst0 [Wi [Wo [Hf [Qi0 Qo0]]]]]]]].
    exists it0, ot0, f0. cbn zeta in *.
    assert (Woff : Forall (fun u => value_wf (u_val u)) eff).
    { apply Forall_forall. intros u Hu. pose proof (proj1 Hwf) as W. rewrite Forall_forall in W. apply W.
      apply (filter_offered_incl offered _ u Hu). }
    conj; auto.
    subst st0. constructor; cbn [st_inputs st_in st_out st_trace added_utxos flat_map insert_all fold_left map]; auto.
    - exists 0. split; [reflexivity|]. intros s. destruct s; cbn [coin_only]; lia.
    - intros s. unfold sumQ. cbn [fold_right]. lia.
  Qed.

  (* no proper prefix of the selected inputs covers outputs + fee *)
  Theorem lf_minimal_top cs offered sc st0 st' :
    scenario_wf offered sc -> pre_distinct sc ->
    initial_state min_fee sc = (st0, Done tt) -> coin (st_in st0) < coin (st_out st0) ->
    add_inputs_from min_fee ffi current LargestFirst cs offered sc = (st', Done tt) ->
    forall k, (k < length (st_trace st'))%nat ->
      let eff := effective_offered current offered sc in
      let before := initial_map sc in
      let prefix := added_utxos eff (firstn k (st_trace st')) in
      exists fk, required_fee min_fee ffi before prefix = Ok fk /\ ~ covers_coin sc (before ++ prefix) fk.
  Proof.
    intros Hwf Hd E0 Hlt H k Hk eff.
    destruct (sound_setup _ _ _ Hwf Hd E0) as [it0 [ot0 [f0 [Hst0 [Hf [Woff [Qi0 [Qo0 I0]]]]]]]]. cbn zeta in *. fold eff in Woff, I0.
    pose proof (lf_top_unfold _ _ _ _ _ _ E0 Hlt H) as U. cbn zeta in U. fold eff in U.
    destruct U as [[_ [_ Hr]]|[_ [r' [Hlf Hr]]]]; [discriminate Hr|].
    destruct r' as [aidx'| | | |]; cbn [lf_outcome] in Hr; try discriminate Hr.
    destruct (largest_first_minimal ffi eff Woff _ _ _ eff (fun _ _ E => E) _ _ _ _ _ I0 Hlf)
      as [taken [Htr [Hmin _]]].
    subst st0. cbn [st_trace app] in Htr. rewrite Htr in *.
    destruct (Hmin k Hk) as [fk [Hfk Hltk]]. cbn [st_inputs st_in st_out] in *.
    exists (f0 + fk). split.
    - unfold required_fee. rewrite Hf. cbn [bind]. rewrite Hfk. reflexivity.
    - unfold covers_coin, covers_q, supply. rewrite map_app, sumQ_app.
      specialize (Qi0 ByCoin). specialize (Qo0 ByCoin).
      replace (demand ByCoin sc (f0 + fk)) with (demand ByCoin sc f0 + fk) by (unfold demand; cbn [coin_only]; lia).
      cbn [coin_only] in Hltk. lia.
  Qed.

  (* insufficiency is reported only after every (effective) offered UTxO has been added and they do not cover outputs +
     fee — or, since /repo ab61362, because an asset of the target (which this ADA-only strategy does not select
     for) is not covered *)
  Theorem lf_complete_top cs offered sc st0 st' :
    scenario_wf offered sc -> pre_distinct sc ->
    initial_state min_fee sc = (st0, Done tt) -> coin (st_in st0) < coin (st_out st0) ->
    add_inputs_from min_fee ffi current LargestFirst cs offered sc = (st', Insufficient) ->
    let eff := effective_offered current offered sc in
    let before := initial_map sc in
    let added := added_utxos eff (st_trace st') in
    asset_guard st' = false \/
    (Permutation added eff /\
     exists fee, required_fee min_fee ffi before added = Ok fee /\ ~ covers_coin sc (before ++ eff) fee).
  Proof.
    intros Hwf Hd E0 Hlt H eff.
    destruct (sound_setup _ _ _ Hwf Hd E0) as [it0 [ot0 [f0 [Hst0 [Hf [Woff [Qi0 [Qo0 I0]]]]]]]]. cbn zeta in *. fold eff in Woff, I0.
    pose proof (lf_top_unfold _ _ _ _ _ _ E0 Hlt H) as U. cbn zeta in U. fold eff in U.
    destruct U as [[_ [_ Hr]]|[_ [r' [Hlf Hr]]]]; [discriminate Hr|].
    destruct r' as [aidx'| | | |]; cbn [lf_outcome] in Hr; try discriminate Hr.
    { destruct (asset_guard st'); [discriminate Hr|]. left. reflexivity. }
    right.
    destruct (largest_first_complete ffi eff Woff _ _ _ eff (fun _ _ E => E) _ _ _ _ I0 Hlf)
      as [Htr [I' Hunc]].
    subst st0. cbn [st_trace app] in Htr.
    assert (Hperm : Permutation (st_trace st') (seq 0 (length eff))).
    { rewrite Htr. unfold lf_relevant.
      apply Permutation_trans with (stable_sort (key_of ByCoin eff) (filter (has_key ByCoin eff) (seq 0 (length eff)))).
      - apply Permutation_sym, Permutation_rev.
      - eapply Permutation_trans; [apply stable_sort_perm|].
        rewrite filter_all; [reflexivity|]. intros x Hx. apply has_key_coin. apply in_seq in Hx. lia. }
    assert (Hadded : Permutation (added_utxos eff (st_trace st')) eff).
    { rewrite <- (added_seq eff) at 2. apply added_perm. exact Hperm. }
    split; [exact Hadded|].
    destruct I' as [_ [fees [Ifee Iout]] Iq _ _ _].
    exists (f0 + fees). split.
    - unfold required_fee. rewrite Hf. cbn [bind]. rewrite Ifee. reflexivity.
    - unfold covers_coin, covers_q, supply. rewrite map_app, sumQ_app.
      rewrite <- (sumQ_perm ByCoin _ _ (Permutation_map u_val Hadded)).
      specialize (Qi0 ByCoin). specialize (Qo0 ByCoin). specialize (Iq ByCoin). specialize (Iout ByCoin).
      replace (demand ByCoin sc (f0 + fees)) with (demand ByCoin sc f0 + fees) by (unfold demand; cbn [coin_only]; lia).
      cbn [coin_only] in Iout. lia.
  Qed.

  (* ----------------------------------------------------------------------------------------- *)
  (* LargestFirstMultiAsset reports insufficiency only when all offered UTxOs together do not suffice in some
     quantity of the target (an asset, or the lovelace including the fee of all of them) *)

  Lemma sumQ_zero_rest s eff rest :
    (forall i, In i rest -> has_key s eff i = false) -> sumQ s (map u_val (added_utxos eff rest)) = 0.
  Proof.
    induction rest as [|i rest IH]; intros H; [reflexivity|].
    change (i :: rest) with ([i] ++ rest). unfold added_utxos in *. rewrite flat_map_app, map_app, sumQ_app.
    rewrite IH by (intros j Hj; apply H; right; exact Hj). cbn [flat_map app].
    pose proof (H i (or_introl eq_refl)) as Hk. unfold has_key in Hk.
    destruct (nth_error eff i) as [u|]; [|reflexivity].
    destruct (by_val s (u_val u)) eqn:E; [discriminate Hk|].
    unfold sumQ. cbn [app map fold_right]. rewrite (by_val_none_Q _ _ E). lia.
  Qed.

  Lemma sumQ_all_selected s eff tr :
    NoDup tr -> (forall i, In i tr -> (i < length eff)%nat) ->
    (forall i, (i < length eff)%nat -> has_key s eff i = true -> In i tr) ->
    sumQ s (map u_val (added_utxos eff tr)) = sumQ s (map u_val eff).
  Proof.
    intros Hn Hr Hc.
    set (rest := filter (fun i => negb (existsb (Nat.eqb i) tr)) (seq 0 (length eff))).
    assert (Hin_tr : forall i, existsb (Nat.eqb i) tr = true <-> In i tr).
    { intros i. rewrite existsb_exists. split.
      - intros [j [Hj E]]. apply Nat.eqb_eq in E. subst. exact Hj.
      - intros H. exists i. split; auto. apply Nat.eqb_refl. }
    assert (P : Permutation (seq 0 (length eff)) (tr ++ rest)).
    { apply NoDup_Permutation.
      - apply seq_NoDup.
      - apply NoDup_app_intro; auto.
        + apply NoDup_filter. apply seq_NoDup.
        + intros x Hx Hx2. apply filter_In in Hx2. destruct Hx2 as [_ Hx2].
          apply Bool.negb_true_iff in Hx2. apply Hin_tr in Hx. congruence.
      - intros x. split.
        + intros Hx. apply in_or_app. destruct (existsb (Nat.eqb x) tr) eqn:E.
          * left. apply Hin_tr. exact E.
          * right. apply filter_In. split; auto. rewrite E. reflexivity.
        + intros Hx. apply in_app_or in Hx. destruct Hx as [Hx|Hx].
          * apply in_seq. specialize (Hr _ Hx). lia.
          * apply filter_In in Hx. tauto. }
    rewrite <- (added_seq eff) at 2.
    rewrite (sumQ_perm s _ _ (Permutation_map u_val (added_perm eff _ _ P))).
    unfold added_utxos at 2. rewrite flat_map_app, map_app, sumQ_app.
    fold (added_utxos eff tr). fold (added_utxos eff rest).
    rewrite (sumQ_zero_rest s eff rest); [lia|].
    intros i Hi. apply filter_In in Hi. destruct Hi as [Hs Hi]. apply in_seq in Hs.
    destruct (has_key s eff i) eqn:E; [|reflexivity].
    apply Bool.negb_true_iff in Hi. assert (In i tr) by (apply Hc; [lia|exact E]). apply Hin_tr in H. congruence.
  Qed.

  Lemma asset_guard_complete st : value_wf (st_out st) ->
    (forall p n, Q (ByAsset p n) (st_out st) <= Q (ByAsset p n) (st_in st)) -> asset_guard st = true.
  Proof.
    unfold asset_guard. intros W H. destruct (multiasset_of (st_out st)) as [m|] eqn:Em; [|reflexivity].
    apply value_wf_iff in W. rewrite Em in W. destruct W as [_ Wm].
    apply forallb_forall. intros [[p n] q] Hin.
    specialize (H p n). cbn [Q] in H. unfold qty at 1 in H. rewrite Em in H. cbn [opt_ma_qty] in H.
    rewrite (entries_in_qty m p n q Wm Hin) in H. apply N.leb_le. exact H.
  Qed.

  Theorem lfma_complete_top cs offered sc st0 st' :
    scenario_wf offered sc -> pre_distinct sc ->
    initial_state min_fee sc = (st0, Done tt) -> coin (st_in st0) < coin (st_out st0) ->
    add_inputs_from min_fee ffi current LargestFirstMultiAsset cs offered sc = (st', Insufficient) ->
    let eff := effective_offered current offered sc in
    let before := initial_map sc in
    exists sel fee, required_fee min_fee ffi before (added_utxos eff (st_trace st')) = Ok fee /\
                    supply sel sc (before ++ eff) < demand sel sc fee.
  Proof.
    intros Hwf Hd E0 Hlt H eff.
    destruct (sound_setup _ _ _ Hwf Hd E0) as [it0 [ot0 [f0 [Hst0 [Hf [Woff [Qi0 [Qo0 I0]]]]]]]]. cbn zeta in *. fold eff in Woff, I0.
    unfold add_inputs_from in H. fold eff in H. rewrite E0 in H. cbn [obind] in H.
    unfold prestep in H. apply N.leb_gt in Hlt. rewrite Hlt in H. cbn [andb obind] in H.
    unfold run_strategy in H.
    assert (B0 : Bk (seq 0 (length eff)) st0).
    { subst st0. constructor; [apply seq_NoDup|constructor|intros i _ []]. }
    assert (C0 : Cover eff (seq 0 (length eff)) st0) by (intros i Hi; left; apply in_seq; lia).
    assert (Fin : forall sel st, Inv ffi eff (initial_map sc) it0 ot0 st -> NoDup (st_trace st) ->
                  (forall i, (i < length eff)%nat -> has_key sel eff i = true -> In i (st_trace st)) ->
                  Q sel (st_in st) < Q sel (st_out st) ->
                  exists fee, required_fee min_fee ffi (initial_map sc) (added_utxos eff (st_trace st)) = Ok fee /\
                              supply sel sc (initial_map sc ++ eff) < demand sel sc fee).
    { intros sel st [Iin [fees [Ifee Iout]] Iq _ _ Iidx] Hn Hall Hq.
      exists (f0 + fees). split; [unfold required_fee; rewrite Hf; cbn [bind]; rewrite Ifee; reflexivity|].
      unfold supply. rewrite map_app, sumQ_app.
      rewrite <- (sumQ_all_selected sel eff (st_trace st) Hn); auto.
      - rewrite Iq, Iout, Qi0, Qo0 in Hq.
        replace (demand sel sc (f0 + fees)) with (demand sel sc f0 + coin_only sel fees) by (unfold demand; destruct sel; cbn [coin_only]; lia).
        lia.
      - intros i Hi. rewrite Forall_forall in Iidx. apply nth_error_Some. apply Iidx. exact Hi. }
    destruct (lf_multi ffi (asset_selectors (st_out st0)) eff (seq 0 (length eff)) st0) as [st2 x2] eqn:X2.
    destruct x2 as [aidx| | | |]; cbn [obind] in H; try discriminate H.
    - unfold drop_locals in H.
      destruct (lf_by ffi ByCoin eff aidx st2) as [st3 r3] eqn:X3.
      destruct (lf_multi_ok _ _ Woff _ _ _ _ (fun _ _ E => E) _ _ _ _ _ I0 B0 X2) as [I2 [B2 [_ [_ [Ho2 Hc2]]]]].
      assert (C2 : Cover eff aidx st2).
      { clear H X3. revert X2. generalize (asset_selectors (st_out st0)) as sels. intros sels.
        revert I0 B0 C0. generalize (seq 0 (length eff)) as a0. generalize st0 as s0. clear Hst0 E0 Hlt.
        induction sels as [|s sels IH]; intros s0 a0 Ia Ba Ca X; cbn [lf_multi] in X.
        - inversion X; subst. exact Ca.
        - destruct (lf_by ffi s eff a0 s0) as [s1 r1] eqn:E1. ob X.
          destruct (lf_by_ok _ _ Woff _ _ _ _ (fun _ _ E => E) _ _ _ _ _ Ia Ba E1) as [I1 [B1 _]].
          pose proof (lf_by_cover _ _ Woff _ _ _ _ (fun _ _ E => E) _ _ _ _ _ Ia Ca E1) as C1.
          apply (IH _ _ I1 B1 C1 X). }
      destruct r3 as [aidx3| | | |]; cbn [ob obind] in H; try discriminate H.
      + (* both passes succeeded: the guard cannot fire *)
        exfalso. cbn [v_asset_guard current andb] in H.
        destruct (lf_by_ok _ _ Woff _ _ _ _ (fun _ _ E => E) _ _ _ _ _ I2 B2 X3) as [I3 [_ [_ [Hm3 [Ho3 _]]]]].
        assert (G : asset_guard st3 = true).
        { apply asset_guard_complete; [apply I3|]. intros p n.
          destruct (N.eq_dec (Q (ByAsset p n) (st_out st3)) 0) as [Ez|Enz]; [rewrite Ez; lia|].
          rewrite Ho3, Ho2 in Enz. cbn [Q] in Enz. apply selectors_complete in Enz.
          specialize (Hc2 p n Enz). specialize (Hm3 (ByAsset p n)). rewrite Ho3. lia. }
        rewrite G in H. cbn [negb] in H. discriminate H.
      + inversion H; subst st3; clear H.
        destruct (lf_by_insufficient _ _ Woff _ _ _ _ (fun _ _ E => E) _ _ _ _ I2 B2 C2 X3) as [I' [Hn' [Hall Hq]]].
        exists ByCoin. apply (Fin ByCoin st' I' Hn' Hall Hq).
    - inversion H; subst st2; clear H.
      destruct (lf_multi_insufficient _ _ Woff _ _ _ _ (fun _ _ E => E) _ _ _ _ I0 B0 C0 X2) as [sel [_ [I' [Hn' [Hall Hq]]]]].
      exists sel. apply (Fin sel st' I' Hn' Hall Hq).
  Qed.
End Sound.

(* ------------------------------------------------------------------------------------------- *)
(* fee_for_input as the code defines it: additive by construction, for every fee request *)

Lemma derived_additive min_fee : fee_additive min_fee (derived_ffi min_fee).
Proof.
  intros m u f Hf f0 H0. unfold derived_ffi in Hf. rewrite H0 in Hf. cbn [bind] in Hf.
  destruct (u_ok u); [|discriminate Hf].
  destruct (min_fee (imap_insert (norm_utxo u) m)) as [b| | |]; cbn [bind] in Hf; try discriminate Hf.
  destruct (f0 <=? b) eqn:E; [|discriminate Hf]. inversion Hf; subst. apply N.leb_le in E. f_equal. lia.
Qed.

Lemma fee_model_derived raw req m u :
  fee_for_input_of raw req two32 m u = derived_ffi (min_fee_of raw req) m u.
Proof.
  unfold fee_for_input_of, derived_ffi, min_fee_of.
  destruct (raw (final_fee req two32) m) as [a| | |]; cbn [bind]; try reflexivity.
  destruct (u_ok u); [|reflexivity].
  destruct (raw (final_fee req two32) (imap_insert (norm_utxo u) m)) as [b| | |]; cbn [bind]; reflexivity.
Qed.

(* for the fee functions of the builder (any raw estimate, any fee request): the inputs cover outputs + min_fee() of the
   resulting builder; no premise on the fees *)
Theorem sound_current_fee_model raw req strat cs offered sc st' :
  scenario_wf offered sc -> pre_distinct sc ->
  add_inputs_from (min_fee_of raw req) (fee_for_input_of raw req two32) current strat cs offered sc = (st', Done tt) ->
  exists fee, min_fee_of raw req (st_inputs st') = Ok fee /\ covers_coin sc (st_inputs st') fee.
Proof.
  intros Hwf Hp H. eapply sound_current_min_fee; eauto.
  intros m u f Hf. rewrite fee_model_derived in Hf. apply (derived_additive _ m u f Hf).
Qed.
