(* C08 — proofs about the model of add_inputs_from (CoinSel.v) against the specification (CoinSelSpec.v).
   Inventory (details in notes/design/C08.md):
     add_input_ok, Inv                    accounting invariant: input map, input_total, output_total follow the trace
     lf_loop_ok / lf_by_ok / lf_multi_ok  largest-first: bookkeeping + invariant
     lf_prefix, lf_minimal_loop, …        largest-first order / minimality / completeness
     p1_*, p2_*, ri_final_ok, ri_by_ok    random-improve phases 1-2 and the final insertion loop
     phase3_ok                            fee top-up
     sound_current                        C08_sound for the code as it is now *)
From CSL Require Import Base.Prelude Num.Value Num.ValueProofs Num.ValueNorm Num.ValueNormProofs CoinSel.CoinSel CoinSel.CoinSelSpec CoinSel.CoinSelLemmas.
From Coq Require Import Permutation Sorting.Sorted.
Local Open Scope N_scope.

Ltac ob H :=
  match type of H with
  | obind _ ?r _ = _ => let E := fresh "E" in destruct r eqn:E; cbn [obind] in H; try discriminate H
  | ob ?r _ = _ => let E := fresh "E" in destruct r eqn:E; cbn [ob] in H; try discriminate H
  end.

Ltac conj := repeat match goal with |- _ /\ _ => split end.

Lemma vadd_new a f c : value_wf a -> value_checked_add a (value_new f) = Ok c ->
  (forall sel, Q sel c = Q sel a + coin_only sel f) /\ value_wf c.
Proof.
  intros Wa E.
  assert (Hf : f < two64).
  { unfold value_checked_add in E. cbn [coin value_new] in E. unfold u64_add in E.
    destruct (coin a + f <? two64) eqn:L; cbn [bind] in E; [|discriminate]. apply N.ltb_lt in L. lia. }
  destruct (vadd_Q _ _ _ Wa (value_new_wf f Hf) E) as [Qc Wc]. split; [|exact Wc].
  intros sel. rewrite Qc. rewrite Q_value_new. reflexivity.
Qed.

Lemma NoDup_app_intro {A} (l1 l2 : list A) :
  NoDup l1 -> NoDup l2 -> (forall x, In x l1 -> ~ In x l2) -> NoDup (l1 ++ l2).
Proof.
  induction l1 as [|x l1 IH]; cbn; intros H1 H2 H; auto.
  inversion H1; subst. constructor.
  - intro Hin. apply in_app_or in Hin. destruct Hin; [tauto|]. apply (H x); auto.
  - apply IH; auto.
Qed.

Lemma NoDup_app_l {A} (l1 l2 : list A) : NoDup (l1 ++ l2) -> NoDup l1.
Proof. induction l1; cbn; intros H; [constructor|]. inversion H; subst. constructor; auto. intro; apply H2; apply in_or_app; auto. Qed.
Lemma NoDup_app_r {A} (l1 l2 : list A) : NoDup (l1 ++ l2) -> NoDup l2.
Proof. induction l1; cbn; intros H; auto. inversion H; auto. Qed.
Lemma NoDup_app_disj {A} (l1 l2 : list A) x : NoDup (l1 ++ l2) -> In x l1 -> ~ In x l2.
Proof.
  induction l1; cbn; intros H; [tauto|]. inversion H as [|? ? Hn Hr]; subst. intros [->|Hx] Hy; [apply Hn; apply in_or_app; auto|].
  apply (IHl1 Hr Hx Hy).
Qed.

Section Proofs.
  Variable ffi : imap -> utxo -> result N.
  Variable offered : list utxo.
  Hypothesis Woff : Forall (fun u => value_wf (u_val u)) offered.
  (* the figures before selection *)
  Variable m0 : imap.
  Variable it0 ot0 : value.

  Notation added_of := (added_utxos offered).

  Lemma added_of_app tr1 tr2 : added_of (tr1 ++ tr2) = added_of tr1 ++ added_of tr2.
  Proof. unfold added_utxos. apply flat_map_app. Qed.

  Lemma added_of_one i u : nth_error offered i = Some u -> added_of [i] = [u].
  Proof. intros H. unfold added_utxos. cbn. rewrite H. reflexivity. Qed.

  Lemma marginal_fees_snoc l : forall m fs u f,
    marginal_fees ffi m l = Ok fs -> ffi (insert_all (map norm_utxo l) m) u = Ok f ->
    marginal_fees ffi m (l ++ [u]) = Ok (fs + f).
  Proof.
    induction l as [|x l IH]; intros m fs u f; cbn [marginal_fees app map insert_all fold_left].
    - intros H1 H2. inversion H1; subst. rewrite H2. cbn [bind]. f_equal. lia.
    - destruct (ffi m x) as [fx| | |]; cbn [bind]; try discriminate.
      destruct (marginal_fees ffi (imap_insert (norm_utxo x) m) l) as [fl| | |] eqn:El; cbn [bind]; try discriminate.
      intros H1 H2. inversion H1; subst. rewrite (IH _ _ _ _ El H2). cbn [bind]. f_equal. lia.
  Qed.

  (* the accounting invariant: everything is a function of the trace *)
  Record Inv (st : sel_state) : Prop := {
    inv_inputs : st_inputs st = insert_all (map norm_utxo (added_of (st_trace st))) m0;
    inv_out : exists fees, marginal_fees ffi m0 (added_of (st_trace st)) = Ok fees /\
                           forall sel, Q sel (st_out st) = Q sel ot0 + coin_only sel fees;
    inv_in : forall sel, Q sel (st_in st) = Q sel it0 + sumQ sel (map u_val (added_of (st_trace st)));
    inv_wf_in : value_wf (st_in st);
    inv_wf_out : value_wf (st_out st);
    inv_idx : Forall (fun i => nth_error offered i <> None) (st_trace st)
  }.

  Lemma offered_wf i u : nth_error offered i = Some u -> value_wf (u_val u).
  Proof. intros H. apply nth_error_In in H. rewrite Forall_forall in Woff. apply (Woff _ H). Qed.

  Lemma add_input_ok i u st st' :
    Inv st -> nth_error offered i = Some u ->
    add_input ffi true i u st = (st', Done tt) ->
    Inv st' /\ st_trace st' = st_trace st ++ [i] /\
    (forall sel, Q sel (st_in st') = Q sel (st_in st) + Q sel (u_val u)) /\
    (exists f, ffi (st_inputs st) u = Ok f /\ forall sel, Q sel (st_out st') = Q sel (st_out st) + coin_only sel f).
  Proof.
    intros I Hi H. unfold add_input in H.
    destruct (ffi (st_inputs st) u) as [fee| | |] eqn:Ef; cbn [of_result obind] in H; try discriminate H.
    destruct (u_ok u); [|discriminate H].
    destruct (value_checked_add (st_in st) (u_val u)) as [it| | |] eqn:Ein; cbn [of_result obind] in H; try discriminate H.
    cbn [st_inputs st_in st_out st_trace] in H.
    destruct (value_checked_add (st_out st) (value_new fee)) as [ot| | |] eqn:Eout; cbn [of_result obind] in H; try discriminate H.
    inversion H; subst st'; clear H.
    destruct I as [Iin [fees [Ifee Iout]] Iq Iwi Iwo Iidx].
    destruct (vadd_Q _ _ _ Iwi (offered_wf _ _ Hi) Ein) as [Qit Wit].
    destruct (vadd_new _ _ _ Iwo Eout) as [Qot Wot].
    split; [|split; [reflexivity|split; [exact Qit|exists fee; split; [reflexivity|exact Qot]]]].
    constructor; cbn [st_inputs st_in st_out st_trace].
    - rewrite added_of_app, (added_of_one _ _ Hi), map_app, insert_all_app, <- Iin. reflexivity.
    - exists (fees + fee). split.
      + rewrite added_of_app, (added_of_one _ _ Hi). apply marginal_fees_snoc; auto. rewrite <- Iin. exact Ef.
      + intros sel. rewrite Qot, Iout. destruct sel; cbn [coin_only]; lia.
    - intros sel. rewrite Qit, Iq. rewrite added_of_app, (added_of_one _ _ Hi), map_app, sumQ_app.
      unfold sumQ at 3. cbn [map fold_right]. lia.
    - exact Wit.
    - exact Wot.
    - apply Forall_app. split; auto. constructor; auto. congruence.
  Qed.

  (* any outcome: the trace only grows, by at most the index *)
  Lemma add_input_trace i u st st' r b :
    add_input ffi b i u st = (st', r) -> st_trace st' = st_trace st \/ st_trace st' = st_trace st ++ [i].
  Proof.
    unfold add_input. intros H.
    destruct (if b then of_result (ffi (st_inputs st) u) else Done 0) as [fee| | | |]; cbn [obind] in H;
      try (inversion H; subst; auto; fail).
    destruct (u_ok u); [|inversion H; subst; auto].
    destruct (value_checked_add (st_in st) (u_val u)) as [it| | |]; cbn [of_result obind] in H;
      try (inversion H; subst; cbn; auto; fail).
    destruct b.
    - destruct (value_checked_add (st_out st) (value_new fee)) as [ot| | |]; cbn [of_result obind] in H;
        inversion H; subst; cbn; auto.
    - inversion H; subst; cbn; auto.
  Qed.

  (* ----------------------------------------------------------------------------------------- *)
  Variable avail : list utxo.
  Hypothesis Havail : forall i u, nth_error avail i = Some u -> nth_error offered i = Some u.

  (* index bookkeeping between the phases: the selectable indices are distinct, in range, and none was added *)
  Record Bk (aidx : list nat) (st : sel_state) : Prop := {
    bk_nd : NoDup aidx;
    bk_tr : NoDup (st_trace st);
    bk_disj : forall i, In i aidx -> ~ In i (st_trace st)
  }.

  Lemma covered_Q sel st c : covered sel st = Done c ->
    c = (Q sel (st_out st) <=? Q sel (st_in st)).
  Proof.
    unfold covered. destruct (by_val sel (st_out st)) as [need|] eqn:E; [|discriminate].
    intros H; inversion H; subst. rewrite by_or_zero_Q. rewrite (by_val_Q _ _ _ E). reflexivity.
  Qed.

  (* ----------------------------------------------------------------------------------------- *)
  (* cip2_largest_first_by *)

  Lemma lf_loop_ok sel todo : forall aidx st st' aidx',
    Inv st -> Bk aidx st -> NoDup todo -> incl todo aidx ->
    lf_loop ffi sel avail todo aidx st = (st', Done aidx') ->
    Inv st' /\ Bk aidx' st' /\ incl aidx' aidx /\
    (forall s, Q s (st_in st) <= Q s (st_in st')) /\
    (forall p n, Q (ByAsset p n) (st_out st') = Q (ByAsset p n) (st_out st)).
  Proof.
    induction todo as [|i todo IH]; intros aidx st st' aidx' I B Hnd Hincl H; cbn [lf_loop] in H.
    - inversion H; subst. assert (forall s, Q s (st_in st') <= Q s (st_in st')) by (intros; lia).
      conj; auto using incl_refl.
    - ob H. destruct a.
      + inversion H; subst. assert (forall s, Q s (st_in st') <= Q s (st_in st')) by (intros; lia).
        conj; auto using incl_refl.
      + destruct (nth_error avail i) as [u|] eqn:Eu; [|discriminate H].
        destruct (add_input ffi true i u st) as [st1 r1] eqn:Ea. ob H. destruct a.
        destruct (position i aidx) as [p|] eqn:Ep; [|discriminate H].
        destruct (swap_remove p aidx) as [[x aidx1]|] eqn:Es; [|discriminate H].
        destruct (add_input_ok _ _ _ _ I (Havail _ _ Eu) Ea) as [I1 [Ht [Qi [f [_ Qo]]]]].
        destruct (swap_remove_perm _ _ _ _ Es) as [Hperm Hnth].
        rewrite (position_nth _ _ _ Ep) in Hnth. inversion Hnth; subst x.
        inversion Hnd; subst.
        assert (B1 : Bk aidx1 st1).
        { destruct B as [Bnd Btr Bdis]. constructor.
          - pose proof (Permutation_NoDup Hperm Bnd) as Hn. inversion Hn; auto.
          - rewrite Ht. apply NoDup_app_intro; auto; [repeat constructor; intros []|].
            intros y Hy [<-|[]]. apply (Bdis i); auto. apply Hincl. left; reflexivity.
          - intros y Hy. rewrite Ht. intro Hin. apply in_app_or in Hin. destruct Hin as [Hin|[<-|[]]].
            + apply (Bdis y); auto. apply (Permutation_in _ (Permutation_sym Hperm)). right; exact Hy.
            + pose proof (Permutation_NoDup Hperm Bnd) as Hn. inversion Hn; auto. }
        assert (Hincl1 : incl todo aidx1).
        { intros y Hy. assert (In y (i :: aidx1)) as [<-|]; auto; [|tauto].
          apply (Permutation_in _ Hperm). apply Hincl. right; exact Hy. }
        destruct (IH _ _ _ _ I1 B1 H3 Hincl1 H) as [I' [B' [Hi' [Hm Ho]]]].
        conj; auto.
        * intros y Hy. apply (Permutation_in _ (Permutation_sym Hperm)). right. apply Hi'. exact Hy.
        * intros s. specialize (Hm s). rewrite Qi in Hm. lia.
        * intros p0 n0. rewrite Ho, Qo. cbn [coin_only]. lia.
  Qed.

  Lemma lf_relevant_nodup sel aidx : NoDup aidx -> NoDup (rev (lf_relevant sel avail aidx)) /\ incl (rev (lf_relevant sel avail aidx)) aidx.
  Proof.
    intros H. unfold lf_relevant.
    assert (P : Permutation (rev (stable_sort (key_of sel avail) (filter (has_key sel avail) aidx))) (filter (has_key sel avail) aidx)).
    { apply Permutation_trans with (stable_sort (key_of sel avail) (filter (has_key sel avail) aidx)).
      - apply Permutation_sym, Permutation_rev.
      - apply stable_sort_perm. }
    split.
    - apply (Permutation_NoDup (Permutation_sym P)). apply NoDup_filter. exact H.
    - intros x Hx. apply (Permutation_in _ P) in Hx. apply filter_In in Hx. tauto.
  Qed.

  Lemma lf_by_ok sel aidx st st' aidx' :
    Inv st -> Bk aidx st -> lf_by ffi sel avail aidx st = (st', Done aidx') ->
    Inv st' /\ Bk aidx' st' /\ incl aidx' aidx /\
    (forall s, Q s (st_in st) <= Q s (st_in st')) /\
    (forall p n, Q (ByAsset p n) (st_out st') = Q (ByAsset p n) (st_out st)) /\
    Q sel (st_out st') <= Q sel (st_in st').
  Proof.
    intros I B H. unfold lf_by in H.
    destruct (lf_loop ffi sel avail (rev (lf_relevant sel avail aidx)) aidx st) as [st1 r1] eqn:El.
    ob H. ob H. destruct a0; [|discriminate H]. inversion H; subst.
    destruct (lf_relevant_nodup sel aidx (bk_nd _ _ B)) as [Hn Hi].
    destruct (lf_loop_ok _ _ _ _ _ _ I B Hn Hi El) as [I' [B' [Hi' [Hm Ho]]]].
    conj; auto.
    apply covered_Q in E0. symmetry in E0. apply N.leb_le in E0. exact E0.
  Qed.

  Lemma lf_multi_ok sels : forall aidx st st' aidx',
    Inv st -> Bk aidx st -> lf_multi ffi sels avail aidx st = (st', Done aidx') ->
    Inv st' /\ Bk aidx' st' /\ incl aidx' aidx /\
    (forall s, Q s (st_in st) <= Q s (st_in st')) /\
    (forall p n, Q (ByAsset p n) (st_out st') = Q (ByAsset p n) (st_out st)) /\
    (forall p n, In (ByAsset p n) sels -> Q (ByAsset p n) (st_out st') <= Q (ByAsset p n) (st_in st')).
  Proof.
    induction sels as [|s sels IH]; intros aidx st st' aidx' I B H; cbn [lf_multi] in H.
    - inversion H; subst. assert (forall s, Q s (st_in st') <= Q s (st_in st')) by (intros; lia).
      conj; auto using incl_refl. intros p n [].
    - destruct (lf_by ffi s avail aidx st) as [st1 r1] eqn:E1. ob H.
      destruct (lf_by_ok _ _ _ _ _ I B E1) as [I1 [B1 [Hi1 [Hm1 [Ho1 Hc1]]]]].
      destruct (IH _ _ _ _ I1 B1 H) as [I' [B' [Hi' [Hm' [Ho' Hc']]]]].
      conj; auto.
      + eapply incl_tran; eauto.
      + intros s0. specialize (Hm1 s0). specialize (Hm' s0). lia.
      + intros p n. rewrite Ho', Ho1. reflexivity.
      + intros p n [->|Hin]; [|apply Hc'; exact Hin].
        rewrite Ho'. specialize (Hm' (ByAsset p n)). lia.
  Qed.
  (* ----------------------------------------------------------------------------------------- *)
  (* cip2_random_improve_by: association map *)

  Definition flat (a : assoc) : list nat := concat (map snd a).
  Definition keysum (sel : selector) (l : list nat) : N := fold_right (fun i acc => key_of sel avail i + acc) 0 l.

  Lemma keysum_app sel l1 l2 : keysum sel (l1 ++ l2) = keysum sel l1 + keysum sel l2.
  Proof. unfold keysum. induction l1; cbn [app fold_right]; [reflexivity|]. rewrite IHl1. lia. Qed.
  Lemma keysum_perm sel l1 l2 : Permutation l1 l2 -> keysum sel l1 = keysum sel l2.
  Proof. unfold keysum. induction 1; cbn [fold_right]; lia. Qed.

  Lemma flat_app a1 a2 : flat (a1 ++ a2) = flat a1 ++ flat a2.
  Proof. unfold flat. rewrite map_app, concat_app. reflexivity. Qed.
  Lemma flat_cons k l a : flat ((k, l) :: a) = l ++ flat a.
  Proof. reflexivity. Qed.

  Lemma flat_push k i a : Permutation (flat (assoc_push k i a)) (i :: flat a).
  Proof.
    induction a as [|[k' l] a IH]; cbn [assoc_push]; [reflexivity|].
    destruct (k' =? k).
    - rewrite !flat_cons. rewrite <- app_assoc. cbn [app].
      apply Permutation_sym, Permutation_middle.
    - rewrite !flat_cons. apply Permutation_trans with (l ++ i :: flat a).
      + apply Permutation_app_head. exact IH.
      + apply Permutation_sym, Permutation_middle.
  Qed.

  Lemma keys_push k i a k0 : In k0 (map fst (assoc_push k i a)) -> k0 = k \/ In k0 (map fst a).
  Proof.
    induction a as [|[k' l] a IH]; cbn [assoc_push map fst In]; [intuition|].
    destruct (k' =? k); cbn [map fst In]; intuition.
  Qed.

  Lemma keys_push_nodup k i a : NoDup (map fst a) -> NoDup (map fst (assoc_push k i a)).
  Proof.
    induction a as [|[k' l] a IH]; cbn [assoc_push map fst]; intros H; [repeat constructor; intros []|].
    destruct (k' =? k) eqn:E; cbn [map fst]; [exact H|].
    inversion H; subst. constructor; auto. intro Hin. apply keys_push in Hin. destruct Hin as [->|Hin]; [|tauto].
    rewrite N.eqb_refl in E. discriminate.
  Qed.

  Lemma assoc_get_none k a : assoc_get k a = None -> forall e, In e a -> fst e <> k.
  Proof.
    induction a as [|[k' l] a IH]; cbn [assoc_get]; intros H e; [intros []|].
    destruct (k' =? k) eqn:E; [discriminate|]. intros [<-|Hin]; [cbn; apply N.eqb_neq; exact E|auto].
  Qed.

  Lemma assoc_get_split k a l : assoc_get k a = Some l ->
    exists a1 a2, a = a1 ++ (k, l) :: a2 /\ assoc_get k a1 = None.
  Proof.
    induction a as [|[k' l'] a IH]; cbn [assoc_get]; [discriminate|].
    destruct (k' =? k) eqn:E.
    - intros H; inversion H; subst. apply N.eqb_eq in E. subst. exists [], a. split; reflexivity.
    - intros H. destruct (IH H) as [a1 [a2 [-> Hn]]]. exists ((k', l') :: a1), a2. split; [reflexivity|].
      cbn [assoc_get]. rewrite E. exact Hn.
  Qed.

  Lemma assoc_set_split k l l' a1 a2 : assoc_get k a1 = None ->
    assoc_set k l' (a1 ++ (k, l) :: a2) = a1 ++ (k, l') :: a2.
  Proof.
    induction a1 as [|[k' x] a1 IH]; cbn [assoc_get assoc_set app]; intros H.
    - rewrite N.eqb_refl. reflexivity.
    - destruct (k' =? k); [discriminate|]. rewrite (IH H). reflexivity.
  Qed.

  Lemma assoc_remove_split k l a1 a2 : assoc_get k a1 = None ->
    assoc_remove k (a1 ++ (k, l) :: a2) = a1 ++ a2.
  Proof.
    induction a1 as [|[k' x] a1 IH]; cbn [assoc_get assoc_remove app]; intros H.
    - rewrite N.eqb_refl. reflexivity.
    - destruct (k' =? k); [discriminate|]. rewrite (IH H). reflexivity.
  Qed.

  (* relevant ⊆ available, associated ∩ available = ∅, everything inside the universe U *)
  Record J (U relevant aset S : list nat) : Prop := {
    j_rel_nd : NoDup relevant;
    j_rel_in : incl relevant aset;
    j_aset : sset aset;
    j_aset_U : incl aset U;
    j_S_nd : NoDup S;
    j_S_U : incl S U;
    j_disj : forall i, In i S -> ~ In i aset
  }.

  Lemma J_perm U relevant aset S S' : Permutation S S' -> J U relevant aset S -> J U relevant aset S'.
  Proof.
    intros P [A B C D E F G]. constructor; auto.
    - apply (Permutation_NoDup P E).
    - intros x Hx. apply F. apply (Permutation_in _ (Permutation_sym P) Hx).
    - intros x Hx. apply G. apply (Permutation_in _ (Permutation_sym P) Hx).
  Qed.

  Lemma key_of_by sel i u q : nth_error avail i = Some u -> by_val sel (u_val u) = Some q -> key_of sel avail i = q.
  Proof. intros H1 H2. unfold key_of. rewrite H1. unfold by_or_zero. rewrite H2. reflexivity. Qed.

  Lemma p1_pick_ok sel U okey needed : forall fuel added relevant aset a cs added' rel' aset' a' cs',
    J U relevant aset (flat a) -> NoDup (map fst a) ->
    p1_pick fuel sel avail okey needed added relevant aset a cs = Done (added', (rel', aset', a', cs')) ->
    J U rel' aset' (flat a') /\ NoDup (map fst a') /\
    (forall k, In k (map fst a') -> k = okey \/ In k (map fst a)) /\
    keysum sel (flat a') + added = keysum sel (flat a) + added' /\ needed <= added'.
  Proof.
    induction fuel as [|fuel IH]; intros added relevant aset a cs added' rel' aset' a' cs' Hj Hk H.
    - cbn [p1_pick] in H. destruct (needed <=? added) eqn:E; [|discriminate H].
      inversion H; subst. apply N.leb_le in E. conj; auto; try lia.
    - cbn [p1_pick] in H. destruct (needed <=? added) eqn:E.
      { inversion H; subst. apply N.leb_le in E. conj; auto; try lia. }
      destruct relevant as [|r0 rr]; [discriminate H|]. cbv iota beta in H.
      remember (r0 :: rr) as relevant eqn:Er in *. clear Er r0 rr.
      destruct (next_choice (length relevant) cs) as [r cs1].
      destruct (swap_remove r relevant) as [[i relevant1]|] eqn:Es; [|discriminate H].
      destruct (nth_error avail i) as [u|] eqn:Eu; [|discriminate H].
      destruct (by_val sel (u_val u)) as [q|] eqn:Eq; [|discriminate H].
      destruct (added + q <? two64); [|discriminate H].
      destruct (swap_remove_perm _ _ _ _ Es) as [Hperm _].
      destruct Hj as [A B C D E1 F G].
      pose proof (Permutation_NoDup Hperm A) as Hnd. inversion Hnd as [|? ? Hni Hnd1]; subst.
      assert (Hi_rel : In i relevant) by (apply (Permutation_in _ (Permutation_sym Hperm)); left; reflexivity).
      assert (Hi_aset : In i aset) by (apply B; exact Hi_rel).
      assert (Hj1 : J U relevant1 (set_remove i aset) (flat (assoc_push okey i a))).
      { apply (J_perm _ _ _ (i :: flat a)); [apply Permutation_sym, flat_push|]. constructor; auto.
        - intros x Hx. apply set_remove_in. split.
          + apply B. apply (Permutation_in _ (Permutation_sym Hperm)). right; exact Hx.
          + intro; subst. tauto.
        - apply set_remove_sset. exact C.
        - intros x Hx. apply set_remove_in in Hx. apply D. tauto.
        - constructor; auto. intro Hin. apply (G _ Hin). exact Hi_aset.
        - intros x [<-|Hx]; auto.
        - intros x [<-|Hx] Hin; apply set_remove_in in Hin; [tauto|]. apply (G _ Hx). tauto. }
      destruct (IH _ _ _ _ _ _ _ _ _ _ Hj1 (keys_push_nodup okey i a Hk) H) as [J' [K' [Hkeys [Hsum Hle]]]].
      conj; auto.
      + intros k Hin. destruct (Hkeys k Hin) as [->|Hin2]; auto. apply keys_push in Hin2. exact Hin2.
      + rewrite (keysum_perm _ _ _ (flat_push okey i a)) in Hsum. unfold keysum in Hsum at 2. cbn [fold_right] in Hsum.
        fold (keysum sel (flat a)) in Hsum. rewrite (key_of_by _ _ _ _ Eu Eq) in Hsum. lia.
  Qed.

  Lemma p1_outputs_ok sel U : forall outs coins relevant aset a cs rel' aset' a' cs',
    J U relevant aset (flat a) -> NoDup (map fst a) ->
    p1_outputs sel avail outs coins relevant aset a cs = Done (rel', aset', a', cs') ->
    J U rel' aset' (flat a') /\ NoDup (map fst a') /\
    (forall k, In k (map fst a') -> In k (map o_key outs) \/ In k (map fst a)) /\
    exists coins', keysum sel (flat a') + coins = keysum sel (flat a) + coins' + sumQ sel (map o_val outs).
  Proof.
    induction outs as [|o outs IH]; intros coins relevant aset a cs rel' aset' a' cs' Hj Hk H; cbn [p1_outputs] in H.
    - inversion H; subst. conj; auto. exists coins. unfold sumQ. cbn [map fold_right]. lia.
    - destruct (by_val sel (o_val o)) as [needed|] eqn:En; [|discriminate H].
      ob H. destruct a0 as [added [[[rel1 aset1] a1] cs1]].
      destruct (p1_pick_ok _ _ _ _ _ _ _ _ _ _ _ _ _ _ _ Hj Hk E) as [J1 [K1 [Hkeys1 [Hsum1 Hle1]]]].
      destruct (IH _ _ _ _ _ _ _ _ _ J1 K1 H) as [J' [K' [Hkeys' [coins' Hsum']]]].
      conj; auto.
      + intros k Hin. cbn [map In]. destruct (Hkeys' k Hin) as [Hin2|Hin2]; auto.
        destruct (Hkeys1 k Hin2) as [->|Hin3]; auto.
      + exists coins'. unfold sumQ. cbn [map fold_right]. fold (sumQ sel (map o_val outs)).
        rewrite (by_val_Q _ _ _ En). lia.
  Qed.

  (* phase 2 (repaired bookkeeping) *)
  Lemma improve_slot_ok sel U o i relevant aset cs F i' rel' aset' cs' :
    J U relevant aset (i :: F) ->
    improve_slot current sel avail o i relevant aset cs = Done (i', (rel', aset', cs')) ->
    J U rel' aset' (i' :: F).
  Proof.
    intros Hj H. unfold improve_slot in H.
    destruct (next_choice (length relevant) cs) as [r cs1].
    destruct (nth_error relevant r) as [j|] eqn:Ej; [|discriminate H].
    destruct (nth_error avail i) as [ui|]; [|discriminate H].
    destruct (nth_error avail j) as [uj|]; [|discriminate H].
    cbn [v_exact_improve current orb] in H.
    match type of H with (if ?c then _ else _) = _ => destruct c end.
    2: { inversion H; subst. exact Hj. }
    cbn [v_swap_fixed current] in H. inversion H; subst i' rel' aset' cs'; clear H.
    destruct Hj as [A B C D E F0 G].
    assert (Hj_rel : In j relevant) by (eapply nth_error_In; eauto).
    assert (Hj_aset : In j aset) by (apply B; exact Hj_rel).
    assert (Hi_aset : ~ In i aset) by (apply G; left; reflexivity).
    assert (Hi_rel : ~ In i relevant) by (intro; apply Hi_aset; apply B; auto).
    assert (Hij : i <> j) by (intro; subst; tauto).
    pose proof (replace_nth_perm r i j relevant Ej) as Hperm.
    assert (Hnd : NoDup (j :: replace_nth r i relevant)).
    { apply (Permutation_NoDup (Permutation_sym Hperm)). constructor; auto. }
    inversion Hnd as [|? ? Hnj Hnd1]; subst.
    inversion E as [|? ? HiF HndF]; subst.
    constructor; auto.
    - intros x Hx. apply set_insert_in.
      assert (Hx2 : In x (i :: relevant)) by (apply (Permutation_in _ Hperm); right; exact Hx).
      destruct Hx2 as [<-|Hx2]; [left; reflexivity|]. right. apply set_remove_in. split; [apply B; exact Hx2|].
      intro; subst. tauto.
    - apply set_insert_sset, set_remove_sset. exact C.
    - intros x Hx. apply set_insert_in in Hx. destruct Hx as [->|Hx]; [apply F0; left; reflexivity|].
      apply set_remove_in in Hx. apply D. tauto.
    - constructor; auto. intro Hin. apply (G j); [right; exact Hin|exact Hj_aset].
    - intros x [<-|Hx]; [apply D; exact Hj_aset|apply F0; right; exact Hx].
    - intros x Hx Hin. apply set_insert_in in Hin. destruct Hx as [<-|Hx].
      + destruct Hin as [->|Hin]; [tauto|]. apply set_remove_in in Hin. tauto.
      + destruct Hin as [->|Hin]; [tauto|]. apply set_remove_in in Hin. apply (G x); [right; exact Hx|tauto].
  Qed.

  Lemma improve_entry_ok sel U o : forall slots relevant aset cs F slots' rel' aset' cs',
    J U relevant aset (slots ++ F) ->
    improve_entry current sel avail o slots relevant aset cs = Done (slots', (rel', aset', cs')) ->
    J U rel' aset' (slots' ++ F).
  Proof.
    induction slots as [|i slots IH]; intros relevant aset cs F slots' rel' aset' cs' Hj H; cbn [improve_entry] in H.
    - inversion H; subst. exact Hj.
    - ob H. destruct a as [i1 [[rel1 aset1] cs1]]. ob H. destruct a as [sl loc]. inversion H; subst; clear H.
      cbn [app] in Hj. pose proof (improve_slot_ok _ _ _ _ _ _ _ _ _ _ _ _ Hj E) as J1.
      assert (J2 : J U rel1 aset1 (slots ++ (F ++ [i1]))).
      { apply (J_perm _ _ _ (i1 :: slots ++ F)); [|exact J1].
        rewrite app_assoc. apply Permutation_cons_append. }
      pose proof (IH _ _ _ _ _ _ _ _ J2 E0) as J3.
      apply (J_perm _ _ _ (sl ++ F ++ [i1])); [|exact J3].
      cbn [app]. rewrite app_assoc. apply Permutation_sym, Permutation_cons_append.
  Qed.

  Lemma p2_outputs_ok sel U : forall outs relevant aset a cs rel' aset' a' cs',
    J U relevant aset (flat a) ->
    p2_outputs current sel avail outs relevant aset a cs = Done (rel', aset', a', cs') ->
    J U rel' aset' (flat a') /\ map fst a' = map fst a.
  Proof.
    induction outs as [|o outs IH]; intros relevant aset a cs rel' aset' a' cs' Hj H; cbn [p2_outputs] in H.
    - inversion H; subst. auto.
    - destruct (assoc_get (o_key o) a) as [slots|] eqn:Eg; [|apply (IH _ _ _ _ _ _ _ _ Hj H)].
      ob H. destruct a0 as [slots' [[rel1 aset1] cs1]].
      destruct (assoc_get_split _ _ _ Eg) as [a1 [a2 [-> Hn]]].
      rewrite (assoc_set_split _ _ slots' _ _ Hn) in H.
      assert (J1 : J U rel1 aset1 (flat (a1 ++ (o_key o, slots') :: a2))).
      { rewrite flat_app, flat_cons.
        apply (J_perm _ _ _ (slots' ++ (flat a2 ++ flat a1))).
        - rewrite app_assoc. apply Permutation_app_comm.
        - eapply improve_entry_ok; [|exact E].
          apply (J_perm _ _ _ (flat (a1 ++ (o_key o, slots) :: a2))); [|exact Hj].
          rewrite flat_app, flat_cons. rewrite (app_assoc slots). apply Permutation_app_comm. }
      destruct (IH _ _ _ _ _ _ _ _ J1 H) as [J' Hk]. split; auto.
      rewrite Hk. rewrite !map_app. reflexivity.
  Qed.

  (* the final insertion loop *)
  Lemma add_all_ok : forall idxs st st',
    Inv st -> add_all ffi avail idxs st = (st', Done tt) ->
    Inv st' /\ st_trace st' = st_trace st ++ idxs /\
    (forall s, Q s (st_in st') = Q s (st_in st) + keysum s idxs) /\
    (forall p n, Q (ByAsset p n) (st_out st') = Q (ByAsset p n) (st_out st)).
  Proof.
    induction idxs as [|i idxs IH]; intros st st' I H; cbn [add_all] in H.
    - inversion H; subst. conj; auto. rewrite app_nil_r; reflexivity. intros; unfold keysum; cbn [fold_right]; lia.
    - destruct (nth_error avail i) as [u|] eqn:Eu; [|discriminate H].
      destruct (add_input ffi true i u st) as [st1 r1] eqn:Ea. ob H. destruct a.
      destruct (add_input_ok _ _ _ _ I (Havail _ _ Eu) Ea) as [I1 [Ht [Qi [f [_ Qo]]]]].
      destruct (IH _ _ I1 H) as [I' [Ht' [Qi' Qo']]]. conj; auto.
      + rewrite Ht', Ht, <- app_assoc. reflexivity.
      + intros s. rewrite Qi', Qi. unfold keysum. cbn [fold_right]. fold (keysum s idxs).
        unfold key_of. rewrite Eu. rewrite by_or_zero_Q. lia.
      + intros p n. rewrite Qo', Qo. cbn [coin_only]. lia.
  Qed.

  Definition rest (a : assoc) (outs : list output) : assoc :=
    filter (fun e => negb (existsb (fun o => o_key o =? fst e) outs)) a.

  Lemma rest_no_outs a : rest a [] = a.
  Proof. unfold rest. induction a as [|e a IHa]; [reflexivity|]. cbn. f_equal. exact IHa. Qed.

  Lemma rest_cons_notin a o outs : (forall e, In e a -> fst e <> o_key o) -> rest a (o :: outs) = rest a outs.
  Proof.
    intros H. unfold rest. apply filter_ext_in. intros e He. cbn [existsb].
    destruct (o_key o =? fst e) eqn:E; [|reflexivity]. apply N.eqb_eq in E. exfalso. apply (H e He). auto.
  Qed.

  Lemma rest_app a1 a2 outs : rest (a1 ++ a2) outs = rest a1 outs ++ rest a2 outs.
  Proof. unfold rest. apply filter_app. Qed.

  Lemma ri_final_ok : forall outs a st st',
    Inv st -> NoDup (map fst a) ->
    ri_final ffi current avail outs a st = (st', Done tt) ->
    exists l, Inv st' /\ st_trace st' = st_trace st ++ l /\
      Permutation (l ++ flat (rest a outs)) (flat a) /\
      (forall s, Q s (st_in st') = Q s (st_in st) + keysum s l) /\
      (forall p n, Q (ByAsset p n) (st_out st') = Q (ByAsset p n) (st_out st)).
  Proof.
    induction outs as [|o outs IH]; intros a st st' I Hk H; cbn [ri_final] in H.
    - inversion H; subst. exists []. conj; auto.
      + rewrite app_nil_r; reflexivity.
      + cbn [app]. rewrite rest_no_outs. reflexivity.
      + intros; unfold keysum; cbn [fold_right]; lia.
    - destruct (assoc_get (o_key o) a) as [idxs|] eqn:Eg.
      + destruct (add_all ffi avail idxs st) as [st1 r1] eqn:Ea. ob H. destruct a0.
        cbn [v_assoc_once current] in H.
        destruct (assoc_get_split _ _ _ Eg) as [a1 [a2 [-> Hn]]].
        rewrite (assoc_remove_split _ _ _ _ Hn) in H.
        destruct (add_all_ok _ _ _ I Ea) as [I1 [Ht1 [Qi1 Qo1]]].
        assert (Hk12 : NoDup (map fst (a1 ++ a2))).
        { rewrite map_app in *. cbn [map fst] in Hk. apply NoDup_remove_1 in Hk. exact Hk. }
        destruct (IH _ _ _ I1 Hk12 H) as [l [I' [Ht' [Hp [Qi' Qo']]]]].
        exists (idxs ++ l). conj; auto.
        * rewrite Ht', Ht1, <- app_assoc. reflexivity.
        * (* no other entry has this key *)
          assert (Hno : forall e, In e (a1 ++ a2) -> fst e <> o_key o).
          { intros e He Heq. rewrite map_app in Hk. cbn [map fst] in Hk. apply NoDup_remove_2 in Hk.
            apply Hk. rewrite <- map_app. rewrite <- Heq. apply in_map. exact He. }
          rewrite rest_app. change ((o_key o, idxs) :: a2) with ([(o_key o, idxs)] ++ a2). rewrite rest_app.
          assert (R0 : rest [(o_key o, idxs)] (o :: outs) = []).
          { unfold rest. cbn [filter existsb fst]. rewrite N.eqb_refl. reflexivity. }
          rewrite R0. cbn [app].
          rewrite (rest_cons_notin a1 o outs) by (intros e He; apply Hno; apply in_or_app; auto).
          rewrite (rest_cons_notin a2 o outs) by (intros e He; apply Hno; apply in_or_app; auto).
          rewrite <- rest_app. rewrite flat_app, flat_cons.
          rewrite flat_app in Hp.
          (* idxs ++ l ++ R  ~  f1 ++ idxs ++ f2   given   l ++ R ~ f1 ++ f2 *)
          rewrite <- app_assoc.
          apply Permutation_trans with (idxs ++ flat a1 ++ flat a2).
          -- apply Permutation_app_head. exact Hp.
          -- rewrite !app_assoc. apply Permutation_app_tail. apply Permutation_app_comm.
        * intros s. rewrite Qi', Qi1, keysum_app. lia.
        * intros p n. rewrite Qo', Qo1. reflexivity.
      + destruct (IH _ _ _ I Hk H) as [l [I' [Ht' [Hp [Qi' Qo']]]]].
        exists l. conj; auto.
        rewrite (rest_cons_notin a o outs); auto. intros e He. apply (assoc_get_none _ _ Eg e He).
  Qed.

  Lemma rest_nil a outs : (forall k, In k (map fst a) -> In k (map o_key outs)) -> rest a outs = [].
  Proof.
    intros H. unfold rest. induction a as [|e a IH]; cbn [filter]; [reflexivity|].
    assert (Hex : existsb (fun o => o_key o =? fst e) outs = true).
    { apply existsb_exists. assert (Hin : In (fst e) (map o_key outs)) by (apply H; left; reflexivity).
      apply in_map_iff in Hin. destruct Hin as [o [Ho Hin]]. exists o. split; auto. apply N.eqb_eq. exact Ho. }
    rewrite Hex. cbn [negb]. apply IH. intros k Hk. apply H. right. exact Hk.
  Qed.

  Lemma sumQ_ri_outs sel outputs : sumQ sel (map o_val (ri_outs sel outputs)) = sumQ sel (map o_val outputs).
  Proof.
    unfold ri_outs.
    rewrite (sumQ_perm sel _ _ (Permutation_map o_val (stable_sort_perm _ _))).
    induction outputs as [|o outputs IH]; [reflexivity|]. cbn [filter].
    destruct (by_val sel (o_val o)) eqn:E; cbn [is_some map]; unfold sumQ in *; cbn [fold_right]; rewrite IH.
    - reflexivity.
    - rewrite (by_val_none_Q _ _ E). lia.
  Qed.

  Lemma ri_by_ok sel pure aset outputs cs st st' aset' cs' :
    Inv st -> Bk aset st -> sset aset ->
    ri_by ffi current sel pure avail outputs aset cs st = (st', Done (aset', cs')) ->
    Inv st' /\ Bk aset' st' /\ sset aset' /\ incl aset' aset /\
    (forall s, Q s (st_in st) <= Q s (st_in st')) /\
    (forall p n, Q (ByAsset p n) (st_out st') = Q (ByAsset p n) (st_out st)) /\
    (pure = false -> sumQ sel (map o_val outputs) <= Q sel (st_in st')).
  Proof.
    intros I B Hs H. unfold ri_by in H.
    ob H. destruct a as [[[rel1 aset1] a1] cs1].
    assert (J0 : J aset (filter (has_key sel avail) aset) aset (flat [])).
    { constructor; auto using incl_refl; try (intros x []); try (cbn; constructor).
      - apply NoDup_filter. apply sset_nodup. exact Hs.
      - intros x Hx. apply filter_In in Hx. tauto. }
    destruct (p1_outputs_ok _ _ _ _ _ _ _ _ _ _ _ _ J0 (NoDup_nil _) E) as [J1 [K1 [Hkeys1 [coins' Hsum1]]]].
    match type of H with obind _ ?r _ = _ => destruct r as [[[[rel2 aset2] a2] cs2]| | | |] eqn:E2 end;
      cbn [obind] in H; try discriminate H.
    assert (J2K : J aset rel2 aset2 (flat a2) /\ map fst a2 = map fst a1 /\ (pure = false -> a2 = a1)).
    { destruct (negb (is_nil rel1) && pure) eqn:Ec.
      - destruct (p2_outputs_ok _ _ _ _ _ _ _ _ _ _ _ J1 E2) as [J2 K2]. conj; auto.
        intros ->. rewrite Bool.andb_false_r in Ec. discriminate.
      - inversion E2; subst. conj; auto. }
    destruct J2K as [J2 [K2 Hsame]].
    destruct (ri_final ffi current avail (ri_outs sel outputs) a2 st) as [st2 r2] eqn:Ef.
    ob H. destruct a. inversion H; subst st2 aset2 cs2; clear H.
    assert (K2n : NoDup (map fst a2)) by (rewrite K2; exact K1).
    destruct (ri_final_ok _ _ _ _ I K2n Ef) as [l [I' [Ht' [Hp [Qi' Qo']]]]].
    assert (Hrest : rest a2 (ri_outs sel outputs) = []).
    { apply rest_nil. intros k Hk. rewrite K2 in Hk. destruct (Hkeys1 k Hk) as [Hin|[]].
      apply in_map_iff in Hin. destruct Hin as [o [Ho Hin]].
      apply in_map_iff. exists o. split; auto. apply in_rev. exact Hin. }
    rewrite Hrest in Hp. cbn [flat map concat] in Hp. rewrite app_nil_r in Hp.
    destruct J2 as [A Bi C D E1 F G]. destruct B as [Bnd Btr Bdis].
    conj; auto.
    - constructor.
      + apply sset_nodup. exact C.
      + rewrite Ht'. apply NoDup_app_intro; auto.
        * apply (Permutation_NoDup (Permutation_sym Hp)). exact E1.
        * intros x Hx Hl. apply (Bdis x); auto. apply F. apply (Permutation_in _ Hp). exact Hl.
      + intros x Hx. rewrite Ht'. intro Hin. apply in_app_or in Hin. destruct Hin as [Hin|Hin].
        * apply (Bdis x); auto.
        * apply (G x); auto. apply (Permutation_in _ Hp). exact Hin.
    - intros s. rewrite Qi'. lia.
    - intros Hpure. rewrite Qi'. rewrite (keysum_perm _ _ _ Hp). rewrite (Hsame Hpure).
      cbn [flat map concat] in Hsum1. unfold keysum in Hsum1 at 2. cbn [fold_right] in Hsum1.
      rewrite (sumQ_perm sel _ _ (Permutation_map o_val (Permutation_sym (Permutation_rev (ri_outs sel outputs))))) in Hsum1.
      rewrite sumQ_ri_outs in Hsum1. rewrite by_or_zero_Q in Hsum1. lia.
  Qed.

  Lemma ri_multi_ok sels : forall aset outputs cs st st' aset' cs',
    Inv st -> Bk aset st -> sset aset ->
    ri_multi ffi current sels avail outputs aset cs st = (st', Done (aset', cs')) ->
    Inv st' /\ Bk aset' st' /\ sset aset' /\ incl aset' aset /\
    (forall s, Q s (st_in st) <= Q s (st_in st')) /\
    (forall p n, Q (ByAsset p n) (st_out st') = Q (ByAsset p n) (st_out st)) /\
    (forall s, In s sels -> sumQ s (map o_val outputs) <= Q s (st_in st')).
  Proof.
    induction sels as [|s sels IH]; intros aset outputs cs st st' aset' cs' I B Hs H; cbn [ri_multi] in H.
    - inversion H; subst. assert (forall s, Q s (st_in st') <= Q s (st_in st')) by (intros; lia).
      conj; auto using incl_refl. intros s [].
    - destruct (ri_by ffi current s false avail outputs aset cs st) as [st1 r1] eqn:E1. ob H. destruct a as [aset1 cs1].
      destruct (ri_by_ok _ _ _ _ _ _ _ _ _ I B Hs E1) as [I1 [B1 [S1 [Hi1 [Hm1 [Ho1 Hc1]]]]]].
      destruct (IH _ _ _ _ _ _ _ I1 B1 S1 H) as [I' [B' [S' [Hi' [Hm' [Ho' Hc']]]]]].
      conj; auto.
      + eapply incl_tran; eauto.
      + intros s0. specialize (Hm1 s0). specialize (Hm' s0). lia.
      + intros p n. rewrite Ho', Ho1. reflexivity.
      + intros s0 [<-|Hin]; [|apply Hc'; exact Hin].
        specialize (Hc1 eq_refl). specialize (Hm' s). lia.
  Qed.

  (* Phase 3 *)
  Lemma phase3_ok : forall fuel aset cs st st',
    Inv st -> Bk aset st ->
    phase3 ffi fuel avail aset cs st = (st', Done tt) ->
    Inv st' /\ NoDup (st_trace st') /\ coin (st_out st') <= coin (st_in st') /\
    (forall s, Q s (st_in st) <= Q s (st_in st')) /\
    (forall p n, Q (ByAsset p n) (st_out st') = Q (ByAsset p n) (st_out st)).
  Proof.
    induction fuel as [|fuel IH]; intros aset cs st st' I B H.
    - cbn [phase3] in H. destruct (coin (st_out st) <=? coin (st_in st)) eqn:E; [|discriminate H].
      inversion H; subst. apply N.leb_le in E. assert (forall s, Q s (st_in st') <= Q s (st_in st')) by (intros; lia).
      conj; auto. apply B.
    - cbn [phase3] in H. destruct (coin (st_out st) <=? coin (st_in st)) eqn:E.
      { inversion H; subst. apply N.leb_le in E. assert (forall s, Q s (st_in st') <= Q s (st_in st')) by (intros; lia).
        conj; auto. apply B. }
      destruct aset as [|a0 ar]; [discriminate H|]. cbv iota beta in H.
      remember (a0 :: ar) as aset eqn:Ea in *. clear Ea a0 ar.
      destruct (next_choice (length aset) cs) as [r cs1].
      destruct (nth_error aset r) as [i|] eqn:Ei; [|discriminate H].
      destruct (nth_error avail i) as [u|] eqn:Eu; [|discriminate H].
      destruct (add_input ffi true i u st) as [st1 r1] eqn:Eadd. ob H. destruct a.
      destruct (add_input_ok _ _ _ _ I (Havail _ _ Eu) Eadd) as [I1 [Ht [Qi [f [_ Qo]]]]].
      assert (Hi : In i aset) by (eapply nth_error_In; eauto).
      destruct B as [Bnd Btr Bdis].
      assert (B1 : Bk (set_remove i aset) st1).
      { constructor.
        - apply NoDup_filter. exact Bnd.
        - rewrite Ht. apply NoDup_app_intro; auto; [repeat constructor; intros []|].
          intros y Hy [<-|[]]. apply (Bdis i); auto.
        - intros y Hy. apply set_remove_in in Hy. rewrite Ht. intro Hin. apply in_app_or in Hin.
          destruct Hin as [Hin|[<-|[]]]; [apply (Bdis y); tauto|tauto]. }
      destruct (IH _ _ _ _ I1 B1 H) as [I' [Hn' [Hc' [Hm' Ho']]]]. conj; auto.
      + intros s. specialize (Hm' s). rewrite Qi in Hm'. lia.
      + intros p n. rewrite Ho', Qo. cbn [coin_only]. lia.
  Qed.
  (* ----------------------------------------------------------------------------------------- *)
  (* Largest-first: order, minimality, completeness *)

  Lemma lf_prefix sel todo : forall aidx st st' r,
    lf_loop ffi sel avail todo aidx st = (st', r) ->
    exists taken rest, todo = taken ++ rest /\ st_trace st' = st_trace st ++ taken.
  Proof.
    induction todo as [|i todo IH]; intros aidx st st' r H; cbn [lf_loop] in H.
    - inversion H; subst. exists [], []. split; [reflexivity|rewrite app_nil_r; reflexivity].
    - destruct (covered sel st) as [c| | | |]; cbn [obind] in H;
        try (inversion H; subst; exists [], (i :: todo); split; [reflexivity|rewrite app_nil_r; reflexivity]).
      destruct c; [inversion H; subst; exists [], (i :: todo); split; [reflexivity|rewrite app_nil_r; reflexivity]|].
      destruct (nth_error avail i) as [u|]; [|inversion H; subst; exists [], (i :: todo); split; [reflexivity|rewrite app_nil_r; reflexivity]].
      destruct (add_input ffi true i u st) as [st1 r1] eqn:Ea.
      pose proof (add_input_trace _ _ _ _ _ _ Ea) as Ht.
      assert (Hstop : st' = st1 -> exists taken rest, i :: todo = taken ++ rest /\ st_trace st' = st_trace st ++ taken).
      { intros ->. destruct Ht as [Ht|Ht]; rewrite Ht.
        - exists [], (i :: todo). split; [reflexivity|rewrite app_nil_r; reflexivity].
        - exists [i], todo. split; reflexivity. }
      destruct r1 as [[]| | | |]; cbn [obind] in H; try (inversion H; subst; apply Hstop; reflexivity).
      destruct Ht as [Ht|Ht].
      { (* Done always appends *) exfalso. unfold add_input in Ea.
        destruct (ffi (st_inputs st) u) as [fee| | |]; cbn [of_result obind] in Ea; try discriminate Ea.
        destruct (u_ok u); [|discriminate Ea].
        destruct (value_checked_add (st_in st) (u_val u)); cbn [of_result obind] in Ea; try discriminate Ea.
        destruct (value_checked_add (st_out st) (value_new fee)); cbn [of_result obind] in Ea; try discriminate Ea.
        inversion Ea; subst. cbn [st_trace] in Ht.
        assert (L : length (st_trace st ++ [i]) = length (st_trace st)) by (rewrite Ht; reflexivity).
        rewrite app_length in L. cbn in L. lia. }
      destruct (position i aidx) as [p|]; [|inversion H; subst; apply Hstop; reflexivity].
      destruct (swap_remove p aidx) as [[x aidx1]|]; [|inversion H; subst; apply Hstop; reflexivity].
      destruct (IH _ _ _ _ H) as [taken [rest [Hsplit Htr]]].
      exists (i :: taken), rest. split; [cbn; rewrite Hsplit; reflexivity|].
      rewrite Htr, Ht, <- app_assoc. reflexivity.
  Qed.

  Definition desc_sorted (k : nat -> N) (l : list nat) : Prop := StronglySorted (fun a b => k b <= k a) l.

  Lemma key_sorted_rev (k : nat -> N) l : key_sorted k l -> desc_sorted k (rev l).
  Proof.
    induction 1 as [|x l Hl IH Hx]; cbn [rev]; [constructor|].
    unfold desc_sorted in *.
    assert (G : forall l1, StronglySorted (fun a b => k b <= k a) l1 -> Forall (fun y => k x <= k y) l1 ->
                           StronglySorted (fun a b => k b <= k a) (l1 ++ [x])).
    { induction 1 as [|y l1 H1 IH1 Hy]; intros HF; cbn [app]; [repeat constructor|].
      inversion HF; subst. constructor; [apply IH1; auto|].
      apply Forall_app. split; auto. }
    apply G; auto. apply Forall_forall. intros y Hy. apply in_rev in Hy. rewrite Forall_forall in Hx. apply Hx. exact Hy.
  Qed.

  Lemma desc_sorted_app k l1 l2 : desc_sorted k (l1 ++ l2) ->
    desc_sorted k l1 /\ (forall i j, In i l1 -> In j l2 -> k j <= k i).
  Proof.
    unfold desc_sorted. induction l1 as [|x l1 IH]; cbn [app]; intros H.
    - split; [constructor|intros i j []].
    - inversion H; subst. destruct (IH H2) as [S1 S2]. split.
      + constructor; auto. rewrite Forall_forall in *. intros y Hy. apply H3. apply in_or_app; auto.
      + intros i j [<-|Hi] Hj; [|apply S2; auto]. rewrite Forall_forall in H3. apply H3. apply in_or_app; auto.
  Qed.

  (* the inputs largest-first adds form a prefix of the candidates ordered by decreasing quantity *)
  Theorem largest_first_order sel aidx st st' r :
    lf_by ffi sel avail aidx st = (st', r) ->
    exists taken, st_trace st' = st_trace st ++ taken /\
      desc_sorted (key_of sel avail) taken /\
      (forall i, In i taken -> In i aidx /\ has_key sel avail i = true) /\
      (forall i j, In i taken -> In j aidx -> has_key sel avail j = true -> ~ In j taken ->
                   key_of sel avail j <= key_of sel avail i).
  Proof.
    intros H. unfold lf_by in H.
    destruct (lf_loop ffi sel avail (rev (lf_relevant sel avail aidx)) aidx st) as [st1 r1] eqn:El.
    assert (Hst : st' = st1).
    { destruct r1 as [a| | | |]; cbn [obind] in H; try (inversion H; reflexivity).
      destruct (covered sel st1) as [c| | | |]; cbn [obind] in H; try (inversion H; reflexivity).
      destruct c; inversion H; reflexivity. }
    subst st1. destruct (lf_prefix _ _ _ _ _ _ El) as [taken [rest [Hsplit Htr]]].
    exists taken. split; [exact Htr|].
    pose proof (key_sorted_rev _ _ (stable_sort_sorted (key_of sel avail) (filter (has_key sel avail) aidx))) as Hs.
    fold (lf_relevant sel avail aidx) in Hs. rewrite Hsplit in Hs.
    destruct (desc_sorted_app _ _ _ Hs) as [S1 S2].
    assert (Hmem : forall j, In j (taken ++ rest) <-> In j aidx /\ has_key sel avail j = true).
    { intros j. rewrite <- Hsplit. rewrite <- in_rev. unfold lf_relevant.
      split.
      - intros Hj. apply (Permutation_in _ (stable_sort_perm _ _)) in Hj. apply filter_In in Hj. exact Hj.
      - intros Hj. apply (Permutation_in _ (Permutation_sym (stable_sort_perm _ _))). apply filter_In. exact Hj. }
    conj; auto.
    - intros i Hi. apply Hmem. apply in_or_app; auto.
    - intros i j Hi Hj Hk Hnj. apply S2; auto.
      assert (Hin : In j (taken ++ rest)) by (apply Hmem; auto).
      apply in_app_or in Hin. tauto.
  Qed.

  Lemma add_input_inputs i u st st' :
    add_input ffi true i u st = (st', Done tt) -> st_inputs st' = imap_insert (norm_utxo u) (st_inputs st).
  Proof.
    unfold add_input. intros H.
    destruct (ffi (st_inputs st) u) as [fee| | |]; cbn [of_result obind] in H; try discriminate H.
    destruct (u_ok u); [|discriminate H].
    destruct (value_checked_add (st_in st) (u_val u)); cbn [of_result obind] in H; try discriminate H.
    destruct (value_checked_add (st_out st) (value_new fee)); cbn [of_result obind] in H; try discriminate H.
    inversion H; subst. reflexivity.
  Qed.

  (* [uncovered_prefixes sel st taken]: no proper prefix of [taken] covers the target: for every k < |taken| the
     quantity held after adding the first k inputs is below the target including the fees of those k inputs *)
  Definition uncovered_prefixes (sel : selector) (st : sel_state) (taken : list nat) : Prop :=
    forall k, (k < length taken)%nat ->
      exists fk, marginal_fees ffi (st_inputs st) (added_of (firstn k taken)) = Ok fk /\
                 Q sel (st_in st) + sumQ sel (map u_val (added_of (firstn k taken))) < Q sel (st_out st) + coin_only sel fk.

  Lemma lf_loop_done sel todo : forall aidx st st' aidx',
    Inv st -> lf_loop ffi sel avail todo aidx st = (st', Done aidx') ->
    exists taken rest, todo = taken ++ rest /\ st_trace st' = st_trace st ++ taken /\ Inv st' /\
      (rest = [] \/ covered sel st' = Done true) /\ uncovered_prefixes sel st taken.
  Proof.
    induction todo as [|i todo IH]; intros aidx st st' aidx' I H; cbn [lf_loop] in H.
    - inversion H; subst. exists [], []. conj; auto; try (rewrite app_nil_r; reflexivity); try (intros k Hk; cbn in Hk; lia).
    - destruct (covered sel st) as [c| | | |] eqn:Ec; cbn [obind] in H; try discriminate H.
      destruct c.
      { inversion H; subst. exists [], (i :: todo). conj; auto; try (rewrite app_nil_r; reflexivity); try (intros k Hk; cbn in Hk; lia). }
      destruct (nth_error avail i) as [u|] eqn:Eu; [|discriminate H].
      destruct (add_input ffi true i u st) as [st1 r1] eqn:Ea. ob H. destruct a.
      destruct (position i aidx) as [p|]; [|discriminate H].
      destruct (swap_remove p aidx) as [[x aidx1]|]; [|discriminate H].
      destruct (add_input_ok _ _ _ _ I (Havail _ _ Eu) Ea) as [I1 [Ht [Qi [f [Ef Qo]]]]].
      destruct (IH _ _ _ _ I1 H) as [taken [rest [Hsplit [Htr [I' [Hstop Hmin]]]]]].
      exists (i :: taken), rest. conj; auto.
      + cbn. rewrite Hsplit. reflexivity.
      + rewrite Htr, Ht, <- app_assoc. reflexivity.
      + intros k Hk. destruct k as [|k].
        * exists 0. cbn [firstn added_utxos flat_map marginal_fees map]. split; [reflexivity|].
          apply covered_Q in Ec. symmetry in Ec. apply N.leb_gt in Ec.
          unfold sumQ. cbn [fold_right]. destruct sel; cbn [coin_only]; lia.
        * cbn [length] in Hk. assert (Hk' : (k < length taken)%nat) by lia.
          destruct (Hmin k Hk') as [fk [Hfk Hlt]].
          exists (f + fk). cbn [firstn]. change (i :: firstn k taken) with ([i] ++ firstn k taken).
          rewrite added_of_app, (added_of_one _ _ (Havail _ _ Eu)). cbn [app marginal_fees map].
          rewrite Ef. cbn [bind]. rewrite <- (add_input_inputs _ _ _ _ Ea). rewrite Hfk. cbn [bind].
          split; [reflexivity|].
          rewrite Qi, Qo in Hlt. unfold sumQ in *. cbn [fold_right]. destruct sel; cbn [coin_only] in *; lia.
  Qed.

  (* largest-first stops at the first prefix (in decreasing order of the quantity) that covers the target *)
  Theorem largest_first_minimal sel aidx st st' aidx' :
    Inv st -> lf_by ffi sel avail aidx st = (st', Done aidx') ->
    exists taken, st_trace st' = st_trace st ++ taken /\
      uncovered_prefixes sel st taken /\ Q sel (st_out st') <= Q sel (st_in st').
  Proof.
    intros I H. unfold lf_by in H.
    destruct (lf_loop ffi sel avail (rev (lf_relevant sel avail aidx)) aidx st) as [st1 r1] eqn:El.
    ob H. ob H. destruct a0; [|discriminate H]. inversion H; subst.
    destruct (lf_loop_done _ _ _ _ _ _ I El) as [taken [rest [_ [Htr [_ [_ Hmin]]]]]].
    exists taken. conj; auto. apply covered_Q in E0. symmetry in E0. apply N.leb_le in E0. exact E0.
  Qed.

  (* … and reports insufficiency only when every candidate has been added and the target (with all their fees)
     is still not reached *)
  Theorem largest_first_complete sel aidx st st' :
    Inv st -> lf_by ffi sel avail aidx st = (st', Insufficient) ->
    st_trace st' = st_trace st ++ rev (lf_relevant sel avail aidx) /\
    Inv st' /\ Q sel (st_in st') < Q sel (st_out st').
  Proof.
    intros I H. unfold lf_by in H.
    destruct (lf_loop ffi sel avail (rev (lf_relevant sel avail aidx)) aidx st) as [st1 r1] eqn:El.
    destruct r1 as [aidx1| | | |]; cbn [obind] in H.
    2: { (* the loop itself never reports insufficiency *)
      exfalso. clear H. revert El. generalize (rev (lf_relevant sel avail aidx)) as todo. intros todo. revert aidx st I.
      induction todo as [|i todo IH]; intros aidx st I El; cbn [lf_loop] in El; [discriminate El|].
      assert (Hcov : covered sel st <> Insufficient) by (unfold covered; destruct (by_val sel (st_out st)); discriminate).
      destruct (covered sel st) as [c| | | |]; cbn [obind] in El; try discriminate El; try (exfalso; apply Hcov; reflexivity).
      destruct c; [discriminate El|].
      destruct (nth_error avail i) as [u|] eqn:Eu; [|discriminate El].
      destruct (add_input ffi true i u st) as [st2 r2] eqn:Ea.
      destruct r2 as [[]| | | |]; cbn [obind] in El; try discriminate El.
      - destruct (position i aidx) as [p|]; [|discriminate El].
        destruct (swap_remove p aidx) as [[x aidx2]|]; [|discriminate El].
        destruct (add_input_ok _ _ _ _ I (Havail _ _ Eu) Ea) as [I1 _]. apply (IH _ _ I1 El).
      - unfold add_input in Ea.
        destruct (ffi (st_inputs st) u) as [fee| | |]; cbn [of_result obind] in Ea; try discriminate Ea.
        destruct (u_ok u); [|discriminate Ea].
        destruct (value_checked_add (st_in st) (u_val u)); cbn [of_result obind] in Ea; try discriminate Ea.
        destruct (value_checked_add (st_out st) (value_new fee)); cbn [of_result obind] in Ea; discriminate Ea. }
    2-4: discriminate H.
    assert (Hcov : covered sel st1 <> Insufficient) by (unfold covered; destruct (by_val sel (st_out st1)); discriminate).
    destruct (covered sel st1) as [c| | | |] eqn:Ec; cbn [obind] in H; try discriminate H; try (exfalso; apply Hcov; reflexivity).
    destruct c; [discriminate H|]. inversion H; subst st1; clear H.
    destruct (lf_loop_done _ _ _ _ _ _ I El) as [taken [rest [Hsplit [Htr [I' [Hstop _]]]]]].
    destruct Hstop as [->|Hc]; [|rewrite Hc in Ec; discriminate Ec].
    rewrite app_nil_r in Hsplit. subst taken. conj; auto.
    apply covered_Q in Ec. symmetry in Ec. apply N.leb_gt in Ec. exact Ec.
  Qed.

  (* ----------------------------------------------------------------------------------------- *)
  (* Completeness of the largest-first passes: every index is selectable or selected *)

  Definition Cover (aidx : list nat) (st : sel_state) : Prop :=
    forall i, (i < length avail)%nat -> In i aidx \/ In i (st_trace st).

  Lemma lf_loop_cover sel todo : forall aidx st st' aidx',
    Inv st -> Cover aidx st -> lf_loop ffi sel avail todo aidx st = (st', Done aidx') -> Cover aidx' st'.
  Proof.
    induction todo as [|i todo IH]; intros aidx st st' aidx' I C H; cbn [lf_loop] in H.
    - inversion H; subst. exact C.
    - ob H. destruct a; [inversion H; subst; exact C|].
      destruct (nth_error avail i) as [u|] eqn:Eu; [|discriminate H].
      destruct (add_input ffi true i u st) as [st1 r1] eqn:Ea. ob H. destruct a.
      destruct (position i aidx) as [p|] eqn:Ep; [|discriminate H].
      destruct (swap_remove p aidx) as [[x aidx1]|] eqn:Es; [|discriminate H].
      destruct (add_input_ok _ _ _ _ I (Havail _ _ Eu) Ea) as [I1 [Ht _]].
      destruct (swap_remove_perm _ _ _ _ Es) as [Hperm Hnth].
      rewrite (position_nth _ _ _ Ep) in Hnth. inversion Hnth; subst x.
      apply (IH aidx1 st1 st' aidx' I1); auto.
      intros j Hj. rewrite Ht. destruct (C j Hj) as [Hin|Hin].
      + apply (Permutation_in _ Hperm) in Hin. destruct Hin as [<-|Hin]; [right; apply in_or_app; right; left; reflexivity|left; exact Hin].
      + right. apply in_or_app. left. exact Hin.
  Qed.

  Lemma lf_by_cover sel aidx st st' aidx' :
    Inv st -> Cover aidx st -> lf_by ffi sel avail aidx st = (st', Done aidx') -> Cover aidx' st'.
  Proof.
    intros I C H. unfold lf_by in H.
    destruct (lf_loop ffi sel avail (rev (lf_relevant sel avail aidx)) aidx st) as [st1 r1] eqn:El.
    ob H. ob H. destruct a0; [|discriminate H]. inversion H; subst.
    eapply lf_loop_cover; eauto.
  Qed.

  (* a pass that reports insufficiency has added every UTxO holding the quantity *)
  Lemma lf_by_insufficient sel aidx st st' :
    Inv st -> Bk aidx st -> Cover aidx st -> lf_by ffi sel avail aidx st = (st', Insufficient) ->
    Inv st' /\ NoDup (st_trace st') /\
    (forall i, (i < length avail)%nat -> has_key sel avail i = true -> In i (st_trace st')) /\
    Q sel (st_in st') < Q sel (st_out st').
  Proof.
    intros I B C H. destruct (largest_first_complete _ _ _ _ I H) as [Htr [I' Hlt]].
    destruct (lf_relevant_nodup sel aidx (bk_nd _ _ B)) as [Hn Hi].
    conj; auto.
    - rewrite Htr. apply NoDup_app_intro; auto; [apply B|].
      intros x Hx Hr. apply (bk_disj _ _ B x); auto.
    - intros i Hi' Hk. rewrite Htr. apply in_or_app. destruct (C i Hi') as [Hin|Hin]; [right|left; exact Hin].
      apply -> in_rev. unfold lf_relevant.
      apply (Permutation_in _ (Permutation_sym (stable_sort_perm _ _))). apply filter_In. auto.
  Qed.

  Lemma lf_multi_insufficient sels : forall aidx st st',
    Inv st -> Bk aidx st -> Cover aidx st -> lf_multi ffi sels avail aidx st = (st', Insufficient) ->
    exists sel, In sel sels /\ Inv st' /\ NoDup (st_trace st') /\
      (forall i, (i < length avail)%nat -> has_key sel avail i = true -> In i (st_trace st')) /\
      Q sel (st_in st') < Q sel (st_out st').
  Proof.
    induction sels as [|s sels IH]; intros aidx st st' I B C H; cbn [lf_multi] in H; [discriminate H|].
    destruct (lf_by ffi s avail aidx st) as [st1 r1] eqn:E1.
    destruct r1 as [aidx1| | | |]; cbn [obind] in H; try discriminate H.
    - destruct (lf_by_ok _ _ _ _ _ I B E1) as [I1 [B1 _]].
      pose proof (lf_by_cover _ _ _ _ _ I C E1) as C1.
      destruct (IH _ _ _ I1 B1 C1 H) as [sel [Hin R]]. exists sel. split; [right; exact Hin|exact R].
    - inversion H; subst st1. exists s. split; [left; reflexivity|]. apply (lf_by_insufficient _ _ _ _ I B C E1).
  Qed.
End Proofs.
