(* C08 — proofs about the model of add_inputs_from (CoinSel.v) against the specification (CoinSelSpec.v).
   Inventory (details in notes/design/C08.md):
     add_input_ok, Inv                    accounting invariant: input map, input_total, output_total follow the trace
     lf_loop_ok / lf_by_ok / lf_multi_ok  largest-first: bookkeeping + invariant
     lf_prefix, lf_minimal_loop, …        largest-first order / minimality / completeness
     p1_*, p2_*, ri_final_ok, ri_by_ok    random-improve phases 1-2 and the final insertion loop
     phase3_ok                            fee top-up
     sound_current                        C08_sound for the code as it is now *)
From CSL Require Import Base.Prelude Num.Value Num.ValueProofs CoinSel.CoinSel CoinSel.CoinSelSpec CoinSel.CoinSelLemmas.
From Coq Require Import Permutation Sorting.Sorted.
Local Open Scope N_scope.

Ltac ob H :=
  match type of H with
  | obind _ ?r _ = _ => let E := fresh "E" in destruct r eqn:E; cbn [obind] in H; try discriminate H
  | ob ?r _ = _ => let E := fresh "E" in destruct r eqn:E; cbn [ob] in H; try discriminate H
  end.

Ltac conj := repeat match goal with |- _ /\ _ => split end.

Lemma vadd_new a f c : value_wf a -> value_checked_add a (value_new f) = Ok c ->
  (forall sel, Q sel c = Q sel a + coin_only sel f) /\ value_wf c.
Proof.
  intros Wa E.
  assert (Hf : f < two64).
  { unfold value_checked_add in E. cbn [coin value_new] in E. unfold u64_add in E.
    destruct (coin a + f <? two64) eqn:L; cbn [bind] in E; [|discriminate]. apply N.ltb_lt in L. lia. }
  destruct (vadd_Q _ _ _ Wa (value_new_wf f Hf) E) as [Qc Wc]. split; [|exact Wc].
  intros sel. rewrite Qc. rewrite Q_value_new. reflexivity.
Qed.

Lemma NoDup_app_intro {A} (l1 l2 : list A) :
  NoDup l1 -> NoDup l2 -> (forall x, In x l1 -> ~ In x l2) -> NoDup (l1 ++ l2).
Proof.
  induction l1 as [|x l1 IH]; cbn; intros H1 H2 H; auto.
  inversion H1; subst. constructor.
  - intro Hin. apply in_app_or in Hin. destruct Hin; [tauto|]. apply (H x); auto.
  - apply IH; auto.
Qed.

Lemma NoDup_app_l {A} (l1 l2 : list A) : NoDup (l1 ++ l2) -> NoDup l1.
Proof. induction l1; cbn; intros H; [constructor|]. inversion H; subst. constructor; auto. intro; apply H2; apply in_or_app; auto. Qed.
Lemma NoDup_app_r {A} (l1 l2 : list A) : NoDup (l1 ++ l2) -> NoDup l2.
Proof. induction l1; cbn; intros H; auto. inversion H; auto. Qed.
Lemma NoDup_app_disj {A} (l1 l2 : list A) x : NoDup (l1 ++ l2) -> In x l1 -> ~ In x l2.
Proof.
  induction l1; cbn; intros H; [tauto|]. inversion H as [|? ? Hn Hr]; subst. intros [->|Hx] Hy; [apply Hn; apply in_or_app; auto|].
  apply (IHl1 Hr Hx Hy).
Qed.

Section Proofs.
  Variable min_fee : imap -> result N.
  Variable ffi : imap -> utxo -> result N.
  Variable offered : list utxo.
  Hypothesis Woff : Forall (fun u => value_wf (u_val u)) offered.
  (* the figures before selection *)
  Variable m0 : imap.
  Variable it0 ot0 : value.

  Notation added_of := (added_utxos offered).

  Lemma added_of_app tr1 tr2 : added_of (tr1 ++ tr2) = added_of tr1 ++ added_of tr2.
  Proof. unfold added_utxos. apply flat_map_app. Qed.

  Lemma added_of_one i u : nth_error offered i = Some u -> added_of [i] = [u].
  Proof. intros H. unfold added_utxos. cbn. rewrite H. reflexivity. Qed.

  Lemma marginal_fees_snoc l : forall m fs u f,
    marginal_fees ffi m l = Ok fs -> ffi (insert_all l m) u = Ok f ->
    marginal_fees ffi m (l ++ [u]) = Ok (fs + f).
  Proof.
    induction l as [|x l IH]; intros m fs u f; cbn [marginal_fees app insert_all fold_left].
    - intros H1 H2. inversion H1; subst. rewrite H2. cbn [bind]. f_equal. lia.
    - destruct (ffi m x) as [fx| | |]; cbn [bind]; try discriminate.
      destruct (marginal_fees ffi (imap_insert x m) l) as [fl| | |] eqn:El; cbn [bind]; try discriminate.
      intros H1 H2. inversion H1; subst. rewrite (IH _ _ _ _ El H2). cbn [bind]. f_equal. lia.
  Qed.

  (* the accounting invariant: everything is a function of the trace *)
  Record Inv (st : sel_state) : Prop := {
    inv_inputs : st_inputs st = insert_all (added_of (st_trace st)) m0;
    inv_out : exists fees, marginal_fees ffi m0 (added_of (st_trace st)) = Ok fees /\
                           forall sel, Q sel (st_out st) = Q sel ot0 + coin_only sel fees;
    inv_in : forall sel, Q sel (st_in st) = Q sel it0 + sumQ sel (map u_val (added_of (st_trace st)));
    inv_wf_in : value_wf (st_in st);
    inv_wf_out : value_wf (st_out st);
    inv_idx : Forall (fun i => nth_error offered i <> None) (st_trace st)
  }.

  Lemma offered_wf i u : nth_error offered i = Some u -> value_wf (u_val u).
  Proof. intros H. apply nth_error_In in H. rewrite Forall_forall in Woff. apply (Woff _ H). Qed.

  Lemma add_input_ok i u st st' :
    Inv st -> nth_error offered i = Some u ->
    add_input ffi true i u st = (st', Done tt) ->
    Inv st' /\ st_trace st' = st_trace st ++ [i] /\
    (forall sel, Q sel (st_in st') = Q sel (st_in st) + Q sel (u_val u)) /\
    (exists f, ffi (st_inputs st) u = Ok f /\ forall sel, Q sel (st_out st') = Q sel (st_out st) + coin_only sel f).
  Proof.
    intros I Hi H. unfold add_input in H.
    destruct (ffi (st_inputs st) u) as [fee| | |] eqn:Ef; cbn [of_result obind] in H; try discriminate H.
    destruct (u_ok u); [|discriminate H].
    destruct (value_checked_add (st_in st) (u_val u)) as [it| | |] eqn:Ein; cbn [of_result obind] in H; try discriminate H.
    cbn [st_inputs st_in st_out st_trace] in H.
    destruct (value_checked_add (st_out st) (value_new fee)) as [ot| | |] eqn:Eout; cbn [of_result obind] in H; try discriminate H.
    inversion H; subst st'; clear H.
    destruct I as [Iin [fees [Ifee Iout]] Iq Iwi Iwo Iidx].
    destruct (vadd_Q _ _ _ Iwi (offered_wf _ _ Hi) Ein) as [Qit Wit].
    destruct (vadd_new _ _ _ Iwo Eout) as [Qot Wot].
    split; [|split; [reflexivity|split; [exact Qit|exists fee; split; [reflexivity|exact Qot]]]].
    constructor; cbn [st_inputs st_in st_out st_trace].
    - rewrite added_of_app, (added_of_one _ _ Hi), insert_all_app, <- Iin. reflexivity.
    - exists (fees + fee). split.
      + rewrite added_of_app, (added_of_one _ _ Hi). apply marginal_fees_snoc; auto. rewrite <- Iin. exact Ef.
      + intros sel. rewrite Qot, Iout. destruct sel; cbn [coin_only]; lia.
    - intros sel. rewrite Qit, Iq. rewrite added_of_app, (added_of_one _ _ Hi), map_app, sumQ_app.
      unfold sumQ at 3. cbn [map fold_right]. lia.
    - exact Wit.
    - exact Wot.
    - apply Forall_app. split; auto. constructor; auto. congruence.
  Qed.

  (* any outcome: the trace only grows, by at most the index *)
  Lemma add_input_trace i u st st' r b :
    add_input ffi b i u st = (st', r) -> st_trace st' = st_trace st \/ st_trace st' = st_trace st ++ [i].
  Proof.
    unfold add_input. intros H.
    destruct (if b then of_result (ffi (st_inputs st) u) else Done 0) as [fee| | | |]; cbn [obind] in H;
      try (inversion H; subst; auto; fail).
    destruct (u_ok u); [|inversion H; subst; auto].
    destruct (value_checked_add (st_in st) (u_val u)) as [it| | |]; cbn [of_result obind] in H;
      try (inversion H; subst; cbn; auto; fail).
    destruct b.
    - destruct (value_checked_add (st_out st) (value_new fee)) as [ot| | |]; cbn [of_result obind] in H;
        inversion H; subst; cbn; auto.
    - inversion H; subst; cbn; auto.
  Qed.

  (* ----------------------------------------------------------------------------------------- *)
  Variable avail : list utxo.
  Hypothesis Havail : forall i u, nth_error avail i = Some u -> nth_error offered i = Some u.

  (* index bookkeeping between the phases: the selectable indices are distinct, in range, and none was added *)
  Record Bk (aidx : list nat) (st : sel_state) : Prop := {
    bk_nd : NoDup aidx;
    bk_tr : NoDup (st_trace st);
    bk_disj : forall i, In i aidx -> ~ In i (st_trace st)
  }.

  Lemma covered_Q sel st c : covered sel st = Done c ->
    c = (Q sel (st_out st) <=? Q sel (st_in st)).
  Proof.
    unfold covered. destruct (by_val sel (st_out st)) as [need|] eqn:E; [|discriminate].
    intros H; inversion H; subst. rewrite by_or_zero_Q. rewrite (by_val_Q _ _ _ E). reflexivity.
  Qed.

  (* ----------------------------------------------------------------------------------------- *)
  (* cip2_largest_first_by *)

  Lemma lf_loop_ok sel todo : forall aidx st st' aidx',
    Inv st -> Bk aidx st -> NoDup todo -> incl todo aidx ->
    lf_loop ffi sel avail todo aidx st = (st', Done aidx') ->
    Inv st' /\ Bk aidx' st' /\ incl aidx' aidx /\
    (forall s, Q s (st_in st) <= Q s (st_in st')) /\
    (forall p n, Q (ByAsset p n) (st_out st') = Q (ByAsset p n) (st_out st)).
  Proof.
    induction todo as [|i todo IH]; intros aidx st st' aidx' I B Hnd Hincl H; cbn [lf_loop] in H.
    - inversion H; subst. assert (forall s, Q s (st_in st') <= Q s (st_in st')) by (intros; lia).
      conj; auto using incl_refl.
    - ob H. destruct a.
      + inversion H; subst. assert (forall s, Q s (st_in st') <= Q s (st_in st')) by (intros; lia).
        conj; auto using incl_refl.
      + destruct (nth_error avail i) as [u|] eqn:Eu; [|discriminate H].
        destruct (add_input ffi true i u st) as [st1 r1] eqn:Ea. ob H. destruct a.
        destruct (position i aidx) as [p|] eqn:Ep; [|discriminate H].
        destruct (swap_remove p aidx) as [[x aidx1]|] eqn:Es; [|discriminate H].
        destruct (add_input_ok _ _ _ _ I (Havail _ _ Eu) Ea) as [I1 [Ht [Qi [f [_ Qo]]]]].
        destruct (swap_remove_perm _ _ _ _ Es) as [Hperm Hnth].
        rewrite (position_nth _ _ _ Ep) in Hnth. inversion Hnth; subst x.
        inversion Hnd; subst.
        assert (B1 : Bk aidx1 st1).
        { destruct B as [Bnd Btr Bdis]. constructor.
          - pose proof (Permutation_NoDup Hperm Bnd) as Hn. inversion Hn; auto.
          - rewrite Ht. apply NoDup_app_intro; auto; [repeat constructor; intros []|].
            intros y Hy [<-|[]]. apply (Bdis i); auto. apply Hincl. left; reflexivity.
          - intros y Hy. rewrite Ht. intro Hin. apply in_app_or in Hin. destruct Hin as [Hin|[<-|[]]].
            + apply (Bdis y); auto. apply (Permutation_in _ (Permutation_sym Hperm)). right; exact Hy.
            + pose proof (Permutation_NoDup Hperm Bnd) as Hn. inversion Hn; auto. }
        assert (Hincl1 : incl todo aidx1).
        { intros y Hy. assert (In y (i :: aidx1)) as [<-|]; auto; [|tauto].
          apply (Permutation_in _ Hperm). apply Hincl. right; exact Hy. }
        destruct (IH _ _ _ _ I1 B1 H3 Hincl1 H) as [I' [B' [Hi' [Hm Ho]]]].
        conj; auto.
        * intros y Hy. apply (Permutation_in _ (Permutation_sym Hperm)). right. apply Hi'. exact Hy.
        * intros s. specialize (Hm s). rewrite Qi in Hm. lia.
        * intros p0 n0. rewrite Ho, Qo. cbn [coin_only]. lia.
  Qed.

  Lemma lf_relevant_nodup sel aidx : NoDup aidx -> NoDup (rev (lf_relevant sel avail aidx)) /\ incl (rev (lf_relevant sel avail aidx)) aidx.
  Proof.
    intros H. unfold lf_relevant.
    assert (P : Permutation (rev (stable_sort (key_of sel avail) (filter (has_key sel avail) aidx))) (filter (has_key sel avail) aidx)).
    { apply Permutation_trans with (stable_sort (key_of sel avail) (filter (has_key sel avail) aidx)).
      - apply Permutation_sym, Permutation_rev.
      - apply stable_sort_perm. }
    split.
    - apply (Permutation_NoDup (Permutation_sym P)). apply NoDup_filter. exact H.
    - intros x Hx. apply (Permutation_in _ P) in Hx. apply filter_In in Hx. tauto.
  Qed.

  Lemma lf_by_ok sel aidx st st' aidx' :
    Inv st -> Bk aidx st -> lf_by ffi sel avail aidx st = (st', Done aidx') ->
    Inv st' /\ Bk aidx' st' /\ incl aidx' aidx /\
    (forall s, Q s (st_in st) <= Q s (st_in st')) /\
    (forall p n, Q (ByAsset p n) (st_out st') = Q (ByAsset p n) (st_out st)) /\
    Q sel (st_out st') <= Q sel (st_in st').
  Proof.
    intros I B H. unfold lf_by in H.
    destruct (lf_loop ffi sel avail (rev (lf_relevant sel avail aidx)) aidx st) as [st1 r1] eqn:El.
    ob H. ob H. destruct a0; [|discriminate H]. inversion H; subst.
    destruct (lf_relevant_nodup sel aidx (bk_nd _ _ B)) as [Hn Hi].
    destruct (lf_loop_ok _ _ _ _ _ _ I B Hn Hi El) as [I' [B' [Hi' [Hm Ho]]]].
    conj; auto.
    apply covered_Q in E0. symmetry in E0. apply N.leb_le in E0. exact E0.
  Qed.

  Lemma lf_multi_ok sels : forall aidx st st' aidx',
    Inv st -> Bk aidx st -> lf_multi ffi sels avail aidx st = (st', Done aidx') ->
    Inv st' /\ Bk aidx' st' /\ incl aidx' aidx /\
    (forall s, Q s (st_in st) <= Q s (st_in st')) /\
    (forall p n, Q (ByAsset p n) (st_out st') = Q (ByAsset p n) (st_out st)) /\
    (forall p n, In (ByAsset p n) sels -> Q (ByAsset p n) (st_out st') <= Q (ByAsset p n) (st_in st')).
  Proof.
    induction sels as [|s sels IH]; intros aidx st st' aidx' I B H; cbn [lf_multi] in H.
    - inversion H; subst. assert (forall s, Q s (st_in st') <= Q s (st_in st')) by (intros; lia).
      conj; auto using incl_refl. intros p n [].
    - destruct (lf_by ffi s avail aidx st) as [st1 r1] eqn:E1. ob H.
      destruct (lf_by_ok _ _ _ _ _ I B E1) as [I1 [B1 [Hi1 [Hm1 [Ho1 Hc1]]]]].
      destruct (IH _ _ _ _ I1 B1 H) as [I' [B' [Hi' [Hm' [Ho' Hc']]]]].
      conj; auto.
      + eapply incl_tran; eauto.
      + intros s0. specialize (Hm1 s0). specialize (Hm' s0). lia.
      + intros p n. rewrite Ho', Ho1. reflexivity.
      + intros p n [->|Hin]; [|apply Hc'; exact Hin].
        rewrite Ho'. specialize (Hm' (ByAsset p n)). lia.
  Qed.
End Proofs.
