(* C08 — witnesses: the three defects of the code before its repairs (each refutes soundness of the corresponding
   legacy variant of the model), the known class C08-burn-not-covered of the current code, and non-vacuity examples
   for the premises of the theorems.  Every witness was replayed on the real code (corpus/C08/w-*.case). *)
From CSL Require Import Base.Prelude Num.Value CoinSel.CoinSel CoinSel.CoinSelSpec CoinSel.CoinSelLemmas CoinSel.CoinSelProofs
  CoinSel.CoinSelSound.
Local Open Scope N_scope.

Lemma nodup_b_sound l : nodup_b l = true -> NoDup l.
Proof.
  induction l as [|x l IH]; cbn [nodup_b]; intros H; [constructor|].
  apply Bool.andb_true_iff in H. destruct H as [H1 H2]. constructor; auto.
  intro Hin. apply Bool.negb_true_iff in H1.
  assert (existsb (N.eqb x) l = true) by (apply existsb_exists; exists x; split; auto; apply N.eqb_refl).
  congruence.
Qed.

Lemma scenario_wfb_sound offered sc : scenario_wfb offered sc = true -> scenario_wf offered sc.
Proof.
  unfold scenario_wfb, scenario_wf. intros H.
  repeat (apply Bool.andb_true_iff in H; destruct H as [H ?]).
  repeat split; auto; apply Forall_forall; intros x Hx;
    match goal with Hf : forallb _ ?l = true, Hi : In _ ?l |- _ => rewrite forallb_forall in Hf; apply (Hf _ Hi) end.
Qed.

Lemma premises_sound offered sc : premises_b offered sc = true -> scenario_wf offered sc /\ pre_distinct sc.
Proof.
  unfold premises_b. intros H. apply Bool.andb_true_iff in H. destruct H as [H1 H2].
  split; [apply scenario_wfb_sound; exact H2|apply nodup_b_sound; exact H1].
Qed.

Definition ada (c : N) : value := mkValue c None.
Definition zero_fee : imap -> result N := fun _ => Ok 0.
Definition zero_ffi : imap -> utxo -> result N := fun _ _ => Ok 0.

(* ------------------------------------------------------------------------------------------- *)
(* Row 10: phase 2 bookkeeping inverted (tx_builder.rs before b244700).  One output of 1 ADA, a deposit of 1.5 ADA,
   UTxOs of 1, 2 and 5 ADA, script [0; 1; 0]: phase 1 takes the 1-ADA UTxO, phase 2 swaps in the 2-ADA one and leaves
   it selectable, phase 3 draws it again. *)
Definition w10_offered : list utxo := [mkUtxo 1 (ada 1000000) true; mkUtxo 2 (ada 2000000) true; mkUtxo 3 (ada 5000000) true].
Definition w10_sc : scenario :=
  mkScenario [] (ada 0) (ada 0) [mkOut 0 (ada 1000000)] 1500000 (ada 0) None.

Theorem swap_bookkeeping_refuted :
  exists min_fee ffi cs offered sc st',
    scenario_wf offered sc /\ pre_distinct sc /\
    add_inputs_from min_fee ffi (mkVariant false true true true true true) RandomImprove cs offered sc = (st', Done tt) /\
    ~ sound_result min_fee ffi false offered offered sc st'.
Proof.
  exists zero_fee, zero_ffi, [0; 1; 0], w10_offered, w10_sc.
  eexists. split; [|split; [|split]].
  - apply scenario_wfb_sound. reflexivity.
  - apply nodup_b_sound. reflexivity.
  - vm_compute. reflexivity.
  - intros [[Hnd _] _]. vm_compute in Hnd. inversion Hnd as [|? ? Hn _]; subst. apply Hn. left. reflexivity.
Qed.

(* the same input on the repaired code: two distinct inputs, sound *)
Example swap_witness_now_sound :
  exists st', add_inputs_from zero_fee zero_ffi current RandomImprove [0; 1; 0] w10_offered w10_sc = (st', Done tt) /\
              st_trace st' = [1%nat; 0%nat].
Proof. eexists. split; vm_compute; reflexivity. Qed.

(* ------------------------------------------------------------------------------------------- *)
(* Row 23: identical outputs share one associated entry, added once per duplicate (before 2a9f309) *)
Definition w23_offered : list utxo :=
  map (fun i => mkUtxo i (ada 520000) true) [1; 2; 3; 4; 5; 6; 7; 8].
Definition w23_sc : scenario :=
  mkScenario [] (ada 0) (ada 0) [mkOut 0 (ada 1000000); mkOut 0 (ada 1000000)] 0 (ada 0) None.

Theorem duplicate_outputs_refuted :
  exists min_fee ffi cs offered sc st',
    scenario_wf offered sc /\ pre_distinct sc /\
    add_inputs_from min_fee ffi (mkVariant true false true true true true) RandomImprove cs offered sc = (st', Done tt) /\
    ~ sound_result min_fee ffi false offered offered sc st'.
Proof.
  exists zero_fee, zero_ffi, [], w23_offered, w23_sc.
  eexists. split; [|split; [|split]].
  - apply scenario_wfb_sound. reflexivity.
  - apply nodup_b_sound. reflexivity.
  - vm_compute. reflexivity.
  - intros [[Hnd _] _]. vm_compute in Hnd.
    repeat match goal with H : NoDup (_ :: _) |- _ => inversion H; clear H; subst end.
    match goal with H : ~ In _ _ |- _ => apply H; cbn; tauto end.
Qed.

(* ------------------------------------------------------------------------------------------- *)
(* Pre-step: the input taken "to have at least one" was not charged its fee (before d550071) *)
Definition wps_fee : imap -> result N := fun m => Ok (164313 + 6028 * N.of_nat (length m)).
Definition wps_ffi : imap -> utxo -> result N := fun _ _ => Ok 6028.
Definition wps_offered : list utxo := [mkUtxo 5 (ada 1000) true].
Definition wps_sc : scenario :=
  mkScenario [] (ada 1164313) (ada 0) [mkOut 0 (ada 1000000)] 0 (ada 0) None.

Theorem prestep_fee_refuted :
  exists min_fee ffi cs offered sc st',
    scenario_wf offered sc /\ pre_distinct sc /\
    add_inputs_from min_fee ffi (mkVariant true true false true true true) LargestFirst cs offered sc = (st', Done tt) /\
    ~ sound_result min_fee ffi false offered offered sc st'.
Proof.
  exists wps_fee, wps_ffi, [], wps_offered, wps_sc.
  eexists. split; [|split; [|split]].
  - apply scenario_wfb_sound. reflexivity.
  - apply nodup_b_sound. reflexivity.
  - vm_compute. reflexivity.
  - intros [_ [_ [fee [Hf [Hc _]]]]]. vm_compute in Hf. inversion Hf; subst fee.
    unfold covers_coin, covers_q in Hc. vm_compute in Hc. apply Hc. reflexivity.
Qed.

Example prestep_witness_now_insufficient :
  exists st', add_inputs_from wps_fee wps_ffi current LargestFirst [] wps_offered wps_sc = (st', Insufficient).
Proof. eexists. vm_compute. reflexivity. Qed.

(* ------------------------------------------------------------------------------------------- *)
(* C08-burn-not-covered (before /repo ab61362): an asset that is burnt is part of the target (get_total_output) but
   only LargestFirstMultiAsset selected inputs for it and checked it *)
Definition wb_policy : bytes := [1].
Definition wb_name : bytes := [2].
Definition wb_offered : list utxo := [mkUtxo 1 (ada 5000000) true].
Definition wb_sc : scenario :=
  mkScenario [] (ada 0) (ada 0) [mkOut 0 (ada 1000000)] 0 (mkValue 0 (Some [(wb_policy, [(wb_name, 5)])])) None.
Definition without_guard : variant := mkVariant true true true true true false.

Theorem burn_not_covered_refuted : forall strat, strat <> LargestFirstMultiAsset ->
  exists st', scenario_wf wb_offered wb_sc /\ pre_distinct wb_sc /\
    add_inputs_from zero_fee zero_ffi without_guard strat [] wb_offered wb_sc = (st', Done tt) /\
    ~ covers_assets wb_sc (st_inputs st').
Proof.
  intros strat Hs.
  assert (W : scenario_wf wb_offered wb_sc /\ pre_distinct wb_sc) by (apply premises_sound; reflexivity).
  destruct W as [W1 W2].
  destruct strat; try (exfalso; apply Hs; reflexivity); eexists; (split; [exact W1|split; [exact W2|split; [vm_compute; reflexivity|]]]);
    intros Hc; specialize (Hc wb_policy wb_name); unfold covers_q in Hc; vm_compute in Hc; apply Hc; reflexivity.
Qed.

(* the code as it is reports insufficiency on the same scenario, for every strategy *)
Example burn_now_insufficient : forall strat,
  exists st', add_inputs_from zero_fee zero_ffi current strat [] wb_offered wb_sc = (st', Insufficient).
Proof. intros []; eexists; vm_compute; reflexivity. Qed.

(* ------------------------------------------------------------------------------------------- *)
(* Offered UTxO that is already an input of the builder (before /repo 0efa6ad): selected again, the map keeps it
   once, its amount is counted twice *)
Definition wo_offered : list utxo := [mkUtxo 5 (ada 3000000) true; mkUtxo 6 (ada 1000000) true].
Definition wo_sc : scenario :=
  mkScenario [mkUtxo 5 (ada 3000000) true] (ada 0) (ada 0) [mkOut 0 (ada 4000000)] 0 (ada 0) None.
Definition without_skip : variant := mkVariant true true true true false true.

Theorem offered_overlap_refuted :
  exists min_fee ffi cs offered sc st',
    scenario_wf offered sc /\ pre_distinct sc /\
    add_inputs_from min_fee ffi without_skip LargestFirst cs offered sc = (st', Done tt) /\
    ~ sound_result min_fee ffi false offered offered sc st'.
Proof.
  exists zero_fee, zero_ffi, [], wo_offered, wo_sc.
  assert (W : scenario_wf wo_offered wo_sc /\ pre_distinct wo_sc) by (apply premises_sound; reflexivity).
  destruct W as [W1 W2]. eexists. split; [exact W1|split; [exact W2|split; [vm_compute; reflexivity|]]].
  intros [_ [_ [fee [Hf [Hc _]]]]]. vm_compute in Hf. inversion Hf; subst fee.
  unfold covers_coin, covers_q in Hc. vm_compute in Hc. apply Hc. reflexivity.
Qed.

Example overlap_now_sound :
  exists st', add_inputs_from zero_fee zero_ffi current LargestFirst [] wo_offered wo_sc = (st', Done tt) /\
              imap_ids (st_inputs st') = [5; 6].
Proof. eexists. split; vm_compute; reflexivity. Qed.

(* ------------------------------------------------------------------------------------------- *)
(* 2 * min, 3 * min in u64 (before /repo 844a848): an output of 2^63 lovelace panics in the profile with overflow
   checks (and wraps in release: witness corpus/C08/w-improve-overflow.case) *)
Definition wv_offered : list utxo :=
  [mkUtxo 1 (ada 9223372036855775808) true; mkUtxo 2 (ada 9300000000000000000) true; mkUtxo 3 (ada 5000000) true].
Definition wv_sc : scenario :=
  mkScenario [] (ada 0) (ada 0) [mkOut 0 (ada 9223372036854775808)] 0 (ada 0) None.
Definition without_exact : variant := mkVariant true true true false true true.

Theorem improve_overflow_refuted :
  exists st st',
    add_inputs_from zero_fee zero_ffi without_exact RandomImprove [0; 0; 0] wv_offered wv_sc = (st, Panicked) /\
    add_inputs_from zero_fee zero_ffi current RandomImprove [0; 0; 0] wv_offered wv_sc = (st', Done tt) /\
    imap_ids (st_inputs st') = [1].
Proof. eexists. eexists. split; [vm_compute; reflexivity|split; vm_compute; reflexivity]. Qed.

(* ------------------------------------------------------------------------------------------- *)
(* fee_for_input with a zero fee placeholder (before /repo d980bbe) under set_min_fee: the increments are differences
   of estimates raised to the requested fee, priced with a 5-byte fee field, while min_fee() prices a 9-byte field *)
Definition wf_raw : N -> imap -> result N :=
  fun field m => Ok (163000 + 44 * (if field <? two32 then 5 else 9) + 6028 * N.of_nat (length m)).
Definition wf_req : fee_request := NotLess 164000.
Definition wf_offered : list utxo := [mkUtxo 5 (ada 1169300) true].
Definition wf_sc : scenario := mkScenario [] (ada 0) (ada 0) [mkOut 0 (ada 1000000)] 0 (ada 0) None.

Theorem fee_placeholder_refuted :
  exists raw req cs offered sc st',
    scenario_wf offered sc /\ pre_distinct sc /\
    add_inputs_from (min_fee_of raw req) (fee_for_input_of raw req 0) current LargestFirst cs offered sc = (st', Done tt) /\
    forall fee, min_fee_of raw req (st_inputs st') = Ok fee -> ~ covers_coin sc (st_inputs st') fee.
Proof.
  exists wf_raw, wf_req, [], wf_offered, wf_sc.
  assert (W : scenario_wf wf_offered wf_sc /\ pre_distinct wf_sc) by (apply premises_sound; reflexivity).
  destruct W as [W1 W2]. eexists. split; [exact W1|split; [exact W2|split; [vm_compute; reflexivity|]]].
  intros fee Hf. vm_compute in Hf. inversion Hf; subst fee.
  unfold covers_coin, covers_q. vm_compute. intros Hc. apply Hc. reflexivity.
Qed.

Example fee_placeholder_now_insufficient :
  exists st', add_inputs_from (min_fee_of wf_raw wf_req) (fee_for_input_of wf_raw wf_req two32) current LargestFirst []
                wf_offered wf_sc = (st', Insufficient).
Proof. eexists. vm_compute. reflexivity. Qed.

(* ------------------------------------------------------------------------------------------- *)
(* Non-vacuity of the premises *)

(* sound_current: a multi-asset random-improve run with a present input that is also offered, an outpoint offered
   twice, two identical outputs, 5 draws *)
Definition ex_policy : bytes := [7; 7].
Definition ex_tok (q : N) : option multiasset := Some [(ex_policy, [([65], q)])].
Definition ex_offered : list utxo :=
  [mkUtxo 10 (mkValue 2000000 (ex_tok 30)) true; mkUtxo 3 (ada 700000) true; mkUtxo 11 (ada 3000000) true;
   mkUtxo 12 (mkValue 1500000 (ex_tok 50)) true; mkUtxo 10 (mkValue 2000000 (ex_tok 30)) true;
   mkUtxo 13 (ada 900000) true; mkUtxo 14 (mkValue 1200000 (ex_tok 5)) true].
Definition ex_sc : scenario :=
  mkScenario [mkUtxo 3 (ada 700000) true] (ada 0) (ada 0)
             [mkOut 0 (mkValue 1000000 (ex_tok 40)); mkOut 0 (mkValue 1000000 (ex_tok 40)); mkOut 2 (ada 3000000)]
             0 (ada 0) None.
Definition ex_fee : imap -> result N := fun m => Ok (170000 + 6000 * N.of_nat (length m)).
Definition ex_ffi : imap -> utxo -> result N := fun _ _ => Ok 6000.

Example sound_current_premises :
  exists st', scenario_wf ex_offered ex_sc /\ pre_distinct ex_sc /\
    add_inputs_from ex_fee ex_ffi current RandomImproveMultiAsset [1; 0; 2; 0; 1] ex_offered ex_sc = (st', Done tt) /\
    (3 <= length (st_trace st'))%nat /\ length (effective_offered current ex_offered ex_sc) = 5%nat.
Proof.
  assert (W : scenario_wf ex_offered ex_sc /\ pre_distinct ex_sc) by (apply premises_sound; reflexivity).
  destruct W as [W1 W2]. eexists. split; [exact W1|split; [exact W2|split; [vm_compute; reflexivity|split; [|reflexivity]]]].
  vm_compute. repeat constructor.
Qed.

(* largest-first theorems: more lovelace needed than held, success with two inputs; and an insufficient run *)
Definition exl_offered : list utxo := [mkUtxo 1 (ada 900000) true; mkUtxo 2 (ada 2500000) true; mkUtxo 3 (ada 1400000) true].
Definition exl_sc (out : N) : scenario := mkScenario [] (ada 0) (ada 0) [mkOut 0 (ada out)] 0 (ada 0) None.

Example largest_first_premises :
  exists st0 st',
    scenario_wf exl_offered (exl_sc 3000000) /\ pre_distinct (exl_sc 3000000) /\
    initial_state ex_fee (exl_sc 3000000) = (st0, Done tt) /\ coin (st_in st0) < coin (st_out st0) /\
    add_inputs_from ex_fee ex_ffi current LargestFirst [] exl_offered (exl_sc 3000000) = (st', Done tt) /\
    st_trace st' = [1%nat; 2%nat].
Proof.
  assert (W : scenario_wf exl_offered (exl_sc 3000000) /\ pre_distinct (exl_sc 3000000)) by (apply premises_sound; reflexivity).
  destruct W as [W1 W2]. eexists. eexists.
  split; [exact W1|split; [exact W2|split; [vm_compute; reflexivity|split; [vm_compute; reflexivity|split; vm_compute; reflexivity]]]].
Qed.

Example largest_first_insufficient_premises :
  exists st0 st',
    initial_state ex_fee (exl_sc 9000000) = (st0, Done tt) /\ coin (st_in st0) < coin (st_out st0) /\
    add_inputs_from ex_fee ex_ffi current LargestFirst [] exl_offered (exl_sc 9000000) = (st', Insufficient) /\
    st_trace st' = [1%nat; 2%nat; 0%nat] /\ asset_guard st' = true.
Proof. eexists. eexists. split; [vm_compute; reflexivity|split; [vm_compute; reflexivity|split; [|split]; vm_compute; reflexivity]]. Qed.

(* fee_additive is satisfiable by non-trivial functions: the derived fee_for_input of any min_fee *)
Example fee_additive_premise : fee_additive ex_fee (derived_ffi ex_fee).
Proof. apply derived_additive. Qed.
