(* C08 — specification of sound coin selection (what the property says), its executable form (the judge that the
   check evaluates on the implementation's results) and the decidable known-finding classes.  No proofs here. *)
From CSL Require Import Base.Prelude Num.Value Num.ValueNorm CoinSel.CoinSel.
Local Open Scope N_scope.

(* ------------------------------------------------------------------------------------------- *)
(* Quantities: lovelace, or one asset *)

Definition Q (s : selector) (v : value) : N :=
  match s with ByCoin => coin v | ByAsset p n => qty v p n end.
Definition sumQ (s : selector) (l : list value) : N := fold_right (fun v acc => Q s v + acc) 0 l.
Definition coin_only (s : selector) (x : N) : N := match s with ByCoin => x | ByAsset _ _ => 0 end.

(* what the builder has to pay for: outputs, deposits, burnt assets, donation (get_total_output) and the fee *)
Definition demand (s : selector) (sc : scenario) (fee : N) : N :=
  sumQ s (map o_val (sc_outputs sc)) + coin_only s (sc_deposit sc) + Q s (sc_burn sc)
  + coin_only s (match sc_donation sc with Some d => d | None => 0 end) + coin_only s fee.

(* what it pays with: its actual inputs, withdrawals and refunds, minted assets (get_total_input) *)
Definition supply (s : selector) (sc : scenario) (inputs : list utxo) : N :=
  sumQ s (map u_val inputs) + Q s (sc_implicit sc) + Q s (sc_mint sc).

Definition covers_q (s : selector) (sc : scenario) (inputs : list utxo) (fee : N) : Prop :=
  demand s sc fee <= supply s sc inputs.
Definition covers_coin (sc : scenario) (inputs : list utxo) (fee : N) : Prop := covers_q ByCoin sc inputs fee.
Definition covers_assets (sc : scenario) (inputs : list utxo) : Prop :=
  forall p n, covers_q (ByAsset p n) sc inputs 0.

(* ------------------------------------------------------------------------------------------- *)
(* Premises on the arguments *)

Definition ids (l : list utxo) : list N := map u_id l.

(* the inputs already in the builder are a map: one entry per outpoint (representation invariant of [sc_pre]).
   Nothing is assumed about the offered list: it may repeat outpoints and overlap the builder's inputs *)
Definition pre_distinct (sc : scenario) : Prop := NoDup (ids (sc_pre sc)).
(* (the premise of the legacy variants, which did not leave out repeated outpoints) *)
Definition distinct_outpoints (offered : list utxo) (sc : scenario) : Prop := NoDup (ids offered ++ ids (sc_pre sc)).

Definition scenario_wf (offered : list utxo) (sc : scenario) : Prop :=
  Forall (fun u => value_wf (u_val u)) offered /\ Forall (fun u => value_wf (u_val u)) (sc_pre sc) /\
  Forall (fun o => value_wf (o_val o)) (sc_outputs sc) /\
  value_wf (sc_implicit sc) /\ value_wf (sc_mint sc) /\ value_wf (sc_burn sc).

(* ------------------------------------------------------------------------------------------- *)
(* The three clauses on a successful result: [before] = input map before the call, [after] = after it,
   [added] = the UTxOs the call passed to add_regular_utxo *)

Definition distinct_members (offered added : list utxo) : Prop :=
  NoDup (ids added) /\ incl added offered.

Definition preserved (before after added : list utxo) : Prop :=
  incl before after /\ (forall u, In u after -> In u before \/ In u added) /\ incl added after /\
  length after = (length before + length added)%nat.

(* the fee the selection has to cover: the minimum fee of the initial builder plus the marginal fee
   (fee_for_input) of every added input, each evaluated on the builder as it is when the input is added;
   when fees are additive (fee_additive below) this is the minimum fee of the final builder *)
Section Fees.
  Variable min_fee : imap -> result N.
  Variable fee_for_input : imap -> utxo -> result N.

  Fixpoint marginal_fees (m : imap) (added : list utxo) : result N :=
    match added with
    | [] => Ok 0
    | u :: r =>
        let* f := fee_for_input m u in
        let* fs := marginal_fees (imap_insert (norm_utxo u) m) r in
        Ok (f + fs)
    end.

  Definition required_fee (before : imap) (added : list utxo) : result N :=
    let* f0 := min_fee before in
    let* fs := marginal_fees before added in
    Ok (f0 + fs).

  (* fee_for_input is, by its definition (tx_builder.rs:1073-1094), the difference of two minimum fees *)
  Definition fee_additive : Prop :=
    forall m u f, fee_for_input m u = Ok f -> forall f0, min_fee m = Ok f0 -> min_fee (imap_insert (norm_utxo u) m) = Ok (f0 + f).
End Fees.

Definition added_utxos (offered : list utxo) (trace : list nat) : list utxo :=
  flat_map (fun i => match nth_error offered i with Some u => [u] | None => [] end) trace.

(* soundness of a successful selection: the three clauses of the property.  [eff] is the list the positions of
   st_trace refer to (the offered UTxOs that are not yet in the builder, each outpoint once: effective_offered).
   [asset_class_excluded] is false for the code as it is; the legacy variants exclude the class C08-burn-not-covered *)
Definition sound_result (min_fee : imap -> result N) (fee_for_input : imap -> utxo -> result N)
           (asset_class_excluded : bool) (offered eff : list utxo) (sc : scenario) (st' : sel_state) : Prop :=
  let before := initial_map sc in
  let added := added_utxos eff (st_trace st') in
  distinct_members offered added /\
  (* the map holds the old inputs and the added UTxOs (their amounts as push_input stores them: norm_utxo) *)
  preserved before (st_inputs st') (map norm_utxo added) /\
  exists fee, required_fee min_fee fee_for_input before added = Ok fee /\
              covers_coin sc (st_inputs st') fee /\
              (asset_class_excluded = false -> covers_assets sc (st_inputs st')).

(* fee_for_input as the code defines it since /repo d980bbe: the difference of min_fee() of the builder with and
   without the input (both with the placeholder of min_fee()); an address add_regular_input refuses is an error *)
Definition derived_ffi (min_fee : imap -> result N) (m : imap) (u : utxo) : result N :=
  let* a := min_fee m in
  if u_ok u then
    let* b := min_fee (imap_insert (norm_utxo u) m) in
    if a <=? b then Ok (b - a) else Err
  else Err.

(* ------------------------------------------------------------------------------------------- *)
(* Known-finding classes (decidable, narrow) *)

Definition value_has_asset (v : value) : bool :=
  match multiasset_of v with
  | None => false
  | Some m => existsb (fun e => match e with (_, _, q) => 0 <? q end) (ma_entries m)
  end.

Definition strategy_eqb (a b : strategy) : bool :=
  match a, b with
  | LargestFirst, LargestFirst | RandomImprove, RandomImprove
  | LargestFirstMultiAsset, LargestFirstMultiAsset | RandomImproveMultiAsset, RandomImproveMultiAsset => true
  | _, _ => false
  end.

(* C08-burn-not-covered: an asset is burnt and the strategy is not LargestFirstMultiAsset *)
Definition burn_class (strat : strategy) (sc : scenario) : bool :=
  negb (strategy_eqb strat LargestFirstMultiAsset) && value_has_asset (sc_burn sc).

(* ------------------------------------------------------------------------------------------- *)
(* The judge: the clauses evaluated on what the implementation reports — the outpoints in the builder after the
   call, get_explicit_input and min_fee of the resulting builder *)

Fixpoint nodup_b (l : list N) : bool :=
  match l with [] => true | x :: r => negb (existsb (N.eqb x) r) && nodup_b r end.
Definition mem_b (x : N) (l : list N) : bool := existsb (N.eqb x) l.
Fixpoint find_utxo (x : N) (l : list utxo) : option utxo :=
  match l with [] => None | u :: r => if u_id u =? x then Some u else find_utxo x r end.

Definition scenario_wfb (offered : list utxo) (sc : scenario) : bool :=
  forallb (fun u => value_wfb (u_val u)) offered && forallb (fun u => value_wfb (u_val u)) (sc_pre sc) &&
  forallb (fun o => value_wfb (o_val o)) (sc_outputs sc) &&
  value_wfb (sc_implicit sc) && value_wfb (sc_mint sc) && value_wfb (sc_burn sc).

Definition premises_b (offered : list utxo) (sc : scenario) : bool :=
  nodup_b (ids (sc_pre sc)) && scenario_wfb offered sc.

(* every selector that can have a non-zero demand *)
Definition value_selectors (t : value) : list selector := asset_selectors t.
Definition demand_selectors (sc : scenario) : list selector :=
  flat_map (fun o => value_selectors (o_val o)) (sc_outputs sc) ++ value_selectors (sc_burn sc).

Definition covers_qb (s : selector) (sc : scenario) (inputs : list utxo) (fee : N) : bool :=
  demand s sc fee <=? supply s sc inputs.

(* LargestFirst without the pre-step (a present input, or implicit inputs that do not even cover the outputs):
   the added UTxOs are the largest ones (C08_largest_first_order) *)
Definition no_prestep (sc : scenario) : bool :=
  negb (is_nil (sc_pre sc)) ||
  (coin (sc_implicit sc) + coin (sc_mint sc) <?
   sumQ ByCoin (map o_val (sc_outputs sc)) + sc_deposit sc + match sc_donation sc with Some d => d | None => 0 end).
Definition lf_clause_applies (strat : strategy) (sc : scenario) : bool :=
  strategy_eqb strat LargestFirst && no_prestep sc.
Definition lf_added (eff : list utxo) (pre_ids final_ids : list N) : list utxo :=
  filter (fun u => mem_b (u_id u) final_ids && negb (mem_b (u_id u) pre_ids)) eff.
Definition lf_largest_b (eff : list utxo) (pre_ids final_ids : list N) : bool :=
  let added := lf_added eff pre_ids final_ids in
  let left_out := filter (fun u => negb (mem_b (u_id u) final_ids)) eff in
  forallb (fun w => forallb (fun a => coin (u_val w) <=? coin (u_val a)) added) left_out.
(* the input largest-first added last: the smallest one, the first in offered order among equal ones *)
Fixpoint min_coin_first (l : list utxo) : option utxo :=
  match l with
  | [] => None
  | u :: r => match min_coin_first r with
              | Some w => if coin (u_val u) <=? coin (u_val w) then Some u else Some w
              | None => Some u
              end
  end.
Definition lf_last_added (eff : list utxo) (pre_ids final_ids : list N) : option utxo :=
  min_coin_first (lf_added eff pre_ids final_ids).

Inductive verdict : Type := Holds | NotApplicable | Fails (class : N).
(* classes: 0 = none (a violation); no known class is left for the code as it is *)

(* the UTxOs behind the reported outpoints: a present input wins over an offered one with the same outpoint *)
Definition judge_inputs (offered pre : list utxo) (final_ids : list N) : list utxo :=
  flat_map (fun x => match find_utxo x pre with
                     | Some u => [u]
                     | None => match find_utxo x offered with Some u => [u] | None => [] end
                     end) final_ids.

(* [prefix] = what the implementation reports about the builder without the input added last:
   (outpoint left out, min_fee() of that builder) *)
Definition judge (strat : strategy) (offered : list utxo) (sc : scenario)
           (final_ids : list N) (explicit : value) (fee : N) (prefix : option (N * N)) : verdict :=
  if negb (premises_b offered sc) then NotApplicable else
  let pre := imap_of_list (sc_pre sc) in
  let eff := filter_offered (ids pre) offered in
  (* every outpoint of the result is a present or an offered one; no outpoint twice *)
  if negb (nodup_b final_ids && forallb (fun x => mem_b x (ids pre) || mem_b x (ids offered)) final_ids) then Fails 0 else
  (* inputs present before are still there *)
  if negb (forallb (fun x => mem_b x final_ids) (ids pre)) then Fails 0 else
  let inputs := judge_inputs offered pre final_ids in
  (* … with their amounts: the explicit input is the sum of the amounts of these UTxOs *)
  match sum_values value_zero (map u_val inputs) with
  | Ok total =>
      if negb (value_eqb_sem total explicit) then Fails 0 else
      if negb (covers_qb ByCoin sc inputs fee) then Fails 0 else
      if negb (forallb (fun s => covers_qb s sc inputs 0) (demand_selectors sc)) then Fails 0 else
      if lf_clause_applies strat sc then
        (* largest-first: no offered UTxO left out holds more lovelace than one that was added … *)
        if negb (lf_largest_b eff (ids pre) final_ids) then Fails 0 else
        (* … and it stopped as soon as the target was covered: without the input added last, the builder does not
           cover outputs + its own minimum fee *)
        match lf_last_added eff (ids pre) final_ids, prefix with
        | None, _ => Holds
        | Some w, Some (x, g) =>
            if (u_id w =? x) &&
               negb (covers_qb ByCoin sc (filter (fun u => negb (u_id u =? x)) inputs) g)
            then Holds else Fails 0
        | Some _, None => Fails 0
        end
      else Holds
  | _ => Fails 0
  end.

(* Reported insufficiency of the largest-first strategies (C08_largest_first_complete, C08_lfma_complete): all offered
   UTxOs together do not suffice — in an asset of the target, or in lovelace (then every offered UTxO has been added and
   [fee] = min_fee() of the builder holding them all) — or, for the ADA-only LargestFirst, an asset of the target is not
   covered by what the builder holds (the guard of /repo ab61362) *)
Definition judge_insufficient (strat : strategy) (offered : list utxo) (sc : scenario)
           (final_ids : list N) (fee : option N) : verdict :=
  if negb (premises_b offered sc) then NotApplicable else
  if negb ((strategy_eqb strat LargestFirst || strategy_eqb strat LargestFirstMultiAsset) && no_prestep sc) then NotApplicable else
  let pre := imap_of_list (sc_pre sc) in
  let eff := filter_offered (ids pre) offered in
  let everything := pre ++ eff in
  if existsb (fun s => negb (covers_qb s sc everything 0)) (demand_selectors sc) then Holds else
  if strategy_eqb strat LargestFirst &&
     existsb (fun s => negb (covers_qb s sc (judge_inputs offered pre final_ids) 0)) (demand_selectors sc) then Holds else
  if forallb (fun u => mem_b (u_id u) final_ids) eff then
    match fee with
    | Some f => if negb (covers_qb ByCoin sc everything f) then Holds else Fails 0
    | None => NotApplicable
    end
  else Fails 0.

(* ------------------------------------------------------------------------------------------- *)
(* Entry points of the extracted driver *)

(* add_output (since /repo bb8d7fa) refuses an amount with a zero quantity or a policy without assets: a scenario
   with such an output cannot be put into a builder *)
Definition scenario_buildable (sc : scenario) : bool :=
  negb (existsb (fun o => value_has_empty_entries (o_val o)) (sc_outputs sc)).

Definition strategy_of_N (k : N) : strategy :=
  match k with 0 => LargestFirst | 1 => RandomImprove | 2 => LargestFirstMultiAsset | _ => RandomImproveMultiAsset end.

Definition run_model (min_fee : imap -> result N) (fee_for_input : imap -> utxo -> result N)
           (strat : strategy) (cs : list N) (offered : list utxo) (sc : scenario) : sel_state * outcome unit :=
  add_inputs_from min_fee fee_for_input current strat cs offered sc.

(* what the harness reports for LargestFirst: the outpoint of the input added last (if the clause applies) *)
Definition lf_prefix_outpoint (strat : strategy) (offered : list utxo) (sc : scenario) (final_ids : list N) : option N :=
  if lf_clause_applies strat sc then
    let pre := imap_of_list (sc_pre sc) in
    option_map u_id (lf_last_added (filter_offered (ids pre) offered) (ids pre) final_ids)
  else None.

Definition explicit_input (st : sel_state) : result value := sum_values value_zero (map u_val (st_inputs st)).

(* canonical printing of a value: coin and the non-zero assets in key order *)
Definition value_entries (x : value) : list (bytes * bytes * N) :=
  match multiasset_of x with
  | None => []
  | Some m => filter (fun e => match e with (_, _, q) => 0 <? q end) (ma_entries m)
  end.
