(* C08 — the executable judge (CoinSelSpec.judge) implies the clauses of the specification for the figures the
   implementation reports. *)
From CSL Require Import Base.Prelude Num.Value Num.ValueProofs CoinSel.CoinSel CoinSel.CoinSelSpec CoinSel.CoinSelLemmas
  CoinSel.CoinSelProofs CoinSel.CoinSelSound CoinSel.CoinSelRefute.
Local Open Scope N_scope.

Lemma sumQ_asset_nonzero p n (l : list value) :
  sumQ (ByAsset p n) l <> 0 -> exists v, In v l /\ qty v p n <> 0.
Proof.
  unfold sumQ. induction l as [|v l IH]; cbn [fold_right]; [tauto|]. intros H.
  destruct (N.eq_dec (Q (ByAsset p n) v) 0) as [E|E].
  - rewrite E in H. destruct IH as [w [Hw Hq]]; [lia|]. exists w. split; [right|]; auto.
  - exists v. split; [left; reflexivity|exact E].
Qed.

Lemma mem_b_in x l : mem_b x l = true <-> In x l.
Proof.
  unfold mem_b. rewrite existsb_exists. split.
  - intros [y [Hy E]]. apply N.eqb_eq in E. subst. exact Hy.
  - intros H. exists x. split; auto. apply N.eqb_refl.
Qed.

Theorem judge_sound strat offered sc final_ids explicit fee prefix :
  judge strat offered sc final_ids explicit fee prefix = Holds ->
  let pre := imap_of_list (sc_pre sc) in
  let eff := filter_offered (ids pre) offered in
  let inputs := judge_inputs offered pre final_ids in
  scenario_wf offered sc /\ pre_distinct sc /\
  NoDup final_ids /\ (forall x, In x final_ids -> In x (ids pre) \/ In x (ids offered)) /\
  incl (ids pre) final_ids /\
  (exists total, sum_values value_zero (map u_val inputs) = Ok total /\ value_eqb_sem total explicit = true) /\
  covers_coin sc inputs fee /\ covers_assets sc inputs /\
  (lf_clause_applies strat sc = true ->
     lf_largest_b eff (ids pre) final_ids = true /\
     forall w, lf_last_added eff (ids pre) final_ids = Some w ->
       exists g, prefix = Some (u_id w, g) /\
                 ~ covers_coin sc (filter (fun u => negb (u_id u =? u_id w)) inputs) g).
Proof.
  unfold judge. intros H.
  destruct (premises_b offered sc) eqn:Ep; cbn [negb] in H; [|discriminate H].
  destruct (premises_sound _ _ Ep) as [W D].
  set (pre := imap_of_list (sc_pre sc)) in *.
  set (eff := filter_offered (ids pre) offered) in *.
  destruct (nodup_b final_ids && forallb (fun x => mem_b x (ids pre) || mem_b x (ids offered)) final_ids) eqn:E1;
    cbn [negb] in H; [|discriminate H].
  destruct (forallb (fun x => mem_b x final_ids) (ids pre)) eqn:E2; cbn [negb] in H; [|discriminate H].
  set (inputs := judge_inputs offered pre final_ids) in *.
  destruct (sum_values value_zero (map u_val inputs)) as [total| | |] eqn:Es; try discriminate H.
  destruct (value_eqb_sem total explicit) eqn:E3; cbn [negb] in H; [|discriminate H].
  destruct (covers_qb ByCoin sc inputs fee) eqn:E4; cbn [negb] in H; [|discriminate H].
  destruct (forallb (fun s => covers_qb s sc inputs 0) (demand_selectors sc)) eqn:E5; cbn [negb] in H; [|discriminate H].
  apply Bool.andb_true_iff in E1. destruct E1 as [E1a E1b].
  cbn zeta. conj; auto.
  - apply nodup_b_sound. exact E1a.
  - intros x Hx. rewrite forallb_forall in E1b. specialize (E1b x Hx). apply Bool.orb_true_iff in E1b.
    destruct E1b as [Hm|Hm]; apply mem_b_in in Hm; auto.
  - intros x Hx. rewrite forallb_forall in E2. apply mem_b_in. apply E2. exact Hx.
  - exists total. split; auto.
  - unfold covers_coin, covers_q. unfold covers_qb in E4. apply N.leb_le. exact E4.
  - intros p n. unfold covers_q.
    destruct (N.eq_dec (demand (ByAsset p n) sc 0) 0) as [Ez|Enz]; [rewrite Ez; lia|].
    assert (Hin : In (ByAsset p n) (demand_selectors sc)).
    { unfold demand in Enz. cbn [coin_only Q] in Enz. unfold demand_selectors. apply in_or_app.
      destruct (N.eq_dec (sumQ (ByAsset p n) (map o_val (sc_outputs sc))) 0) as [E0|E0].
      - right. apply selectors_complete. lia.
      - left. apply sumQ_asset_nonzero in E0. destruct E0 as [v [Hv Hq]].
        apply in_map_iff in Hv. destruct Hv as [o [<- Ho]].
        apply in_flat_map. exists o. split; auto. apply selectors_complete. exact Hq. }
    rewrite forallb_forall in E5. specialize (E5 _ Hin). unfold covers_qb in E5. apply N.leb_le. exact E5.
  - intros Hl. rewrite Hl in H.
    destruct (lf_largest_b eff (ids pre) final_ids) eqn:E6; cbn [negb] in H; [|discriminate H].
    split; [reflexivity|]. intros w Hw. rewrite Hw in H.
    destruct prefix as [[x g]|]; [|discriminate H].
    destruct ((u_id w =? x) && negb (covers_qb ByCoin sc (filter (fun u => negb (u_id u =? x)) inputs) g)) eqn:E7; [|discriminate H].
    apply Bool.andb_true_iff in E7. destruct E7 as [E7a E7b]. apply N.eqb_eq in E7a. subst x.
    exists g. split; [reflexivity|]. apply Bool.negb_true_iff in E7b.
    unfold covers_coin, covers_q. unfold covers_qb in E7b. apply N.leb_gt in E7b. lia.
Qed.
