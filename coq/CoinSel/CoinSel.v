(* C08 — coin selection: executable model of
     rust/src/builders/tx_builder.rs      TransactionBuilder::add_inputs_from (426-595, the four CIP-2 strategies,
                                          the "add one input to have at least one" pre-step, phase 3 fee top-up),
                                          cip2_largest_first_by (597-638), cip2_random_improve_by (640-753: phase 1
                                          random selection, phase 2 improvement with the available / relevant /
                                          associated index bookkeeping, final insertion loop),
                                          get_total_input / get_total_output / get_explicit_input / get_explicit_output
                                          (1725-1782) as sums of given figures
     rust/src/builders/tx_inputs_builder.rs  the input map keyed by outpoint (BTreeMap: a second insertion of the
                                          same outpoint overwrites), add_regular_utxo's address-kind check (21-56)
   Opaque (arguments of the model, arbitrary functions in every theorem): [min_fee] = TransactionBuilder::min_fee on
   the builder holding a given input map, [fee_for_input] = TransactionBuilder::fee_for_input on that builder for a
   candidate UTxO.  Randomness is the explicit argument [choices : list N]: the k-th draw gen_range(0..n) returns
   (k-th element) mod n, 0 once the list is exhausted — exactly what hook H1 (verif_hooks.rs) does with its script.
   [variant] selects the code as it was before the three repairs of this property (kept for the refutation lemmas and
   the regression corpus); [current] is the code as it is now.  No proofs in this file. *)
From CSL Require Import Base.Prelude Num.Value Num.ValueNorm.
Local Open Scope N_scope.

(* ------------------------------------------------------------------------------------------- *)
(* Data *)

(* TransactionUnspentOutput: [u_id] stands for the outpoint (TransactionInput), [u_ok] = the address kind is accepted
   by add_regular_utxo (not Reward, not Malformed) *)
Record utxo : Type := mkUtxo { u_id : N; u_val : value; u_ok : bool }.

(* TransactionOutput as far as selection looks at it: [o_key] identifies the output up to Ord-equality of
   TransactionOutput (the key of the BTreeMap associated_indices): two outputs have the same key iff address, amount,
   datum, script reference and serialization format are identical *)
Record output : Type := mkOut { o_key : N; o_val : value }.

Inductive strategy : Type := LargestFirst | RandomImprove | LargestFirstMultiAsset | RandomImproveMultiAsset.

(* the closure [by]: |value| Some(value.coin)   or   |value| value.multiasset.as_ref()?.get(policy)?.get(name) *)
Inductive selector : Type := ByCoin | ByAsset (p n : bytes).

Record variant : Type := mkVariant {
  v_swap_fixed : bool;     (* phase 2 releases the replaced index and retires the new one (since /repo b244700) *)
  v_assoc_once : bool;     (* final loop takes each associated entry once (since 2a9f309) *)
  v_prestep_fee : bool;    (* the pre-step adds its input's fee to the target (since d550071) *)
  v_exact_improve : bool;  (* phase 2 computes 2*min and 3*min in 128 bits (since 844a848; before: u64, overflow panics
                              in the profile with overflow checks and wraps in release) *)
  v_skip_present : bool;   (* offered UTxOs already in the builder or offered twice are left out (since 0efa6ad) *)
  v_asset_guard : bool     (* success only if every asset of the target is covered (since ab61362) *)
}.

Inductive outcome (A : Type) : Type :=
| Done (a : A)
| Insufficient       (* Err("UTxO Balance Insufficient…") *)
| Failed             (* any other Err: overflow of a checked operation, fee_for_input / min_fee / add_regular_utxo
                        error, "No inputs to add", "Multiasset values not supported by …" *)
| Panicked
| Fuel.
Arguments Done {A} a.
Arguments Insufficient {A}.
Arguments Failed {A}.
Arguments Panicked {A}.
Arguments Fuel {A}.

Definition of_result {A} (r : result A) : outcome A :=
  match r with Ok a => Done a | Err => Failed | Panic => Panicked | OutOfFuel => Fuel end.

Definition ob {A B} (r : outcome A) (k : A -> outcome B) : outcome B :=
  match r with
  | Done a => k a | Insufficient => Insufficient | Failed => Failed | Panicked => Panicked | Fuel => Fuel
  end.

(* ------------------------------------------------------------------------------------------- *)
(* The input map of TxInputsBuilder: BTreeMap<TransactionInput, …>, sorted by outpoint, insert overwrites *)

Definition imap : Type := list utxo.

Fixpoint imap_insert (u : utxo) (m : imap) : imap :=
  match m with
  | [] => [u]
  | x :: m' =>
      match N.compare (u_id u) (u_id x) with
      | Lt => u :: x :: m'
      | Eq => u :: m'
      | Gt => x :: imap_insert u m'
      end
  end.

Definition imap_of_list (l : list utxo) : imap := fold_left (fun m u => imap_insert u m) l [].

(* TxInputsBuilder::push_input (since /repo bb8d7fa): the amount is stored without zero quantities and without
   policies that hold no asset *)
Definition norm_utxo (u : utxo) : utxo := mkUtxo (u_id u) (value_without_empty_entries (u_val u)) (u_ok u).
Definition imap_ids (m : imap) : list N := map u_id m.

(* inputs.0.iter().filter(|utxo| !self.inputs.has_input(&utxo.input) && offered_outpoints.insert(&utxo.input)) *)
Definition id_mem (x : N) (l : list N) : bool := existsb (N.eqb x) l.
Fixpoint filter_offered (seen : list N) (l : list utxo) : list utxo :=
  match l with
  | [] => []
  | u :: r => if id_mem (u_id u) seen then filter_offered seen r else u :: filter_offered (u_id u :: seen) r
  end.

(* try_fold(acc, checked_add) *)
Fixpoint sum_values (acc : value) (l : list value) : result value :=
  match l with
  | [] => Ok acc
  | v :: l' => let* a := value_checked_add acc v in sum_values a l'
  end.

(* ------------------------------------------------------------------------------------------- *)
(* What the builder holds besides its inputs *)

Record scenario : Type := mkScenario {
  sc_pre : list utxo;            (* regular inputs already in the builder *)
  sc_implicit : value;           (* get_implicit_input: withdrawals + certificate refunds *)
  sc_mint : value;               (* positive part of the mint *)
  sc_outputs : list output;      (* builder outputs, in order *)
  sc_deposit : N;                (* get_deposit *)
  sc_burn : value;               (* negative part of the mint *)
  sc_donation : option N
}.

(* the input map of the builder before the call *)
Definition initial_map (sc : scenario) : imap := imap_of_list (map norm_utxo (sc_pre sc)).

(* get_explicit_input + implicit + mint (tx_builder.rs:1764-1769) *)
Definition total_input (sc : scenario) (m : imap) : result value :=
  let* e := sum_values value_zero (map u_val m) in
  let* x := value_checked_add e (sc_implicit sc) in
  value_checked_add x (sc_mint sc).

(* get_explicit_output + deposit + burn (+ donation) (tx_builder.rs:1772-1792) *)
Definition total_output (sc : scenario) : result value :=
  let* e := sum_values (value_new 0) (map o_val (sc_outputs sc)) in
  let* x := value_checked_add e (value_new (sc_deposit sc)) in
  let* y := value_checked_add x (sc_burn sc) in
  match sc_donation sc with
  | Some d => value_checked_add y (value_new d)
  | None => Ok y
  end.

(* ------------------------------------------------------------------------------------------- *)
(* Selection state: self.inputs, input_total, output_total; [st_trace] is a ghost — the positions (in the offered
   list) of the UTxOs passed to add_regular_utxo, oldest first *)

Record sel_state : Type := mkSt { st_inputs : imap; st_in : value; st_out : value; st_trace : list nat }.

Definition obind {A B} (st : sel_state) (r : outcome A) (k : A -> sel_state * outcome B) : sel_state * outcome B :=
  match r with
  | Done a => k a
  | Insufficient => (st, Insufficient) | Failed => (st, Failed) | Panicked => (st, Panicked) | Fuel => (st, Fuel)
  end.

Definition by_val (s : selector) (v : value) : option N :=
  match s with
  | ByCoin => Some (coin v)
  | ByAsset p n =>
      match multiasset_of v with
      | None => None
      | Some m => match ma_get p m with None => None | Some a => assets_get n a end
      end
  end.
Definition by_or_zero (s : selector) (v : value) : N := match by_val s v with Some x => x | None => 0 end.
Definition is_some {A} (o : option A) : bool := match o with Some _ => true | None => false end.
Definition is_nil {A} (l : list A) : bool := match l with [] => true | _ => false end.

(* ------------------------------------------------------------------------------------------- *)
(* Vec / BTreeSet / BTreeMap helpers *)

(* sort_by_key is a stable sort *)
Fixpoint ins_sorted {A} (k : A -> N) (x : A) (l : list A) : list A :=
  match l with
  | [] => [x]
  | y :: l' => if k x <=? k y then x :: l else y :: ins_sorted k x l'
  end.
Definition stable_sort {A} (k : A -> N) (l : list A) : list A := fold_right (ins_sorted k) [] l.

Fixpoint position (i : nat) (l : list nat) : option nat :=
  match l with
  | [] => None
  | x :: l' => if Nat.eqb x i then Some O else option_map S (position i l')
  end.

(* Vec::swap_remove(p): the removed element and the vector in which the last element took its place *)
Definition swap_remove {A} (p : nat) (l : list A) : option (A * list A) :=
  match nth_error l p with
  | None => None
  | Some x =>
      let l' := removelast l in
      Some (x, if Nat.eqb p (length l') then l' else firstn p l' ++ last l x :: skipn (S p) l')
  end.

Fixpoint replace_nth {A} (p : nat) (x : A) (l : list A) : list A :=
  match l, p with
  | [], _ => []
  | _ :: l', O => x :: l'
  | y :: l', S p' => y :: replace_nth p' x l'
  end.

(* BTreeSet<usize> as a strictly increasing list *)
Definition set_remove (i : nat) (s : list nat) : list nat := filter (fun x => negb (Nat.eqb x i)) s.
Fixpoint set_insert (i : nat) (s : list nat) : list nat :=
  match s with
  | [] => [i]
  | x :: s' => if Nat.ltb i x then i :: s else if Nat.eqb i x then s else x :: set_insert i s'
  end.

(* BTreeMap<TransactionOutput, Vec<usize>>: only get / get_mut / entry().or_default().push / remove are used,
   never its iteration order *)
Definition assoc : Type := list (N * list nat).
Fixpoint assoc_get (k : N) (a : assoc) : option (list nat) :=
  match a with
  | [] => None
  | (k', l) :: a' => if k' =? k then Some l else assoc_get k a'
  end.
Fixpoint assoc_push (k : N) (i : nat) (a : assoc) : assoc :=
  match a with
  | [] => [(k, [i])]
  | (k', l) :: a' => if k' =? k then (k', l ++ [i]) :: a' else (k', l) :: assoc_push k i a'
  end.
Fixpoint assoc_set (k : N) (l : list nat) (a : assoc) : assoc :=
  match a with
  | [] => []
  | (k', l') :: a' => if k' =? k then (k', l) :: a' else (k', l') :: assoc_set k l a'
  end.
Fixpoint assoc_remove (k : N) (a : assoc) : assoc :=
  match a with
  | [] => []
  | (k', l') :: a' => if k' =? k then a' else (k', l') :: assoc_remove k a'
  end.

(* gen_range(0..n) under H1: next script element mod n; 0 when the script is exhausted *)
Definition next_choice (n : nat) (cs : list N) : nat * list N :=
  match cs with
  | [] => (O, [])
  | c :: cs' => (if Nat.eqb n O then O else N.to_nat (c mod N.of_nat n), cs')
  end.

Definition absdiff (a b : N) : N := if a <=? b then b - a else a - b.

Section Model.
  Variable min_fee : imap -> result N.
  Variable fee_for_input : imap -> utxo -> result N.
  Variable v : variant.

  (* fee_for_input (when [with_fee]); self.inputs.add_regular_utxo; input_total += amount; output_total += fee *)
  Definition add_input (with_fee : bool) (i : nat) (u : utxo) (st : sel_state) : sel_state * outcome unit :=
    obind st (if with_fee then of_result (fee_for_input (st_inputs st) u) else Done 0) (fun fee =>
    if u_ok u then
      let st1 := mkSt (imap_insert (norm_utxo u) (st_inputs st)) (st_in st) (st_out st) (st_trace st ++ [i]) in
      obind st1 (of_result (value_checked_add (st_in st) (u_val u))) (fun it =>
      let st2 := mkSt (st_inputs st1) it (st_out st) (st_trace st1) in
      if with_fee then
        obind st2 (of_result (value_checked_add (st_out st) (value_new fee))) (fun ot =>
        (mkSt (st_inputs st1) it ot (st_trace st1), Done tt))
      else (st2, Done tt))
    else (st, Failed)).

  Definition key_of (sel : selector) (avail : list utxo) (i : nat) : N :=
    match nth_error avail i with Some u => by_or_zero sel (u_val u) | None => 0 end.
  Definition has_key (sel : selector) (avail : list utxo) (i : nat) : bool :=
    match nth_error avail i with Some u => is_some (by_val sel (u_val u)) | None => false end.

  (* by(input_total).unwrap_or(0) >= by(output_total).expect(…) *)
  Definition covered (sel : selector) (st : sel_state) : outcome bool :=
    match by_val sel (st_out st) with
    | None => Panicked
    | Some need => Done (need <=? by_or_zero sel (st_in st))
    end.

  (* ----------------------------------------------------------------------------------------- *)
  (* cip2_largest_first_by *)

  Fixpoint lf_loop (sel : selector) (avail : list utxo) (todo aidx : list nat) (st : sel_state)
    : sel_state * outcome (list nat) :=
    match todo with
    | [] => (st, Done aidx)
    | i :: todo' =>
        obind st (covered sel st) (fun c =>
        if c then (st, Done aidx) else
        match nth_error avail i with
        | None => (st, Panicked)
        | Some u =>
            let '(st', r) := add_input true i u st in
            obind st' r (fun _ =>
            match position i aidx with
            | None => (st', Panicked)
            | Some p =>
                match swap_remove p aidx with
                | None => (st', Panicked)
                | Some (_, aidx') => lf_loop sel avail todo' aidx' st'
                end
            end)
        end)
    end.

  Definition lf_relevant (sel : selector) (avail : list utxo) (aidx : list nat) : list nat :=
    stable_sort (key_of sel avail) (filter (has_key sel avail) aidx).

  Definition lf_by (sel : selector) (avail : list utxo) (aidx : list nat) (st : sel_state)
    : sel_state * outcome (list nat) :=
    let '(st', r) := lf_loop sel avail (rev (lf_relevant sel avail aidx)) aidx st in
    obind st' r (fun aidx' =>
    obind st' (covered sel st') (fun c => if c then (st', Done aidx') else (st', Insufficient))).

  Fixpoint lf_multi (sels : list selector) (avail : list utxo) (aidx : list nat) (st : sel_state)
    : sel_state * outcome (list nat) :=
    match sels with
    | [] => (st, Done aidx)
    | s :: r => let '(st', x) := lf_by s avail aidx st in obind st' x (fun aidx' => lf_multi r avail aidx' st')
    end.

  (* ----------------------------------------------------------------------------------------- *)
  (* cip2_random_improve_by *)

  Definition p1_locals : Type := (list nat * list nat * assoc * list N)%type.  (* relevant, available, associated, choices *)

  (* while added < needed { … } for one output *)
  Fixpoint p1_pick (fuel : nat) (sel : selector) (avail : list utxo) (okey needed added : N)
           (relevant aset : list nat) (a : assoc) (cs : list N) : outcome (N * p1_locals) :=
    if needed <=? added then Done (added, (relevant, aset, a, cs)) else
    match fuel with
    | O => Fuel
    | S fuel' =>
        match relevant with
        | [] => Insufficient
        | _ =>
            let '(r, cs') := next_choice (length relevant) cs in
            match swap_remove r relevant with
            | None => Panicked
            | Some (i, relevant') =>
                match nth_error avail i with
                | None => Panicked
                | Some u =>
                    match by_val sel (u_val u) with
                    | None => Panicked
                    | Some q =>
                        if added + q <? two64
                        then p1_pick fuel' sel avail okey needed (added + q) relevant' (set_remove i aset)
                                     (assoc_push okey i a) cs'
                        else Failed
                    end
                end
            end
        end
    end.

  (* for output in outputs.iter().rev() — [outs] is given already reversed *)
  Fixpoint p1_outputs (sel : selector) (avail : list utxo) (outs : list output) (coins : N)
           (relevant aset : list nat) (a : assoc) (cs : list N) : outcome p1_locals :=
    match outs with
    | [] => Done (relevant, aset, a, cs)
    | o :: outs' =>
        match by_val sel (o_val o) with
        | None => Panicked
        | Some needed =>
            ob (p1_pick (S (length relevant)) sel avail (o_key o) needed coins relevant aset a cs)
               (fun '(added, (relevant', aset', a', cs')) =>
                  p1_outputs sel avail outs' (added - needed) relevant' aset' a' cs')
        end
    end.

  (* one associated slot of phase 2: the slot's new content, relevant, available, choices *)
  Definition improve_slot (sel : selector) (avail : list utxo) (o : output) (i : nat)
             (relevant aset : list nat) (cs : list N) : outcome (nat * (list nat * list nat * list N)) :=
    let '(r, cs') := next_choice (length relevant) cs in
    match nth_error relevant r with
    | None => Panicked
    | Some j =>
        match nth_error avail i, nth_error avail j with
        | Some ui, Some uj =>
            let cur := by_or_zero sel (u_val ui) in
            let new := by_or_zero sel (u_val uj) in
            let mn := by_or_zero sel (o_val o) in
            if v_exact_improve v || (3 * mn <? two64) then   (* before 844a848: 2 * min, 3 * min in u64 (overflow panics) *)
              let ideal := 2 * mn in
              let mx := 3 * mn in
              if (absdiff ideal new <? absdiff ideal cur) && (new <? mx) then
                (* std::mem::swap(i, j): the slot now holds j, relevant[r] holds i *)
                Done (j, (replace_nth r i relevant,
                          (if v_swap_fixed v
                           then set_insert i (set_remove j aset)      (* remove(new index); insert(old index) *)
                           else set_remove i (set_insert j aset)),    (* insert(new index); remove(old index) *)
                          cs'))
              else Done (i, (relevant, aset, cs'))
            else Panicked
        | _, _ => Panicked
        end
    end.

  Fixpoint improve_entry (sel : selector) (avail : list utxo) (o : output) (slots : list nat)
           (relevant aset : list nat) (cs : list N) : outcome (list nat * (list nat * list nat * list N)) :=
    match slots with
    | [] => Done ([], (relevant, aset, cs))
    | i :: slots' =>
        ob (improve_slot sel avail o i relevant aset cs) (fun '(i', (rel1, aset1, cs1)) =>
        ob (improve_entry sel avail o slots' rel1 aset1 cs1) (fun '(sl, loc) => Done (i' :: sl, loc)))
    end.

  (* for output in outputs.iter_mut() { if let Some(associated) = associated_indices.get_mut(output) { … } } *)
  Fixpoint p2_outputs (sel : selector) (avail : list utxo) (outs : list output)
           (relevant aset : list nat) (a : assoc) (cs : list N) : outcome p1_locals :=
    match outs with
    | [] => Done (relevant, aset, a, cs)
    | o :: outs' =>
        match assoc_get (o_key o) a with
        | None => p2_outputs sel avail outs' relevant aset a cs
        | Some slots =>
            ob (improve_entry sel avail o slots relevant aset cs) (fun '(slots', (rel1, aset1, cs1)) =>
            p2_outputs sel avail outs' rel1 aset1 (assoc_set (o_key o) slots' a) cs1)
        end
    end.

  Fixpoint add_all (avail : list utxo) (idxs : list nat) (st : sel_state) : sel_state * outcome unit :=
    match idxs with
    | [] => (st, Done tt)
    | i :: r =>
        match nth_error avail i with
        | None => (st, Panicked)
        | Some u => let '(st', x) := add_input true i u st in obind st' x (fun _ => add_all avail r st')
        end
    end.

  (* "after finalizing the improvement we need to actually add these results to the builder" *)
  Fixpoint ri_final (avail : list utxo) (outs : list output) (a : assoc) (st : sel_state) : sel_state * outcome unit :=
    match outs with
    | [] => (st, Done tt)
    | o :: outs' =>
        match assoc_get (o_key o) a with
        | None => ri_final avail outs' a st
        | Some idxs =>
            let '(st', x) := add_all avail idxs st in
            obind st' x (fun _ =>
              ri_final avail outs' (if v_assoc_once v then assoc_remove (o_key o) a else a) st')
        end
    end.

  Definition ri_outs (sel : selector) (outputs : list output) : list output :=
    stable_sort (fun o => by_or_zero sel (o_val o)) (filter (fun o => is_some (by_val sel (o_val o))) outputs).

  Definition ri_by (sel : selector) (pure_ada : bool) (avail : list utxo) (outputs : list output)
             (aset : list nat) (cs : list N) (st : sel_state) : sel_state * outcome (list nat * list N) :=
    let relevant := filter (has_key sel avail) aset in
    let outs := ri_outs sel outputs in
    let coins := by_or_zero sel (st_in st) in
    obind st (p1_outputs sel avail (rev outs) coins relevant aset [] cs) (fun '(relevant1, aset1, a1, cs1) =>
    obind st (if negb (is_nil relevant1) && pure_ada
              then p2_outputs sel avail outs relevant1 aset1 a1 cs1
              else Done (relevant1, aset1, a1, cs1)) (fun '(_, aset2, a2, cs2) =>
    let '(st', x) := ri_final avail outs a2 st in
    obind st' x (fun _ => (st', Done (aset2, cs2))))).

  Fixpoint ri_multi (sels : list selector) (avail : list utxo) (outputs : list output)
           (aset : list nat) (cs : list N) (st : sel_state) : sel_state * outcome (list nat * list N) :=
    match sels with
    | [] => (st, Done (aset, cs))
    | s :: r =>
        let '(st', x) := ri_by s false avail outputs aset cs st in
        obind st' x (fun '(aset', cs') => ri_multi r avail outputs aset' cs' st')
    end.

  (* Phase 3: while input_total.coin < output_total.coin { … } *)
  Fixpoint phase3 (fuel : nat) (avail : list utxo) (aset : list nat) (cs : list N) (st : sel_state)
    : sel_state * outcome unit :=
    if coin (st_out st) <=? coin (st_in st) then (st, Done tt) else
    match fuel with
    | O => (st, Fuel)
    | S fuel' =>
        match aset with
        | [] => (st, Insufficient)
        | _ =>
            let '(r, cs') := next_choice (length aset) cs in
            match nth_error aset r with
            | None => (st, Panicked)
            | Some i =>
                match nth_error avail i with
                | None => (st, Panicked)
                | Some u =>
                    let '(st', x) := add_input true i u st in
                    obind st' x (fun _ => phase3 fuel' avail (set_remove i aset) cs' st')
                end
            end
        end
    end.

  (* ----------------------------------------------------------------------------------------- *)
  (* add_inputs_from *)

  Definition asset_selectors (t : value) : list selector :=
    match multiasset_of t with
    | None => []
    | Some m => map (fun e => match e with (p, n, _) => ByAsset p n end) (ma_entries m)
    end.

  Definition outputs_have_assets (sc : scenario) : bool :=
    existsb (fun o => is_some (multiasset_of (o_val o))) (sc_outputs sc).

  Definition drop_locals {A} (x : sel_state * outcome A) : sel_state * outcome unit :=
    let '(st, r) := x in (st, ob r (fun _ => Done tt)).

  Definition initial_state (sc : scenario) : sel_state * outcome unit :=
    let m0 := initial_map sc in
    let st_err := mkSt m0 value_zero value_zero [] in
    obind st_err (of_result (total_input sc m0)) (fun it0 =>
    obind st_err (of_result (let* t := total_output sc in
                             let* f := min_fee m0 in
                             value_checked_add t (value_new f))) (fun ot0 =>
    (mkSt m0 it0 ot0 [], Done tt))).

  (* "just add first input, to cover needs of one input": the vector of UTxOs that remain selectable, the state *)
  Definition prestep (offered : list utxo) (st0 : sel_state) : list utxo * (sel_state * outcome unit) :=
    if (coin (st_out st0) <=? coin (st_in st0)) && is_nil (st_inputs st0) then
      match rev offered with
      | [] => (offered, (st0, Failed))                           (* "No inputs to add…" *)
      | u :: _ => (removelast offered, add_input (v_prestep_fee v) (length offered - 1) u st0)
      end
    else (offered, (st0, Done tt)).

  (* match strategy { … } *)
  Definition run_strategy (strat : strategy) (cs : list N) (avail : list utxo) (sc : scenario) (st1 : sel_state)
    : sel_state * outcome unit :=
    let all := seq 0 (length avail) in
    match strat with
    | LargestFirst =>
        if outputs_have_assets sc then (st1, Failed)
        else drop_locals (lf_by ByCoin avail all st1)
    | RandomImprove =>
        if outputs_have_assets sc then (st1, Failed)
        else
          let '(st2, x2) := ri_by ByCoin true avail (sc_outputs sc) all cs st1 in
          obind st2 x2 (fun '(aset, cs2) => phase3 (S (length aset)) avail aset cs2 st2)
    | LargestFirstMultiAsset =>
        let '(st2, x2) := lf_multi (asset_selectors (st_out st1)) avail all st1 in
        obind st2 x2 (fun aidx => drop_locals (lf_by ByCoin avail aidx st2))
    | RandomImproveMultiAsset =>
        let '(st2, x2) := ri_multi (asset_selectors (st_out st1)) avail (sc_outputs sc) all cs st1 in
        obind st2 x2 (fun '(aset, cs2) =>
        let '(st3, x3) := ri_by ByCoin false avail (sc_outputs sc) aset cs2 st2 in
        obind st3 x3 (fun '(aset3, cs3) => phase3 (S (length aset3)) avail aset3 cs3 st3))
    end.

  (* the offered UTxOs that can still be spent; the positions recorded in st_trace refer to this list *)
  Definition effective_offered (offered : list utxo) (sc : scenario) : list utxo :=
    if v_skip_present v then filter_offered (imap_ids (initial_map sc)) offered else offered.

  (* every asset of the target has to be covered by input_total *)
  Definition asset_guard (st : sel_state) : bool :=
    match multiasset_of (st_out st) with
    | None => true
    | Some m => forallb (fun e => match e with (p, n, q) => q <=? qty (st_in st) p n end) (ma_entries m)
    end.

  Definition add_inputs_from (strat : strategy) (cs : list N) (offered : list utxo) (sc : scenario)
    : sel_state * outcome unit :=
    let '(st0, x0) := initial_state sc in
    obind st0 x0 (fun _ =>
    let '(avail, (st1, x1)) := prestep (effective_offered offered sc) st0 in
    obind st1 x1 (fun _ =>
    let '(st2, x2) := run_strategy strat cs avail sc st1 in
    obind st2 x2 (fun _ =>
    if v_asset_guard v && negb (asset_guard st2) then (st2, Insufficient) else (st2, Done tt)))).
End Model.

(* the code before the repairs of this property, and the code as it is now *)
Definition legacy : variant := mkVariant false false false false false false.
Definition current : variant := mkVariant true true true true true true.

(* fee_request (TxBuilderFee) and the two public fee functions in terms of the builder's raw estimate
   [raw field m] = private min_fee(tx_builder) of the builder holding the inputs m whose fee field holds [field]
   (tx_builder.rs: set_final_fee, TxBuilderFee::get_new_fee, TransactionBuilder::min_fee, fee_for_input) *)
Inductive fee_request : Type := Unspecified | NotLess (f : N) | Exactly (f : N).
Definition final_fee (req : fee_request) (x : N) : N :=
  match req with Exactly e => e | NotLess n => if n <=? x then x else n | Unspecified => x end.
Definition get_new_fee (req : fee_request) (x : N) : N :=
  match req with Exactly e => e | NotLess n => if x <? n then n else x | Unspecified => x end.

Section FeeModel.
  Variable raw : N -> imap -> result N.
  Variable req : fee_request.
  (* TransactionBuilder::min_fee: placeholder 2^32 *)
  Definition min_fee_of (m : imap) : result N :=
    let* r := raw (final_fee req two32) m in Ok (get_new_fee req r).
  (* fee_for_input with fee placeholder [ph]: 2^32 since /repo d980bbe, 0 before *)
  Definition fee_for_input_of (ph : N) (m : imap) (u : utxo) : result N :=
    let* a := raw (final_fee req ph) m in
    if u_ok u then
      let* b := raw (final_fee req ph) (imap_insert (norm_utxo u) m) in
      if get_new_fee req a <=? get_new_fee req b then Ok (get_new_fee req b - get_new_fee req a) else Err
    else Err.
End FeeModel.
