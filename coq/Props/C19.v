(* C19 — Collateral return and total collateral are consistent and sufficient.
   Only statements here; each is closed by a lemma of Collateral/CollateralProofs.v.
   Model: Collateral/Collateral.v (TransactionBuilder set_collateral, set_collateral_return(_and_total),
   set_total_collateral(_and_return), remove_*, add_inputs_from_and_change_with_collateral_return, fields 13/16/17 of
   build()), over Num/Value.v (Value::checked_add / checked_sub as of /repo 34fa344).
   Quantifiers are unbounded: all builder states / all histories of the nine operations, all collateral input sets with
   arbitrary asset bundles, all return outputs, totals, percentages, balancing outcomes, fees, and every min-ADA function
   (min_ada_for_output is an oracle: [min_ada]).  The only premise on values is [value_sorted] (map keys strictly
   increasing: what BTreeMap gives to every Value built through the API).
   spec_holds b  :=  b_total b = Some t  /\  sum of lovelace of the collateral UTxOs = lovelace of the return + t
                     /\ forall asset, sum of its quantities over the collateral UTxOs = its quantity in the return
                     /\ the return output (when present) has coin >= min_ada of it. *)
From CSL Require Import Base.Prelude Num.Value Collateral.ValueLemmas Collateral.Collateral Collateral.CollateralProofs.
Local Open Scope N_scope.

(* explicit return output: total := inputs - return; on success the whole statement holds, the given output is stored,
   nothing else changes; from ANY prior state (whatever was stored in the fields before) *)
Theorem C19_return_then_total : forall (min_ada : output -> result N) (ret : output) (b b' : builder),
  col_sorted (b_collateral b) -> value_sorted (o_amount ret) = true ->
  set_collateral_return_and_total min_ada ret b = Ok b' ->
  spec_holds min_ada b' /\
  b_return b' = Some ret /\ b_collateral b' = b_collateral b /\ b_fee b' = b_fee b /\ b_collateral b <> [] /\
  exists s, total_value (b_collateral b) = Ok s /\ b_total b' = Some (coin s - coin (o_amount ret)).
Proof. exact return_then_total_ok. Qed.
Print Assumptions C19_return_then_total.

(* ... and conversely: a return output that takes every asset of the inputs (and nothing else), no more lovelace than
   they hold and at least its min ADA is accepted (total pure lovelace <=> all assets returned) *)
Theorem C19_return_then_total_complete : forall (min_ada : output -> result N) (ret : output) (b : builder) (s : value) (m : N),
  col_sorted (b_collateral b) -> value_sorted (o_amount ret) = true ->
  b_collateral b <> [] -> total_value (b_collateral b) = Ok s -> value_normal s = true ->
  coin (o_amount ret) <= coin s -> (forall p n, qty s p n = qty (o_amount ret) p n) ->
  min_ada ret = Ok m -> m <= coin (o_amount ret) ->
  exists b', set_collateral_return_and_total min_ada ret b = Ok b'.
Proof. exact return_then_total_complete. Qed.
Print Assumptions C19_return_then_total_complete.

(* explicit total: return := inputs - total (all assets, the remaining lovelace) to the given address, >= its min ADA;
   when nothing remains no return is stored (a return stored earlier is cleared: /repo 4639f73) *)
Theorem C19_total_then_return : forall (min_ada : output -> result N) (t : N) (addr : bytes) (b b' : builder),
  col_sorted (b_collateral b) ->
  set_total_collateral_and_return min_ada t addr b = Ok b' ->
  spec_holds min_ada b' /\
  b_total b' = Some t /\ b_collateral b' = b_collateral b /\ b_fee b' = b_fee b /\ b_collateral b <> [] /\
  exists s, total_value (b_collateral b) = Ok s /\ t <= coin s /\
    b_return b' = if is_some (multiasset_of s) || (0 <? coin s - t)
                  then Some (output_new addr (mkValue (coin s - t) (multiasset_of s))) else None.
Proof. intros m t a b b' Hc H. exact (total_then_return_ok m _ t a b b' Hc (or_introl eq_refl) H). Qed.
Print Assumptions C19_total_then_return.

(* the percentage helper: on success the whole statement holds and total = floor(fee*pct/100) + 1 >= ceil(fee*pct/100),
   for the fee the balancing step left in the builder, whatever that step did otherwise *)
Theorem C19_percentage : forall (min_ada : output -> result N) (pct : N) (addr : bytes) (bal_ok : bool) (fee_after : option N)
                                (b b' : builder),
  col_sorted (b_collateral b) ->
  percent_helper min_ada pct addr bal_ok fee_after b = (true, b') ->
  spec_holds min_ada b' /\ b_collateral b' = b_collateral b /\ bal_ok = true /\
  (exists fee, fee_after = Some fee /\ b_fee b' = Some fee /\ fee * pct < two64 /\
               b_total b' = Some (fee * pct / 100 + 1) /\ spec_percent fee pct (fee * pct / 100 + 1)) /\
  exists s, total_value (b_collateral b) = Ok s /\
    b_return b' = if is_some (multiasset_of s) || (0 <? coin s - f_required fee_after pct)
                  then Some (output_new addr (mkValue (coin s - f_required fee_after pct) (multiasset_of s))) else None.
Proof. intros m pct a ok f b b' Hc H. exact (percent_ok m _ pct a ok f b b' Hc H). Qed.
Print Assumptions C19_percentage.

(* a failed attempt of the percentage helper leaves NEITHER field set (also what an earlier call had stored), on every
   failure path (sum overflow: /repo 028a7f1; balancing; fee; fee*pct overflow; total > inputs; return below min ADA);
   a failing explicit helper changes nothing at all *)
Theorem C19_failure_leaves_unset : forall (min_ada : output -> result N),
  (forall pct addr bal_ok fee_after b b',
     percent_helper min_ada pct addr bal_ok fee_after b = (false, b') ->
     b_return b' = None /\ b_total b' = None /\ b_collateral b' = b_collateral b) /\
  (forall o b, (match o with OpReturnAndTotal _ | OpTotalAndReturn _ _ => True | _ => False end) ->
     fst (step min_ada o b) = false -> snd (step min_ada o b) = b).
Proof.
  intro m. split.
  - intros pct a ok f b b' H. exact (percent_failure_unset m _ pct a ok f b b' H).
  - intros o b Ho H. exact (explicit_failure_unchanged m _ _ o b Ho H).
Qed.
Print Assumptions C19_failure_leaves_unset.

(* histories: whenever fields 16/17 were last written by a successful helper (provenance not Free) and set_collateral
   has not replaced the inputs since (not the known class Stale), the builder — hence the body — satisfies the statement;
   in particular in both orders of helper vs. balancing, and whatever was set, removed or failed before *)
Theorem C19_history : forall (min_ada : output -> result N) (h : list op) (b : builder) (p : prov),
  Forall op_wf h -> run_prov min_ada h builder_new Free = (b, p) ->
  p <> Free -> known_stale p = false -> spec_holds min_ada b.
Proof. exact history_governed. Qed.
Print Assumptions C19_history.

(* balancing (add_change_if_needed / set_fee) never changes fields 13/16/17 *)
Theorem C19_balancing_keeps_fields : forall (min_ada : output -> result N) (f : option N) (b : builder),
  build_fields (snd (step min_ada (OpBalance f) b)) = build_fields b /\
  (spec_holds min_ada (snd (step min_ada (OpBalance f) b)) <-> spec_holds min_ada b).
Proof. intros m f b. exact (balance_keeps_fields m _ _ f b). Qed.
Print Assumptions C19_balancing_keeps_fields.

(* the known class is real: helper, then set_collateral with other inputs -> the stored figures are stale *)
Theorem C19_stale_refuted :
  exists (min_ada : output -> result N) (h : list op),
    Forall op_wf h /\ snd (run_prov min_ada h builder_new Free) = Stale /\
    ~ spec_holds min_ada (fst (run_prov min_ada h builder_new Free)).
Proof. exists w_min_ada, w_stale. exact stale_refuted. Qed.
Print Assumptions C19_stale_refuted.

(* the two repaired defects, as refutations of the legacy variants of the model *)
Theorem C19_legacy_stale_return_refuted :
  exists (min_ada : output -> result N) (h : list op),
    Forall op_wf h /\ snd (run_prov_gen min_ada true false h builder_new Free) = Governed /\
    ~ spec_holds min_ada (fst (run_prov_gen min_ada true false h builder_new Free)).
Proof. exists w_min_ada, w_legacy_return. exact legacy_stale_return_refuted. Qed.
Print Assumptions C19_legacy_stale_return_refuted.

Theorem C19_legacy_early_failure_refuted :
  exists (min_ada : output -> result N) pct addr fee b b',
    percent_helper_gen min_ada false true pct addr true (Some fee) b = (false, b') /\ b_total b' <> None /\ b_return b' <> None.
Proof.
  destruct legacy_early_failure_refuted as (b' & H).
  exists w_min_ada, 150, (w_addr 6), 170000, w_early_state, b'. exact H.
Qed.
Print Assumptions C19_legacy_early_failure_refuted.

(* the executable judge used in the correspondence run decides the statement (sound always; complete whenever the plain sums
   of the inputs fit in 64 bits, which every helper-written state satisfies) *)
Theorem C19_judge_decides_spec : forall (min_ada : output -> result N) (ins : list value) (r : option output) (t : option N),
  vals_sorted ins -> value_sorted (return_value r) = true ->
  (spec_holdsb min_ada ins r t = true ->
     exists t', t = Some t' /\ spec_consistent ins r t' /\ spec_min_ada min_ada r) /\
  (forall s t', sum_values value_zero ins = Ok s -> t = Some t' -> spec_consistent ins r t' -> spec_min_ada min_ada r ->
     spec_holdsb min_ada ins r t = true).
Proof. exact judge_decides_spec. Qed.
Print Assumptions C19_judge_decides_spec.

(* ... and never rejects the model's own observations of any history (verdicts: holds, na, or the known class) *)
Theorem C19_judge_accepts_model : forall (min_ada : output -> result N) (h : list op),
  Forall op_wf h -> judge min_ada h (model_obs min_ada h builder_new) <> FailsUnknown.
Proof. exact judge_accepts_model. Qed.
Print Assumptions C19_judge_accepts_model.

(* non-vacuity: a history with native assets in which all three helpers succeed *)
Check good_history_governed.
