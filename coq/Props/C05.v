(* C05 — built transactions conserve value exactly.  Pinned statements only (proofs: Builder/*Proofs.v). *)
From CSL Require Import Base.Prelude Base.U64 Num.Value Deposits.Deposits Builder.Totals Builder.TotalsProofs
  Builder.Change Builder.ChangeProofs Builder.Scenario Builder.ScenarioProofs Builder.MoreEntry Builder.MoreEntryProofs Builder.TerminationProofs Builder.DirectionProofs Builder.TxReader Builder.TxReaderExamples Builder.GivenValues.
From CSL Require Import Num.ValueNorm Num.ValueNormProofs.
From CSL Require Collateral.Collateral.
From Coq Require Import Permutation.
Local Open Scope N_scope.

(* the specification the theorems speak about (Builder/Totals.v): the ledger's consumed = produced *)
Check (eq_refl : ledger_balanced = fun (pool_deposit key_deposit : N) (b : tx_body) =>
  sum_coin (map snd (b_inputs b)) + sumN (map snd (b_withdrawals b)) + spec_cert_refunds key_deposit (b_certs b)
  = sum_coin (map o_amount (b_outputs b)) + b_fee b + spec_cert_deposits pool_deposit key_deposit (b_certs b)
    + sumN (b_proposals b) + b_donation b
  /\ forall p n,
      sum_qty (map snd (b_inputs b)) p n + mint_pos (b_mint b) p n
      = sum_qty (map o_amount (b_outputs b)) p n + mint_neg (b_mint b) p n).

(* the final equality check of the builder implies the ledger rule on the body it is about to release *)
Theorem C05_accounting : forall s : state,
  state_wf s -> validate_balance s = Ok tt ->
  ledger_balanced (c_pool_deposit (s_cfg s)) (c_key_deposit (s_cfg s)) (body_of s).
Proof. exact accounting. Qed.
Print Assumptions C05_accounting.

(* add_change_if_needed*, every branch, every fee policy, ANY size/fee oracle: success leaves a balanced builder *)
Theorem C05_change_balances : forall (O : Type) (orc : @oracle O), oracle_u64 orc ->
  forall (fuel : nat) (addr extra : N) (st : state) (o : O) (b : bool),
  state_wf st -> out_res (add_change orc fuel addr extra st o) = Ok b ->
  state_wf (out_st (add_change orc fuel addr extra st o)) /\
  ledger_balanced (c_pool_deposit (s_cfg st)) (c_key_deposit (s_cfg st))
                  (body_of (out_st (add_change orc fuel addr extra st o))).
Proof. exact (@change_balances). Qed.
Print Assumptions C05_change_balances.

(* add_inputs_from_and_change: whatever inputs the selection (an oracle answer) added, and through the retry loop *)
Theorem C05_select_and_change : forall (O : Type) (orc : @oracle O), oracle_u64 orc ->
  forall (fuel : nat) (utxos : list (N * value)) (addr extra : N) (st : state) (o : O) (b : bool),
  state_wf st -> utxos_wf utxos ->
  out_res (add_inputs_from_and_change orc fuel utxos addr extra st o) = Ok b ->
  state_wf (out_st (add_inputs_from_and_change orc fuel utxos addr extra st o)) /\
  ledger_balanced (c_pool_deposit (s_cfg st)) (c_key_deposit (s_cfg st))
                  (body_of (out_st (add_inputs_from_and_change orc fuel utxos addr extra st o))).
Proof. exact (@select_and_change). Qed.
Print Assumptions C05_select_and_change.

(* build_tx: a released transaction body satisfies the ledger rule *)
Theorem C05_balance : forall (O : Type) (orc : @oracle O), oracle_u64 orc ->
  forall (st : state) (o : O) (tx : tx_body),
  state_wf st -> out_res (build_tx orc st o) = Ok tx ->
  ledger_balanced (c_pool_deposit (s_cfg st)) (c_key_deposit (s_cfg st)) tx.
Proof. exact (@build_tx_ok). Qed.
Print Assumptions C05_balance.

(* a failing add_change (which may already have added outputs) leaves a well-formed builder with the same parameters *)
Theorem C05_failure_keeps_wf : forall (O : Type) (orc : @oracle O), oracle_u64 orc ->
  forall (fuel : nat) (addr extra : N) (st : state) (o : O),
  state_wf st ->
  state_wf (out_st (add_change orc fuel addr extra st o)) /\
  s_cfg (out_st (add_change orc fuel addr extra st o)) = s_cfg st.
Proof. exact (@change_keeps_wf). Qed.
Print Assumptions C05_failure_keeps_wf.

(* histories: every list of builder operations, in every order, with every recorded oracle tape *)
Theorem C05_histories : forall (utxos : list (N * value)) (cfg : config) (l : list (op * tape_state))
  (rs : list opres) (s : state) (body : tx_body),
  utxos_wf utxos -> Forall op_wf (map fst l) ->
  run_ops utxos l (new_state cfg) = (rs, s, Some body) ->
  ledger_balanced (c_pool_deposit cfg) (c_key_deposit cfg) body.
Proof. exact histories_balanced. Qed.
Print Assumptions C05_histories.

(* inside a history: every balancing operation that reports success leaves a balanced builder *)
Theorem C05_history_change : forall (utxos : list (N * value)) (cfg : config) (x : op) (s : state) (o : tape_state) (v : bool),
  utxos_wf utxos -> WF cfg s -> op_wf x ->
  fst (fst (run_op utxos x s o)) = RBool v ->
  ledger_balanced (c_pool_deposit cfg) (c_key_deposit cfg) (body_of (snd (fst (run_op utxos x s o)))).
Proof. exact history_change. Qed.
Print Assumptions C05_history_change.

(* ---- phase 2: the remaining entry points ---- *)

(* add_inputs_from_and_change_with_collateral_return (joint model: builder state x collateral state, any oracles) *)
Theorem C05_collateral_entry : forall (O : Type) (orc : @oracle O), oracle_u64 orc ->
  forall (ask_col : Collateral.output -> O -> result N * O)
         (fuel : nat) (utxos : list (N * value)) (addr extra : N) (addr_b : bytes) (pct : N)
         (s : state) (c : colstate) (o : O),
  state_wf s -> utxos_wf utxos ->
  jo_res (percent_entry orc ask_col fuel utxos addr extra addr_b pct s c o) = Ok tt ->
  state_wf (jo_st (percent_entry orc ask_col fuel utxos addr extra addr_b pct s c o)) /\
  ledger_balanced (c_pool_deposit (s_cfg s)) (c_key_deposit (s_cfg s))
                  (body_of (jo_st (percent_entry orc ask_col fuel utxos addr extra addr_b pct s c o))).
Proof. exact (@percent_entry_balanced). Qed.
Print Assumptions C05_collateral_entry.

(* its collateral side is C19's percent_helper, run with the balancing outcome that the C05 model computes (not given) and
   the min-ADA function read off the oracle: C19's theorems about fields 13/16/17 apply to the joint model *)
Theorem C05_collateral_is_c19 : forall (O : Type) (orc : @oracle O)
  (ask_col : Collateral.output -> O -> result N * O)
  (fuel : nat) (utxos : list (N * value)) (addr extra : N) (addr_b : bytes) (pct : N) (s : state) (c : colstate) (o : O),
  let bal := add_inputs_from_and_change orc fuel utxos addr extra s o in
  let r := percent_entry orc ask_col fuel utxos addr extra addr_b pct s c o in
  (out_res bal <> Panic /\ out_res bal <> OutOfFuel) ->
  let h := Collateral.percent_helper (fun out => fst (ask_col out (out_orc bal))) pct addr_b
             (is_ok (out_res bal)) (get_fee_if_set (out_st bal)) (to_c19 s c) in
  (match Collateral.total_value (cs_inputs c) with Ok _ => to_c19 (jo_st r) (jo_col r) = snd h | _ => jo_col r = clear_col c end) /\
  (fst h = true <-> jo_res r = Ok tt).
Proof. exact (@percent_entry_is_c19). Qed.
Print Assumptions C05_collateral_is_c19.

(* histories over the extended operation set: + set_collateral, the collateral entry point, add_mint_asset_and_output,
   add_mint_asset_and_output_min_required_coin, add_mint_asset, set_mint, set_certs, set_withdrawals *)
Theorem C05_histories2 : forall (utxos : list (N * value)) (cfg : config) (l : list (op2 * tape_state))
  (rs : list opres) (s : state) (c : colstate) (body : tx_body),
  utxos_wf utxos -> Forall op2_wf (map fst l) ->
  run_ops2 utxos l (new_state cfg) col_new = (rs, s, c, Some body) ->
  ledger_balanced (c_pool_deposit cfg) (c_key_deposit cfg) body.
Proof. exact histories2_balanced. Qed.
Print Assumptions C05_histories2.

Theorem C05_history2_balancing : forall (utxos : list (N * value)) (cfg : config) (x : op2) (s : state) (c : colstate) (o : tape_state),
  utxos_wf utxos -> WF cfg s -> op2_wf x ->
  (exists v, fst (fst (fst (run_op2 utxos x s c o))) = RBool v) \/
  ((exists avail addr extra addr_b pct, x = OpPercent avail addr extra addr_b pct) /\ fst (fst (fst (run_op2 utxos x s c o))) = ROk) ->
  ledger_balanced (c_pool_deposit cfg) (c_key_deposit cfg) (body_of (snd (fst (fst (run_op2 utxos x s c o))))).
Proof. exact history2_balancing. Qed.
Print Assumptions C05_history2_balancing.

(* change only goes to the change address (finding C05-zero-quantity-change, /repo 5207e1d): a successful add_change
   appends outputs at (change address, requested datum/script) and leaves every earlier output untouched *)
Theorem C05_change_goes_to_change_address : forall (O : Type) (orc : @oracle O), oracle_u64 orc ->
  forall (fuel : nat) (addr extra : N) (st : state) (o : O) (b : bool),
  state_wf st -> out_res (add_change orc fuel addr extra st o) = Ok b ->
  exists l, s_outputs (out_st (add_change orc fuel addr extra st o)) = s_outputs st ++ l /\
            Forall (fun x => o_addr x = addr /\ o_extra x = extra) l.
Proof. exact (@add_change_direction). Qed.
Print Assumptions C05_change_goes_to_change_address.

(* termination of the repaired change loop (finding C05-change-loop-progress, /repo f596a0b): with fuel above the total
   asset quantity of change_left the model's loop never returns OutOfFuel, for any packing, prices and oracle *)
Theorem C05_change_loop_terminates : forall (O : Type) (orc : @oracle O), oracle_u64 orc -> oracle_answers orc ->
  forall (cfg0 : config) (addr extra : N) (fuel : nat) (cl : value) (nf : N) (s : state) (o : O),
  WF cfg0 s -> value_wf cl -> ksum (value_keys cl) cl < N.of_nat fuel ->
  out_res (change_while_loop orc fuel addr extra cl nf s o) <> OutOfFuel.
Proof. exact (@change_loop_fuel_bound). Qed.
Print Assumptions C05_change_loop_terminates.

Theorem C05_recorded_oracle_answers : oracle_answers tape_oracle.
Proof. exact tape_oracle_answers. Qed.
Print Assumptions C05_recorded_oracle_answers.

(* the normaliser applied to every input amount (Value::without_empty_entries, /repo bb8d7fa) changes no quantity: what the
   builder stores denotes the value it was given.  (The seeded change C05-m7 - dropping a whole policy that holds one
   zero quantity - violates exactly this.) *)
Theorem C05_normaliser_keeps_quantities : forall v : value, value_wf v ->
  coin (value_without_empty_entries v) = coin v /\
  forall p n, qty (value_without_empty_entries v) p n = qty v p n.
Proof. exact value_without_empty_entries_sem. Qed.
Print Assumptions C05_normaliser_keeps_quantities.

(* hence the ledger rule on a body reads the same with the amounts as stored and with the amounts as given (the UTxO values) *)
Theorem C05_balanced_for_given_amounts : forall (pd kd : N) (given : list (N * value)) (b : tx_body),
  Forall (fun e : N * value => value_wf (snd e)) given ->
  (ledger_balanced pd kd (with_inputs (stored given) b) <-> ledger_balanced pd kd (with_inputs given b)).
Proof. exact ledger_balanced_given. Qed.
Print Assumptions C05_balanced_for_given_amounts.

(* the rule does not depend on the order of inputs, outputs, certificates, withdrawals, proposals *)
Theorem C05_order : forall (pd kd : N) (b b' : tx_body),
  Permutation (b_inputs b) (b_inputs b') -> Permutation (b_outputs b) (b_outputs b') ->
  Permutation (b_certs b) (b_certs b') -> Permutation (b_withdrawals b) (b_withdrawals b') ->
  Permutation (b_proposals b) (b_proposals b') ->
  b_fee b = b_fee b' -> b_mint b = b_mint b' -> b_donation b = b_donation b' ->
  ledger_balanced pd kd b -> ledger_balanced pd kd b'.
Proof. exact ledger_balanced_order. Qed.
Print Assumptions C05_order.

(* the judge's executable test (run on the implementation's transaction) decides the rule *)
Theorem C05_judge_decides : forall (pd kd : N) (b : tx_body),
  ledger_balancedb pd kd b = true <-> ledger_balanced pd kd b.
Proof. exact ledger_balancedb_iff. Qed.
Print Assumptions C05_judge_decides.

(* the recorded-answer oracle of the correspondence run meets the typing premise, whatever was recorded *)
Theorem C05_recorded_oracle_ok : oracle_u64 tape_oracle.
Proof. exact tape_oracle_u64. Qed.
Print Assumptions C05_recorded_oracle_ok.

(* finding C05-mint-min-int (fixed in /repo 0175f0b): with a mint quantity of -2^64 the builder's own balance test
   passes on a body that violates the rule; such a state is outside state_wf and MintBuilder now rejects it *)
Theorem C05_mint_min_int_refuted :
  validate_balance witness_state = Ok tt /\
  ~ ledger_balanced 500000000 2000000 (body_of witness_state) /\
  known_mint_min witness_state = true /\ state_wfb witness_state = false.
Proof. exact mint_min_int_refutes_accounting. Qed.
Print Assumptions C05_mint_min_int_refuted.

(* non-vacuity: a concrete history (two inputs with assets, an output, certificates with deposit and refund, a burn, a
   donation, change split into an asset output and a pure-ADA output, build) runs through and is balanced *)
Check scenario_example.
Check scenario_example_premises.
Check scenario2_example.
Check scenario2_example_premises.
(* the judge's independent CBOR reader (Builder/TxReader.v) on a transaction built by the implementation, and on the wire forms of values, outputs, certificates and mint *)
Check read_tx_example.
Check judge_bytes_example.
Check read_value_example.
Check read_output_example.
Check read_cert_example.
Check read_mint_example.
