(* C02 - Parsers are total: malformed input yields an error, never a panic; what an accepted input re-serialises
   to is well-formed CBOR.

   PARTIAL BY NATURE.  Coq cannot observe a Rust panic, abort or hang.  Pinned here are
     (a) totality of the MODELS, in which every partial operation of the Rust code (index, slice, unwrap, assert,
         i64 negation, todo!, allocation of a declared length) is an explicit Panic result and every loop carries
         explicit fuel: for ALL inputs the outcome is a value or an error value;
     (b) well-formedness (for the independent parser of Cbor/Item.v) of everything the model writer emits;
     (c) for every panic the code had before its repair, a witness on the model of the old code; for the one that
         remains (allocation of a declared length inside the cbor_event dependency) a witness on the model of the
         current code, i.e. the refutation of the full-strength statement.
   The runtime clause for the compiled code is decided by observation in the correspondence run (checks/C02.py). *)
From CSL Require Import Base.Prelude Base.Hex Cbor.Head Cbor.Item Codec.Schema Codec.SchemaProofs Ledger.Schemas Ledger.SchemasProofs
  Total.Partial Total.Decoders Total.SchemaTotal Total.TotalProofs Total.ItemLink Total.ReserialiseFull Total.Lax Total.LaxProofs.

Local Notation never_panics r := (r <> Panic /\ r <> OutOfFuel).

(* every ledger type that has a schema: the C01 table and its extension (63 further types) *)
Definition ledger_type (d : nat) (s : schema) : Prop := In s (ledger_schemas d) \/ In s (ledger_schemas_more d).
Lemma ledger_type_wf d s : ledger_type d s -> wfs s = true.
Proof.
  intros [H|H]; [exact (proj1 (Forall_forall _ _) (ledger_schemas_wf d) s H)|exact (proj1 (Forall_forall _ _) (ledger_schemas_more_wf d) s H)].
Qed.

(* ---- schema layer: ONE theorem for every schema (well-formed or not) and every byte string ---- *)
Theorem C02_model_total : forall (s : schema) (bs : bytes), never_panics (dec s bs).
Proof. exact schema_dec_total. Qed.
Print Assumptions C02_model_total.

Theorem C02_ledger_total : forall d s, ledger_type d s -> forall bs : bytes, never_panics (dec s bs).
Proof. intros d s _ bs. apply schema_dec_total. Qed.
Print Assumptions C02_ledger_total.

(* the writer image is well-formed CBOR: for every well-formed schema and every schema-valid value *)
Theorem C02_reserialise_wf : forall s v, wfs s = true -> wfv s v = true -> item_wf (enc s v) = true.
Proof. exact schema_enc_item_wf. Qed.
Print Assumptions C02_reserialise_wf.

(* ... and so is the re-serialisation of what the decoder returns for ANY accepted input (non-minimal heads, unsorted or
   duplicate keys, any chunking, anything behind the item), for every ledger type; premises: the input is made of
   bytes and is shorter than 2^60 bytes *)
Theorem C02_reserialise_full : forall d s, ledger_type d s ->
  forall bs v rest, bytes_ok bs -> (N.of_nat (length bs) < 1152921504606846976)%N -> dec s bs = Ok (v, rest) ->
  item_wf (enc s v) = true.
Proof.
  intros d s Hin bs v rest Hb Hl H. apply (schema_reserialise_full s bs v rest); [|exact Hb|exact Hl|exact H].
  exact (ledger_type_wf d s Hin).
Qed.
Print Assumptions C02_reserialise_full.

(* the instance on writer output followed by anything (no length premise needed: the round-trip theorem gives v' = v) *)
Theorem C02_reserialise_after_decode_wf : forall d s, ledger_type d s ->
  forall v rest v' rest', wfv s v = true -> dec s (enc s v ++ rest) = Ok (v', rest') -> item_wf (enc s v') = true.
Proof.
  intros d s Hin v rest v' rest' Hv H. apply (schema_reserialise_wf s v rest v' rest'); [|exact Hv|exact H].
  exact (ledger_type_wf d s Hin).
Qed.
Print Assumptions C02_reserialise_after_decode_wf.

(* ---- the lenient acceptor (Total/Lax.v) used for the error predictions of the correspondence run: it accepts whatever
   the strict decoder accepts, leaving the same rest (lower half of the sandwich  dec => library => acc) ---- *)
Theorem C02_lenient_covers_strict : forall s bs v rest, wfs s = true -> dec s bs = Ok (v, rest) -> acc s bs = Some rest.
Proof. intros s bs v rest Hs H. exact (dec_accepts_acc_accepts s bs v rest Hs H). Qed.
Print Assumptions C02_lenient_covers_strict.

(* the strict decoder never returns more bytes than it was given (every schema, every input) *)
Theorem C02_decoder_consumes : forall s bs v rest, dec s bs = Ok (v, rest) -> (length rest <= length bs)%nat.
Proof. exact dec_shorter. Qed.
Print Assumptions C02_decoder_consumes.

(* ---- hand-written decoders (repaired code), allocator that never refuses ---- *)
Theorem C02_address_total : forall ignore_leftover data,
  never_panics (addr_from_bytes None false ignore_leftover data) /\ never_panics (address_from_bytes None false data).
Proof. intros i d. split; apply normal_iff; [apply addr_from_bytes_normal|apply address_from_bytes_normal]. Qed.
Print Assumptions C02_address_total.

Theorem C02_byron_total : forall bs, never_panics (byron_from_bytes None false bs).
Proof. intros bs. apply normal_iff, byron_from_bytes_normal. Qed.
Print Assumptions C02_byron_total.

(* the third element of a legacy output, and the whole array form with the schema decoder of Value for the amount *)
Theorem C02_third_element_total : forall bs,
  never_panics (third_element None false bs) /\ never_panics (legacy_output None (dec Value) false bs).
Proof.
  intros bs. split; apply normal_iff; [apply third_element_normal|].
  apply legacy_output_normal. intros b. apply schema_dec_normal.
Qed.
Print Assumptions C02_third_element_total.

Theorem C02_bounded_bytes_total : forall bs, never_panics (read_bounded_bytes None bs).
Proof. intros bs. apply normal_iff, read_bounded_bytes_normal. Qed.
Print Assumptions C02_bounded_bytes_total.

(* from_hex of every schema type: non-hex text is an error *)
Theorem C02_from_hex_total : forall (s : schema) (text : list N), never_panics (from_hex_with false (dec s) text).
Proof. intros s t. apply normal_iff, from_hex_normal. intros bs. apply schema_dec_normal. Qed.
Print Assumptions C02_from_hex_total.

Theorem C02_hash_total : forall size bs u5,
  never_panics (hash_from_bytes size bs) /\ never_panics (hash_from_bech32 false size u5).
Proof. intros. split; apply normal_iff; [apply hash_from_bytes_normal|apply hash_from_bech32_normal]. Qed.
Print Assumptions C02_hash_total.

Theorem C02_xprv_total : forall bs, never_panics (from_128_xprv false bs).
Proof. intros bs. apply normal_iff, from_128_xprv_normal. Qed.
Print Assumptions C02_xprv_total.

(* the repaired negative-integer writer never panics and emits the CBOR integer on the whole CBOR int range;
   the old one panicked exactly at -2^63 and agreed with the repaired one everywhere else *)
Theorem C02_nint_writer_total : forall x,
  never_panics (int_to_bytes false x) /\
  ((- 18446744073709551616 <= x < 18446744073709551616)%Z -> int_to_bytes false x = Ok (int_cbor x)) /\
  ((- 18446744073709551616 <= x < 0)%Z -> (write_nint true x = Panic <-> x = i64_min) /\
                                          (x <> i64_min -> write_nint true x = write_nint false x)).
Proof.
  intros x. split; [apply normal_iff, int_to_bytes_normal|]. split; [apply int_to_bytes_correct|].
  intros H. split; [apply write_nint_legacy_panics_iff, H|apply write_nint_legacy_agrees, H].
Qed.
Print Assumptions C02_nint_writer_total.

Theorem C02_json_number_total : forall x,
  never_panics (json_number_to_int false x) /\ (forall v, json_number_to_int false x = Ok v -> v = x) /\
  (json_number_to_int true x = Panic <-> x = i64_min).
Proof.
  intros x. split; [apply normal_iff, json_number_normal|]. split; [apply json_number_correct|apply json_number_legacy_panics_iff].
Qed.
Print Assumptions C02_json_number_total.

Theorem C02_emip3_total : forall data,
  never_panics (emip3_split false data) /\
  (forall s n t e, emip3_split false data = Ok (s, n, t, e) -> data = s ++ n ++ t ++ e).
Proof. intros d. split; [apply normal_iff, emip3_split_normal|apply emip3_split_parts]. Qed.
Print Assumptions C02_emip3_total.

Theorem C02_witness_special_total : forall definite bs, never_panics (wit_special false definite bs).
Proof. intros. apply normal_iff, wit_special_normal. Qed.
Print Assumptions C02_witness_special_total.

Theorem C02_native_script_schema_total : forall (node : bool) (wallet : result unit),
  never_panics wallet -> never_panics (native_script_schema false node wallet).
Proof. intros n w H. apply normal_iff, native_script_schema_normal, normal_iff, H. Qed.
Print Assumptions C02_native_script_schema_total.

(* ---- the code as it was: each repaired panic, on the faithful model of the old code ---- *)
Theorem C02_legacy_panics_refuted :
  addr_from_bytes None true false [] = Panic /\
  (exists p : bytes -> result unit, from_hex_with true p [122; 122]%N = Panic) /\
  byron_from_bytes None true [129; 0]%N = Panic /\
  third_element None true [88; 32; 1; 2; 3]%N = Panic /\
  from_128_xprv true [] = Panic /\
  int_to_bytes true i64_min = Panic /\
  hash_from_bech32 true 28 [31%N] = Panic /\
  json_number_to_int true i64_min = Panic /\
  wit_special true true [246%N] = Panic /\
  native_script_schema true true (Err : result unit) = Panic.
Proof. exact legacy_panics_refuted. Qed.
Print Assumptions C02_legacy_panics_refuted.

(* ---- the real allocator: the full-strength statement is false (known finding C02-huge-declared-length) ---- *)
Definition C02_decoders_full : Prop :=
  forall bs, byron_from_bytes real_alloc false bs <> Panic /\ third_element real_alloc false bs <> Panic /\
             read_bounded_bytes real_alloc bs <> Panic.
Theorem C02_huge_length_refuted : ~ C02_decoders_full.
Proof.
  intros H. destruct (H (91%N :: ff8)) as (_ & H2 & _). apply H2. exact (proj1 (proj2 (proj2 huge_length_refuted))).
Qed.
Print Assumptions C02_huge_length_refuted.

(* with the real allocator every decoder either behaves as its total version (allocator that never refuses) or
   panics: the allocation of a declared length is the ONLY panic left in the models of the current code
   ([refines r' r] := r' = r \/ r' = Panic) *)
Theorem C02_only_allocation_panics :
  (forall bs, refines (byron_from_bytes real_alloc false bs) (byron_from_bytes None false bs)) /\
  (forall ign bs, refines (addr_from_bytes real_alloc false ign bs) (addr_from_bytes None false ign bs)) /\
  (forall bs, refines (third_element real_alloc false bs) (third_element None false bs)) /\
  (forall V (dv : bytes -> result (V * bytes)) bs, refines (legacy_output real_alloc dv false bs) (legacy_output None dv false bs)) /\
  (forall bs, refines (read_bounded_bytes real_alloc bs) (read_bounded_bytes None bs)).
Proof. exact real_alloc_only_adds_panics. Qed.
Print Assumptions C02_only_allocation_panics.

(* with the real allocator, reading a byte string panics exactly when the declared length exceeds the limit *)
Theorem C02_alloc_only_panic : forall lim bs,
  ce_bytes (Some lim) bs = Panic <-> exists m n r, decode_head bs = Some (m, Arg n, r) /\ m = 2%N /\ (lim < n)%N.
Proof. exact ce_bytes_panic_iff. Qed.
Print Assumptions C02_alloc_only_panic.

(* ---- non-vacuity: the decoders accept real inputs, the premises are satisfiable ---- *)
Example C02_nonvacuous_address :
  address_from_bytes None false (97 :: repeat 7 28)%N = Ok (97 :: repeat 7 28)%N /\
  address_from_bytes None false (65 :: repeat 7 28 ++ [128; 5; 2; 3])%N = Ok (65 :: repeat 7 28 ++ [5; 2; 3])%N /\
  address_from_bytes None false [] = Err.
Proof. repeat split; vm_compute; reflexivity. Qed.

Example C02_nonvacuous_full :
  let bs := [130; 25; 0; 5; 24; 7]%N in      (* ProtocolVersion [5, 7] with 3-byte and 2-byte heads *)
  bytes_ok bs /\ dec ProtocolVersion bs = Ok (VList [VNat 5; VNat 7]%N, []) /\ enc ProtocolVersion (VList [VNat 5; VNat 7]%N) = [130; 5; 7]%N.
Proof. cbv zeta. split; [repeat constructor; lia|]. split; vm_compute; reflexivity. Qed.

Example C02_nonvacuous_reserialise :
  let v := VStruct [Some (VList [VList [VBytes (repeat 7%N 32); VNat 0%N]]); Some (VList []); Some (VNat 170000%N);
                    Some (VNat 5%N); None; None; None; None; None; None; None; None; None; None; None; None; None;
                    None; None; None; None] in
  wfv (TransactionBody 1) v = true /\ item_wf (enc (TransactionBody 1) v) = true /\
  item_wf [161; 0; 128]%N = true /\ item_wf [161]%N = false /\ item_wf [129; 255]%N = false.
Proof. cbv zeta. repeat split; vm_compute; reflexivity. Qed.
