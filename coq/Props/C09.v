(* C09 — Script-integrity and auxiliary-data hashes match what is emitted.
   Only statements here; each is closed by a lemma of ScriptData/ScriptDataProofs.v.
   Model: ScriptData/ScriptData.v + ScriptData/LangViews.v (utils.rs hash_script_data / hash_auxiliary_data,
   Costmdls::language_views_encoding / retain, PlutusList::to_set_bytes / serialize_as_set / deduplicated_clone,
   Redeemers::serialize, PlutusWitnesses::collect, TransactionBuilder::calc_script_data_hash / get_witness_set /
   build_tx / auxiliary-data setters, TransactionWitnessSet serializer, AuxiliaryData serializer).
   Spec: ScriptData/ScriptDataSpec.v (the ledger's script-integrity hash over the witness set actually emitted).
   Blake2b-256 is the universally quantified function [H]: no law about it is used, every statement is an
   equality of PREIMAGES (or of H applied to equal preimages).  All quantifiers are unbounded: arbitrary byte
   strings for scripts / datums / redeemer data, arbitrary identity classes, arbitrary cost-model tables,
   arbitrary histories of builder operations. *)
From CSL Require Import Base.Prelude Cbor.Head Cbor.Item ScriptData.LangViews ScriptData.ScriptData
  ScriptData.ScriptDataSpec ScriptData.ScriptDataProofs ScriptData.SlicesProofs ScriptData.Blake2bProofs
  ScriptData.SubBuilders ScriptData.SubBuildersProofs.
From CSL Require Pointers.Pointers.
Local Open Scope N_scope.

(* ---- the stand-alone helper -------------------------------------------------------------------------------- *)

(* hash_script_data(redeemers, cost_models, datums) hashes the ledger's preimage over the witness set emitted for
   the same redeemers and datums (field 5 as written or A0, field 4 as written or nothing, canonical language
   views of the languages in use: those of the table, none when there are no redeemers), for ALL redeemers (any
   container form), datums and cost models outside
     - helper_out_of_scope: neither redeemers nor datums (the ledger then has no script_data_hash to compare with),
     - the classes of the two repaired defects, needed only while the corresponding switch of ScriptData.v is `true`. *)
Theorem C09_preimage_spec : forall (r : redeemers) (cm : costmdls) (d : option plutus_list),
  helper_out_of_scope r d = false ->
  (set_len_counts_duplicates = true -> known_dup_definite d = false) ->
  (empty_datums_hashed = true -> known_empty_datums d = false) ->
  let fs := ws_fields (helper_witness_set r d) in
  script_data_preimage r cm d =
  ledger_preimage (assoc_field 5 fs) (assoc_field 4 fs) (spec_views (helper_langs r cm) cm).
Proof. exact preimage_spec. Qed.
Print Assumptions C09_preimage_spec.

(* the same for both values of both switches (the statement that survives a repair or a regression of the code) *)
Theorem C09_preimage_spec_gen : forall (count_dups empty_hashed : bool) (r : redeemers) (cm : costmdls) (d : option plutus_list),
  helper_out_of_scope r d = false ->
  (count_dups = true -> known_dup_definite d = false) ->
  (empty_hashed = true -> known_empty_datums d = false) ->
  let fs := ws_fields (helper_witness_set r d) in
  script_data_preimage_gen count_dups empty_hashed r cm d =
  ledger_preimage (assoc_field 5 fs) (assoc_field 4 fs) (spec_views (helper_langs r cm) cm).
Proof. exact preimage_spec_gen. Qed.
Print Assumptions C09_preimage_spec_gen.


(* the same with key / bootstrap witnesses in the witness set (fields 0 and 2 do not enter the hash) *)
Theorem C09_preimage_spec_with : forall (count_dups empty_hashed : bool) (vk bo : option bytes) (r : redeemers) (cm : costmdls)
    (d : option plutus_list),
  helper_out_of_scope r d = false ->
  (count_dups = true -> known_dup_definite d = false) ->
  (empty_hashed = true -> known_empty_datums d = false) ->
  let fs := ws_fields (helper_witness_set_with vk bo r d) in
  script_data_preimage_gen count_dups empty_hashed r cm d =
  ledger_preimage (assoc_field 5 fs) (assoc_field 4 fs) (spec_views (helper_langs r cm) cm).
Proof. exact preimage_spec_with. Qed.
Print Assumptions C09_preimage_spec_with.

(* the defects: with the header counting the un-deduplicated list / an empty datum list being hashed, the
   unrestricted statement is false (witnesses; they stay valid after the repair because they speak about `_gen true`) *)
Theorem C09_preimage_refuted_dup_length :
  let fs := ws_fields (helper_witness_set one_redeemer (Some dup_witness_list)) in
  helper_out_of_scope one_redeemer (Some dup_witness_list) = false /\
  script_data_preimage_gen true true one_redeemer cm_empty (Some dup_witness_list) <>
  ledger_preimage (assoc_field 5 fs) (assoc_field 4 fs) (spec_views (helper_langs one_redeemer cm_empty) cm_empty) /\
  serialize_as_set_gen true true dup_witness_list = [217; 1; 2; 130; 24; 42] /\
  assoc_field 4 fs = Some [217; 1; 2; 129; 24; 42].
Proof. exact preimage_refuted_dup_length. Qed.
Print Assumptions C09_preimage_refuted_dup_length.

Theorem C09_preimage_refuted_empty_datums :
  let d := Some pl_new in
  let fs := ws_fields (helper_witness_set one_redeemer d) in
  helper_out_of_scope one_redeemer d = false /\
  script_data_preimage_gen false true one_redeemer cm_empty d <>
  ledger_preimage (assoc_field 5 fs) (assoc_field 4 fs) (spec_views (helper_langs one_redeemer cm_empty) cm_empty) /\
  assoc_field 4 fs = None.
Proof. exact preimage_refuted_empty_datums. Qed.
Print Assumptions C09_preimage_refuted_empty_datums.

(* ---- language views ---------------------------------------------------------------------------------------- *)

(* keys are written in strictly increasing canonical order of their ENCODED form (shorter first, then bytewise):
   PlutusV2 (01), PlutusV3 (02), PlutusV1 (41 00 — the double-encoded key), and the whole encoding is the
   specification's map (V1: bytes of an indefinite list; V2/V3: definite list) *)
Theorem C09_views_canonical : forall cm : costmdls,
  strictly_sorted (map enc_view_key (sort_keys (cm_keys cm))) = true /\
  sort_keys (cm_keys cm) = filter (fun l => is_some (cm_get cm l)) canonical_langs /\
  language_views_encoding cm = spec_views (cm_keys cm) cm.
Proof. intros cm. split; [apply views_canonical|]. split; [apply sort_keys_canonical|apply views_model_spec]. Qed.
Print Assumptions C09_views_canonical.

(* only the languages in use: the table retained by calc_script_data_hash encodes to the views of exactly the
   used languages under the caller's (possibly larger) table *)
Theorem C09_views_only_used : forall (cm : costmdls) (used : list lang) (r : costmdls),
  retain_or_fail cm used cm_empty = Ok r ->
  language_views_encoding r = spec_views used cm /\
  strictly_sorted (map enc_view_key (langs_in_use used)) = true.
Proof.
  intros cm used r Hr. split; [|apply langs_in_use_canonical].
  apply views_retained.
  - intros l. rewrite (retain_or_fail_get _ _ _ _ Hr l). destruct l; reflexivity.
  - rewrite <- (retain_or_fail_ok_iff cm used cm_empty), Hr. reflexivity.
Qed.
Print Assumptions C09_views_only_used.

(* ---- the builder ------------------------------------------------------------------------------------------- *)

(* C09_same_bytes, state form: whenever the hash stored in the builder was computed by calc_script_data_hash(cm) on a
   state with the same script items (any state: any order of additions led to it), the script_data_hash of the body
   build_tx returns is the ledger's script-integrity hash of the witness set build_tx emits — the two collection
   paths (calc_script_data_hash / get_witness_set) and the two serialisation paths (to_set_bytes /
   serialize_as_set(false) on the de-duplicated clone) agree *)
Theorem C09_same_bytes : forall (H : bytes -> bytes) (b0 : builder) (cm : costmdls) (b1 b : builder) (t : tx),
  wf_builder b0 -> known_stale_lang b0 = false ->
  calc_script_data_hash H b0 cm = Ok b1 ->
  (has_script_items b0 = true \/ b_script_data_hash b0 = None \/ (calc_clears_own_hash = true /\ b_hash_calculated b0 = true)) ->
  script_view b = script_view b0 -> b_script_data_hash b = b_script_data_hash b1 ->
  build_tx H b = Ok t ->
  let fs := ws_fields (tx_witness_set t) in
  tx_script_data_hash t = ledger_script_integrity H (assoc_field 5 fs) (assoc_field 4 fs) (langs_used b) cm.
Proof. exact same_bytes. Qed.
Print Assumptions C09_same_bytes.

(* history form: EVERY sequence of builder operations starting from a new builder in which calc_script_data_hash(cm)
   came after the last operation touching a script item (and the hash was not replaced afterwards) *)
Theorem C09_same_bytes_history : forall (H : bytes -> bytes) (ops : list op) (cm : costmdls) (before : list op) (t : tx),
  last_calc_rev (rev ops) = Some (cm, before) ->
  let b0 := fst (run H builder_new (rev before)) in
  let b := fst (run H builder_new ops) in
  is_ok (calc_script_data_hash H b0 cm) = true ->
  has_script_items b0 || is_none (b_script_data_hash b0) || (calc_clears_own_hash && b_hash_calculated b0) = true ->
  known_stale_lang b0 = false ->
  build_tx H b = Ok t ->
  let fs := ws_fields (tx_witness_set t) in
  tx_script_data_hash t = ledger_script_integrity H (assoc_field 5 fs) (assoc_field 4 fs) (langs_used b) cm.
Proof. exact same_bytes_history. Qed.
Print Assumptions C09_same_bytes_history.

(* the preimage itself (not only its hash) is the ledger's *)
Theorem C09_calc_preimage : forall (H : bytes -> bytes) (b : builder) (cm : costmdls) (pre : bytes),
  wf_builder b -> known_stale_lang b = false -> calc_preimage b cm = Ok (Some pre) ->
  let fs := ws_fields (get_witness_set b) in
  pre = ledger_preimage (assoc_field 5 fs) (assoc_field 4 fs) (spec_views (langs_used b) cm).
Proof. intros H b cm pre Hwf Hs Hc. destruct (calc_preimage_spec H b cm _ Hwf Hs Hc) as [_ [Hp _]]. exact Hp. Qed.
Print Assumptions C09_calc_preimage.


(* the heart of C09_same_bytes for both values of the switch stale_langs_counted (languages from the sub-builders'
   registrations / from the collected witnesses); with the switch off the class is empty (known_stale_lang_gen false = false) *)
Theorem C09_calc_preimage_gen : forall (H : bytes -> bytes) (counted : bool) (b : builder) (cm : costmdls) (pre : bytes),
  wf_builder b -> known_stale_lang_gen counted b = false -> calc_preimage_gen counted b cm = Ok (Some pre) ->
  let fs := ws_fields (get_witness_set b) in
  pre = ledger_preimage (assoc_field 5 fs) (assoc_field 4 fs) (spec_views (langs_used b) cm).
Proof. intros H c b cm pre Hwf Hs Hc. destruct (calc_preimage_spec_gen H c b cm _ Hwf Hs Hc) as [_ [Hp _]]. exact Hp. Qed.
Print Assumptions C09_calc_preimage_gen.

(* C09_aux: the auxiliary-data hash of the body is the hash of the auxiliary data the transaction carries, as serialised *)
Theorem C09_aux : forall (H : bytes -> bytes) (b : builder) (t : tx),
  build_tx H b = Ok t ->
  tx_aux_data_hash t = ledger_aux_hash H (match tx_aux t with Some a => Some (enc_aux a) | None => None end).
Proof. exact aux_hash. Qed.
Print Assumptions C09_aux.


(* additions-only histories (what the property quantifies over: items are added, the hash is computed by the builder):
   no premise about an earlier hash is needed — a stored hash always comes with script items *)
Theorem C09_same_bytes_additive : forall (H : bytes -> bytes) (ops : list op) (cm : costmdls) (before : list op) (t : tx),
  additive H builder_new ops = true ->
  last_calc_rev (rev ops) = Some (cm, before) ->
  let b0 := fst (run H builder_new (rev before)) in
  let b := fst (run H builder_new ops) in
  is_ok (calc_script_data_hash H b0 cm) = true ->
  build_tx H b = Ok t ->
  let fs := ws_fields (tx_witness_set t) in
  tx_script_data_hash t = ledger_script_integrity H (assoc_field 5 fs) (assoc_field 4 fs) (langs_used b) cm.
Proof. exact same_bytes_additive. Qed.
Print Assumptions C09_same_bytes_additive.

(* C09_aux, history form: for EVERY history (set_auxiliary_data with constructed or decoded values, set_metadata,
   add_metadatum / add_json_metadatum*, remove_auxiliary_data, in any number and order, interleaved with anything) the
   transaction carries the auxiliary data the setters left and the body's hash is the hash of its serialisation *)
Theorem C09_aux_history : forall (H : bytes -> bytes) (ops : list op) (t : tx),
  build_tx H (fst (run H builder_new ops)) = Ok t ->
  tx_aux t = aux_of_history ops /\
  tx_aux_data_hash t = ledger_aux_hash H (match aux_of_history ops with Some a => Some (enc_aux a) | None => None end).
Proof. exact aux_history. Qed.
Print Assumptions C09_aux_history.

(* the format preference alone changes the emitted bytes, so a hash kept from before such a change would be wrong *)
Theorem C09_aux_format_flag : forall md : list (N * bytes),
  enc_aux (mk_aux (Some md) None None false) <> enc_aux (mk_aux (Some md) None None true).
Proof. exact (format_flag_changes_bytes (fun b => b)). Qed.
Print Assumptions C09_aux_format_flag.

(* the three wire forms: what AuxiliaryData decodes from a form the serializer itself produces re-serialises to the
   same bytes (hence set_auxiliary_data(from_bytes(b)) emits and hashes exactly b) *)
Theorem C09_aux_wire_reencode : forall (w : aux_wire) (a : aux_data),
  decode_wire w = Ok a -> wire_canonical w = true -> enc_aux a = enc_wire w.
Proof. exact wire_reencode. Qed.
Print Assumptions C09_aux_wire_reencode.

(* outside the quantifier: a script item added AFTER calc_script_data_hash leaves a stale hash, and build_tx does not
   detect it (the hashed preimage differs from the ledger's preimage of the emitted witness set) *)
Theorem C09_stale_hash_not_detected : forall H : bytes -> bytes,
  exists t p_hashed p_ledger,
    build_tx H (fst (run H builder_new stale_ops)) = Ok t /\
    tx_script_data_hash t = Some (H p_hashed) /\
    (let fs := ws_fields (tx_witness_set t) in
     ledger_script_integrity H (assoc_field 5 fs) (assoc_field 4 fs) (langs_used (fst (run H builder_new stale_ops))) cm_empty
     = Some (H p_ledger)) /\
    p_hashed <> p_ledger /\
    last_calc_rev (rev stale_ops) = None.
Proof. exact stale_hash_not_detected. Qed.
Print Assumptions C09_stale_hash_not_detected.


(* known class C09-stale-input-language (shared root with C10-stale-spend-witness / C18-input-readded-with-other-owner):
   an input added with a Plutus witness and then again as a key input keeps the witness registered; when the input
   builder still returns another Plutus witness, the stale one's language goes into the hash although nothing of it is emitted — without the premise known_stale_lang = false the statement is false *)
Theorem C09_stale_lang_refuted :
  exists p_hashed p_ledger,
    calc_preimage_gen true stale_lang_builder stale_lang_cm = Ok (Some p_hashed) /\
    (let fs := ws_fields (get_witness_set stale_lang_builder) in
     p_ledger = ledger_preimage (assoc_field 5 fs) (assoc_field 4 fs) (spec_views (langs_used stale_lang_builder) stale_lang_cm)) /\
    p_hashed <> p_ledger /\
    known_stale_lang_gen true stale_lang_builder = true /\
    calc_preimage_gen false stale_lang_builder stale_lang_cm = Ok (Some p_ledger).
Proof. exact stale_lang_refuted. Qed.
Print Assumptions C09_stale_lang_refuted.


(* C09-noop-calc-keeps-hash (repaired).  calc_script_data_hash stored a hash and never cleared one: when every Plutus
   witness present at an earlier calc had been replaced away (the outpoint added again as a key input, a sub-builder
   replaced), the last calc found nothing to hash and left the earlier hash; build_tx emitted it although the witness set
   has no redeemers and no datums.  The histories consist of add_* / set_* calls only and the hash IS computed after the
   last one: a violation.  Since the repair a hash that calc itself stored is removed by such a calc (a hash given with
   set_script_data_hash stays): the third alternative of the premise of C09_same_bytes / C09_same_bytes_history. *)
Theorem C09_noop_calc_refuted : forall H : bytes -> bytes,
  (exists t p,
    noop_shape (noop_state H) = true /\
    calc_script_data_hash_gen H false (noop_state H) stale_lang_cm = Ok (noop_state H) /\
    build_tx H (noop_state H) = Ok t /\
    tx_script_data_hash t = Some (H p) /\
    (let fs := ws_fields (tx_witness_set t) in
     assoc_field 5 fs = None /\ assoc_field 4 fs = None /\
     ledger_script_integrity H (assoc_field 5 fs) (assoc_field 4 fs) (langs_used (noop_state H)) stale_lang_cm = None)) /\
  (exists b', calc_script_data_hash_gen H true (noop_state H) stale_lang_cm = Ok b' /\ b_script_data_hash b' = None /\ build_tx H b' = Err) /\
  (exists b' t, noop_shape (noop_mint_state H) = true /\
     calc_script_data_hash_gen H true (noop_mint_state H) stale_lang_cm = Ok b' /\ build_tx H b' = Ok t /\ tx_script_data_hash t = None) /\
  additive H builder_new noop_calc_ops = false.
Proof. exact noop_calc_refuted. Qed.

(* C09_same_bytes for both values of the switch calc_clears_own_hash *)
Theorem C09_same_bytes_gen : forall (H : bytes -> bytes) (clears : bool) (b0 : builder) (cm : costmdls) (b1 b : builder) (t : tx),
  wf_builder b0 -> known_stale_lang b0 = false ->
  calc_script_data_hash_gen H clears b0 cm = Ok b1 ->
  (has_script_items b0 = true \/ b_script_data_hash b0 = None \/ (clears = true /\ b_hash_calculated b0 = true)) ->
  script_view b = script_view b0 -> b_script_data_hash b = b_script_data_hash b1 ->
  build_tx H b = Ok t ->
  let fs := ws_fields (tx_witness_set t) in
  tx_script_data_hash t = ledger_script_integrity H (assoc_field 5 fs) (assoc_field 4 fs) (langs_used b) cm.
Proof. exact same_bytes_gen. Qed.
Print Assumptions C09_same_bytes_gen.
Print Assumptions C09_noop_calc_refuted.

(* calc_script_data_hash on a builder without script items: as found nothing changes (whoever stored the hash);
   repaired, a hash that calc itself stored is removed and a hash given by the caller stays *)
Theorem C09_calc_noop_keeps_hash : forall (H : bytes -> bytes) (clears : bool) (b : builder) (cm : costmdls),
  has_script_items b = false -> wf_builder b -> known_stale_lang b = false ->
  calc_script_data_hash_gen H clears b cm = Ok (if clears && b_hash_calculated b then set_hash_flag b None false else b).
Proof. exact calc_noop. Qed.
Print Assumptions C09_calc_noop_keeps_hash.

(* well-formedness is an invariant of every history *)
Theorem C09_wf_invariant : forall (H : bytes -> bytes) (ops : list op), wf_builder (fst (run H builder_new ops)).
Proof. intros H ops. apply wf_run, wf_new. Qed.
Print Assumptions C09_wf_invariant.


(* ---- from structured fields to the bytes of the emitted transaction ----------------------------------------- *)

(* slicing the serialised witness set with the generic CBOR delimiter (what the judge of the correspondence run does)
   returns the structured fields, provided every emitted field is one well-formed CBOR item *)
Theorem C09_slices_sound : forall w : witness_set,
  Forall (fun kv => item_wf (snd kv) = true) (ws_fields w) ->
  exists sl, map_slices (ws_bytes w) = Ok sl /\
             field_slice 5 sl = assoc_field 5 (ws_fields w) /\
             field_slice 4 sl = assoc_field 4 (ws_fields w).
Proof. exact ws_slices_sound. Qed.
Print Assumptions C09_slices_sound.

(* C09_same_bytes_history over the BYTES of the emitted witness set *)
Theorem C09_same_bytes_history_bytes : forall (H : bytes -> bytes) (ops : list op) (cm : costmdls) (before : list op) (t : tx),
  last_calc_rev (rev ops) = Some (cm, before) ->
  let b0 := fst (run H builder_new (rev before)) in
  let b := fst (run H builder_new ops) in
  is_ok (calc_script_data_hash H b0 cm) = true ->
  has_script_items b0 || is_none (b_script_data_hash b0) || (calc_clears_own_hash && b_hash_calculated b0) = true ->
  known_stale_lang b0 = false ->
  build_tx H b = Ok t ->
  Forall (fun kv => item_wf (snd kv) = true) (ws_fields (tx_witness_set t)) ->
  exists sl, map_slices (ws_bytes (tx_witness_set t)) = Ok sl /\
    tx_script_data_hash t = ledger_script_integrity H (field_slice 5 sl) (field_slice 4 sl) (langs_used b) cm.
Proof. exact same_bytes_history_bytes. Qed.
Print Assumptions C09_same_bytes_history_bytes.

(* the serialised transaction [body, witness_set, true, aux/null] with ANY other body fields: slicing it (what the judge
   does with the implementation's bytes) yields the model's two hashes, the structured witness-set fields 5 and 4 and
   the auxiliary-data bytes; premises only about the opaque leaves (well-formed items, 32-byte hashes) *)
Theorem C09_tx_view_sound : forall (other : list (N * bytes)) (t : tx),
  other_ok other -> len (body_fields other t) < two64 ->
  hash_ok (tx_script_data_hash t) -> hash_ok (tx_aux_data_hash t) ->
  Forall (fun kv => item_wf (snd kv) = true) (ws_fields (tx_witness_set t)) ->
  (match tx_aux t with Some a => item_wf (enc_aux a) = true | None => True end) ->
  view_tx (tx_bytes other t) =
  Ok (mk_tx_view (tx_script_data_hash t) (tx_aux_data_hash t)
                 (assoc_field 5 (ws_fields (tx_witness_set t))) (assoc_field 4 (ws_fields (tx_witness_set t)))
                 (match tx_aux t with Some a => Some (enc_aux a) | None => None end)).
Proof. exact view_tx_sound. Qed.
Print Assumptions C09_tx_view_sound.

(* the judge of the correspondence run accepts the bytes of the model's own transaction on every history with a fresh
   hash: it is the conjunction of C09_same_bytes_history and C09_aux read off the emitted bytes *)
Theorem C09_judge_accepts_model : forall (H : bytes -> bytes) (ops : list op) (cm : costmdls) (before : list op)
    (other : list (N * bytes)) (t : tx),
  build_tx H (fst (run H builder_new ops)) = Ok t ->
  last_calc_rev (rev ops) = Some (cm, before) ->
  is_ok (calc_script_data_hash H (fst (run H builder_new (rev before))) cm) = true ->
  has_script_items (fst (run H builder_new (rev before))) || is_none (b_script_data_hash (fst (run H builder_new (rev before))))
    || (calc_clears_own_hash && b_hash_calculated (fst (run H builder_new (rev before)))) = true ->
  known_stale_lang (fst (run H builder_new (rev before))) = false ->
  other_ok other -> len (body_fields other t) < two64 ->
  hash_ok (tx_script_data_hash t) -> hash_ok (tx_aux_data_hash t) ->
  Forall (fun kv => item_wf (snd kv) = true) (ws_fields (tx_witness_set t)) ->
  (match tx_aux t with Some a => item_wf (enc_aux a) = true | None => True end) ->
  judge_builder H ops (tx_bytes other t) = Holds.
Proof. exact judge_builder_accepts_model. Qed.
Print Assumptions C09_judge_accepts_model.

(* ---- the languages in use COMPUTED from the sub-builders' entries (joint with the C10 model Pointers/Pointers.v) ---- *)

(* what calc_script_data_hash reads from the entries of the seven sub-builders (get_used_plutus_lang_versions, with the
   `if let Some(..)` guard of the two input builders) is the language set of the derived C09 state with the stale
   registrations counted, for every C10 builder state with duplicate-free withdrawal keys (every reachable one) *)
Theorem C09_entries_langs_model : forall (pay : N -> payload) (t : P.txb) (ncol : N) (extra : option (list pdata))
    (h : option bytes) (a : option aux_data) (l : lang),
  NoDup (map fst (P.t_wdrl t)) ->
  mem_lang l (entries_langs pay t) = mem_lang l (used_langs_gen true (builder_of pay t ncol extra h a)).
Proof. exact entries_langs_model. Qed.
Print Assumptions C09_entries_langs_model.

(* C09_same_bytes with the languages computed from the entries, not given *)
Theorem C09_same_bytes_entries : forall (H : bytes -> bytes) (pay : N -> payload) (t : P.txb) (ncol : N)
    (extra : option (list pdata)) (h : option bytes) (a : option aux_data) (cm : costmdls) (b1 : builder) (tx : ScriptData.tx),
  let b0 := builder_of pay t ncol extra h a in
  wf_builder b0 -> NoDup (map fst (P.t_wdrl t)) ->
  known_stale_lang_gen true b0 = false ->
  calc_script_data_hash H b0 cm = Ok b1 ->
  (has_script_items b0 = true \/ h = None) ->
  build_tx H b1 = Ok tx ->
  let fs := ws_fields (tx_witness_set tx) in
  tx_script_data_hash tx = ledger_script_integrity H (assoc_field 5 fs) (assoc_field 4 fs) (entries_langs pay t) cm.
Proof. exact same_bytes_entries. Qed.
Print Assumptions C09_same_bytes_entries.

(* ---- non-vacuity ------------------------------------------------------------------------------------------- *)
Definition ex_datum_a : pdata := mk_pdata 1 [24; 42].
Definition ex_datum_b : pdata := mk_pdata 2 [159; 1; 2; 255].
Definition ex_script1 : script := mk_script V1 [1; 2; 3].
Definition ex_script2 : script := mk_script V2 [4; 5].
Definition ex_w (s : script_source) (d : datum_source) (tag idx : N) : witness :=
  mk_witness s d (mk_redeemer tag idx (mk_pdata 9 [128]) 1000 2000).
Definition ex_cm : costmdls := mk_costmdls (Some [1; -2; 300]%Z) (Some [0; 70000]%Z) (Some [5]%Z).
(* spends with a duplicated datum, a reference script, a mint, an extra datum; calc after everything, then metadata *)
Definition ex_ops : list op :=
  [ OpSetSub SubCollateral (mk_sub [] [] []) 1;
    OpSetSub SubInputs (mk_sub [ex_w (SrcScript ex_script1) (DatumValue ex_datum_a) 0 0;
                                ex_w (SrcScript ex_script1) (DatumValue ex_datum_a) 0 1;
                                ex_w (SrcRef V2) DatumRef 0 2] [V1] [[130; 0; 1]; [130; 0; 1]]) 3;
    OpAddExtraDatum ex_datum_b; OpAddExtraDatum ex_datum_a;
    OpSetSub SubMint (mk_sub [ex_w (SrcScript ex_script2) DatumNone 1 0] [] [[130; 0; 2]]) 0;
    OpCalc ex_cm;
    OpAddMetadatum 674 [97; 104] ].
Definition idH (bs : bytes) : bytes := bs.
Example C09_history_premises_satisfiable :
  exists before t,
    last_calc_rev (rev ex_ops) = Some (ex_cm, before) /\
    is_ok (calc_script_data_hash idH (fst (run idH builder_new (rev before))) ex_cm) = true /\
    has_script_items (fst (run idH builder_new (rev before))) = true /\
    known_stale_lang (fst (run idH builder_new (rev before))) = false /\      (* a stale PlutusV1 witness, but V1 is in use anyway *)
    build_tx idH (fst (run idH builder_new ex_ops)) = Ok t /\
    (* V2 (used by the reference script and the mint) and V1, not V3; the duplicated datum once, extra datum kept *)
    tx_script_data_hash t <> None /\ is_some (tx_aux_data_hash t) = true /\
    assoc_field 4 (ws_fields (tx_witness_set t)) = Some [217; 1; 2; 159; 24; 42; 159; 1; 2; 255; 255] /\
    (* the two equal native scripts of the inputs once, then the mint's *)
    assoc_field 1 (ws_fields (tx_witness_set t)) = Some [217; 1; 2; 130; 130; 0; 1; 130; 0; 2].
Proof. eexists _, _. repeat split; try reflexivity. vm_compute. discriminate. Qed.
Example C09_helper_premises_satisfiable :
  helper_out_of_scope one_redeemer (Some (mk_plist [ex_datum_a; ex_datum_b] (Some true))) = false /\
  (* datums without redeemers are inside the statement, whatever container form and table *)
  helper_out_of_scope (mk_redeemers [] (Some CArray)) (Some (mk_plist [ex_datum_a] None)) = false /\
  known_dup_definite (Some (mk_plist [ex_datum_a; ex_datum_b] (Some true))) = false /\
  known_empty_datums (Some (mk_plist [ex_datum_a; ex_datum_b] (Some true))) = false /\
  (* the classes are narrow: duplicates in an indefinite-length list and a definite list without duplicates are inside the theorem *)
  known_dup_definite (Some (mk_plist [ex_datum_a; ex_datum_a] None)) = false /\
  known_dup_definite (Some (mk_plist [ex_datum_a; ex_datum_a] (Some false))) = false.
Proof. repeat split; reflexivity. Qed.
(* pinned encodings (cannot be weakened silently): language views of {V1,V2,V3} and the three keys *)
Check (eq_refl : language_views_encoding ex_cm =
  [163; 1; 130; 0; 26; 0; 1; 17; 112; 2; 129; 5; 65; 0; 71; 159; 1; 33; 25; 1; 44; 255]).
Check (eq_refl : map enc_view_key canonical_langs = [[1]; [2]; [65; 0]]).
Check (eq_refl : enc_int (-18446744073709551616)%Z = [59; 255; 255; 255; 255; 255; 255; 255; 255]).
(* the well-formedness premise of the byte-level statements holds for the example transaction *)
Example C09_bytes_premise_satisfiable :
  match build_tx idH (fst (run idH builder_new ex_ops)) with
  | Ok t => forallb (fun kv => item_wf (snd kv)) (ws_fields (tx_witness_set t)) = true
  | _ => False
  end.
Proof. vm_compute. reflexivity. Qed.
Example C09_additive_premise_satisfiable :
  additive idH builder_new
    [ OpSetSub SubCollateral (mk_sub [] [] []) 1;
      OpSetSub SubInputs (mk_sub [ex_w (SrcScript ex_script1) (DatumValue ex_datum_a) 0 0; ex_w (SrcRef V2) DatumRef 0 1] [] []) 2;
      OpAddExtraDatum ex_datum_b; OpCalc ex_cm; OpAddMetadatum 674 [97; 104] ] = true.
Proof. reflexivity. Qed.
Example C09_wire_premises_satisfiable :
  let w := WAlonzo (Some [(1, [24; 42])]) (Some [128]) (Some []) (Some [[1; 2]]) None in
  wire_canonical w = true /\ is_ok (decode_wire w) = true /\
  wire_canonical (WAlonzo None None None (Some [[1]]) None) = false.
Proof. repeat split; reflexivity. Qed.
(* the judge on the bytes of the example transaction (a 32-byte stand-in for the hash, two other body fields) *)
Definition h32 (bs : bytes) : bytes := firstn 32 (map (fun b => b mod 256) bs ++ repeat 0 32).
Example C09_judge_example :
  match build_tx h32 (fst (run h32 builder_new ex_ops)) with
  | Ok t => judge_builder h32 ex_ops (tx_bytes [(0, [128]); (2, [26; 0; 1; 2; 3])] t) = Holds
  | _ => False
  end.
Proof. vm_compute. reflexivity. Qed.
(* a C10 history: a V2 reference-script spend, a V1 spend re-added as a key input (stale), a Plutus mint; the entries'
   language set holds V1 (stale) although only V2 and V3 witnesses are returned *)
Definition ex_pay (rid : N) : payload :=
  mk_payload (match rid with 1 => SrcRef V2 | 2 => SrcRef V1 | _ => SrcScript (mk_script V3 [7]) end) DatumNone (mk_pdata rid [rid]) 10 20.
Definition ex_txb : P.txb :=
  fst (P.run [P.OpIn (P.InPlutus [1] ([0], 0) 1); P.OpIn (P.InPlutus [2] ([0], 1) 2); P.OpIn (P.InKey ([0], 1));
              P.OpMint (P.mkMintOp [9] (P.MPlutus false 3) 0 1%Z false)]).
Example C09_entries_example :
  map (fun l => mem_lang l (entries_langs ex_pay ex_txb)) [V1; V2; V3] = [true; true; true] /\
  map (fun l => mem_lang l (langs_used (builder_of ex_pay ex_txb 1 None None None))) [V1; V2; V3] = [false; true; true] /\
  known_stale_lang_gen true (builder_of ex_pay ex_txb 1 None None None) = true /\
  NoDup (map fst (P.t_wdrl ex_txb)).
Proof. repeat split; try reflexivity. constructor. Qed.
(* the class shape is narrow: a hash installed by hand, or a final calc that had something to hash, is not in it *)
Example C09_noop_class_narrow :
  known_noop_calc idH [OpSetHash [1]; OpCalc cm_empty] = false /\
  known_noop_calc idH (noop_calc_ops ++ [OpAddExtraDatum ex_datum_a; OpCalc stale_lang_cm]) = false /\
  known_noop_calc idH ex_ops = false /\
  known_noop_calc idH noop_calc_ops = true /\
  (* a hash given by the caller stays through a calc with nothing to hash, whatever the switch *)
  b_script_data_hash (fst (run idH builder_new [OpSetHash [1]; OpCalc cm_empty])) = Some [1].
Proof. repeat split; reflexivity. Qed.

