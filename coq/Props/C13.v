(* C13 — Send-all batches spend everything once and every transaction is valid.  (PARTIAL by design: the greedy
   choice of which UTxO / asset goes where is abstracted, see notes/design/C13.md.)
   Only statements here; each is closed by a lemma of Batch/*Proofs.v.
   Models: Batch/Calc.v (cbor_calculator.rs, assets_calculator.rs, witnesses_calculator.rs), Batch/Denote.v (the ledger
   objects a proposal denotes, as values of the wire schemas tied to the Rust serializers by C01), Batch/BatchSpec.v (the
   C13 statement, executable = the judge of the end-to-end correspondence run). *)
From CSL Require Import Base.Prelude Base.U64 Cbor.Head Codec.Schema Ledger.Schemas
  Batch.Calc Batch.CalcProofs Batch.Denote Batch.EncProofs Batch.IntermediateProofs
  Batch.Proposal Batch.ProposalProofs Batch.BatchProofs Batch.PureAda Batch.PureAdaProofs Batch.AssetPath Batch.AssetPathProofs Batch.NoOofProofs Batch.TerminationProofs Batch.IvLinkProofs.
From CSL Require Cbor.Item Batch.BatchSpec Batch.JudgeProofs.
From Coq Require Import Permutation.
Local Open Scope N_scope.

(* the CBOR head-size table of the calculator is the length of the real head, for EVERY argument and major type *)
Theorem C13_struct_size : forall (m n : N), get_struct_size n = N.of_nat (length (encode_head m n)).
Proof. exact struct_size_head. Qed.
Print Assumptions C13_struct_size.

(* value size: calc_value_size + the array(2) head added by estimate_output_cost = length of the encoded Value *)
Theorem C13_value_size : forall (coin : N) (gs : groups),
  Forall (fun p => lenN (fst p) = 28) gs ->
  lenN (enc Value (value_val coin gs)) = calc_value_size coin (groups_shape gs) + get_value_struct_size (is_nil gs).
Proof. exact value_size_exact. Qed.
Print Assumptions C13_value_size.

Theorem C13_output_size : forall (d : nat) (addr : bytes) (coin : N) (gs : groups),
  Forall (fun p => lenN (fst p) = 28) gs ->
  lenN (enc (TransactionOutput d) (output_val addr coin gs)) =
  get_output_size (lenN addr) + calc_value_size coin (groups_shape gs) + get_value_struct_size (is_nil gs).
Proof. exact output_size_exact. Qed.
Print Assumptions C13_output_size.

(* witnesses: a vkey witness is 101 bytes; the incrementally maintained total is the closed form whatever the order
   in which key and Byron owners are met; the closed form is the length of the encoded witness set *)
Theorem C13_witness_sizes :
  (forall vk sg, lenN vk = 32 -> lenN sg = 64 -> lenN (enc Vkeywitness (vkeywit_val vk sg)) = get_fake_vkey_size) /\
  (forall ops, let w := fold_left wit_step ops wit_new in w_total w = wit_closed (w_vkeys w) (w_boot_sizes w)) /\
  (forall d vks boots,
     (forall x, In x vks -> lenN (enc Vkeywitness x) = get_fake_vkey_size) -> (vks <> [] \/ boots <> []) ->
     lenN (enc (TransactionWitnessSet d) (ws_val vks boots)) =
     wit_closed (lenN vks) (map (fun b => lenN (enc BootstrapWitness b)) boots)).
Proof.
  split; [exact vkey_witness_size|]. split; [intros ops; apply (wit_total_closed ops) | exact witness_set_exact].
Qed.
Print Assumptions C13_witness_sizes.

(* transaction size: the sum get_tx_proposal_size forms = length of the encoded transaction *)
Theorem C13_tx_size : forall (d : nat) (ins outs : list val) (fee : N) (ws : val),
  lenN (enc (Transaction d) (tx_val (body_val ins outs fee) ws)) =
  get_bare_tx_size false + get_bare_tx_body_size [0; 1; 2] + lenN (enc (TransactionWitnessSet d) ws) +
  (get_struct_size (lenN outs) + sumN (map (fun o => lenN (enc (TransactionOutput d) o)) outs)) +
  get_coin_size fee +
  (get_struct_size (lenN ins) + sumN (map (fun i => lenN (enc TransactionInput i)) ins)).
Proof. exact tx_size_exact. Qed.
Print Assumptions C13_tx_size.

(* the intermediate value size used for the max_value_size decision: order-independent closed form, and an upper
   bound of the real value size with the slack stated exactly *)
Theorem C13_intermediate_value :
  (forall policy_sz asz csz ops,
     let v := fold_left (iv_step policy_sz asz csz) ops iv_new in
     iv_total v = iv_coins ops + iv_closed policy_sz asz csz (iv_policies v)) /\
  (forall coin ada_total gs, coin <= ada_total ->
     Forall (Forall (fun a : N * N * N => match a with (_, q, tot) => q <= tot end)) gs ->
     calc_value_size coin (real_shape gs) + get_value_struct_size (match gs with [] => true | _ => false end)
       + slack_value coin ada_total gs = bound_value ada_total gs).
Proof. split; [exact iv_total_closed | exact intermediate_upper_bound]. Qed.
Print Assumptions C13_intermediate_value.

(* the (cost, size) estimators used to decide admission are safe *)
Theorem C13_estimators_safe :
  (forall used size cpb cost sz, get_coin_size used <= size ->
     estimate_output_cost used size cpb = Ok (cost, sz) ->
     cost = (sz + 160) * cpb /\ size_with_coin used size (N.max used cost) <= sz /\
     (sz <> size + get_coin_size coin_max -> size_with_coin used size (N.max used cost) = sz)) /\
  (forall base mn dp a b fee sz, estimate_fee base mn dp a b = Ok (fee, sz) ->
     fee = sz * a + b /\ recalc_size_with_dependable_value (base + get_coin_size fee) fee mn dp <= sz).
Proof. split; [exact output_cost_safe | exact fee_safe]. Qed.
Print Assumptions C13_estimators_safe.

(* ... and the pessimistic fee bound before /repo 5dc758e was not *)
Theorem C13_legacy_fee_bound_refuted :
  exists base mn dp a b fee sz,
    estimate_fee_gen true base mn dp a b = Ok (fee, sz) /\
    sz < recalc_size_with_dependable_value (base + get_coin_size fee) fee mn dp.
Proof. exact fee_legacy_bound_refuted. Qed.
Print Assumptions C13_legacy_fee_bound_refuted.

(* ------------------------------------------------------------------------------------------------------------
   Proposals (Batch/Proposal.v).  [run c tp_new ops] applies ANY sequence of the primitive operations through which
   the (unmodelled) greedy grouping acts on a proposal: new output / add asset to the last output (value-size test) /
   add UTxO (after its assets were placed) / set_min_ada_for_tx.  [finalise] = add_last_ada_to_last_output,
   set_min_ada_for_tx, check_finished_tx_proposal, create_tx. *)

(* C13_finalise: whatever the grouping, a finalised proposal denotes a transaction that is balanced in lovelace and in
   every asset, pays fee >= a * |tx| + b for its real encoded size (one witness per distinct owner address), fits
   max_tx_size, and whose outputs hold min ADA = cpb * (160 + |output|) and respect max_value_size *)
Theorem C13_finalise : forall c ops p p' tx,
  ctx_wf c -> run c tp_new ops = Ok p -> incl (t_utxos p) (all_indices c) -> finalise c p = Ok (p', tx) ->
  tx_valid c tx /\
  (forall a, sumN (map (fun o => held c (x_inputs tx) o a) (t_outputs p')) = sumN (map (fun u => amount c u a) (x_inputs tx))) /\
  Forall2 (fun o x => fst x = o_total_ada o /\ out_groups c (x_inputs tx) (o_assets o) = Ok (snd x)) (t_outputs p') (x_outputs tx).
Proof. exact finalise_full. Qed.
Print Assumptions C13_finalise.

Check (eq_refl : tx_valid = fun c tx =>
  sumN (map (fun u => ui_ada (utxo_of c u)) (x_inputs tx)) = sumN (map fst (x_outputs tx)) + x_fee tx /\
  real_tx_size c tx * cx_a c + cx_b c <= x_fee tx /\ real_tx_size c tx <= cx_max_tx c /\
  Forall (fun o => (real_out_size c (fst o) (snd o) + 160) * cx_cpb c <= fst o /\
                   (snd o <> [] -> real_value_size (fst o) (snd o) <= cx_max_value c) /\
                   (snd o = [] -> real_value_size (fst o) (snd o) <= 9)) (x_outputs tx)).

(* the sizes used in C13_finalise are the lengths of the real encodings of the denoted objects *)
Theorem C13_denotation :
  (forall d c addr coin (gsb : groups) gs,
     lenN addr = cx_addr_size c -> Forall (fun p => lenN (fst p) = 28) gsb -> groups_shape gsb = shape_of gs ->
     lenN (enc (TransactionOutput d) (output_val addr coin gsb)) = real_out_size c coin gs) /\
  (forall d c owners (vks boots : list val),
     (forall x, In x vks -> lenN (enc Vkeywitness x) = get_fake_vkey_size) ->
     lenN vks = owner_vkeys c owners -> map (fun b => lenN (enc BootstrapWitness b)) boots = owner_boots c owners ->
     (vks <> [] \/ boots <> []) ->
     lenN (enc (TransactionWitnessSet d) (ws_val vks boots)) = wit_size (owner_vkeys c owners) (owner_boots c owners)) /\
  (forall d c tx (ins outs : list val) (ws : val),
     Forall2 (fun i u => lenN (enc TransactionInput i) = ui_input_size (utxo_of c u)) ins (x_inputs tx) ->
     Forall2 (fun o x => lenN (enc (TransactionOutput d) o) = real_out_size c (fst x) (snd x)) outs (x_outputs tx) ->
     lenN (enc (TransactionWitnessSet d) ws) = wit_size (owner_vkeys c (x_owners tx)) (owner_boots c (x_owners tx)) ->
     lenN (enc (Transaction d) (tx_val (body_val ins outs (x_fee tx)) ws)) = real_tx_size c tx).
Proof. split; [exact real_out_size_enc|]. split; [exact wit_size_enc | exact real_tx_size_enc]. Qed.
Print Assumptions C13_denotation.

(* C13_partition: for ANY plan (one accepted operation sequence per transaction, each using only UTxOs still free),
   when the batch loop ends successfully the inputs of the transactions are exactly the supplied UTxOs, each once *)
Theorem C13_partition : forall c plan txs,
  send_all c plan = Ok txs -> Permutation (concat (map x_inputs txs)) (all_indices c).
Proof. exact send_all_partition. Qed.
Print Assumptions C13_partition.

(* every transaction of ANY successful batch (any plan) is valid *)
Theorem C13_batch_valid : forall c plan free txs,
  ctx_wf c -> incl free (all_indices c) -> batch c free plan = Ok txs -> Forall (tx_valid c) txs.
Proof. intros c plan free txs W. exact (batch_valid c W plan free txs). Qed.
Print Assumptions C13_batch_valid.

(* FULL C13 where the code is deterministic: on UTxO sets without assets the batcher is modelled completely
   (Batch/PureAda.v: pool sorted by amount, try_append_pure_ada_utxo with its top-up loop, the build loop) and the
   correspondence run compares its transactions with the implementation's exactly; no abstraction is involved *)
Theorem C13_pure_ada_full : forall c txs,
  ctx_wf c -> no_assets c = true -> pure_send_all c = Ok txs ->
  Permutation (concat (map x_inputs txs)) (all_indices c) /\ Forall (tx_valid c) txs.
Proof. exact pure_ada_full. Qed.
Print Assumptions C13_pure_ada_full.

Example C13_pure_ada_example :
  let c := mkCtx [mkUinfo 3000000 36 0 false []; mkUinfo 10000000 36 0 false []; mkUinfo 900000 37 1 true []] [] [KVkey; KByron 137]
                 57 44 155381 4310 5000 16384 13900000 in
  no_assets c = true /\ pure_send_all c = Ok [mkAtx [1; 0; 2] [(13725259, [])] 174741 [0; 1]].
Proof. split; vm_compute; reflexivity. Qed.

(* FULL C13 for the complete batcher, asset path included (Batch/AssetPath.v: prototype_append, make_candidate, the
   intersections, add_assets_to_proposal_output, the build loop), for EVERY oracle = every iteration order the hash sets
   can take: no "any accepted operation sequence" abstraction is left; the correspondence run feeds the orders the
   implementation took and compares every transaction exactly *)
Theorem C13_full : forall c o txs,
  utxos_ok c -> ctx_wf c -> full_send_all c o = Ok txs ->
  Permutation (concat (map x_inputs txs)) (all_indices c) /\ Forall (tx_valid c) txs.
Proof. exact full_send_all_sound. Qed.
Print Assumptions C13_full.

(* ... because it refines the abstract batch: every successful run is a plan of accepted operation sequences *)
Theorem C13_refinement : forall c fuel st o txs,
  utxos_ok c -> pools_ok c st -> build_all fuel c st o = Ok txs -> exists plan, batch c (flat st) plan = Ok txs.
Proof. intros c fuel st o txs Hu. exact (build_all_batch c Hu fuel st o txs). Qed.
Print Assumptions C13_refinement.

Example C13_full_example :
  utxos_ok ex_ctx /\ full_send_all ex_ctx [] = Ok [mkAtx [0; 1] [(12831463, [[(3, 7, 7)]])] 168537 [0]].
Proof.
  split; [|vm_compute; reflexivity]. intros u. unfold uassets, utxo_of, nthN, ex_ctx. cbn [cx_utxos].
  destruct (N.to_nat u) as [|[|[|n]]]; cbn; repeat constructor; intros [].
Qed.

(* termination: with the fuel the models pass (number of UTxOs + 1 for the build loops, number of free UTxOs + 1 for the
   fill loops, number of assets + 2 for the distribution of a UTxO's assets, pool size + 1 for the top-up loop) no loop ever
   runs out of fuel, for every oracle: every round of every loop consumes a UTxO / places an asset, or reports an error *)
Theorem C13_terminates :
  (forall c o, utxos_ok c -> full_send_all c o <> OutOfFuel) /\ (forall c, pure_send_all c <> OutOfFuel).
Proof. split; [exact full_send_all_terminates | exact pure_send_all_terminates]. Qed.
Print Assumptions C13_terminates.

(* the value-size test of the models (closed form bound_of) is the size IntermediateOutputValue maintains incrementally,
   for both ways the code builds it (assets then coin: build_intermediate_value; coin then assets: build_empty + additions) *)
Theorem C13_intermediate_link : forall c l, NoDup l ->
  iv_total (fold_left (stepc c) (map (add_op c) l ++ [ICoin (cx_ada_total c)]) iv_new) = bound_of c l /\
  iv_total (fold_left (stepc c) (ICoin (cx_ada_total c) :: map (add_op c) l) iv_new) = bound_of c l.
Proof. exact iv_bound_link. Qed.
Print Assumptions C13_intermediate_link.

(* the top-up defect (before /repo 180f5b3): one round leaves a shortage; the repaired loop never does *)
Theorem C13_topup_once_refuted :
  exists c p pool p2 used size n,
    run c tp_new [OpNewOutput; OpAddAsset 0; OpAddUtxo 0; OpSetMinAda] = Ok p /\
    topup_once c pool false p [] 0 = Ok (p2, used, size) /\ get_need_ada p2 = Ok n /\ 0 < n.
Proof. exact topup_once_refuted. Qed.
Print Assumptions C13_topup_once_refuted.

Theorem C13_topup_loop_covers : forall c pool orig fuel p used size p2 u2 s2,
  topup_loop fuel c pool orig p used size = Ok (p2, u2, s2) -> get_need_ada p2 = Ok 0.
Proof. intros. eapply topup_need. eassumption. Qed.
Print Assumptions C13_topup_loop_covers.

(* the premises are satisfiable: a two-UTxO layout with an asset, mainnet parameters *)
Example C13_example :
  ctx_wf ex_ctx /\ send_all ex_ctx ex_plan = Ok [mkAtx [0; 1] [(12831463, [[(3, 7, 7)]])] 168537 [0]].
Proof. split; [exact ex_ctx_wf | exact ex_send_all]. Qed.

(* the three modelled defects, before their repair in /repo (known_findings.d/C13.json) *)
Theorem C13_partition_legacy_refuted :
  exists c txs, send_all_gen true c [] = Ok txs /\ ~ Permutation (concat (map x_inputs txs)) (all_indices c).
Proof. exact send_all_partition_legacy_refuted. Qed.
Print Assumptions C13_partition_legacy_refuted.

Theorem C13_finalise_without_check_refuted :
  exists c ops p p' tx,
    run c tp_new ops = Ok p /\ finalise_gen false c p = Ok (p', tx) /\
    sumN (map (fun u => ui_ada (utxo_of c u)) (x_inputs tx)) < sumN (map fst (x_outputs tx)) + x_fee tx.
Proof. exact finalise_without_check_refuted. Qed.
Print Assumptions C13_finalise_without_check_refuted.

Theorem C13_legacy_fee_estimate_refuted :
  exists c p0 p1 s1 p2 p3 s3 tx,
    add_utxo c (add_new_output tp_new) 0 = Ok p0 /\
    set_min_ada_for_tx_gen true c p0 = Ok (p1, s1) /\ add_last_ada_to_last_output p1 = Ok p2 /\
    set_min_ada_for_tx_gen true c p2 = Ok (p3, s3) /\ create_tx c p3 = Ok tx /\
    sumN (map fst (x_outputs tx)) + x_fee tx < sumN (map (fun u => ui_ada (utxo_of c u)) (x_inputs tx)) /\
    x_fee tx < real_tx_size c tx * cx_a c + cx_b c.
Proof. exact legacy_fee_estimate_refuted. Qed.
Print Assumptions C13_legacy_fee_estimate_refuted.

(* the executable judge of the end-to-end run decides the Prop-level C13 statement *)
Theorem C13_judge_sound : forall c target us l,
  BatchSpec.utxos_distinct us = true -> BatchSpec.judge c target us l = [] ->
  exists ts, Forall2 (fun b p => BatchSpec.read_tx (fst b) = Some (fst p) /\ BatchSpec.read_tx (snd b) = Some (snd p)) l ts /\
             JudgeProofs.C13_statement c target us ts.
Proof. exact JudgeProofs.judge_sound. Qed.
Print Assumptions C13_judge_sound.

(* non-vacuity of C13_judge_sound: the judge accepts a real result of create_send_all (corpus case w6: one pure-ADA
   UTxO of 5 ADA whose multiasset is present but empty, mainnet parameters; transaction and signed transaction as
   returned / signed by the harness) *)
Definition ex_target : bytes := [1; 133; 176; 65; 123; 200; 127; 114; 81; 153; 106; 185; 32; 142; 4; 17; 34; 170; 82; 179; 4; 134; 220; 251; 62; 44; 150; 0; 115; 226; 102; 95; 71; 118; 66; 241; 236; 110; 189; 250; 122; 0; 5; 132; 234; 248; 87; 107; 81; 53; 85; 115; 228; 75; 159; 33; 229].
Definition ex_utxo : BatchSpec.utxo := BatchSpec.mkUtxo [17; 17; 17; 17; 17; 17; 17; 17; 17; 17; 17; 17; 17; 17; 17; 17; 17; 17; 17; 17; 17; 17; 17; 17; 17; 17; 17; 17; 17; 17; 17; 17] 0 [1; 56; 193; 132; 159; 136; 84; 50; 65; 42; 95; 18; 142; 254; 217; 39; 91; 112; 11; 41; 225; 10; 146; 149; 130; 46; 153; 46; 35; 31; 232; 67; 186; 72; 194; 249; 72; 5; 138; 20; 193; 180; 33; 132; 1; 163; 49; 34; 36; 80; 144; 93; 60; 112; 16; 44; 36] 5000000 [].
Definition ex_cfg : BatchSpec.config := BatchSpec.mkConfig 44 155381 4310 5000 16384.
Definition ex_tx : bytes := [132; 163; 0; 217; 1; 2; 129; 130; 88; 32; 17; 17; 17; 17; 17; 17; 17; 17; 17; 17; 17; 17; 17; 17; 17; 17; 17; 17; 17; 17; 17; 17; 17; 17; 17; 17; 17; 17; 17; 17; 17; 17; 0; 1; 129; 130; 88; 57; 1; 133; 176; 65; 123; 200; 127; 114; 81; 153; 106; 185; 32; 142; 4; 17; 34; 170; 82; 179; 4; 134; 220; 251; 62; 44; 150; 0; 115; 226; 102; 95; 71; 118; 66; 241; 236; 110; 189; 250; 122; 0; 5; 132; 234; 248; 87; 107; 81; 53; 85; 115; 228; 75; 159; 33; 229; 26; 0; 73; 197; 159; 2; 26; 0; 2; 133; 161; 161; 0; 217; 1; 2; 129; 130; 88; 32; 207; 118; 57; 154; 33; 13; 232; 114; 14; 159; 168; 148; 228; 94; 65; 226; 154; 181; 37; 227; 11; 196; 2; 128; 0; 0; 0; 0; 0; 0; 0; 0; 88; 64; 36; 248; 153; 211; 155; 23; 253; 93; 102; 193; 146; 196; 181; 13; 52; 62; 66; 247; 35; 91; 48; 80; 76; 138; 231; 97; 159; 147; 200; 40; 220; 109; 206; 69; 104; 221; 105; 23; 124; 85; 24; 40; 73; 45; 119; 122; 103; 39; 253; 102; 194; 251; 204; 189; 168; 194; 174; 237; 146; 3; 44; 153; 121; 10; 245; 246].
Definition ex_signed : bytes := [132; 163; 0; 217; 1; 2; 129; 130; 88; 32; 17; 17; 17; 17; 17; 17; 17; 17; 17; 17; 17; 17; 17; 17; 17; 17; 17; 17; 17; 17; 17; 17; 17; 17; 17; 17; 17; 17; 17; 17; 17; 17; 0; 1; 129; 130; 88; 57; 1; 133; 176; 65; 123; 200; 127; 114; 81; 153; 106; 185; 32; 142; 4; 17; 34; 170; 82; 179; 4; 134; 220; 251; 62; 44; 150; 0; 115; 226; 102; 95; 71; 118; 66; 241; 236; 110; 189; 250; 122; 0; 5; 132; 234; 248; 87; 107; 81; 53; 85; 115; 228; 75; 159; 33; 229; 26; 0; 73; 197; 159; 2; 26; 0; 2; 133; 161; 161; 0; 217; 1; 2; 129; 130; 88; 32; 238; 138; 101; 32; 85; 220; 86; 247; 155; 155; 15; 174; 89; 58; 2; 55; 224; 158; 67; 48; 42; 232; 58; 232; 184; 101; 37; 3; 118; 60; 179; 134; 88; 64; 98; 114; 27; 129; 186; 236; 225; 45; 45; 138; 238; 43; 172; 210; 92; 169; 68; 42; 82; 66; 32; 93; 241; 81; 135; 142; 175; 28; 159; 239; 55; 6; 224; 237; 135; 95; 234; 160; 81; 47; 104; 241; 213; 72; 158; 184; 21; 199; 50; 46; 138; 109; 218; 0; 67; 37; 112; 216; 67; 96; 100; 100; 59; 5; 245; 246].
Example C13_judge_example :
  BatchSpec.utxos_distinct [ex_utxo] = true /\ BatchSpec.judge ex_cfg ex_target [ex_utxo] [(ex_tx, ex_signed)] = [].
Proof. split; vm_compute; reflexivity. Qed.

(* non-vacuity of the size theorems' premises: a value with one asset (28-byte policy id, 3-byte name, quantity 5) *)
Example C13_value_example :
  let gs := [(repeat 171 28, [([97; 98; 99], 5)])] in
  Forall (fun p : bytes * list (bytes * N) => lenN (fst p) = 28) gs /\
  lenN (enc Value (value_val 1133530 gs)) = 43 /\
  calc_value_size 1133530 (groups_shape gs) + get_value_struct_size (is_nil gs) = 43.
Proof. cbn zeta. split; [repeat constructor|]. split; vm_compute; reflexivity. Qed.

(* ... and of the estimators': the output of the example above (57-byte address) and the fee of a 299-byte transaction *)
Example C13_estimators_example :
  estimate_output_cost 1000000 103 4310 = Ok (1133530, 103) /\
  estimate_fee 289 (Some 1133530) (Some 1302000) 44 155381 = Ok (168537, 299).
Proof. split; vm_compute; reflexivity. Qed.

(* "one signature per distinct owning key": fewer vkey witnesses (shared payment keys) only make the transaction smaller *)
Theorem C13_fewer_signatures : forall v v' boots, 1 <= v -> v <= v' -> wit_size v boots <= wit_size v' boots.
Proof. exact fewer_signatures_smaller. Qed.
Print Assumptions C13_fewer_signatures.
