(* C11 — Address encodings are lossless and classified by their header.
   Only statements here; each is closed by [exact] of a lemma proved under coq/Addr/. *)
From CSL Require Import Base.Prelude Cbor.Head Addr.VarNat Addr.VarNatProofs Addr.Crc32 Addr.Crc32Proofs
  Addr.Byron Addr.ByronProofs Addr.Base58 Addr.Base58Proofs Addr.Shelley Addr.ShelleyProofs
  Addr.Bech32Iface Addr.Bech32 Addr.Bech32Proofs Addr.TextProofs Addr.Check Addr.CheckProofs.
Local Open Scope N_scope.

(* ---- raw bytes: every address with network id 0-15 (base, pointer, enterprise, reward; key or
   script credentials; pointer fields over the full u64 range; every Byron attribute combination)
   is read back unchanged by the strict parser ---- *)
Theorem C11_shelley_roundtrip : forall a, wf_address a -> from_bytes (to_bytes a) = Ok a.
Proof. exact address_roundtrip. Qed.
Print Assumptions C11_shelley_roundtrip.

(* ... and by the lenient parser used for addresses inside larger structures *)
Theorem C11_embedded_roundtrip : forall a, wf_address a -> embedded_decode (to_bytes a) = Ok a.
Proof. exact embedded_roundtrip. Qed.
Print Assumptions C11_embedded_roundtrip.

(* the premise "network id below 16" is needed: the field is a u8, the header keeps four bits *)
Theorem C11_roundtrip_needs_network_below_16 :
  exists a, from_bytes (to_bytes a) <> Ok a /\
            match a with Enterprise n p => 16 <= n < 256 /\ wf_cred p | _ => False end.
Proof. exact roundtrip_needs_network_below_16. Qed.
Print Assumptions C11_roundtrip_needs_network_below_16.

(* ---- classification: whatever either parser returns reports kind, network id and credentials
   exactly as the header byte and the payload slices encode them; the header table itself is a
   sweep over the 256 header bytes (dispatch_sweep), the length handling is general ---- *)
Theorem C11_classify : forall ig data a, bytes_ok data ->
  from_bytes_internal ig data = Ok a -> agrees_with_header a data = true.
Proof. exact classify_parsed. Qed.
Print Assumptions C11_classify.

Theorem C11_classify_accessors : forall a h payload, agrees_with_header a (h :: payload) = true ->
  match classify_header h with
  | HBase ps ss => kind a = KBase /\ network_id a = Ok (h mod 16)
                   /\ payment_cred a = Some (mk_cred ps (firstn 28 payload))
                   /\ stake_cred a = Some (mk_cred ss (firstn 28 (skipn 28 payload)))
  | HPointer ps => kind a = KPointer /\ network_id a = Ok (h mod 16)
                   /\ payment_cred a = Some (mk_cred ps (firstn 28 payload))
  | HEnterprise ps => kind a = KEnterprise /\ network_id a = Ok (h mod 16)
                   /\ payment_cred a = Some (mk_cred ps (firstn 28 payload))
  | HReward ps => kind a = KReward /\ network_id a = Ok (h mod 16)
                   /\ payment_cred a = Some (mk_cred ps (firstn 28 payload))
  | HByron => kind a = KByron /\ payment_cred a = None
  | HInvalid => False
  end.
Proof. exact classify_accessors. Qed.
Print Assumptions C11_classify_accessors.

Theorem C11_classify_written : forall a, wf_address a -> agrees_with_header a (to_bytes a) = true.
Proof. exact classify_written. Qed.
Print Assumptions C11_classify_written.

(* the finite part, with its bound in the statement: for each of the 256 header bytes the
   parser's nibble dispatch is the table of shelley.cddl and the writer recomputes that byte *)
Theorem C11_header_table : forall h, h < 256 -> dispatch_ok h = true /\ rewrite_ok h = true.
Proof. intros h H. split; [exact (dispatch_ok_all h H)|exact (rewrite_ok_all h H)]. Qed.
Print Assumptions C11_header_table.

(* the strict parser accepts exactly what the header table and the exact lengths allow *)
Theorem C11_strict_accepts_iff : forall data, bytes_ok data -> is_ok (from_bytes data) = spec_strict_ok data.
Proof. exact strict_accepts_iff. Qed.
Print Assumptions C11_strict_accepts_iff.

(* ---- strict rejections ---- *)
Theorem C11_strict_rejects_trailing : forall a x t, wf_address a -> from_bytes (to_bytes a ++ x :: t) = Err.
Proof. exact strict_rejects_trailing. Qed.
Print Assumptions C11_strict_rejects_trailing.

Theorem C11_strict_rejects_truncation : forall ig a k, wf_address a -> shelley_kind a = true ->
  (k < length (to_bytes a))%nat -> from_bytes_internal ig (firstn k (to_bytes a)) = Err.
Proof. exact strict_rejects_truncation. Qed.
Print Assumptions C11_strict_rejects_truncation.

Theorem C11_strict_rejects_unterminated : forall h pay s t u,
  (h / 16 <? 4) = false -> (h / 16 <? 6) = true -> length pay = 28%nat ->
  s < two64 -> t < two64 -> Forall (fun b => 128 <= b) u ->
  from_bytes (h :: pay ++ u) = Err /\
  from_bytes (h :: pay ++ varnat_encode s ++ u) = Err /\
  from_bytes (h :: pay ++ varnat_encode s ++ varnat_encode t ++ u) = Err.
Proof. exact strict_rejects_unterminated. Qed.
Print Assumptions C11_strict_rejects_unterminated.

(* every proper prefix of a written Byron address is refused too (an error, never a panic) *)
Theorem C11_strict_rejects_truncation_byron : forall ig b k, wf_byron b ->
  (k < length (to_bytes (Byron b)))%nat -> from_bytes_internal ig (firstn k (to_bytes (Byron b))) = Err.
Proof. exact strict_rejects_truncation_byron. Qed.
Print Assumptions C11_strict_rejects_truncation_byron.

(* a variable-length field is accepted only with the value of its groups, which is then a u64 *)
Theorem C11_strict_rejects_overflow : forall bs acc r v k, varnat_decode_go bs acc r = Some (v, k) ->
  v = gval bs acc (k - r) /\ gval bs acc (k - r) < two64.
Proof. exact varnat_decode_value. Qed.
Print Assumptions C11_strict_rejects_overflow.

Theorem C11_strict_rejects_empty : forall ig, from_bytes_internal ig [] = Err.
Proof. exact strict_rejects_empty. Qed.
Print Assumptions C11_strict_rejects_empty.

(* ---- variable-length naturals ---- *)
Theorem C11_varnat : forall n rest, n < two64 ->
  varnat_decode (varnat_encode n ++ rest) = Some (n, length (varnat_encode n)).
Proof. exact varnat_roundtrip. Qed.
Print Assumptions C11_varnat.

Theorem C11_varnat_canonical : forall bs v k, bytes_ok bs -> varnat_padded bs = false ->
  varnat_decode bs = Some (v, k) -> varnat_encode v = firstn k bs.
Proof. exact varnat_decode_canonical. Qed.
Print Assumptions C11_varnat_canonical.

(* ---- Byron ---- *)
Theorem C11_byron_roundtrip : forall b, wf_byron b -> byron_from_bytes crc32 (byron_encode crc32 b) = Ok b.
Proof. exact (byron_roundtrip crc32 crc32_range). Qed.
Print Assumptions C11_byron_roundtrip.

(* the same for ANY checksum function with u64 range (the CRC's value does not matter) *)
Theorem C11_byron_roundtrip_any_crc : forall crc : bytes -> N, (forall bs, crc bs < two64) ->
  forall b, wf_byron b -> byron_from_bytes crc (byron_encode crc b) = Ok b.
Proof. exact byron_roundtrip. Qed.
Print Assumptions C11_byron_roundtrip_any_crc.

Theorem C11_crc_table_standard : crc_table = map (fun i => crc_entry (N.of_nat i)) (seq 0 256).
Proof. exact crc_table_standard. Qed.
Print Assumptions C11_crc_table_standard.

(* ---- Base58: every non-empty byte string; the empty one is the exception of this algorithm ---- *)
Theorem C11_base58 : forall bs, bytes_ok bs -> bs <> [] -> base58_decode (base58_encode bs) = Ok bs.
Proof. exact base58_roundtrip. Qed.
Print Assumptions C11_base58.

Theorem C11_base58_empty_refuted : base58_decode (base58_encode []) = Ok [0].
Proof. exact base58_empty_refuted. Qed.
Print Assumptions C11_base58_empty_refuted.

Theorem C11_byron_base58 : forall b, wf_byron b -> byron_from_base58 (byron_to_base58 b) = Ok b.
Proof. exact byron_base58_roundtrip. Qed.
Print Assumptions C11_byron_base58.

(* ---- Bech32, for every prefix: the crate (bech32 0.7.3) is modelled in Addr/Bech32.v and its
   round-trip law is a THEOREM (no premise) ---- *)
Theorem C11_bech32 : forall prefix a s, wf_address a ->
  to_bech32 Bech32.b32_encode prefix a = Ok s -> from_bech32 Bech32.b32_decode s = Ok a.
Proof. exact bech32_roundtrip_concrete. Qed.
Print Assumptions C11_bech32.

(* with the default (CIP5) prefix the text always exists *)
Theorem C11_bech32_default_total : forall a p, default_prefix a = Ok p ->
  exists s, to_bech32 Bech32.b32_encode None a = Ok s.
Proof. exact to_bech32_default_total. Qed.
Print Assumptions C11_bech32_default_total.

(* the former statement, for ANY implementation of the two crate calls that satisfies the law *)
Theorem C11_bech32_any_codec : forall (b32_encode : list N -> bytes -> option (list N))
                                      (b32_decode : list N -> option (list N * bytes)),
  (forall hrp data s, bytes_ok data -> b32_encode hrp data = Some s -> exists hrp', b32_decode s = Some (hrp', data)) ->
  forall prefix a s, wf_address a ->
  to_bech32 b32_encode prefix a = Ok s -> from_bech32 b32_decode s = Ok a.
Proof. exact bech32_roundtrip. Qed.
Print Assumptions C11_bech32_any_codec.

(* the crate's law itself: every valid HRP (upper-case ones are lower-cased), EVERY byte string, no length limit *)
Theorem C11_bech32_codec_roundtrip : forall hrp bs s, bytes_ok bs -> Bech32.b32_encode hrp bs = Some s ->
  exists c, check_hrp hrp = Ok c /\ Bech32.b32_decode s = Some (hrp_lower c hrp, bs).
Proof. exact b32_roundtrip. Qed.
Print Assumptions C11_bech32_codec_roundtrip.

Theorem C11_bech32_decode_encode : forall hrp data s, Forall (fun d => d < 32) data -> encode hrp data = Ok s ->
  exists c, check_hrp hrp = Ok c /\ decode s = Ok (hrp_lower c hrp, data).
Proof. exact decode_encode. Qed.
Print Assumptions C11_bech32_decode_encode.

Theorem C11_bech32_checksum_valid : forall hrp data,
  polymod (hrp_expand hrp ++ data ++ create_checksum hrp data) = 1.
Proof. exact checksum_valid. Qed.
Print Assumptions C11_bech32_checksum_valid.

Theorem C11_bech32_polymod_linear : forall c1 c2 v1 v2,
  polymod_step (N.lxor c1 c2) (N.lxor v1 v2) = N.lxor (polymod_step c1 v1) (polymod_step c2 v2).
Proof. exact step_linear. Qed.
Print Assumptions C11_bech32_polymod_linear.

Theorem C11_bech32_base32_roundtrip : forall bs, bytes_ok bs -> from_base32 (to_base32 bs) = Ok bs.
Proof. exact base32_roundtrip. Qed.
Print Assumptions C11_bech32_base32_roundtrip.

(* rejections: mixed case, characters outside the charset, one wrong symbol, a wrong HRP letter *)
Theorem C11_bech32_rejects_mixed_case : forall s sep lo up, rfind 49 s = Some sep ->
  In lo (skipn (S sep) s) -> In up (skipn (S sep) s) -> is_lower lo = true -> is_upper up = true ->
  decode s = Err.
Proof. exact decode_rejects_mixed_case. Qed.
Print Assumptions C11_bech32_rejects_mixed_case.

Theorem C11_bech32_rejects_bad_char : forall s sep c, rfind 49 s = Some sep -> In c (skipn (S sep) s) ->
  (forall case, decode_char case c = Err) -> decode s = Err.
Proof. exact decode_rejects_bad_char. Qed.
Print Assumptions C11_bech32_rejects_bad_char.

Theorem C11_bech32_detects_one_wrong_symbol : forall hrp a e e' z, e < 32 -> e' < 32 -> e <> e' ->
  verify_checksum hrp (a ++ e :: z) = true -> verify_checksum hrp (a ++ e' :: z) = false.
Proof. exact verify_rejects_symbol_substitution. Qed.
Print Assumptions C11_bech32_detects_one_wrong_symbol.

Theorem C11_bech32_detects_wrong_hrp_letter : forall h1 x x' h2 data, x / 32 = x' / 32 -> x mod 32 <> x' mod 32 ->
  verify_checksum (h1 ++ x :: h2) data = true -> verify_checksum (h1 ++ x' :: h2) data = false.
Proof. exact verify_rejects_hrp_substitution. Qed.
Print Assumptions C11_bech32_detects_wrong_hrp_letter.

(* BIP-173 test vector "a12uel5l" *)
Check (eq_refl : encode [97] [] = Ok [97; 49; 50; 117; 101; 108; 53; 108]).

(* ---- embedded decoding: total and verbatim, at full strength outside narrow known classes ---- *)
Definition C11_embedded_total_full : Prop := forall data, exists a, embedded_decode data = Ok a.
Definition C11_embedded_verbatim_full : Prop :=
  forall data a, bytes_ok data -> embedded_decode data = Ok a -> to_bytes a = data.

Theorem C11_embedded_total : forall data, known_huge_length data = false -> exists a, embedded_decode data = Ok a.
Proof. exact embedded_total. Qed.
Print Assumptions C11_embedded_total.

Theorem C11_embedded_total_refuted : ~ C11_embedded_total_full.
Proof.
  intros H. destruct (H w_huge) as [a Ha]. destruct embedded_total_refuted as [E _]. congruence.
Qed.
Print Assumptions C11_embedded_total_refuted.

Theorem C11_embedded_verbatim : forall data a, bytes_ok data ->
  known_trailing data = false -> known_padded_pointer data = false ->
  known_noncanonical_byron data = false ->
  embedded_decode data = Ok a -> to_bytes a = data.
Proof. exact embedded_verbatim. Qed.
Print Assumptions C11_embedded_verbatim.

Theorem C11_embedded_verbatim_refuted :
  ~ C11_embedded_verbatim_full /\
  (verbatim_fails w_trailing /\ known_trailing w_trailing = true) /\
  (verbatim_fails w_padded /\ known_padded_pointer w_padded = true) /\
  (verbatim_fails w_byron /\ known_noncanonical_byron w_byron = true).
Proof.
  split.
  - intros H. destruct embedded_verbatim_refuted_trailing as [[Hok [a [Ha Hne]]] _].
    apply Hne. exact (H _ _ Hok Ha).
  - exact (conj embedded_verbatim_refuted_trailing
             (conj embedded_verbatim_refuted_padded embedded_verbatim_refuted_byron)).
Qed.
Print Assumptions C11_embedded_verbatim_refuted.

(* the trailing-bytes class in general: every Shelley-era address followed by anything *)
Theorem C11_lenient_drops_trailing : forall a junk, wf_address a -> shelley_kind a = true ->
  embedded_decode (to_bytes a ++ junk) = Ok a.
Proof. exact lenient_drops_trailing. Qed.
Print Assumptions C11_lenient_drops_trailing.

(* whatever either parser returns is a well-formed value, hence parse . write . parse = parse *)
Theorem C11_parsed_wf : forall ig data a, bytes_ok data -> N.of_nat (length data) < 4611686018427387904 ->
  from_bytes_internal ig data = Ok a -> wf_address a /\ from_bytes (to_bytes a) = Ok a.
Proof. intros ig data a H1 H2 H3. split; [exact (parsed_wf ig data a H1 H2 H3)|exact (reparse_same ig data a H1 H2 H3)]. Qed.
Print Assumptions C11_parsed_wf.

(* the judge of the correspondence run, applied to the model's own observations of ANY byte string,
   reports either Holds or one of the known classes - never an unknown failure; on written
   addresses it reports Holds *)
Theorem C11_judge_accepts_model : forall data, bytes_ok data -> N.of_nat (length data) < 4611686018427387904 ->
  known_only (judge_dec data (model_dec data)).
Proof. exact judge_dec_accepts_model. Qed.
Print Assumptions C11_judge_accepts_model.

Theorem C11_judge_holds_on_written : forall a, wf_address a -> N.of_nat (length (to_bytes a)) < 4611686018427387904 ->
  judge_dec (to_bytes a) (model_dec (to_bytes a)) = Holds.
Proof. exact judge_dec_holds_on_written. Qed.
Print Assumptions C11_judge_holds_on_written.

(* non-vacuity of the premises *)
Example C11_verbatim_premises_satisfiable :
  let data := 65 :: repeat 9 28 ++ [129; 0; 2; 3] in
  bytes_ok data /\ known_trailing data = false /\ known_padded_pointer data = false /\
  known_noncanonical_byron data = false /\
  embedded_decode data = Ok (Ptr 1 (KeyHash (repeat 9 28)) (mkPtr 128 2 3)).
Proof. exact embedded_verbatim_nonvacuous. Qed.

Example C11_wf_satisfiable :
  wf_address (Ptr 15 (ScriptHash (repeat 255 28)) (mkPtr 18446744073709551615 0 128)) /\
  wf_address (Byron (mkByron (repeat 1 28) (Some [1; 2; 3]) (Some 4294967295) ATRedeem)).
Proof.
  split.
  - split; [lia|]. split; [split; [reflexivity|repeat constructor]|]. unfold wf_pointer, two64; cbn; lia.
  - split; [reflexivity|]. split; [repeat constructor|]. split; [split; [repeat constructor|cbn; lia]|].
    unfold two32; cbn; lia.
Qed.

(* pinned test vectors of the Rust suite *)
Check (eq_refl : varnat_decode [129; 255; 255; 255; 255; 255; 255; 255; 255; 255; 127] = None).
