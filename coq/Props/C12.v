(* C12 — Signatures verify, derivation commutes, key encodings and encryption round-trip.   PARTIAL BY NATURE.
   The cryptography (Ed25519, BIP32-Ed25519, PBKDF2, ChaCha20-Poly1305, bech32) lives in external crates and is NOT proved.
   Every theorem below quantifies over an arbitrary instance [P : prims] of those primitives and names, as explicit premises,
   the laws of Crypto/Iface.v it relies on ([law_*]).  What is proved is /repo's own wrapper logic: which bytes are signed and
   under which key the result verifies, the layout of the 128-byte form, length / structure / HRP checks of every encoding,
   the derivation wrappers, and the EMIP-3 container.  Only statements here; proofs are in Crypto/*Proofs.v. *)
From CSL Require Import Base.Prelude Base.Hex Cbor.Head Crypto.Iface Crypto.Wrappers Crypto.WrappersProofs
  Crypto.Emip3 Crypto.Emip3Proofs Crypto.Toy Crypto.Obs Crypto.ObsProofs Crypto.Bech32Inst Crypto.WitnessCbor Crypto.WitnessCborProofs.
From CSL Require Addr.Bech32 Addr.Bech32Proofs Codec.Schema Ledger.Schemas.
Local Open Scope N_scope.

(* the laws are jointly satisfiable (by a cryptographically worthless instance): no theorem below is vacuous *)
Theorem C12_laws_satisfiable : exists P : prims,
  law_shapes P /\ law_sign_normal P /\ law_sign_extended P /\ law_xpub_layout P /\ law_soft_derivation P /\
  law_hard_refused P /\ law_normalize3 P /\ law_pbkdf2_bip39_shape P /\
  law_aead_roundtrip P /\ law_aead_shapes P /\ law_aead_authentic P /\ law_aead_plain_by_ct P /\
  law_base32_roundtrip P /\ law_bech32_roundtrip P.
Proof. exists toy. exact toy_laws. Qed.
Print Assumptions C12_laws_satisfiable.

(* the two bech32 laws are no premises any more: they hold for the executable model of the bech32 crate (proved by C11 in
   Addr/Bech32Proofs.v), whatever the other primitives are *)
Theorem C12_bech32_laws_proved : forall P : prims,
  law_base32_roundtrip (with_bech32 P) /\ law_bech32_roundtrip (with_bech32 P).
Proof. intros P. exact (conj (concrete_base32_roundtrip P) (concrete_bech32_roundtrip P)). Qed.
Print Assumptions C12_bech32_laws_proved.

(* ---- witnesses: the signed message is exactly the hash bytes; the witness verifies under the key it carries ---- *)
Theorem C12_witness_signs_hash : forall P : prims,
  law_sign_normal P -> law_sign_extended P -> law_shapes P -> law_xpub_layout P ->
  (forall h sk, sk_signable sk ->
     let w := make_vkey_witness P h sk in
     vw_vkey w = sk_to_public P sk /\ vw_sig w = sk_sign P sk h /\ pk_verify P (vw_vkey w) h (vw_sig w) = true) /\
  (forall h attrs k, xprv_valid k ->
     let w := make_icarus_bootstrap_witness P h attrs k in
     bw_sig w = ed_sign_ext P (firstn 64 k) h /\ pk_verify P (bw_vkey w) h (bw_sig w) = true /\
     bw_vkey w ++ bw_cc w = xprv_public P k /\ len (bw_cc w) = 32 /\ bw_attrs w = attrs) /\
  (forall h attrs k, wfb 96 k -> ext_scalar_ok (firstn 64 k) = true ->
     exists w, make_daedalus_bootstrap_witness P h attrs k = Ok w /\
       bw_sig w = ed_sign_ext P (firstn 64 k) h /\ bw_vkey w = ed_ext_pub P (firstn 64 k) /\
       pk_verify P (bw_vkey w) h (bw_sig w) = true /\ bw_cc w = skipn 64 k /\ len (bw_cc w) = 32 /\ bw_attrs w = attrs).
Proof.
  intros P LN LE LS LL. split; [|split].
  - intros h sk Hs. exact (vkey_witness_signs_hash P h sk LN LE Hs).
  - intros h attrs k Hv. exact (icarus_witness_signs_hash P h attrs k LE LS LL Hv).
  - intros h attrs k Hk Hs. exact (daedalus_witness_signs_hash P h attrs k LE LS Hk Hs).
Qed.
Print Assumptions C12_witness_signs_hash.
Example C12_witness_premises : xprv_valid toy_root /\ sk_signable (SkNormal (repeat 7 32)) /\ sk_signable (SkExtended (repeat 7 64)).
Proof.
  split; [exact toy_root_ok|]. split; [split; [reflexivity|]|split; [split; [reflexivity|]|reflexivity]];
  apply Forall_forall; intros x Hx; apply repeat_spec in Hx; subst; reflexivity.
Qed.

(* ---- the same about the SERIALIZED witnesses (Vkeywitness::to_bytes / BootstrapWitness::to_bytes, written with the C01 schemas):
        byte layout, the C01 decoder reads back exactly the public key and the signature over the hash, and they verify ---- *)
Theorem C12_witness_bytes_sign_hash : forall P : prims,
  law_sign_normal P -> law_sign_extended P -> law_shapes P -> law_xpub_layout P ->
  (forall h sk rest, sk_signable sk ->
     let b := vkeywitness_to_bytes (make_vkey_witness P h sk) in
     b = [130; 88; 32] ++ sk_to_public P sk ++ [88; 64] ++ sk_sign P sk h /\
     Schema.dec Schemas.Vkeywitness (b ++ rest) =
       Ok (Schema.VList [Schema.VBytes (sk_to_public P sk); Schema.VBytes (sk_sign P sk h)], rest) /\
     pk_verify P (sk_to_public P sk) h (sk_sign P sk h) = true) /\
  (forall h attrs k rest, xprv_valid k -> bytes_ok attrs -> len attrs < two64 ->
     let w := make_icarus_bootstrap_witness P h attrs k in
     let b := bootstrapwitness_to_bytes w in
     b = [132; 88; 32] ++ ed_ext_pub P (firstn 64 k) ++ [88; 64] ++ ed_sign_ext P (firstn 64 k) h ++
         [88; 32] ++ skipn 64 k ++ encode_head 2 (len attrs) ++ attrs /\
     Schema.dec Schemas.BootstrapWitness (b ++ rest) = Ok (bootstrapwitness_val w, rest) /\
     pk_verify P (bw_vkey w) h (bw_sig w) = true).
Proof.
  intros P LN LE LS LL. split.
  - intros h sk rest S. exact (vkey_witness_bytes P h sk rest LN LE LS S).
  - intros h attrs k rest V Ba La. exact (icarus_witness_bytes P h attrs k rest LE LS LL V Ba La).
Qed.
Print Assumptions C12_witness_bytes_sign_hash.

(* PublicKey::hash is Blake2b-224 (uninterpreted) of exactly the key bytes and is a well-formed Ed25519KeyHash *)
Theorem C12_pubkey_hash : forall P : prims, law_hash_shape P -> forall pk,
  pk_hash P pk = blake2b224 P pk /\ hash_from_bytes 28 (pk_hash P pk) = Ok (pk_hash P pk).
Proof. intros P L pk. exact (pk_hash_is_keyhash P pk L). Qed.
Print Assumptions C12_pubkey_hash.
Example C12_hash_shape_satisfiable : law_hash_shape toy.
Proof. exact toy_hash_shape. Qed.

(* ---- 128-byte form: secret (64) ++ public key (32) ++ chain code (32); only inputs of exactly 128 bytes are read ---- *)
Theorem C12_xprv128_roundtrip : forall P : prims, law_shapes P -> law_xpub_layout P ->
  (forall k, xprv_valid k ->
     from_128_xprv (to_128_xprv P k) = Ok k /\
     to_128_xprv P k = firstn 64 k ++ ed_ext_pub P (firstn 64 k) ++ skipn 64 k /\ len (to_128_xprv P k) = 128) /\
  (forall bs, len bs <> 128 -> from_128_xprv bs = Err) /\
  (forall bs, from_128_xprv bs <> Panic) /\
  (forall bs k, from_128_xprv bs = Ok k -> len bs = 128 /\ k = firstn 64 bs ++ firstn 32 (skipn 96 bs) /\ xprv_bits_ok k = true).
Proof.
  intros P LS LL. split; [|split; [|split]].
  - intros k Hv. split; [exact (xprv128_roundtrip P true k LS LL Hv)|exact (to_128_layout P k LS LL (proj1 Hv))].
  - exact from_128_xprv_length_checked.
  - exact from_128_xprv_never_panics.
  - exact from_128_xprv_reads.
Qed.
Print Assumptions C12_xprv128_roundtrip.

(* the code as found (before fix 6552603): short inputs panicked, long inputs were accepted *)
Theorem C12_xprv128_unfixed_refuted :
  (exists bs, from_128_xprv_gen false bs = Panic) /\
  (exists bs, len bs <> 128 /\ is_ok (from_128_xprv_gen false bs) = true).
Proof. exact from_128_xprv_unfixed_refuted. Qed.
Print Assumptions C12_xprv128_unfixed_refuted.

Definition C12_types : list ktype := [T_sk_normal; T_sk_ext; T_pk; T_sig; T_xprv; T_xpub; T_legacy].
(* any codec obeying the two bech32 laws (kept as the generic form) *)
Theorem C12_key_encodings_roundtrip_any_codec : forall P : prims, law_base32_roundtrip P -> law_bech32_roundtrip P ->
  (forall T bs, In T C12_types -> kt_valid T bs ->
     kt_from_binary T bs = Ok bs /\ kt_from_hex T (kt_to_hex bs) = Ok bs /\
     exists s, kt_to_bech32 P T bs = Ok s /\ kt_from_bech32 P T s = Ok bs) /\
  (forall k, sk_valid k ->
     sk_from_hex (hex (sk_as_bytes k)) = Ok k /\ exists s, sk_to_bech32 P k = Ok s /\ sk_from_bech32 P s = Ok k) /\
  (forall n prefix bs, hrp_valid prefix = true -> wfb n bs ->
     exists s, hash_to_bech32 P prefix bs = Ok s /\ hash_from_bech32 P n s = Ok bs) /\
  (forall n s, hash_from_bech32 P n s <> Panic).
Proof.
  intros P L1 L2. split; [|split; [|split]].
  - intros T bs HT Hv. split; [exact (proj1 Hv)|]. split; [exact (kt_hex_roundtrip T bs Hv)|].
    apply (kt_bech32_roundtrip P T bs L1 L2); [|exact Hv].
    pose proof hrps_valid as (A & B & C & D & E & F & G).
    cbn in HT. destruct HT as [<-|[<-|[<-|[<-|[<-|[<-|[<-|[]]]]]]]]; assumption.
  - intros k Hv. split; [exact (sk_hex_roundtrip k Hv)|exact (sk_bech32_roundtrip P k L1 L2 Hv)].
  - intros n prefix bs Hh Hw. exact (hash_bech32_roundtrip P n prefix bs L1 L2 Hh Hw true).
  - exact (hash_from_bech32_never_panics P).
Qed.
Print Assumptions C12_key_encodings_roundtrip_any_codec.

(* ---- bytes / hex / bech32 of every key and signature type round-trip.  The bech32 codec is the executable model of the bech32
        crate (Addr/Bech32.v, laws proved in Addr/Bech32Proofs.v): NO premise about bech32 is left; [P] only supplies the (unused
        here) cryptographic primitives ---- *)
Theorem C12_key_encodings_roundtrip : forall P : prims,
  (forall T bs, In T C12_types -> kt_valid T bs ->
     kt_from_binary T bs = Ok bs /\ kt_from_hex T (kt_to_hex bs) = Ok bs /\
     exists s, kt_to_bech32 (with_bech32 P) T bs = Ok s /\ kt_from_bech32 (with_bech32 P) T s = Ok bs /\
               Bech32.b32_encode (kt_hrp T) bs = Some s) /\
  (forall k, sk_valid k ->
     sk_from_hex (hex (sk_as_bytes k)) = Ok k /\
     exists s, sk_to_bech32 (with_bech32 P) k = Ok s /\ sk_from_bech32 (with_bech32 P) s = Ok k) /\
  (forall n prefix bs, hrp_valid prefix = true -> wfb n bs ->
     exists s, hash_to_bech32 (with_bech32 P) prefix bs = Ok s /\ hash_from_bech32 (with_bech32 P) n s = Ok bs) /\
  (forall n s, hash_from_bech32 (with_bech32 P) n s <> Panic).
Proof.
  intros P.
  destruct (C12_key_encodings_roundtrip_any_codec (with_bech32 P) (concrete_base32_roundtrip P) (concrete_bech32_roundtrip P))
    as (A & B & C & D).
  split; [|exact (conj B (conj C D))].
  intros T bs HT Hv. destruct (A T bs HT Hv) as (A1 & A2 & s & A3 & A4). split; [exact A1|]. split; [exact A2|].
  exists s. split; [exact A3|]. split; [exact A4|].
  unfold kt_to_bech32, to_bech32_from_bytes in A3. cbn [with_bech32 b32_encode b32_to_base32] in A3.
  unfold Bech32.b32_encode. destruct (Bech32.encode (kt_hrp T) (Bech32.to_base32 bs)); cbn [opt] in A3; try discriminate.
  injection A3 as <-. reflexivity.
Qed.
Print Assumptions C12_key_encodings_roundtrip.
Example C12_encodings_premises : kt_valid T_xprv toy_root /\ In T_xprv C12_types.
Proof. split; [apply xprv_valid_kt; exact toy_root_ok|cbn; tauto]. Qed.

Theorem C12_hash_bech32_unfixed_refuted : exists P n s, hash_from_bech32_gen P false n s = Panic.
Proof. exact hash_from_bech32_unfixed_refuted. Qed.
Print Assumptions C12_hash_bech32_unfixed_refuted.

(* ---- a text encoded under another human-readable part is rejected ---- *)
Theorem C12_hrp_checked_any_codec : forall P : prims, law_bech32_roundtrip P ->
  (forall T h bs s, hrp_valid h = true -> bytes_ok bs -> h <> kt_hrp T ->
     b32_encode P h (b32_to_base32 P bs) = Some s -> kt_from_bech32 P T s = Err) /\
  (forall h bs s, hrp_valid h = true -> bytes_ok bs -> h <> hrp_ed25519_sk -> h <> hrp_ed25519e_sk ->
     b32_encode P h (b32_to_base32 P bs) = Some s -> sk_from_bech32 P s = Err).
Proof.
  intros P L2. split.
  - intros T h bs s Hh Hb Hne E. exact (kt_hrp_checked P T h bs s L2 Hh Hb Hne E).
  - intros h bs s Hh Hb N1 N2 E. exact (sk_hrp_checked P h bs s L2 Hh Hb N1 N2 E).
Qed.
Print Assumptions C12_hrp_checked_any_codec.

(* concrete decoder: ANY text that the bech32 decoder accepts with a human-readable part other than the type's own is rejected by the
   library's prefix comparison (whatever produced the text), and in particular every text encoded under another valid HRP.
   (The decoder lower-cases an all-upper-case text, so "XPRV1…" is accepted for xprv: bech32 rule.) *)
Theorem C12_hrp_checked : forall P : prims,
  (forall T s h d, Bech32.decode s = Ok (h, d) -> h <> kt_hrp T -> kt_from_bech32 (with_bech32 P) T s = Err) /\
  (forall s h d, Bech32.decode s = Ok (h, d) -> h <> hrp_ed25519_sk -> h <> hrp_ed25519e_sk -> sk_from_bech32 (with_bech32 P) s = Err) /\
  (forall T s, Bech32.decode s = Err -> kt_from_bech32 (with_bech32 P) T s = Err) /\
  (forall T h bs s, hrp_valid h = true -> bytes_ok bs -> h <> kt_hrp T ->
     Bech32.b32_encode h bs = Some s -> kt_from_bech32 (with_bech32 P) T s = Err).
Proof.
  intros P.
  assert (A : forall T s h d, Bech32.decode s = Ok (h, d) -> h <> kt_hrp T -> kt_from_bech32 (with_bech32 P) T s = Err).
  { intros T s h d D N. unfold kt_from_bech32, try_from_bech32_to_bytes. cbn [with_bech32 b32_decode]. rewrite D. cbn [opt].
    rewrite (list_eqb_neq _ _ N). reflexivity. }
  split; [exact A|]. split; [|split].
  - intros s h d D N1 N2. unfold sk_from_bech32. rewrite (A T_sk_ext s h d D N2), (A T_sk_normal s h d D N1). reflexivity.
  - intros T s D. unfold kt_from_bech32, try_from_bech32_to_bytes. cbn [with_bech32 b32_decode]. rewrite D. reflexivity.
  - intros T h bs s Hh Hb N E.
    apply (proj1 (C12_hrp_checked_any_codec (with_bech32 P) (concrete_bech32_roundtrip P)) T h bs s Hh Hb N).
    cbn [with_bech32 b32_encode b32_to_base32]. unfold Bech32.b32_encode in E.
    destruct (Bech32.encode h (Bech32.to_base32 bs)); try discriminate. exact E.
Qed.
Print Assumptions C12_hrp_checked.

(* ---- derivation: whole soft paths commute with taking the public key; a hardened index is refused from the public side;
        keys made from BIP39 entropy are valid BIP32 keys ---- *)
Theorem C12_soft_derivation_commutes : forall P : prims, law_shapes P -> law_soft_derivation P ->
  forall path k, wfb 96 k -> forallb soft path = true ->
  derive_pub_path P (xprv_to_public P k) path = Ok (xprv_to_public P (derive_prv_path P k path)).
Proof. exact soft_derivation_commutes. Qed.
Print Assumptions C12_soft_derivation_commutes.

Theorem C12_hardened_from_public_refused : forall P : prims, law_hard_refused P ->
  forall path p, forallb soft path = false -> derive_pub_path P p path = Err.
Proof. exact hardened_from_public_refused. Qed.
Print Assumptions C12_hardened_from_public_refused.

Theorem C12_bip39_root_valid : forall P : prims, law_normalize3 P -> law_pbkdf2_bip39_shape P ->
  forall entropy password,
  xprv_valid (from_bip39_entropy P entropy password) /\
  xprv_from_bytes (from_bip39_entropy P entropy password) = Ok (from_bip39_entropy P entropy password).
Proof. intros P L1 L2 e pw. exact (bip39_root_valid P e pw L1 L2). Qed.
Print Assumptions C12_bip39_root_valid.

(* ---- EMIP-3: salt (32) ++ nonce (12) ++ tag (16) ++ ciphertext, hex in / hex out ---- *)
Theorem C12_emip3_roundtrip : forall P : prims, law_aead_roundtrip P -> law_aead_shapes P ->
  forall tp ts tn td pw salt nonce data, emip3_params tp ts tn td pw salt nonce data ->
  exists c, encrypt_with_password P tp ts tn td = Ok c /\ decrypt_with_password P tp c = Ok (hex data).
Proof.
  intros P LR LS tp ts tn td pw salt nonce data Hp.
  exact (emip3_roundtrip P true tp ts tn td pw salt nonce data LR LS Hp (or_introl eq_refl)).
Qed.
Print Assumptions C12_emip3_roundtrip.
Example C12_emip3_premises :
  emip3_params (hex [1]) (hex (repeat 2 32)) (hex (repeat 3 12)) [] [1] (repeat 2 32) (repeat 3 12) [].
Proof. repeat split; vm_compute; try reflexivity; discriminate. Qed.

(* the code as found (before fix 6401dee) refused the encryption of an empty plaintext *)
Theorem C12_emip3_empty_plaintext_unfixed_refuted : forall P : prims, law_aead_shapes P ->
  forall tp ts tn pw salt nonce, emip3_params tp ts tn [] pw salt nonce [] ->
  exists c, encrypt_with_password P tp ts tn [] = Ok c /\ decrypt_with_password_gen P false tp c = Err.
Proof. intros P LS tp ts tn pw salt nonce. exact (emip3_empty_plaintext_unfixed_refuted P tp ts tn pw salt nonce LS). Qed.
Print Assumptions C12_emip3_empty_plaintext_unfixed_refuted.

(* decryption accepts ONLY byte-exact outputs of encryption (for the returned plaintext, with the salt and nonce carried) *)
Theorem C12_emip3_accepts_only_encrypt_images : forall P : prims, law_aead_authentic P ->
  forall tp tc r, decrypt_with_password P tp tc = Ok r ->
  exists pw c p, unhex tp = Some pw /\ unhex tc = Some c /\ r = hex p /\ bytes_ok p /\ 60 <= len c /\
    aead_enc P (kdf P pw (firstn 32 c)) (firstn 12 (skipn 32 c)) p = (skipn 60 c, firstn 16 (skipn 44 c)) /\
    (len pw <> 0 -> encrypt_with_password P tp (hex (firstn 32 c)) (hex (firstn 12 (skipn 32 c))) (hex p) = Ok (hex c)).
Proof. intros P LA tp tc r. exact (emip3_accepts_only_images P true tp tc r LA). Qed.
Print Assumptions C12_emip3_accepts_only_encrypt_images.

(* hence every other container is rejected.  The last premise is the cryptographic one and is stated for the instance at hand:
   "this container is not itself a complete valid AEAD encryption under the key derived from the offered password and the salt
   it carries".  For a container obtained by changing the salt, nonce, ciphertext or password of a genuine one, its truth is
   the computational unforgeability of ChaCha20-Poly1305 / PBKDF2, not a mathematical fact; it is exercised (tested, not
   proved) on the real crates by the correspondence run. *)
Theorem C12_emip3_rejects_modified : forall P : prims, law_aead_authentic P ->
  forall tp tc pw c, unhex tp = Some pw -> unhex tc = Some c ->
  (forall p, aead_enc P (kdf P pw (firstn 32 c)) (firstn 12 (skipn 32 c)) p <> (skipn 60 c, firstn 16 (skipn 44 c))) ->
  decrypt_with_password P tp tc = Err.
Proof. intros P LA tp tc pw c. exact (emip3_rejects_non_images P true tp tc pw c LA). Qed.
Print Assumptions C12_emip3_rejects_modified.

(* LIMITATION made explicit: the password enters only through the derived key.  Two different passwords that derive the same key
   under the carried salt are indistinguishable to decryption; PBKDF2-HMAC-SHA512 has such pairs by construction (HMAC zero-pads the
   key: P and P ++ [0]; a password longer than 128 bytes and its SHA-512 digest).  For them the premise of C12_emip3_rejects_modified
   is false and "an error under any other password" does not hold — a property of the external KDF, observed on the real code
   (sequence pattern related-passwords: the model, whose kdf is the table of real PBKDF2 calls, predicts the acceptance). *)
Theorem C12_emip3_password_only_through_key : forall (P : prims) tp tp' tc pw pw' c,
  unhex tp = Some pw -> unhex tp' = Some pw' -> unhex tc = Some c ->
  kdf P pw (firstn 32 c) = kdf P pw' (firstn 32 c) ->
  decrypt_with_password P tp tc = decrypt_with_password P tp' tc.
Proof. intros P tp tp' tc pw pw' c. exact (emip3_depends_on_key_only P true tp tp' tc pw pw' c). Qed.
Print Assumptions C12_emip3_password_only_through_key.

(* a modified TAG needs no cryptographic premise at all *)
Theorem C12_emip3_rejects_modified_tag : forall P : prims,
  law_aead_roundtrip P -> law_aead_shapes P -> law_aead_authentic P -> law_aead_plain_by_ct P ->
  forall tp ts tn td pw salt nonce data tag', emip3_params tp ts tn td pw salt nonce data ->
  wfb 16 tag' -> tag' <> snd (aead_enc P (kdf P pw salt) nonce data) ->
  decrypt_with_password P tp (hex (container salt nonce tag' (fst (aead_enc P (kdf P pw salt) nonce data)))) = Err.
Proof.
  intros P LR LS LA LP tp ts tn td pw salt nonce data tag' Hp Hw Hne.
  exact (emip3_rejects_modified_tag P true tp ts tn td pw salt nonce data tag' LR LS LA LP Hp Hw Hne).
Qed.
Print Assumptions C12_emip3_rejects_modified_tag.

(* ---- the judge used by the correspondence run: on EVERY case (all inputs) the model's own observation contains no panic and
        satisfies the proved part [stmt] of the property; the judge can then fail only in its TESTED part [stmt_tested]
        (verification under another message / key, structure check of derived keys), which no functional law gives ---- *)
Theorem C12_model_satisfies_judge : forall P : prims,
  law_shapes P /\ law_sign_normal P /\ law_sign_extended P /\ law_xpub_layout P /\ law_soft_derivation P /\
  law_hard_refused P /\ law_normalize3 P /\ law_pbkdf2_bip39_shape P /\
  law_aead_roundtrip P /\ law_aead_shapes P /\ law_aead_authentic P /\ law_aead_plain_by_ct P ->
  let Q := with_bech32 P in
  forall c, case_wf c ->
  has_panic (model_obs Q c) = false /\ stmt Q c (model_obs Q c) = true /\
  judge Q c (model_obs Q c) =
    (if stmt_tested Q c (model_obs Q c) then Holds
     else if known_class Q c =? 0 then FailsUnknown else FailsKnown (known_class Q c)).
Proof.
  intros P L Q c H. pose proof (all_laws_concrete P L) as LQ.
  destruct (model_satisfies_stmt Q LQ c H) as [A B]. exact (conj A (conj B (judge_on_model Q LQ c H))).
Qed.
Print Assumptions C12_model_satisfies_judge.
(* sequences of calls in one process: the model of a sequence is the list of the models of the steps taken alone, so any
   dependence of an implementation result on earlier calls is a disagreement; the judge accepts the model's sequence exactly
   when every step passes its tested part *)
Theorem C12_sequences_stepwise : forall P : prims,
  law_shapes P /\ law_sign_normal P /\ law_sign_extended P /\ law_xpub_layout P /\ law_soft_derivation P /\
  law_hard_refused P /\ law_normalize3 P /\ law_pbkdf2_bip39_shape P /\
  law_aead_roundtrip P /\ law_aead_shapes P /\ law_aead_authentic P /\ law_aead_plain_by_ct P ->
  let Q := with_bech32 P in
  forall l, Forall case_wf l ->
  model_seq Q l = map (model_obs Q) l /\
  (forallb (fun c => stmt_tested Q c (model_obs Q c)) l = true -> judge_seq Q l (model_seq Q l) = Holds).
Proof. intros P L Q l H. exact (conj eq_refl (judge_seq_on_model Q (all_laws_concrete P L) l H)). Qed.
Print Assumptions C12_sequences_stepwise.

Example C12_case_wf_nontrivial : case_wf (CSign 1 (repeat 7 64) [1; 2] [3] (repeat 8 64)) /\ case_wf (CX128 toy_root).
Proof.
  split; [split|exact (proj2 (proj1 toy_root_ok))]; apply Forall_forall; intros x Hx; apply repeat_spec in Hx; subst; reflexivity.
Qed.

(* pinned shapes (cannot be weakened silently) *)
Check (eq_refl : METADATA_SIZE = 60).
Check (eq_refl : kt_hrp T_xprv = [120; 112; 114; 118]).
Check (eq_refl : (fixed_xprv128_length, fixed_hash_bech32_padding, fixed_ext_scalar_check, fixed_emip3_empty) = (true, true, true, true)).
