(* C18 — Witness requirements are complete, unique, and sized exactly.
   Only statements here; each is closed by a lemma of Witnesses/WitnessProofs.v or Witnesses/FakeSize.v.
   Model: Witnesses/Witnesses.v (count_needed_vkeys and its six sources, bootstrap set, combined native /
   Plutus script collection with de-duplication, PlutusWitnesses::collect, get_reference_inputs, the
   witness set of build_tx), specification: Witnesses/WitnessSpec.v (ledger witsVKeyNeeded table over the
   19 Conway certificate kinds, Babbage script-availability rule, size functions, judge).
   All quantifiers are unbounded: [t : tx_ops] is an arbitrary history of calls on the inputs builder, the
   collateral builder, the five sub-builders and the transaction builder, with arbitrary (overlapping) key
   hashes, repeated scripts / datums / redeemers, in any order.
   Premises (each decidable on the history, each shown satisfiable below):
     all_consistent t   an outpoint that is added again is added with the same owner
                        (otherwise: known class C18-input-readded-with-other-owner, refuted below)
     known_genesis t = false   outside the genesis-delegation class (C18-genesis-delegation-witness)
     collateral_plain t collateral inputs are key / Byron locked (the ledger's rule)
     no_mixed_supply t  no script is handed over inline by one item and by reference by another
                        (otherwise: known class C18-script-inline-and-by-reference) *)
From CSL Require Import Base.Prelude Cbor.Head Witnesses.Witnesses Witnesses.WitnessSpec Witnesses.WitnessProofs Witnesses.FakeSize.
From Coq Require Import Permutation.
Local Open Scope N_scope.

(* the builder counts exactly the distinct keys that have to sign, whatever overlaps between the sources *)
Theorem C18_signers_union : forall t : tx_ops,
  all_consistent t = true -> known_genesis t = false ->
  count_needed_vkeys t = N.of_nat (length (required_keys_spec t)) /\
  NoDup (needed_vkeys t) /\
  Permutation (needed_bootstraps t) (required_boots_spec t).
Proof.
  intros t HC HG. split; [exact (signers_union t HC HG) |]. split; [apply needed_vkeys_nodup | exact (boots_spec t HC)].
Qed.
Print Assumptions C18_signers_union.

(* per certificate kind (Conway CDDL 0..18 and anything else), for every credential and owner list: the keys
   counted are the key credentials of the ledger table (with the genesis key, i.e. the repaired kind 5), and a
   script witness is demanded exactly when the table names a script credential *)
Theorem C18_cert_table : forall (c : cert) (k : key),
  (In k (witness_keys_for_cert_gen true c) <-> In k (creds_keys (cert_witness_creds c))) /\
  (c_kind c <> 5 -> witness_keys_for_cert c = witness_keys_for_cert_gen true c) /\
  cert_has_required_script_witness c = existsb cred_is_script (cert_witness_creds c).
Proof.
  intros c k. split; [apply cert_table_keys |]. split; [apply witness_keys_not_genesis | apply cert_table_scripts].
Qed.
Print Assumptions C18_cert_table.

(* every script-locked input, policy, certificate, withdrawal, vote and proposal has its script at hand exactly
   once (one copy in the de-duplicated witness set, or its declared reference input in the body and then no copy
   in the witness set), with its datum and redeemer where the Plutus witness carries them *)
Theorem C18_scripts_once : forall t : tx_ops,
  consistent_owners (t_inputs t) = true ->
  scripts_available t (model_emitted t) = true /\
  (collateral_plain t = true -> no_mixed_supply t = true -> scripts_not_twice t (model_emitted t) = true) /\
  (collateral_plain t = true -> forall s, In s (ws_native_scripts t) \/ In s (ws_plutus_scripts t) -> In s (inline_hashes t)).
Proof.
  intros t HC. split; [exact (scripts_available_model t HC) |]. split.
  - intros HP HM. exact (scripts_not_twice_model t HC HP HM).
  - intros HP s [H | H]; [exact (native_emitted_inline t s HC HP H) | exact (plutus_emitted_inline t s HC HP H)].
Qed.
Print Assumptions C18_scripts_once.

(* the body's reference inputs: exactly the declared ones that are not spent, without duplicates *)
Theorem C18_refs_declared : forall (t : tx_ops) (r : oref),
  (In r (body_reference_inputs t) <->
     (In r (source_ref_inputs t) /\ ~ In r (body_inputs t)) \/
     (In r (t_reference_inputs t) /\ (t_dedup_explicit_refs t = true -> ~ In r (body_inputs t)))) /\
  NoDup (body_reference_inputs t) /\
  (In r (source_ref_inputs t) -> ref_available (model_emitted t) r = true).
Proof.
  intros t r. split; [apply refs_declared |]. split; [apply refs_nodup | apply ref_avail_model].
Qed.
Print Assumptions C18_refs_declared.

(* the size clause: the bytes reserved for signatures equal the bytes of the real signatures; and in general
   the clause 0 <= predicted - signed < |one key witness| holds exactly when the counts agree *)
Theorem C18_size_exact : forall (tb : attr_table) (t : tx_ops),
  (all_consistent t = true -> known_genesis t = false -> predicted_sig_bytes tb t = signed_sig_bytes tb t) /\
  (forall n m b, (vkeys_field_size m + b <= vkeys_field_size n + b /\
                  vkeys_field_size n + b < vkeys_field_size m + b + vkey_witness_size) <-> n = m) /\
  vkey_witness_size = 101.
Proof.
  intros tb t. split; [exact (size_exact tb t) |]. split; [exact size_clause_iff_count | reflexivity].
Qed.
Print Assumptions C18_size_exact.

(* mock witnesses have the size of real ones: the encodings depend on lengths only, and the size functions of
   the specification are the lengths of these encodings *)
Theorem C18_fake_witness_sizes :
  (forall ws, Forall vkw_ok ws -> lenN (enc_vkeys_field ws) = vkeys_field_size (lenN ws)) /\
  (forall fake real, Forall vkw_ok fake -> Forall vkw_ok real -> length fake = length real ->
     length (enc_vkeys_field fake) = length (enc_vkeys_field real)) /\
  (forall ws, Forall bootw_ok ws -> lenN (enc_boots_field ws) = boots_field_size (map (fun w => lenN (bw_attr w)) ws)) /\
  (forall fake real, Forall bootw_ok fake -> Forall bootw_ok real ->
     map (fun w => lenN (bw_attr w)) fake = map (fun w => lenN (bw_attr w)) real ->
     length (enc_boots_field fake) = length (enc_boots_field real)).
Proof.
  split; [exact enc_vkeys_field_length |]. split; [exact fake_vkeys_same_size |].
  split; [exact enc_boots_field_length | exact fake_boots_same_size].
Qed.
Print Assumptions C18_fake_witness_sizes.

(* the executable statement used by the check accepts what the model builds *)
Theorem C18_judge_accepts_model : forall (hr : hash_rank) (tb : attr_table) (t : tx_ops),
  wits_match t = true -> all_consistent t = true -> collateral_plain t = true -> no_mixed_supply t = true ->
  known_genesis t = false ->
  judge_hr hr t {| o_predicted := predicted_sig_bytes tb t; o_signed := signed_sig_bytes tb t; o_emitted := model_emitted_hr hr t |} = Holds.
Proof. exact judge_accepts_model. Qed.
Print Assumptions C18_judge_accepts_model.

(* the original code (before the four fix commits): signers forgotten or counted in excess *)
Theorem C18_original_refuted :
  (exists t, all_consistent t = true /\ (length (needed_vkeys_gen false true true true t) < length (required_keys_spec t))%nat) /\
  (exists t, all_consistent t = true /\ (length (needed_vkeys_gen true false true true t) < length (required_keys_spec t))%nat) /\
  (exists t, all_consistent t = true /\ (length (required_keys_spec t) + 2 <= length (needed_vkeys_gen true false true true t))%nat) /\
  (exists t, all_consistent t = true /\ (length (needed_vkeys_gen true true false true t) < length (required_keys_spec t))%nat) /\
  (exists t, all_consistent t = true /\ (length (needed_bootstraps_gen false t) < length (required_boots_spec t))%nat).
Proof.
  split; [exact votes_original_refuted |]. split; [exact (proj1 mint_original_refuted) |].
  split; [exact (proj2 mint_original_refuted) |]. split; [exact proposals_original_refuted | exact collateral_boots_original_refuted].
Qed.
Print Assumptions C18_original_refuted.

(* the two premises of C18_signers_union cannot be dropped: the known classes *)
Theorem C18_signers_union_refuted :
  (exists t, all_consistent t = true /\ known_genesis t = true /\
     count_needed_vkeys t < N.of_nat (length (required_keys_spec t))) /\
  (exists t, all_consistent t = false /\ known_genesis t = false /\
     N.of_nat (length (required_keys_spec t)) < count_needed_vkeys t).
Proof. split; [exact signers_union_refuted_genesis | exact signers_union_refuted_readded]. Qed.
Print Assumptions C18_signers_union_refuted.

(* the full statement of the property (no premise): false because of the known classes above *)
Definition C18_full : Prop := forall (tb : attr_table) (t : tx_ops),
  wits_match t = true ->
  judge t {| o_predicted := predicted_sig_bytes tb t; o_signed := signed_sig_bytes tb t; o_emitted := model_emitted t |} = Holds.

(* non-vacuity: a history with overlapping keys in every source, a repeated inline script, a reference script,
   a Plutus input with datum, Byron input and collateral satisfies every premise; no genesis delegation implies
   the genesis class is empty *)
Definition sample : tx_ops :=
  {| t_inputs := [InAdd 3 (OKey 1); InAdd 1 (OByron 0); InAdd 2 (ONative (NSInline 2 [1; 4] None));
                  InAdd 7 (OPlutus {| pw_script := PSInline 1000 (Some [4]); pw_datum := Some (DInline 0); pw_red := 1 |});
                  InAdd 3 (OKey 1); InSigner 5];
     t_collateral := [InAdd 9 (OKey 1); InAdd 10 (OByron 0)];
     t_certs := [({| c_kind := 7; c_cred := CK 1; c_keys := []; c_aux := 0 |}, None);
                 ({| c_kind := 3; c_cred := CK 4; c_keys := [1; 6]; c_aux := 0 |}, None);
                 ({| c_kind := 16; c_cred := CS 2; c_keys := []; c_aux := 1 |}, Some (SWNative (NSInline 2 [1; 4] (Some [4]))))];
     t_withdrawals := [(CK 1, None); (CS 1001, Some (SWPlutus {| pw_script := PSRef 111 1001 (Some [6]); pw_datum := None; pw_red := 0 |}))];
     t_votes := [({| v_kind := 1; v_cred := CK 5 |}, None)];
     t_proposals := [{| p_id := 0; p_scripted := false; p_wit := None |}];
     t_mint := [{| mo_wit := MNative (NSRef 103 3 (Some [7])); mo_asset := 0; mo_amount := 5%Z |};
                {| mo_wit := MNative (NSRef 103 3 (Some [7])); mo_asset := 1; mo_amount := (-2)%Z |}];
     t_required_signers := [1; 8]; t_reference_inputs := [120; 3]; t_extra_datums := [0; 2];
     t_dedup_explicit_refs := true |}.
Example premises_satisfiable :
  wits_match sample = true /\ all_consistent sample = true /\ collateral_plain sample = true /\
  no_mixed_supply sample = true /\ known_genesis sample = false /\
  count_needed_vkeys sample = 6 /\ length (script_items sample) = 5%nat.
Proof. vm_compute. repeat split. Qed.
Check no_genesis_not_known : forall t, no_genesis_delegation t = true -> known_genesis t = false.
