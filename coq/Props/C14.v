(* C14 — Amount arithmetic is exact or fails explicitly.  Statements only; proofs in Num/*Proofs.v. *)
From CSL Require Import Base.Prelude Base.U64 Num.U64 Num.U64Proofs.
Local Open Scope N_scope.

Theorem C14_checked_ops_exact : forall (op : bn_op) (a b : N),
  a < two64 -> b < two64 -> known_div_by_zero op b = false ->
  bn_apply op a b = exact_or_error_u64 (bn_exact op a b).
Proof. exact bn_apply_exact. Qed.
Print Assumptions C14_checked_ops_exact.
