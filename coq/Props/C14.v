(* C14 — Amount arithmetic is exact or fails explicitly.
   Only statements here; each is closed by a lemma of Num/*Proofs.v.
   Model: Base/U64.v + Num/U64.v (BigNum), Num/IntRange.v (Int and every public way to obtain one), Num/BigIntCbor.v
   (BigInt), Num/Decimal.v (decimal text), Num/Value.v (Value / MultiAsset / Assets).  The models mirror /repo after the
   repairs 07262c5, a6f00b9, 3669e5e, 34fa344 (C14) and eac05aa, 4362d12 (C17); the behaviour before each repair is kept as a
   *_legacy / *_gen definition and refuted by a witness.  All quantifiers are unbounded: integers of any size, byte strings
   and texts of any length, bundles with any number of policies and assets. *)
From CSL Require Import Base.Prelude Base.U64 Cbor.Head Num.Decimal Num.U64 Num.IntRange Num.BigIntCbor Num.Value.
From CSL Require Import Num.U64Proofs Num.DecimalProofs Num.IntRangeProofs Num.BigIntCborProofs Num.ValueProofs.
From CSL Require Import Num.Mint Num.MintProofs Num.C14Model Num.C14ModelProofs.
Local Open Scope N_scope.

(* ---------------------------------------------------------------------------------------------------------------- *)
(* Unsigned amounts *)

(* checked_add / checked_sub / checked_mul / clamped_sub / div_floor return the mathematically exact result (computed in Z)
   when it is a u64 and an explicit error otherwise -- outside the known class "division by zero" (a panic) *)
Theorem C14_checked_ops_exact : forall (op : bn_op) (a b : N),
  a < two64 -> b < two64 -> known_div_by_zero op b = false ->
  bn_apply op a b = exact_or_error_u64 (bn_exact op a b).
Proof. exact bn_apply_exact. Qed.
Print Assumptions C14_checked_ops_exact.

Example C14_checked_ops_example :
  bn_apply OpAdd (two64 - 1) 1 = Err /\ bn_apply OpMul 4294967296 4294967295 = Ok 18446744069414584320 /\
  bn_apply OpSub 0 1 = Err /\ bn_apply OpDivFloor 7 2 = Ok 3.
Proof. repeat split; vm_compute; reflexivity. Qed.

(* full-strength statement (no known class) is false: div_floor by zero is a panic *)
Theorem C14_div_floor_zero_refuted : exists op a b, a < two64 /\ b < two64 /\
  bn_apply op a b <> exact_or_error_u64 (bn_exact op a b) /\ bn_apply op a b = Panic.
Proof. exists OpDivFloor, 5, 0. repeat split; try reflexivity. discriminate. Qed.
Print Assumptions C14_div_floor_zero_refuted.

(* ---------------------------------------------------------------------------------------------------------------- *)
(* Signed integers *)

(* every Int obtainable through the public API lies within -2^64 .. 2^64-1: constructors, from_str / JSON, CBOR decoding,
   BigInt::as_int, metadata JSON numbers and BasicConversions keys, and MintBuilder histories of any length *)
Theorem C14_int_range_invariant : forall (src : int_src) (z : Z),
  int_src_wf src = true -> int_src_bytes_ok src ->
  int_obtain src = Some z -> (- two64Z <= z <= two64Z - 1)%Z.
Proof. intros src z W B H. apply int_in_range_iff. eapply int_obtain_in_range; eassumption. Qed.
Print Assumptions C14_int_range_invariant.

Example C14_int_range_example :
  let src := SMint [MAdd 1 (- int_max)%Z; MSet 2 5%Z; MAdd 1 int_max; MAdd 1 int_max; MAdd 1 7%Z] 1 in
  int_src_wf src = true /\ int_src_bytes_ok src /\ int_obtain src = Some int_max.
Proof. exact int_obtain_example. Qed.

(* the invariant of the MintBuilder itself, by induction on the history of add_asset / set_asset calls *)
Theorem C14_mint_builder_invariant : forall (ops : list mint_op) (k : N) (z : Z),
  forallb (fun op => int_in_range (mint_op_amount op)) ops = true ->
  ms_get k (fst (mint_run mint_step [] ops)) = Some z -> int_in_range z = true.
Proof.
  intros ops k z W G. eapply ms_get_in_range; [|exact G]. apply mint_run_in_range; [apply Forall_nil | exact W].
Qed.
Print Assumptions C14_mint_builder_invariant.

(* before the repairs the invariant was false: unchecked accumulation and unchecked metadata keys *)
Theorem C14_int_range_refuted_before_repair :
  (exists ops k z, forallb (fun op => int_in_range (mint_op_amount op)) ops = true /\
                   ms_get k (fst (mint_run mint_step_legacy [] ops)) = Some z /\ int_in_range z = false) /\
  (exists s z, int_obtain_gen false mint_step (SMetaKey s) = Some z /\ int_in_range z = false).
Proof.
  split.
  - exists [MAdd 0 int_max; MAdd 0 int_max], 0, (2 * int_max)%Z. pose proof mint_legacy_refuted as H. cbv zeta in H. tauto.
  - exists (print_Z 99999999999999999999999), 99999999999999999999999%Z. exact meta_key_legacy_refuted.
Qed.
Print Assumptions C14_int_range_refuted_before_repair.

(* Int survives CBOR over its whole range (any continuation of the byte stream) *)
Theorem C14_int_cbor_roundtrip : forall (z : Z) (rest : bytes),
  (- two64Z <= z <= two64Z - 1)%Z -> int_deserialize (int_serialize z ++ rest) = Ok (z, rest).
Proof. intros z rest R. apply int_cbor_roundtrip, int_in_range_iff. exact R. Qed.
Print Assumptions C14_int_cbor_roundtrip.

(* the cast argument of the former encoder (write_negative_integer(x as i64)): exact in wrapping arithmetic on the whole
   negative range, overflowing only at -2^63 when overflow checks are on *)
Theorem C14_int_cast_argument : forall (overflow_checks : bool) (z : Z),
  (- two64Z <= z < 0)%Z -> (overflow_checks = false \/ z <> - two63)%Z ->
  nint_arg_legacy overflow_checks z = Ok (Z.to_N (-1 - z)).
Proof. exact nint_arg_legacy_exact. Qed.
Print Assumptions C14_int_cast_argument.

Theorem C14_int_min_panic_refuted_before_repair :
  int_in_range (- two63)%Z = true /\ int_serialize_legacy true (- two63)%Z = Panic /\
  bigint_serialize_legacy true (- two63)%Z = Panic.
Proof. repeat split; vm_compute; reflexivity. Qed.
Print Assumptions C14_int_min_panic_refuted_before_repair.

(* Int survives its decimal text (to_str / from_str, the serde JSON form) over its whole range *)
Theorem C14_int_decimal_roundtrip : forall z : Z,
  (- two64Z <= z <= two64Z - 1)%Z -> int_from_str (int_to_str z) = Ok z.
Proof. intros z R. apply int_decimal_roundtrip, int_in_range_iff. exact R. Qed.
Print Assumptions C14_int_decimal_roundtrip.

Theorem C14_int_from_str_refuted_before_repair :
  int_in_range int_min = true /\ (forall oc, int_from_str_legacy oc (int_to_str int_min) = Err) /\
  int_from_str_legacy true (print_Z (- two127)) = Panic /\
  int_from_str_legacy false (print_Z (- two127)) = Ok (- two127)%Z.
Proof. exact int_from_str_legacy_refuted. Qed.
Print Assumptions C14_int_from_str_refuted_before_repair.

(* a metadata integer converted to JSON (decode_metadatum_to_json_*, all schemas): the number literal written denotes the
   integer exactly; values that do not fit the u64 / i64 the JSON number is made from are an explicit error *)
Theorem C14_metadata_int_json_exact : forall (z : Z) (t : text),
  meta_int_to_json z = Ok t -> parse_i128 t = Ok z.
Proof. exact meta_int_to_json_exact. Qed.
Print Assumptions C14_metadata_int_json_exact.

Example C14_metadata_int_json_example :
  meta_int_to_json (- two63)%Z = Ok (print_Z (- two63)%Z) /\ meta_int_to_json (- two63 - 1)%Z = Err /\
  meta_int_to_json int_max = Ok (print_Z int_max).
Proof. repeat split; vm_compute; reflexivity. Qed.

(* as_positive / as_negative / as_i32 are exact -- outside the known class "the Int is -2^64" *)
Theorem C14_int_accessors_exact : forall z : Z, int_in_range z = true -> z <> int_min ->
  int_as_positive z = (if (0 <=? z)%Z then Some (Z.to_N z) else None) /\
  int_as_negative z = (if (z <? 0)%Z then Some (Z.to_N (- z)) else None) /\
  int_as_i32 z = (if ((- two31 <=? z) && (z <? two31))%Z then Some z else None).
Proof. exact int_accessors_exact. Qed.
Print Assumptions C14_int_accessors_exact.

Theorem C14_int_as_negative_refuted : int_in_range int_min = true /\ int_as_negative int_min = Some 0.
Proof. exact int_as_negative_refuted. Qed.
Print Assumptions C14_int_as_negative_refuted.

(* Mint::as_positive_multiasset / as_negative_multiasset report, for every asset, exactly the minted / burnt quantity (the sum
   over the entries of the policy) -- outside the two known classes: a policy that occurs in two entries, and a quantity -2^64 *)
Theorem C14_mint_as_multiasset_exact : forall (is_positive : bool) (m : mint),
  mint_wfb m = true -> mint_has_min m = false -> has_dup_policy m = false ->
  ma_wfb (mint_as_multiasset is_positive m) = true /\
  forall p n, Z.of_N (ma_qty (mint_as_multiasset is_positive m) p n) = mint_spec_qty is_positive m p n.
Proof. intros s m W M D. apply mint_as_multiasset_exact; [apply mint_ok_of_bool; assumption | exact D]. Qed.
Print Assumptions C14_mint_as_multiasset_exact.

Example C14_mint_as_multiasset_example :
  let m := [([1], [([97], 5%Z); ([98], (- int_max)%Z)]); ([2], [([], int_max)]); ([3], [])] in
  mint_wfb m = true /\ mint_has_min m = false /\ has_dup_policy m = false /\
  mint_as_positive_multiasset m = [([1], [([97], 5)]); ([2], [([], two64 - 1)])] /\
  mint_as_negative_multiasset m = [([1], [([98], two64 - 1)])].
Proof. exact mint_as_multiasset_example. Qed.

Theorem C14_mint_as_multiasset_refuted :
  (let m := [([1], [([97], 5%Z)]); ([1], [([98], 7%Z)])] in
   mint_spec_qty true m [1] [97] = 5%Z /\ ma_qty (mint_as_positive_multiasset m) [1] [97] = 0) /\
  (let m := [([1], [([97], int_min)])] in
   mint_spec_qty false m [1] [97] = two64Z /\ ma_qty (mint_as_negative_multiasset m) [1] [97] = 0).
Proof. split; [exact mint_dup_policy_refuted | exact mint_min_refuted]. Qed.
Print Assumptions C14_mint_as_multiasset_refuted.

(* ---------------------------------------------------------------------------------------------------------------- *)
(* Big integers *)

(* BigInt survives CBOR for integers of any size: uint, nint (including -2^64), tag 2 / tag 3 with definite byte strings up
   to 64 bytes and indefinite strings of 64-byte chunks beyond *)
Theorem C14_bigint_cbor_roundtrip : forall (z : Z) (rest : bytes),
  bigint_deserialize (bigint_serialize z ++ rest) = Ok (z, rest).
Proof. exact bigint_cbor_roundtrip. Qed.
Print Assumptions C14_bigint_cbor_roundtrip.

(* decimal text: BigNum, i128 and arbitrarily large integers *)
Theorem C14_decimal_roundtrip :
  (forall n : N, n < two64 -> bn_from_str (bn_to_str n) = Ok n) /\
  (forall z : Z, (- two127 <= z < two127)%Z -> parse_i128 (print_Z z) = Ok z) /\
  (forall z : Z, bigint_from_str (bigint_to_str z) = Ok z).
Proof. split; [exact parse_u64_print | split; [exact parse_i128_print | exact bigint_decimal_roundtrip]]. Qed.
Print Assumptions C14_decimal_roundtrip.

(* parse side: an accepted literal denotes the number whose printed form is the literal with its optional sign, leading
   zeros (and, for BigInt, underscores) normalised.  Strict injectivity is false by design of the Rust parsers ("+1", "007",
   "-0", "1_0" are accepted, see parse_noncanonical_accepted); the value is exact in every case. *)
Theorem C14_from_str_canonical :
  (forall s n, bn_from_str s = Ok n -> n < two64 /\ canon_unsigned s = bn_to_str n) /\
  (forall s z, int_from_str s = Ok z -> int_in_range z = true /\ canon_signed s = int_to_str z) /\
  (forall s z, bigint_from_str s = Ok z -> canon_bigint s = bigint_to_str z).
Proof.
  split; [exact parse_u64_canon|]. split; [|exact parse_bigint_canon].
  intros s z H. unfold int_from_str in H. destruct (parse_i128 s) as [x| | |] eqn:P; cbn [bind] in H; try discriminate.
  destruct (int_in_range x) eqn:R; [|discriminate]. injection H as <-. split; [exact R | apply (parse_i128_canon s x P)].
Qed.
Print Assumptions C14_from_str_canonical.

Example C14_from_str_noncanonical :
  parse_u64 [43; 49] = Ok 1 /\ parse_u64 [48; 48; 55] = Ok 7 /\ parse_i128 [45; 48] = Ok 0%Z /\ parse_i128 [43; 48; 53] = Ok 5%Z /\
  parse_bigint [49; 95; 48] = Ok 10%Z /\ parse_bigint [45; 48; 95] = Ok 0%Z.
Proof. exact parse_noncanonical_accepted. Qed.

Example C14_bigint_example :
  let z := (- 2 ^ 2000 - 12345)%Z in
  bigint_from_bytes (bigint_serialize z) = Ok z /\ (64 < length (to_bytes_be (Z.to_N (-1 - z))))%nat /\
  bigint_from_str (bigint_to_str z) = Ok z.
Proof. exact bigint_roundtrip_example. Qed.

(* ---------------------------------------------------------------------------------------------------------------- *)
(* Multi-asset values (semantic equality: a missing asset is quantity 0) *)

(* checked_add: exact in every component or an explicit error, and an error only when a component overflows *)
Theorem C14_value_add_exact_or_error : forall a b : value, value_wf a -> value_wf b ->
  match value_checked_add a b with
  | Ok c => value_wf c /\ coin c = coin a + coin b /\ forall p n, qty c p n = qty a p n + qty b p n
  | Err => two64 <= coin a + coin b \/ exists p n, two64 <= qty a p n + qty b p n
  | _ => False
  end.
Proof. exact value_checked_add_cases. Qed.
Print Assumptions C14_value_add_exact_or_error.

(* checked_sub: exact in every component or an explicit error, and an error only when a component underflows *)
Theorem C14_value_sub_exact_or_error : forall a b : value, value_wf a -> value_wf b ->
  match value_checked_sub a b with
  | Ok c => value_wf c /\ coin b <= coin a /\ coin c = coin a - coin b /\
            forall p n, qty b p n <= qty a p n /\ qty c p n = qty a p n - qty b p n
  | Err => coin a < coin b \/ exists p n, qty a p n < qty b p n
  | _ => False
  end.
Proof. exact value_checked_sub_cases. Qed.
Print Assumptions C14_value_sub_exact_or_error.

(* before /repo 34fa344 checked_sub clamped assets silently: (10,{x:5}) - (1,{x:7}) = Ok (9,{}) *)
Theorem C14_value_sub_refuted_before_repair : exists a b c, value_wf a /\ value_wf b /\
  value_checked_sub_legacy a b = Ok c /\ exists p n, qty a p n < qty b p n.
Proof.
  exists (mkValue 10 (Some [([1], [([120], 5)])])), (mkValue 1 (Some [([1], [([120], 7)])])), (mkValue 9 None).
  repeat split; try reflexivity. exists [1], [120]. vm_compute. reflexivity.
Qed.
Print Assumptions C14_value_sub_refuted_before_repair.

(* clamped_sub is the documented component-wise truncated subtraction *)
Theorem C14_value_clamped_sub_spec : forall a b : value, value_wf a -> value_wf b ->
  value_wf (value_clamped_sub a b) /\ coin (value_clamped_sub a b) = coin a - coin b /\
  forall p n, qty (value_clamped_sub a b) p n = qty a p n - qty b p n.
Proof. exact value_clamped_sub_spec. Qed.
Print Assumptions C14_value_clamped_sub_spec.

(* addition is commutative and associative: same semantic result, or an explicit error on both sides *)
Theorem C14_value_add_comm : forall a b : value, value_wf a -> value_wf b ->
  same_outcome (value_checked_add a b) (value_checked_add b a).
Proof. exact value_add_comm. Qed.
Print Assumptions C14_value_add_comm.

Theorem C14_value_add_assoc : forall a b c : value, value_wf a -> value_wf b -> value_wf c ->
  same_outcome (let* ab := value_checked_add a b in value_checked_add ab c)
               (let* bc := value_checked_add b c in value_checked_add a bc).
Proof. exact value_add_assoc. Qed.
Print Assumptions C14_value_add_assoc.

(* subtraction undoes addition *)
Theorem C14_sub_undoes_add : forall a b c : value, value_wf a -> value_wf b -> value_checked_add a b = Ok c ->
  exists d, value_checked_sub c b = Ok d /\ value_eq_sem d a.
Proof. exact value_sub_undoes_add. Qed.
Print Assumptions C14_sub_undoes_add.

(* compare / partial_cmp / the operators agree with the component-wise comparison of lovelace and every asset *)
Theorem C14_compare_componentwise : forall a b : value, value_wf a -> value_wf b ->
  (value_partial_cmp a b = Some Eq <-> value_eq_sem a b) /\
  (value_partial_cmp a b = Some Lt <-> value_le_sem a b /\ ~ value_le_sem b a) /\
  (value_partial_cmp a b = Some Gt <-> value_le_sem b a /\ ~ value_le_sem a b) /\
  (value_partial_cmp a b = None <-> ~ value_le_sem a b /\ ~ value_le_sem b a).
Proof. exact value_partial_cmp_spec. Qed.
Print Assumptions C14_compare_componentwise.

(* == (structural after dropping an all-empty multiasset) implies semantic equality *)
Theorem C14_value_eq_sound : forall a b : value, value_eqb a b = true -> value_eq_sem a b.
Proof. exact value_eqb_sound. Qed.
Print Assumptions C14_value_eq_sound.

(* the premises are satisfiable on a non-trivial pair: overlapping bundles, a quantity that cancels, one that overflows *)
Example C14_value_example :
  let a := mkValue 10 (Some [([1], [([120], 5); ([1; 2], 7)]); ([2], [([], two64 - 1)])]) in
  let b := mkValue 3 (Some [([1], [([120], 5)]); ([3], [([9], 1)])]) in
  value_wf a /\ value_wf b /\
  value_checked_add a b = Ok (mkValue 13 (Some [([1], [([120], 10); ([1; 2], 7)]); ([2], [([], two64 - 1)]); ([3], [([9], 1)])])) /\
  value_checked_sub a (mkValue 3 (Some [([1], [([120], 5)])])) = Ok (mkValue 7 (Some [([1], [([1; 2], 7)]); ([2], [([], two64 - 1)])])) /\
  value_checked_add a a = Err /\ value_checked_sub a b = Err /\ value_partial_cmp a b = None.
Proof. repeat split; vm_compute; reflexivity. Qed.

(* ---------------------------------------------------------------------------------------------------------------- *)
(* The executable judge of the correspondence run (Num/C14Model.v, extracted) accepts the model's own observation for ALL
   inputs; the only non-`Holds` verdicts on the model are the two known classes.  So a `fails` verdict in a run speaks about
   the implementation, and the conditions the judge evaluates are consequences of the theorems above. *)
Theorem C14_judge_accepts_model :
  (forall op a b, a < two64 -> b < two64 ->
     judge_bn op a b (model_bn op a b) = if known_div_by_zero op b then Fails cls_div_zero else Holds) /\
  (forall src, int_src_wf src = true -> int_src_bytes_ok src ->
     judge_int src (model_int src) = Holds \/
     (judge_int src (model_int src) = Fails cls_as_negative /\ int_obtain src = Some int_min)) /\
  (forall ops, forallb (fun op => int_in_range (mint_op_amount op)) ops = true -> judge_mint ops (model_mint ops) = Holds) /\
  (forall m, mint_wfb m = true -> mint_has_min m = false -> has_dup_policy m = false -> judge_mintv m (model_mintv m) = Holds) /\
  (forall z, judge_biz z (model_biz z) = Holds) /\
  (forall s, judge_bnstr s (model_bnstr s) = Holds) /\ (forall s, judge_bistr s (model_bistr s) = Holds) /\
  (forall bs, judge_bibytes bs (model_bibytes bs) = Holds \/ model_bibytes bs = OutOfFuel) /\
  (forall a b, value_wf a -> value_wf b -> judge_val a b (model_val a b) = Holds) /\
  (forall a b c, value_wf a -> value_wf b -> value_wf c -> judge_val3 a b c (model_val3 a b c) = Holds).
Proof.
  split; [exact judge_bn_accepts|]. split; [exact judge_int_accepts|]. split; [exact judge_mint_accepts|]. split; [exact judge_mintv_accepts|].
  split; [exact judge_biz_accepts|]. split; [exact judge_bnstr_accepts|]. split; [exact judge_bistr_accepts|]. split; [exact judge_bibytes_accepts|]. split; [exact judge_val_accepts | exact judge_val3_accepts].
Qed.
Print Assumptions C14_judge_accepts_model.
