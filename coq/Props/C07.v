(* C07 — Minimum ADA and size limits hold for everything the builder emits.
   Only statements here; each is closed by a lemma of MinAda/MinAdaProofs.v or MinAda/ChangeProofs.v.
   Models: MinAda/OutputSize.v (serialised size of an output), MinAda/MinAda.v (calculate_ada, add_output,
   collateral return, output-builder helper, build guard), MinAda/Change.v (change paths).
   All quantifiers are unbounded: base sizes, prices, coins are arbitrary N (also >= 2^64: no range premise
   is needed), outputs have arbitrary address lengths, bundles, datum and script sizes; fee figures and
   the bundles packed into change outputs are universally quantified oracle arguments. *)
From CSL Require Num.Value Builder.Totals Builder.Change Builder.ChangeProofs MinAda.ChangeInstance Collateral.Collateral Builder.MoreEntry MinAda.BuildScenario MinAda.EntryInstance.
From CSL Require Import Base.Prelude Base.U64 Cbor.Head Cbor.HeadProofs
  Codec.Schema Ledger.Schemas MinAda.OutputSize MinAda.MinAda MinAda.Change MinAda.MinAdaProofs MinAda.ChangeProofs MinAda.SchemaTie MinAda.TxSize.
Local Open Scope N_scope.

(* ---- the calculator, over (base, coin): size = base + head_size coin is all it sees ---- *)

(* the output carrying max(c, its coin) satisfies coin >= cpb * (160 + size) *)
Theorem C07_min_ada_sound : forall (cpb base coin c : N),
  calculate_ada_abs cpb base coin = Ok c ->
  let coin' := N.max c coin in cpb * (160 + (base + head_size coin')) <= coin'.
Proof.
  intros cpb base coin c H coin'. pose proof (rounds_sound 3 _ _ _ _ H) as S.
  unfold meets_min_abs in S. apply N.leb_le in S. exact S.
Qed.
Print Assumptions C07_min_ada_sound.

(* c never exceeds the bound with the coin at its widest (8-byte payload, 9-byte head) encoding *)
Theorem C07_min_ada_upper : forall (cpb base coin c : N),
  calculate_ada_abs cpb base coin = Ok c -> c <= cpb * (160 + (base + 9)).
Proof. intros cpb base coin c H. pose proof (rounds_upper 3 _ _ _ _ H) as U. unfold cost in U. lia. Qed.
Print Assumptions C07_min_ada_upper.

(* both hold for ANY number of rounds before the fallback (the code's 3 is not special) *)
Theorem C07_min_ada_any_rounds : forall (n : nat) (cpb base coin c : N),
  rounds n cpb base coin = Ok c ->
  meets_min_abs cpb base (N.max c coin) = true /\ c <= cost cpb (base + 9) /\ c < two64 /\
  (exists w, 1 <= w <= 9 /\ c = cost cpb (base + w)).
Proof.
  intros n cpb base coin c H. split; [eapply rounds_sound; eauto|]. split; [eapply rounds_upper; eauto|].
  split; [eapply rounds_range; eauto | eapply rounds_is_price; eauto].
Qed.
Print Assumptions C07_min_ada_any_rounds.

(* errors: never a panic; an error only when the widest price (or the size) leaves 64 bits, and then always *)
Theorem C07_min_ada_errors : forall (cpb base coin : N),
  calculate_ada_abs cpb base coin <> Panic /\ calculate_ada_abs cpb base coin <> OutOfFuel /\
  (calculate_ada_abs cpb base coin = Err -> two64 <= base + 9 + 160 \/ two64 <= cost cpb (base + 9)) /\
  (base + 9 + 160 < two64 -> cost cpb (base + 9) < two64 -> exists c, calculate_ada_abs cpb base coin = Ok c).
Proof.
  intros. pose proof (rounds_total 3 cpb base coin) as [P F].
  split; [exact P|]. split; [exact F|]. split; [apply rounds_err | apply rounds_ok].
Qed.
Print Assumptions C07_min_ada_errors.

(* the result is the least admissible coin at or above the current one, unless it is the fallback price ... *)
Theorem C07_min_ada_least : forall (cpb base coin c : N),
  calculate_ada_abs cpb base coin = Ok c ->
  c = cost cpb (base + 9) \/ (forall x, coin <= x -> meets_min_abs cpb base x = true -> c <= x).
Proof. intros. eapply rounds_least; eauto. Qed.
Print Assumptions C07_min_ada_least.

(* ... and the fallback can over-estimate (allowed by the property's upper bound; not a defect of C07) *)
Theorem C07_min_ada_fallback_overestimates :
  calculate_ada_abs 1 94 0 = Ok 263 /\ meets_min_abs 1 94 257 = true /\ 257 < 263.
Proof. exact fallback_overestimates. Qed.
Print Assumptions C07_min_ada_fallback_overestimates.

(* ---- the tie to outputs: concrete serialised size = coin-independent base + head of the coin ---- *)
Theorem C07_out_size_decomposition : forall (o : output) (c : N),
  out_size o = out_base o + head_size (o_coin o) /\
  out_size (set_coin o c) = out_base o + head_size c /\
  out_value_size o = value_base (o_ma o) + head_size (o_coin o) /\
  calculate_ada 4310 o = calculate_ada_abs 4310 (out_base o) (o_coin o).
Proof.
  intros. split; [apply out_size_decomp|]. split; [apply out_size_set_coin|].
  split; [apply out_value_size_decomp | apply calculate_ada_abs_eq].
Qed.
Print Assumptions C07_out_size_decomposition.

(* the size model IS the length of the schema-directed encoding of check C01 (Codec/Schema.v enc on
   Ledger/Schemas.v TransactionOutput: map form, or the SArrOpt array form without / with the trailing data hash --
   all three forms are now alternatives of that one schema), for every unrolling depth d of the recursive
   schemas, every address, bundle (28-byte policy ids), datum (32-byte hash / any PlutusData value) and script
   reference (any NativeScript value / Plutus bytes in one of the three languages) *)
Theorem C07_out_size_is_schema_encoding : forall (d : nat) (o : coutput),
  ids28 (co_ma o) -> hash_ok (co_datum o) -> lang_ok (co_sref o) ->
  N.of_nat (length (enc_output d o)) = out_size (shape d o).
Proof. exact out_size_is_schema_length. Qed.
Print Assumptions C07_out_size_is_schema_encoding.

(* ... and the array forms are byte for byte the stand-alone schemas TransactionOutputLegacy /
   TransactionOutputLegacyDH (the statement this theorem had before the schema layer gained SArrOpt) *)
Theorem C07_out_size_is_standalone_schema_encoding : forall (d : nat) (o : coutput),
  enc_output d o = enc_output_standalone d o /\
  (ids28 (co_ma o) -> hash_ok (co_datum o) -> lang_ok (co_sref o) ->
   N.of_nat (length (enc_output_standalone d o)) = out_size (shape d o)).
Proof. intros d o. split; [apply enc_output_standalone_eq | apply out_size_is_standalone_schema_length]. Qed.
Print Assumptions C07_out_size_is_standalone_schema_encoding.

Theorem C07_min_ada_for_output_sound : forall (cpb : N) (o : output) (c : N),
  min_ada_for_output cpb o = Ok c ->
  let o' := set_coin o (N.max c (o_coin o)) in
  cpb * (160 + out_size o') <= o_coin o' /\
  c <= cpb * (160 + out_size (set_coin o u64_max)).
Proof.
  intros cpb o c H o'. split.
  - pose proof (min_ada_sound _ _ _ H) as S. unfold meets_min in S. apply N.leb_le in S. exact S.
  - apply min_ada_upper; exact H.
Qed.
Print Assumptions C07_min_ada_for_output_sound.

(* ---- builder clauses ---- *)

(* add_output: an accepted output is appended unchanged, meets the bound, and its value fits *)
Theorem C07_admission : forall (cfg : config) (outs : list output) (o : output) (outs' : list output),
  add_output cfg outs o = Ok outs' ->
  outs' = outs ++ [o] /\ c_cpb cfg * (160 + out_size o) <= o_coin o /\ out_value_size o <= c_max_value_size cfg.
Proof.
  intros cfg outs o outs' H. apply add_output_admission in H. destruct H as [E [M V]].
  unfold meets_min in M. apply N.leb_le in M. auto.
Qed.
Print Assumptions C07_admission.

(* invariant form: any sequence of accepted outputs keeps "every output within the limits" *)
Theorem C07_value_size : forall (cfg : config) (req outs outs' : list output),
  all_ok cfg outs = true -> add_outputs cfg outs req = Ok outs' -> all_ok cfg outs' = true.
Proof. intros cfg req outs outs' I H. eapply add_outputs_invariant; eauto. Qed.
Print Assumptions C07_value_size.

(* build() / build_tx(): a transaction is only returned when its full size is within max_tx_size *)
Theorem C07_tx_size : forall (cfg : config) (full_size : N),
  build_guard cfg full_size = Ok tt <-> full_size <= c_max_tx_size cfg.
Proof. exact build_guard_iff. Qed.
Print Assumptions C07_tx_size.

(* ... where the measured size is the size algebra of the whole transaction (inputs, outputs, fee, vkey and
   bootstrap witnesses), and that algebra IS the length of the C01 schema encoding of the transaction: a released
   transaction's encoding is within max_tx_size (for every unrolling depth d of the recursive schemas) *)
Theorem C07_tx_size_encoding : forall (d : nat) (cfg : config) (x : ctx),
  ctx_ok x ->
  N.of_nat (length (enc_tx d x)) = full_tx_size (ctx_shape d x) /\
  (build_tx_guard cfg (ctx_shape d x) = Ok tt -> N.of_nat (length (enc_tx d x)) <= c_max_tx_size cfg).
Proof.
  intros d cfg x H. split; [apply full_tx_size_is_encoding; exact H | apply build_tx_guard_encoding; exact H].
Qed.
Print Assumptions C07_tx_size_encoding.

(* collateral return through the checked entry points: minimum ADA always; with the repair also the value size *)
Theorem C07_collateral_return : forall (b : bool) (cfg : config) (ret : output),
  (collateral_return_guard_gen b cfg ret = Ok tt -> meets_min (c_cpb cfg) ret = true) /\
  (collateral_return_guard_gen true cfg ret = Ok tt -> output_ok cfg ret = true).
Proof. intros. split; [apply collateral_return_min_gen | apply collateral_return_ok_repaired]. Qed.
Print Assumptions C07_collateral_return.

Theorem C07_collateral_return_value_size_refuted :
  exists cfg ret, collateral_return_guard_gen false cfg ret = Ok tt /\ output_ok cfg ret = false.
Proof. exact collateral_return_value_size_refuted. Qed.
Print Assumptions C07_collateral_return_value_size_refuted.

(* the min-coin helper of the output builder: repaired code always; unrepaired code for addresses <= 57 bytes;
   the repair changes no result for those addresses *)
Theorem C07_output_builder_helper : forall (cpb addr : N) (ma : multiasset) (d : datum) (s : option sref) (o : output),
  (helper_output_gen true cpb addr ma d s = Ok o -> meets_min cpb o = true) /\
  (addr <= fake_addr_len -> helper_output_gen false cpb addr ma d s = Ok o -> meets_min cpb o = true) /\
  (addr <= fake_addr_len ->
     helper_output_gen true cpb addr ma d s = helper_output_gen false cpb addr ma d s \/
     (helper_output_gen true cpb addr ma d s = Err /\ exists o', helper_output_gen false cpb addr ma d s = Ok o')).
Proof.
  intros. split; [apply helper_output_meets_min_repaired|].
  split; [apply helper_output_meets_min_short_addr | apply helper_repair_conservative].
Qed.
Print Assumptions C07_output_builder_helper.

Theorem C07_output_builder_helper_refuted :
  exists cpb addr ma d s o, helper_output_gen false cpb addr ma d s = Ok o /\ meets_min cpb o = false.
Proof. exact helper_output_refuted. Qed.
Print Assumptions C07_output_builder_helper_refuted.

(* change outputs: everything the change paths create goes through the admission limits (ADA-only branch, and
   the asset branch of the repaired code, including the topped-up last output), for ALL fee figures, packings
   and residues *)
Theorem C07_change_outputs_meet_min :
  (forall cfg rq outs l0 fee f b outs',
     all_ok cfg outs = true -> change_ada_only cfg rq outs l0 fee f b = Ok outs' -> all_ok cfg outs' = true) /\
  (forall cfg rq outs l0 fee packs pf res merged outs',
     all_ok cfg outs = true -> change_assets_gen true cfg rq outs l0 fee packs pf res merged = Ok outs' ->
     all_ok cfg outs' = true).
Proof. split; intros; [eapply change_ada_only_invariant | eapply change_assets_repaired_invariant]; eauto. Qed.
Print Assumptions C07_change_outputs_meet_min.

(* the same on C05's FULL model of add_change_if_needed (Builder/Change.v: value arithmetic, bundle packing, every
   branch), for ANY oracle whose min-ADA and value-size answers are the concrete MinAda model (fee, transaction-size and
   selection answers and the oracle's own state are arbitrary): a successful add_change leaves every output of the
   builder within the limits, measured on the REAL addresses (ce_addr) -- although every calculator of the change
   code prices the fake 57-byte address *)
Theorem C07_change_on_builder_model :
  forall (O : Type) (orc : @Change.oracle O) (e : ChangeInstance.cenv),
  ChangeInstance.sizes_exact e orc ->
  forall (fuel : nat) (addr extra : N) (s : Totals.state) (o : O) (b : bool),
  ChangeInstance.all_ok e s ->
  Change.out_res (Change.add_change orc fuel addr extra s o) = Ok b ->
  ChangeInstance.all_ok e (Change.out_st (Change.add_change orc fuel addr extra s o)).
Proof. intros O orc e SE fuel addr extra s o b. apply ChangeInstance.add_change_all_ok. exact SE. Qed.
Print Assumptions C07_change_on_builder_model.

(* add_output on the builder model, for EVERY oracle: a refused output leaves the builder exactly as it was, an accepted
   one is appended unchanged -- so a history containing refused adds builds the same body as the history without them *)
Theorem C07_refused_add_leaves_builder_unchanged :
  forall (O : Type) (orc : @Change.oracle O) (x : Totals.output) (s : Totals.state) (o : O),
  match Change.out_res (Change.add_output orc x s o) with
  | Ok _ => Change.out_st (Change.add_output orc x s o) = Totals.set_s_outputs (Totals.s_outputs s ++ [x]) s
  | _ => Change.out_st (Change.add_output orc x s o) = s
  end.
Proof. intros. apply ChangeInstance.add_output_frame. Qed.
Print Assumptions C07_refused_add_leaves_builder_unchanged.

(* the other balancing entry points on the builder model.  add_inputs_from_and_change (selection = oracle answer, then
   add_change, then retries of add_change on the state a failed attempt left -- the invariant "every output within the
   limits, or the fee already fixed" survives failing runs); add_inputs_from_and_change_with_collateral_return
   (MoreEntry.percent_entry): on success every output is within the limits AND the stored collateral return meets min ADA
   and max_value_size, because it is stored through set_total_collateral_and_return's admission test *)
Theorem C07_select_and_change_on_builder_model :
  forall (O : Type) (orc : @Change.oracle O) (e : ChangeInstance.cenv),
  ChangeInstance.sizes_exact e orc ->
  forall fuel utxos addr extra (s : Totals.state) (o : O) (b : bool),
  ChangeInstance.all_ok e s ->
  Change.out_res (Change.add_inputs_from_and_change orc fuel utxos addr extra s o) = Ok b ->
  ChangeInstance.all_ok e (Change.out_st (Change.add_inputs_from_and_change orc fuel utxos addr extra s o)).
Proof.
  intros O orc e SE fuel utxos addr extra s o b A R.
  destruct (ChangeInstance.add_inputs_from_and_change_ok orc e SE fuel utxos addr extra s o (or_introl A) I) as [_ Q].
  rewrite R in Q. exact Q.
Qed.
Print Assumptions C07_select_and_change_on_builder_model.

Theorem C07_collateral_return_entry_point :
  forall (O : Type) (orc : @Change.oracle O) (ask_col : Collateral.output -> O -> result N * O) (e : ChangeInstance.cenv),
  ChangeInstance.sizes_exact e orc -> EntryInstance.col_exact e ask_col ->
  forall fuel utxos addr extra addr_b pct (s : Totals.state) (c : MoreEntry.colstate) (o : O),
  ChangeInstance.all_ok e s ->
  MoreEntry.jo_res (MoreEntry.percent_entry orc ask_col fuel utxos addr extra addr_b pct s c o) = Ok tt ->
  ChangeInstance.all_ok e (MoreEntry.jo_st (MoreEntry.percent_entry orc ask_col fuel utxos addr extra addr_b pct s c o)) /\
  EntryInstance.col_return_ok e (MoreEntry.jo_col (MoreEntry.percent_entry orc ask_col fuel utxos addr extra addr_b pct s c o)).
Proof.
  intros O orc ask_col e SE CE fuel utxos addr extra addr_b pct s c o A R.
  exact (EntryInstance.percent_entry_ok orc ask_col e SE CE fuel utxos addr extra addr_b pct s c o (or_introl A) R).
Qed.
Print Assumptions C07_collateral_return_entry_point.

(* pack_nfts_for_change on C05's model with the concrete value-size answers: every bundle it returns is empty, or the
   bundle of a value that was tested and FITS max_value_size (at the coin it was tested with; any other coin moves the
   size by at most 8 bytes), or the re-normalisation v + {policy: {}} of such a value -- provided every single asset of
   the change fits an output of its own (the asset that causes a split enters the fresh output untested) *)
Theorem C07_pack_bundles_fit :
  forall (O : Type) (orc : @Change.oracle O) (e : ChangeInstance.cenv),
  ChangeInstance.sizes_exact e orc ->
  forall (ce : Value.value) (ma : Value.multiasset) (s : Totals.state) (o : O) (l : list Value.multiasset),
  Value.multiasset_of ce = Some ma -> ChangeInstance.all_single_fit e ma ->
  Change.out_res (Change.pack_nfts_for_change orc ce s o) = Ok l ->
  Forall (ChangeInstance.bundle_ok e) l /\
  (forall v c, ChangeInstance.fits e v ->
     value_size c (ChangeInstance.shape_ma (Value.multiasset_of v)) <= c_max_value_size (ChangeInstance.ce_cfg e) + 8).
Proof.
  intros O orc e SE ce ma s o l Ema SF R. split.
  - destruct (ChangeInstance.pack_nfts_fits orc e SE (fun _ => True) (fun _ => True) ce ma Ema SF s o I I) as [_ Q].
    rewrite R in Q. exact (proj2 Q).
  - intros v c F. exact (ChangeInstance.fits_any_coin e v c F).
Qed.
Print Assumptions C07_pack_bundles_fit.

Theorem C07_pack_single_asset_premise_needed :
  exists e ce s l b,
    Change.out_res (Change.pack_nfts_for_change (ChangeInstance.c07_oracle e) ce s tt) = Ok l /\ In b l /\
    forall c, c_max_value_size (ChangeInstance.ce_cfg e) < value_size c (ChangeInstance.shape_ma (Some b)).
Proof.
  destruct ChangeInstance.pack_untested_witness as (l & b & H).
  exists ChangeInstance.w_env, ChangeInstance.w_change, (Totals.new_state (Totals.mkConfig 0 0 false false)), l, b. exact H.
Qed.
Print Assumptions C07_pack_single_asset_premise_needed.

(* instance: the fully concrete oracle (MinAda calculator, OutputSize value size, TxSize transaction size, linear fee)
   meets C05's premises (its answers are u64) and the exactness premise above, so C05's conservation theorem and the
   limits hold together on it *)
Theorem C07_concrete_oracle_instance : forall (e : ChangeInstance.cenv),
  ChangeProofs.oracle_u64 (ChangeInstance.c07_oracle e) /\
  ChangeInstance.sizes_exact e (ChangeInstance.c07_oracle e) /\
  (forall fuel addr extra s b,
     Totals.state_wf s -> ChangeInstance.all_ok e s ->
     Change.out_res (Change.add_change (ChangeInstance.c07_oracle e) fuel addr extra s tt) = Ok b ->
     let s' := Change.out_st (Change.add_change (ChangeInstance.c07_oracle e) fuel addr extra s tt) in
     ChangeInstance.all_ok e s' /\ ChangeProofs.balanced s').
Proof.
  intros e. split; [apply ChangeInstance.c07_oracle_u64|]. split; [apply ChangeInstance.c07_oracle_sizes_exact|].
  intros fuel addr extra s b W A R. exact (ChangeInstance.add_change_concrete e fuel addr extra s b W A R).
Qed.
Print Assumptions C07_concrete_oracle_instance.

(* the code before the repair: the top-up of the last output after its admission breaks the value-size limit
   on MAINNET parameters, and the minimum for a change address longer than 57 bytes *)
Theorem C07_topup_refuted :
  (exists cfg rq outs l0 fee packs pf outs',
     cfg = mkCfg 4310 5000 16384 /\ all_ok cfg outs = true /\
     change_assets_gen false cfg rq outs l0 fee packs pf [] [] = Ok outs' /\
     existsb (fun o => c_max_value_size cfg <? out_value_size o) outs' = true) /\
  (exists cfg rq outs l0 fee packs pf outs',
     all_ok cfg outs = true /\
     change_assets_gen false cfg rq outs l0 fee packs pf [] [] = Ok outs' /\
     existsb (fun o => negb (meets_min (c_cpb cfg) o)) outs' = true).
Proof.
  split; [|exact topup_min_ada_refuted].
  destruct topup_value_size_refuted as (cfg & rq & outs & l0 & fee & packs & pf & outs' & H).
  exists w_cfg_mainnet, (mkReq 57 DNone None false), [], 6000000000, 170000, [(w_bundle, 220000)], 0.
  eexists. split; [reflexivity|]. split; [reflexivity|]. split; [vm_compute; reflexivity|]. vm_compute. reflexivity.
Qed.
Print Assumptions C07_topup_refuted.

(* the code before the repair, side conditions under which the top-up is harmless: the coin stays in its width
   class (everything preserved), or the change address is at most 57 bytes (minimum preserved; the value size is not) *)
Theorem C07_topup_conditional :
  (forall cfg outs l outs',
     all_ok cfg outs = true -> topup false cfg outs l [] [] = Ok outs' ->
     (forall before last, outs = before ++ [last] -> head_size (o_coin last + l) = head_size (o_coin last)) ->
     all_ok cfg outs' = true) /\
  (forall cfg rq outs l0 fee packs pf outs',
     r_addr rq <= fake_addr_len -> packs <> [] -> all_ok cfg outs = true ->
     change_assets_gen false cfg rq outs l0 fee packs pf [] [] = Ok outs' ->
     forallb (meets_min (c_cpb cfg)) outs' = true).
Proof. split; [exact topup_same_width_invariant | exact topup_min_ada_safe_short_addr]. Qed.
Print Assumptions C07_topup_conditional.

(* ---- non-vacuity of the premises ---- *)
Example ex_tx_size :              (* one input, one ADA-only output, one vkey witness *)
  let x := mkCTx [(repeat 9 32, 0)] [mkCOut (repeat 1 29) 2000000 [] CDNone None] 170000 [(repeat 3 32, repeat 4 64)] [] in
  ctx_ok x /\ full_tx_size (ctx_shape 0 x) = 197 /\ build_tx_guard (mkCfg 4310 5000 197) (ctx_shape 0 x) = Ok tt.
Proof. cbn zeta. split; [repeat constructor|]. vm_compute. split; reflexivity. Qed.
Example ex_schema_tie :           (* a post-Alonzo output: 3-byte address, one token, inline datum (uint 5), Plutus V2 script reference *)
  let o := mkCOut [97; 1; 2] 1500000 [(repeat 7 28, [([1; 2; 3], 9)])] (CDInline (VAlt 1 (VNat 5))) (Some (CSPlutus 1 [1; 2; 3; 4])) in
  ids28 (co_ma o) /\ hash_ok (co_datum o) /\ lang_ok (co_sref o) /\
  N.of_nat (length (enc_output 0 o)) = 68 /\ out_size (shape 0 o) = 68.
Proof. cbn zeta. split; [repeat constructor|]. split; [exact I|]. split; [cbn; lia|]. vm_compute. split; reflexivity. Qed.
Example ex_min_ada_mainnet :      (* 57-byte address, ADA only, mainnet price: 4310 * (160 + 65) *)
  min_ada_for_output 4310 (mkOut 57 0 [] DNone None) = Ok 969750.
Proof. vm_compute. reflexivity. Qed.
Example ex_min_ada_rounds :       (* third round returns (widths 1 -> 2 -> 2); one byte more and the fallback is taken *)
  calculate_ada_abs 1 93 0 = Ok 255 /\ calculate_ada_abs 1 94 0 = Ok 263.
Proof. vm_compute. split; reflexivity. Qed.
Example ex_min_ada_err : calculate_ada_abs (2 ^ 63) 60 0 = Err.
Proof. vm_compute. reflexivity. Qed.
Example ex_admission :
  exists outs', add_output (mkCfg 4310 5000 16384) [] (mkOut 57 1500000 [[(4, 7)]] DHash None) = Ok outs'.
Proof. eexists. vm_compute. reflexivity. Qed.
Example ex_collateral : collateral_return_guard_gen true (mkCfg 4310 5000 16384) (mkOut 57 2000000 [] DNone None) = Ok tt.
Proof. vm_compute. reflexivity. Qed.
Example ex_helper :
  exists o, helper_output_gen true 4310 59 [[(3, 5)]] (DInline 10) (Some (SRPlutus 100)) = Ok o /\ meets_min 4310 o = true.
Proof. eexists. split; [vm_compute; reflexivity|]. vm_compute. reflexivity. Qed.
Example ex_change_assets :        (* two bundles, top-up of the last one, repaired code *)
  exists outs', change_assets_gen true (mkCfg 4310 5000 16384) (mkReq 57 DNone None false)
                  [mkOut 29 1000000 [] DNone None] 50000000 170000 [([[(4, 7)]], 3000); ([[(0, 1); (32, 9)]], 3000)] 0 [] [] = Ok outs'
                /\ length outs' = 3%nat /\ all_ok (mkCfg 4310 5000 16384) outs' = true.
Proof. eexists. split; [vm_compute; reflexivity|]. split; [vm_compute; reflexivity|]. vm_compute. reflexivity. Qed.
Example ex_change_ada :
  exists outs', change_ada_only (mkCfg 4310 5000 16384) (mkReq 57 DHash None false) [] 5000000 170000 2000 true = Ok outs'
                /\ length outs' = 1%nat.
Proof. eexists. split; [vm_compute; reflexivity|]. vm_compute. reflexivity. Qed.
Example ex_topup_same_width :
  exists outs', topup false (mkCfg 4310 5000 16384) [mkOut 57 1200000 [[(4, 7)]] DNone None] 5000 [] [] = Ok outs'.
Proof. eexists. vm_compute. reflexivity. Qed.
Example ex_build_guard : build_guard (mkCfg 4310 5000 16384) 16384 = Ok tt /\ build_guard (mkCfg 4310 5000 16384) 16385 = Err.
Proof. vm_compute. split; reflexivity. Qed.
