(* C01 — Every ledger type survives an encode/decode round trip.
   The ledger types are data (Ledger/Schemas.v) for one schema-directed codec (Codec/Schema.v);
   the theorems below hold for EVERY schema-valid value of EVERY listed type, for every nesting depth
   of scripts / Plutus data / metadata, with arbitrary bytes following the encoding. *)
From CSL Require Import Base.Prelude Base.Hex Cbor.Head Codec.Schema Codec.SchemaProofs Codec.SchemaApi Codec.SchemaApiProofs
  Codec.SchemaSound Codec.SchemaSoundProofs Ledger.Schemas Ledger.SchemasProofs.

(* the generic theorem: one proof for all schemas *)
Theorem C01_schema_roundtrip : forall s v rest,
  wfs s = true -> wfv s v = true -> dec s (enc s v ++ rest) = Ok (v, rest).
Proof. exact schema_roundtrip. Qed.
Print Assumptions C01_schema_roundtrip.

(* decoding the serialized bytes of any value of any ledger type succeeds and yields the original *)
Theorem C01_roundtrip : forall d s, In s (ledger_schemas d ++ ledger_schemas_more d) ->
  forall v rest, wfv s v = true -> dec s (enc s v ++ rest) = Ok (v, rest).
Proof.
  intros d s Hin v rest Hv. apply schema_roundtrip; [|exact Hv].
  apply in_app_or in Hin as [Hin|Hin].
  - exact (proj1 (Forall_forall _ _) (ledger_schemas_wf d) s Hin).
  - exact (proj1 (Forall_forall _ _) (ledger_schemas_more_wf d) s Hin).
Qed.
Print Assumptions C01_roundtrip.

(* re-encoding the decoded value gives exactly the same bytes *)
Theorem C01_reencode : forall d s, In s (ledger_schemas d ++ ledger_schemas_more d) ->
  forall v v' rest rest', wfv s v = true -> dec s (enc s v ++ rest) = Ok (v', rest') ->
  enc s v' = enc s v /\ rest' = rest.
Proof.
  intros d s Hin v v' rest rest' Hv H. apply schema_reencode; [|exact Hv|exact H].
  apply in_app_or in Hin as [Hin|Hin].
  - exact (proj1 (Forall_forall _ _) (ledger_schemas_wf d) s Hin).
  - exact (proj1 (Forall_forall _ _) (ledger_schemas_more_wf d) s Hin).
Qed.
Print Assumptions C01_reencode.

(* ---- values built through the public API (not necessarily in the image of the decoders) ----
   [wfa] admits an optional collection that is present but empty; [norm] maps such a field to absent
   ("an empty optional collection counts as absent because that is how the wire format writes it").
   For every ledger type (the original table and the stand-alone member types): decoding the bytes of an
   API-buildable value succeeds and yields its normalisation ... *)
Theorem C01_api_roundtrip : forall d s, In s (ledger_schemas d ++ ledger_schemas_more d) ->
  forall v rest, wfa s v = true -> dec s (enc s v ++ rest) = Ok (norm s v, rest).
Proof.
  intros d s Hin v rest Hv. apply api_roundtrip; [|exact Hv].
  apply in_app_or in Hin as [Hin|Hin].
  - exact (proj1 (Forall_forall _ _) (ledger_schemas_wf d) s Hin).
  - exact (proj1 (Forall_forall _ _) (ledger_schemas_more_wf d) s Hin).
Qed.
Print Assumptions C01_api_roundtrip.

(* ... re-encoding the decoded value gives exactly the same bytes, and the decoded value is a fixed point ... *)
Theorem C01_api_reencode : forall d s, In s (ledger_schemas d ++ ledger_schemas_more d) ->
  forall v, wfa s v = true ->
  enc s (norm s v) = enc s v /\ wfv s (norm s v) = true /\ norm s (norm s v) = norm s v.
Proof.
  intros d s _ v Hv. split; [apply norm_enc; exact Hv|]. split; [apply norm_wfv; exact Hv|apply norm_idem; exact Hv].
Qed.
Print Assumptions C01_api_reencode.

(* ... and the normalisation is nothing but that: every value in the decoders' image is API-buildable and is its own
   normal form (so C01_roundtrip is the special case of C01_api_roundtrip on those values) *)
Theorem C01_norm_only_empties : forall s v, wfv s v = true -> wfa s v = true /\ norm s v = v.
Proof. intros s v H. split; [apply wfv_wfa; exact H|apply norm_id; exact H]. Qed.
Print Assumptions C01_norm_only_empties.

(* non-vacuity of the API theorems: a body whose required_signers is set to an empty set is API-buildable, is NOT in
   the decoders' image, normalises to the body without the field, and is written with a 3-entry map *)
Example C01_api_nonvacuous :
  let x := VStruct [Some (VList []); Some (VList []); Some (VNat 0%N); None; None; None; None; None; None; None; None;
                    None; Some (VList []); None; None; None; None; None; None; None; None] in
  let y := VStruct [Some (VList []); Some (VList []); Some (VNat 0%N); None; None; None; None; None; None; None; None;
                    None; None; None; None; None; None; None; None; None; None] in
  wfa (TransactionBody 1) x = true /\ wfv (TransactionBody 1) x = false /\ norm (TransactionBody 1) x = y /\
  enc (TransactionBody 1) x = [163; 0; 217; 1; 2; 128; 1; 128; 2; 0]%N.
Proof. cbv zeta. repeat split; vm_compute; reflexivity. Qed.

(* ---- the decoding direction: bytes from anywhere (in particular the library's own bytes, which the correspondence run
   feeds to the model) ----
   [sdec] = the wire-shape decoder followed by what the library does with container entries (Codec/SchemaSound.v: set
   types drop repeated items silently, BTreeMap-backed maps sort and reject a repeated key, LinkedHashMap-backed maps
   reject a repeated key, Vec-backed maps keep everything, map-structs reject duplicate keys).
   Decoder soundness: whatever it returns, for ANY schema and ANY input bytes, is in the domain of the round-trip theorem. *)
Theorem C01_dec_sound : forall s bs v rest,
  bytes_ok bs -> sdec s bs = Ok (v, rest) -> wfv s v = true /\ bytes_ok rest.
Proof. exact sdec_sound. Qed.
Print Assumptions C01_dec_sound.

(* hence decode-then-encode is idempotent: for v' := any decoded value of any ledger type, encoding v' and decoding again
   (with the library-faithful decoder as well as with the wire-shape decoder) gives v' back, with any bytes following *)
Theorem C01_decode_encode_idempotent : forall d s, In s (ledger_schemas d ++ ledger_schemas_more d) ->
  forall bs v' rest rest', bytes_ok bs -> sdec s bs = Ok (v', rest) ->
  sdec s (enc s v' ++ rest') = Ok (v', rest') /\ dec s (enc s v' ++ rest') = Ok (v', rest').
Proof.
  intros d s Hin bs v' rest rest' Hb H.
  assert (Hs : wfs s = true).
  { apply in_app_or in Hin as [Hin|Hin].
    - exact (proj1 (Forall_forall _ _) (ledger_schemas_wf d) s Hin).
    - exact (proj1 (Forall_forall _ _) (ledger_schemas_more_wf d) s Hin). }
  split; [exact (sdec_idempotent s bs v' rest rest' Hs Hb H)|].
  apply schema_roundtrip; [exact Hs|exact (proj1 (sdec_sound _ _ _ _ Hb H))].
Qed.
Print Assumptions C01_decode_encode_idempotent.

(* on the domain the two decoders agree (the library-faithful one adds nothing on writer-produced bytes) *)
Theorem C01_sdec_roundtrip : forall s v rest, wfs s = true -> wfv s v = true -> sdec s (enc s v ++ rest) = Ok (v, rest).
Proof. exact sdec_roundtrip. Qed.
Print Assumptions C01_sdec_roundtrip.

(* non-vacuity: repeats and order on the wire.  d90102 83 01 02 01: a set with a repeated item decodes to its first
   occurrences; a BTreeMap-backed map given out of order is sorted, with a repeated key it is an error; a LinkedHashMap-backed
   map with a repeated key is an error; a Vec-backed map keeps it *)
Example C01_dec_repeats :
  let u := SUint 256 in
  sdec (SSetOf u) [217; 1; 2; 131; 1; 2; 1]%N = Ok (VList [VNat 1; VNat 2], [])%N /\
  sdec (SMapOf 0 KBytewise u u) [162; 2; 0; 1; 7]%N = Ok (VMap [(VNat 1, VNat 7); (VNat 2, VNat 0)], [])%N /\
  sdec (SMapOf 0 KBytewise u u) [162; 2; 0; 2; 7]%N = Err /\
  sdec (SMapOf 0 KInsertion u u) [162; 2; 0; 2; 7]%N = Err /\
  sdec (SMapOf 0 KMulti u u) [162; 2; 0; 2; 7]%N = Ok (VMap [(VNat 2, VNat 0); (VNat 2, VNat 7)], [])%N.
Proof. cbv zeta. repeat split; vm_compute; reflexivity. Qed.

(* the hex entry points are the byte entry points composed with a lossless hex codec *)
Theorem C01_hex : forall bs, bytes_ok bs -> unhex (hex bs) = Some bs.
Proof. exact unhex_hex. Qed.
Print Assumptions C01_hex.

(* the decoder is total by construction over a 2-valued outcome on break-free schemas; for the
   indefinite-length loops the fuel it is given always suffices *)
Theorem C01_loop_fuel : forall (A : Type) (p : parser A), (forall bs, p bs <> OutOfFuel) ->
  forall bs, dec_until_break p (S (length bs)) bs <> OutOfFuel.
Proof. intros A p Hp bs. apply dec_until_break_fuel; [exact Hp|]. apply Nat.lt_succ_diag_r. Qed.
Print Assumptions C01_loop_fuel.

(* non-vacuity: a non-trivial transaction body is schema-valid and its bytes are what the library writes *)
Example C01_nonvacuous :
  let v := VStruct [Some (VList [VList [VBytes (repeat 7%N 32); VNat 0%N]]); Some (VList []); Some (VNat 170000%N);
                    Some (VNat 5%N); None; None; None; None; None; None; None; None; None; None; None; None; None;
                    None; None; None; None] in
  wfv (TransactionBody 1) v = true /\ In (TransactionBody 1) (ledger_schemas 1 ++ ledger_schemas_more 1) /\
  firstn 6 (enc (TransactionBody 1) v) = [164; 0; 217; 1; 2; 129]%N.
Proof. cbv zeta. split; [vm_compute; reflexivity|]. split; [|vm_compute; reflexivity]. apply in_or_app. left. unfold ledger_schemas. cbn. tauto. Qed.
