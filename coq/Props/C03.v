(* C03 — Emitted bytes conform to the Conway-era CDDL wire format.
   Model of the emitted bytes: the schema encoder [enc] of Codec/Schema.v on the wire shapes of Ledger/Schemas.v
   (tied to the Rust serializers by the correspondence runs of C01 and of this check).
   Spec: Cddl/ConwayCddl.v (transcription of the Conway CDDL) judged by the validator of Cddl/Validator.v over the
   independent CBOR reader of Cbor/Item.v. *)
From CSL Require Import Num.Value Cddl.NoZeroAssets Builder.Totals Builder.Change Builder.Scenario Cddl.ChangeNoZero Cddl.NormPos Cddl.Histories.
From CSL Require Import Base.Prelude Cbor.Head Cbor.Item Cbor.ItemProofs Codec.Schema Codec.SchemaProofs
  Ledger.Schemas Ledger.SchemasProofs
  Cddl.Rules Cddl.Validator Cddl.ValidatorProofs Cddl.ConwayCddl Cddl.ToItem Cddl.ToItemProofs Cddl.CanonProofs
  Cddl.Tables Cddl.Pairing Cddl.Conforms Cddl.ConformsProofs Cddl.KnownClass Cddl.Refines Cddl.RefinesProofs.
Local Open Scope N_scope.

(* the independent reader parses the emitted bytes (one item, nothing left over) into exactly the tree [to_item s v] *)
Theorem C03_wellformed : forall s v, wfs s = true -> wfv s v = true ->
  parse_exact (enc s v) = Ok (to_item s v) /\ encode_item (to_item s v) = enc s v.
Proof. intros s v Hs Hv. split; [apply parse_enc; assumption|apply to_item_enc; assumption]. Qed.
Print Assumptions C03_wellformed.

(* (1) canonical form, for EVERY well-formed schema and schema-valid value: all heads shortest, maps always definite,
   arrays / byte strings definite except at the listed sites (SArrAny = Plutus lists, SBBytes = bounded bytes > 64),
   chunked strings exactly in the 64-byte shape; on schemas without such sites everything is definite *)
Theorem C03_canonical : forall s v, wfs s = true -> wfv s v = true ->
  canon_bytes true true (enc s v) = true /\ heads_shortest (enc s v) = true /\
  chunks_strict (to_item s v) = true /\
  (no_indef_sites s = true -> canon_bytes false false (enc s v) = true).
Proof. exact enc_canonical. Qed.
Print Assumptions C03_canonical.

Theorem C03_canonical_ledger : forall d s, In s (ledger_schemas d) -> forall v, wfv s v = true ->
  canon_bytes true true (enc s v) = true /\ heads_shortest (enc s v) = true /\ chunks_strict (to_item s v) = true.
Proof.
  intros d s Hin v Hv.
  destruct (enc_canonical s v (proj1 (Forall_forall _ _) (ledger_schemas_wf d) s Hin) Hv) as (A & B & C & _).
  repeat split; assumption.
Qed.
Print Assumptions C03_canonical_ledger.

(* the same for the further public types of Ledger/Schemas.v (stand-alone certificate / action / script members, PoolParams,
   Committee, PlutusMap, ConstrPlutusData, BigInt, Redeemer, ...) *)
Theorem C03_canonical_ledger_more : forall d s, In s (ledger_schemas_more d) -> forall v, wfv s v = true ->
  canon_bytes true true (enc s v) = true /\ heads_shortest (enc s v) = true /\ chunks_strict (to_item s v) = true.
Proof.
  intros d s Hin v Hv.
  destruct (enc_canonical s v (proj1 (Forall_forall _ _) (ledger_schemas_more_wf d) s Hin) Hv) as (A & B & C & _).
  repeat split; assumption.
Qed.
Print Assumptions C03_canonical_ledger_more.

(* (2) every set site of every schema-valid value is written as tag 258 + definite array of pairwise distinct items *)
Theorem C03_sets : forall s v, wfs s = true -> wfv s v = true -> sets_emitted s v = true.
Proof. exact enc_sets. Qed.
Print Assumptions C03_sets.

Theorem C03_set_site : forall s l, wfs s = true -> wfv (SSetOf s) (VList l) = true ->
  enc (SSetOf s) (VList l) = [217; 1; 2] ++ encode_head 4 (N.of_nat (length l)) ++ concat (map (enc s) l) /\
  NoDup (map (enc s) l) /\
  parse_exact (enc (SSetOf s) (VList l)) = Ok (ITag 258 (IArray true (map (to_item s) l))) /\
  items_nodup (map (to_item s) l) = true.
Proof. exact set_site_bytes. Qed.
Print Assumptions C03_set_site.

(* (3) key / arity / tag tables of the implementation schemas = those of the CDDL transcription (finite computation,
   for every unrolling depth; differences allowed: body key 6, certificates 5 and 6, parameter-update keys 12-14) *)
Theorem C03_tables : forall d, tables_agree d = true.
Proof. intros d. vm_compute. reflexivity. Qed.
Print Assumptions C03_tables.

(* (4, first half) byte-level conformance of the emitted bytes IS tree-level matching of [to_item s v]: parsing by the
   independent reader, shortest heads, definiteness and chunk shapes are discharged once for every schema and value;
   what is left of [cddl_ok_bytes] is the rule matcher on the abstract tree *)
Theorem C03_bytes_of_tree : forall e fuel r s v, wfs s = true -> wfv s v = true ->
  cddl_ok_bytes_fuel e fuel r (enc s v) = cddl_ok e fuel r (to_item s v).
Proof. exact bytes_of_tree. Qed.
Print Assumptions C03_bytes_of_tree.

(* running out of fuel only ever rejects: an item accepted with some fuel is accepted with any larger fuel *)
Theorem C03_fuel_monotone : forall e f g r it, (f <= g)%nat -> cddl_ok e f r it = true -> cddl_ok e g r it = true.
Proof. exact cddl_ok_fuel_mono. Qed.
Print Assumptions C03_fuel_monotone.

(* (4) THE CONFORMANCE THEOREM, in value-dependent form.  [conforms e fuel s r v] (Cddl/Conforms.v) is a decidable
   predicate on TYPED values: it compares the structure of schema and rule along v and checks v's leaf ranges (integer
   ranges, sizes, non-emptiness, chosen alternative, rational side conditions, address shape); it never looks at bytes.
   ONE generic proof (induction on fuel, case analysis over the schema language) shows that such a value is emitted as
   bytes the independent validator accepts.  This is the property's "typed values accepted by validating
   constructors": the values the Conway CDDL can represent at all. *)
Theorem C03_conforms : forall e fuel s r v, wfs s = true -> wfv s v = true ->
  conforms e fuel s r v = true -> cddl_ok_bytes_fuel e fuel r (enc s v) = true.
Proof. exact conforms_bytes_sound. Qed.
Print Assumptions C03_conforms.

(* the same with the judge's own fuel, on the Conway environment *)
Theorem C03_conforms_conway : forall s r v, wfs s = true -> wfv s v = true ->
  conforms_bytes conway_env s r v = true -> cddl_ok_bytes conway_env r (enc s v) = true.
Proof. intros s r v Hs Hv Hc. unfold cddl_ok_bytes. apply conforms_bytes_sound; assumption. Qed.
Print Assumptions C03_conforms_conway.

(* the known finding: a mint quantity accepted by MintAssets::insert / new_from_entry (non-zero, |q| < 2^64) whose
   emitted bytes the Conway rule rejects (nonZeroInt64), and exactly the class the check lists: the bytes conform once
   mint quantities are relaxed to any non-zero integer *)
Theorem C03_mint_int64_refuted : exists v,
  wfv Mint v = true /\
  cddl_ok_bytes conway_env (RMapOf 0 policy_id (RMapOf 1 asset_name nonZeroInt64)) (enc Mint v) = false /\
  judge_class (RMapOf 0 policy_id (RMapOf 1 asset_name nonZeroInt64)) (enc Mint v) = 1.
Proof.
  exists (VMap [(VBytes (repeat 5 28), VMap [(VBytes [65; 66], VAlt 0 (VNat 9223372036854775808))])]).
  vm_compute. repeat split.
Qed.
Print Assumptions C03_mint_int64_refuted.

(* block headers (outside the literal scope of the property: not a part of a transaction).  The library writes a header body
   FLAT; with the single Babbage/Conway VRF result that is 14 items, the shape of no era (known finding
   C03-praos-header-body-flat): rejected by the Conway header_body rule (10 items, nested operational_cert and
   protocol_version), accepted once that one rule is replaced by the flat single-VRF rule. *)
Theorem C03_praos_header_flat_refuted : exists v,
  wfv HeaderBodyPraos v = true /\
  cddl_ok_bytes conway_env (RRef N_header_body) (enc HeaderBodyPraos v) = false /\
  judge_class_header (RRef N_header_body) (enc HeaderBodyPraos v) = 4.
Proof.
  exists (VList [VNat 1; VNat 2; VNull; VBytes (repeat 1 32); VBytes (repeat 2 32); VList [VBytes [7]; VBytes (repeat 3 80)];
                 VNat 100; VBytes (repeat 4 32); VBytes (repeat 5 32); VNat 6; VNat 7; VBytes (repeat 8 64); VNat 9; VNat 0]).
  vm_compute. repeat split.
Qed.
Print Assumptions C03_praos_header_flat_refuted.

(* (4') the value-INDEPENDENT comparison and its soundness.  [refines e fuel s r] (Cddl/Refines.v) looks at schema and rule
   only; when it answers true, EVERY schema-valid value of s is emitted as bytes the validator accepts for r.  One generic
   proof (refines => conforms for all values, induction on fuel; then C03_conforms). *)
Theorem C03_refines_sound : forall e f s r, refines e f s r = true -> wfs s = true ->
  forall v, wfv s v = true -> exists fuel, cddl_ok_bytes_fuel e fuel r (enc s v) = true.
Proof.
  intros e f s r Hr Hs v Hv. destruct (refines_sound e f s r Hr Hs v Hv) as [g G]. exists g.
  apply conforms_bytes_sound; assumption.
Qed.
Print Assumptions C03_refines_sound.

(* where it answers true and where the schema is WIDER than the rule: the verdict on the 64 pairs of Pairing.conway_pairs
   (unrolling depth 2), a finite computation.  true (26): Credential, Credentials, Ed25519KeyHashes, DRep, Anchor, Relay,
   Relays, PoolMetadata, ProtocolVersion, ExUnits, Voter, VotingProcedure, Constitution, NativeScript, NativeScripts,
   PlutusScripts, TransactionMetadatum, GeneralTransactionMetadata, AuxiliaryData, ScriptRef, Vkeywitness, Vkeywitnesses,
   Int, VRFCert, OperationalCert (and their uses).  false: every type that contains one of the wider SITES -
     u32 / u64 where the rule has `uint .size 2` / `.size 4` (tx-input and gov-action index, five protocol parameters,
       redeemer index, transaction_index), Int where the rule has int64 (cost models, mint, native-script n is fine);
     a LOWER bound the schema language cannot express: positive_coin (asset quantities, donation), non-zero mint, `{+ }` / `[+ ]`
       / nonempty_set on a collection whose non-emptiness comes from the enclosing optional field, denominator > 0 and
       numerator <= denominator of unit intervals;
     address and reward-account BYTES (header nibble / length consistency is in writer_form, not in wfv);
     Vec-backed maps that may repeat a key (Mint, Redeemers map form, PlutusMap);
     Plutus lists (an indefinite EMPTY list is schema-valid) and the Plutus-data datum set (no NoDup in the schema);
     pre-Conway items (body key 6, certificates 5 / 6, parameter keys 12-14) and the flat header bodies.
   For all of those C03_conforms reads the condition off the value instead. *)
Theorem C03_refines_pairs :
  map (fun p => refines conway_env 80 (fst p) (snd p)) (conway_pairs 2) =
  [false; false; true; true; true; true; true; false; true; true; true; true; true; false; false; false; false; false; false;
   false; false; true; false; true; false; false; false; false; false; true; false; false; false; true; true; true; false;
   false; false; true; true; true; true; false; false; false; false; false; false; true; true; false; false; false; false;
   true; true; true; false; false; false; false; false; false].
Proof. vm_compute. reflexivity. Qed.
Print Assumptions C03_refines_pairs.

(* single sites, pinned: the same shape with the rule's bound refines, the implementation's wider one does not *)
Example C03_wider_sites :
  refines conway_env 20 (arr [H32; U16]) transaction_input = true /\ refines conway_env 20 TransactionInput transaction_input = false /\
  refines conway_env 20 (SUint 18446744073709551616) positive_coin = false /\ refines conway_env 20 (SUint 18446744073709551616) coin = true /\
  refines conway_env 20 (SBytes 29 57) RAddress = false /\ refines conway_env 20 UnitInterval unit_interval = false /\
  refines conway_env 40 (SArrOf 0 IntS) cost_model = false /\ refines conway_env 40 (SArrOf 0 IntS) (RArrOf 0 r_int) = true.
Proof. vm_compute. repeat split. Qed.

(* the value-INDEPENDENT form of the statement in its strongest reading, kept visible: a sound [refines] that is true on ALL
   pairs.  The soundness half is C03_refines_sound; the "true on all pairs" half is false (C03_refines_pairs: 26 of 64),
   and not repairable for these schemas: they are wider than the Conway
   rules exactly where the API admits CDDL-invalid values (u32 indices, Int vs int64), and lower bounds (positive_coin,
   denominator > 0, [+ a] on a collection whose non-emptiness comes from the enclosing optional field) are not
   expressible in the schema language, so [refines] is false on every transaction-level pair.  C03_conforms is the
   same statement with the leaf conditions read off the value instead of the schema. *)
Definition C03_full : Prop :=
  exists refines : schema -> rule -> bool,
    (forall s r v, refines s r = true -> wfs s = true -> wfv s v = true ->
       exists fuel, cddl_ok_bytes_fuel conway_env fuel r (enc s v) = true) /\
    forall d, Forall (fun p => refines (fst p) (snd p) = true) (Pairing.conway_pairs d).

(* what IS proved of the full statement, in one place: for every well-formed schema, schema-valid value and rule,
   (a) the independent reader parses the emitted bytes to to_item s v, (b) they are in canonical form with the two
   listed exceptions, (c) every set site is tag 258 + distinct items, (d) conformance to the rule reduces to matching
   the tree, and (e) the key/arity/tag tables of implementation and CDDL agree.
   Together with C03_conforms (matching of the tree from the typed value's leaf conditions) this is the whole property
   on the model side; C03_full differs only in asking for a value-independent comparison. *)
Theorem C03_conforms_partial : forall s v, wfs s = true -> wfv s v = true ->
  parse_exact (enc s v) = Ok (to_item s v) /\
  canon_bytes true true (enc s v) = true /\ heads_shortest (enc s v) = true /\ chunks_strict (to_item s v) = true /\
  sets_emitted s v = true /\
  (forall e fuel r, cddl_ok_bytes_fuel e fuel r (enc s v) = cddl_ok e fuel r (to_item s v)) /\
  (forall d, tables_agree d = true).
Proof.
  intros s v Hs Hv. destruct (enc_canonical s v Hs Hv) as (A & B & C & _).
  split; [apply parse_enc; assumption|]. repeat split; try assumption.
  - apply enc_sets; assumption.
  - intros e fuel r. apply bytes_of_tree; assumption.
Qed.
Print Assumptions C03_conforms_partial.

(* (5) builder clause, on the Value model of the C14 development (Num/Value.v, copied verbatim): the operations the
   builder uses to compute change and to select coins (Value::checked_add / checked_sub / clamped_sub, MultiAsset::sub)
   never produce a zero-quantity asset or an empty policy bundle from operands that have none.  The end-to-end clause
   (every output of every built transaction) is judged on the real TransactionBuilder's bytes by the tx stream:
   the body rule demands multiasset<positive_coin> = {+ policy => {+ asset => 1..} } in every output. *)
Theorem C03_builder_no_zero_assets :
  (forall a b c, value_pos a = true -> value_pos b = true -> value_checked_add a b = Ok c -> value_pos c = true) /\
  (forall a b c, value_pos a = true -> value_checked_sub a b = Ok c -> value_pos c = true) /\
  (forall a b, value_pos a = true -> value_pos (value_clamped_sub a b) = true) /\
  (forall l r, ma_pos l = true -> ma_pos (ma_sub l r) = true).
Proof.
  split; [exact value_checked_add_pos|]. split; [exact value_checked_sub_pos|]. split; [exact value_clamped_sub_pos|exact ma_sub_pos].
Qed.
Print Assumptions C03_builder_no_zero_assets.

(* (5') the builder clause about add_change_if_needed ITSELF, on C05's executable model of it (Builder/Change.v: every branch,
   serialised sizes and fees as an ARBITRARY oracle): if the outputs already in the builder and the total input carry no
   zero-quantity asset and no empty policy bundle, then after add_change - successful or failed, the Rust code mutates
   before it fails - no output of the builder carries one: every change output it appended, and the last output it
   topped up, is free of them. *)
Theorem C03_add_change_no_zero_assets : forall (O : Type) (orc : @oracle O) fuel addr extra s o,
  outputs_pos s = true -> total_input_pos s = true ->
  outputs_pos (out_st (add_change orc fuel addr extra s o)) = true.
Proof. intros O orc. exact (add_change_keeps_outputs_pos orc). Qed.
Print Assumptions C03_add_change_no_zero_assets.

(* the former witness of finding C03-builder-echoes-degenerate-given-values (fixed in /repo: push_input stores an amount
   without zero quantities / asset-less policies, add_output refuses a value that has them): one input holding `asset => 0`,
   no output, the trivial oracle (fee 0, minimum ADA 0, nothing too big).  Before the fix add_change succeeded and appended a
   change output with that zero quantity; now such a state cannot be built through the API (value_without_empty_entries_pos
   below), and even on it add_change fails in add_output instead of echoing the entry. *)
Definition triv_oracle : @oracle unit :=
  mkOracle (fun _ o => (Ok 0, o)) (fun _ o => (Ok 0, o)) (fun _ o => (false, o)) (fun _ o => (false, o))
           (fun _ _ o => (([], true), o)).
Theorem C03_add_change_echo_fixed : exists s,
  outputs_pos s = true /\ total_input_pos s = false /\
  out_res (add_change triv_oracle 8 1 0 s tt) = Err /\
  outputs_pos (out_st (add_change triv_oracle 8 1 0 s tt)) = true.
Proof.
  exists (set_s_inputs [(1, mkValue 10 (Some [(repeat 1 28, [([65], 0)])]))] (new_state (mkConfig 0 0 false false))).
  vm_compute. repeat split.
Qed.
Print Assumptions C03_add_change_echo_fixed.

(* what push_input stores is free of zero quantities and empty bundles, and add_output's test is exactly value_pos *)
Theorem C03_stored_amounts_pos : forall v,
  value_pos (Num.ValueNorm.value_without_empty_entries v) = true /\
  value_pos v = negb (Num.ValueNorm.value_has_empty_entries v).
Proof. exact stored_amounts_pos. Qed.
Print Assumptions C03_stored_amounts_pos.

(* (5'') the builder clause over HISTORIES, premise-free on the inputs: on C05's builder model (Builder/Scenario.v: input,
   output, certificates, withdrawals, proposals, mint set/add, donation, treasury, set_fee, set_min_fee, add_change,
   add_inputs_from_and_change, build_tx; sizes and fees from the recorded-answer oracle, whatever it answers), starting from a
   NEW builder, every transaction build_tx releases has outputs free of zero quantities and empty policy bundles - provided
   change is only computed while no mint line has the stored sum 0 ([history_ok]: at each add_change /
   add_inputs_from_and_change, [mint_nonzero], which is exactly the test MintBuilder::build applies before a transaction is
   released).  That is all the mint side needs: a zero line is counted as a minted asset of quantity 0 by
   Mint::as_positive_multiasset and would flow into the change. *)
Theorem C03_builder_histories_no_zero_assets : forall cfg utxos l,
  history_ok utxos l (new_state cfg) = true ->
  forall b, snd (run_ops utxos l (new_state cfg)) = Some b -> body_pos b.
Proof. exact builder_histories_no_zero_assets. Qed.
Print Assumptions C03_builder_histories_no_zero_assets.

(* the invariant behind it, for every reachable state *)
Theorem C03_builder_reachable_states : forall utxos l s, J s -> history_ok utxos l s = true ->
  J (snd (fst (run_ops utxos l s))).
Proof. intros utxos l s Hs Hh. exact (proj1 (run_ops_J utxos l s Hs Hh)). Qed.
Print Assumptions C03_builder_reachable_states.

(* the premises are satisfiable on a history that releases a transaction: an input given WITH a zero-quantity asset (stored
   without it), an output, a fixed fee, build_tx *)
Example C03_history_example :
  let p := repeat 1 28 in
  let utxos := [(1, mkValue 10 (Some [(p, [([65], 0)])]))] in
  let e := mkTape [] None false in
  let l := [(OpInput 1, e); (OpOutput (mkOutput 7 (value_new 4) 0), mkTape [(site_S, Some 0); (site_A, Some 0)] None false);
            (OpSetFee 6, e); (OpBuild, mkTape [(site_F, Some 0); (site_T, Some 0)] None false)] in
  history_ok utxos l (new_state (mkConfig 0 0 false false)) = true /\
  exists b, snd (run_ops utxos l (new_state (mkConfig 0 0 false false))) = Some b /\ length (b_outputs b) = 1%nat /\
            b_inputs b = [(1, mkValue 10 (Some []))].
Proof. cbv zeta. split; [vm_compute; reflexivity|]. eexists. vm_compute. repeat split. Qed.

(* ---- non-vacuity ---- *)
Example C03_tables_nonempty :
  table_sizes = [20; 8; 30; 4; 5; 17; 7; 2; 4; 5; 3; 6; 2; 4; 131; 1; 1].
Proof. vm_compute. reflexivity. Qed.

Definition ex_body : val :=
  VStruct [Some (VList [VList [VBytes (repeat 7 32); VNat 0]; VList [VBytes (repeat 9 32); VNat 65535]]);
           Some (VList [VAlt 0 (VAlt 0 (VList [VBytes (97 :: repeat 1 28); VAlt 0 (VNat 2000000)]));
                        VAlt 0 (VAlt 1 (VList [VBytes (repeat 3 32); VBytes (97 :: repeat 2 28); VAlt 0 (VNat 1500000)]))]); Some (VNat 170000);
           Some (VNat 5); None; None; None; None; None; None; None; None; None; None; None; None; None;
           None; None; None; None].
Example C03_premises_satisfiable :
  wfs (TransactionBody 1) = true /\ wfv (TransactionBody 1) ex_body = true /\
  cddl_ok_bytes conway_env transaction_body (enc (TransactionBody 1) ex_body) = true /\
  firstn 6 (enc (TransactionBody 1) ex_body) = [164; 0; 217; 1; 2; 130] /\
  conforms_bytes conway_env (TransactionBody 1) transaction_body ex_body = true.
Proof. split; [apply wf_TransactionBody|]. vm_compute. repeat split. Qed.

(* the validator is not vacuous: the same body with input index 65536 (uint .size 2 violated), without the required
   key 2, with an untagged input set, or with a duplicate input is rejected *)
Example C03_validator_rejects :
  let bad1 := VStruct [Some (VList [VList [VBytes (repeat 7 32); VNat 65536]]); Some (VList []); Some (VNat 1);
                       None; None; None; None; None; None; None; None; None; None; None; None; None; None; None; None; None; None] in
  cddl_ok_bytes conway_env transaction_body (enc (TransactionBody 1) bad1) = false /\
  cddl_ok_bytes conway_env transaction_body [162; 0; 217; 1; 2; 128; 1; 128] = false /\
  cddl_ok_bytes conway_env transaction_body [163; 0; 128; 1; 128; 2; 0] = false /\
  cddl_ok_bytes conway_env transaction_body [163; 0; 217; 1; 2; 128; 1; 128; 2; 0] = true /\
  cddl_ok_bytes conway_env transaction_body [163; 0; 217; 1; 2; 128; 1; 128; 2; 24; 0] = false.
Proof. vm_compute. repeat split. Qed.
