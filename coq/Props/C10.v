(* C10 -- placeholder while the proofs are being written *)
From CSL Require Import Base.Prelude Base.BytesOrd Pointers.Pointers Pointers.PointersSpec.
