(* C10 -- Redeemer pointers identify the item they were attached to.
   Only statements here; each is closed by a lemma of Pointers/PointersProofs.v.
   Model: Pointers/Pointers.v (TxInputsBuilder, MintBuilder, CertificatesBuilder, WithdrawalsBuilder,
   VotingBuilder, VotingProposalBuilder, the witness collection and build_tx pre-conditions of
   TransactionBuilder).  Spec: Pointers/PointersSpec.v (the ledger's pointer rules and orders, the
   attachments a call sequence asks for, C10_statement).
   Quantifiers: ALL call sequences `ops` -- any items, any insertion order, repeated calls for the same
   item, calls the API rejects -- no bound on lengths, hashes or indices.  `run ops = (st, flags)` and
   `tx_build st = Ok b` only name the builder state and the transaction the model builds from it. *)
From CSL Require Import Base.Prelude Base.BytesOrd Pointers.Pointers Pointers.PointersSpec Pointers.PointersProofs.
From Coq Require Import Permutation.
Local Open Scope N_scope.

(* spend: the body lists exactly the inputs that were added; the spend redeemers are exactly one per
   input whose last registration carries a Plutus witness, at the input's index in the sorted input set;
   outside the known class (Plutus-witnessed collateral) *)
Theorem C10_spend : forall (ops : list op) (st : txb) (flags : list bool) (b : built),
  run ops = (st, flags) -> tx_build st = Ok b ->
  known_collateral_plutus ops = false ->
  let sf := spend_wits (spend_final (ops_in ops)) in
  spec_field sf (b_inputs b) /\
  spec_pointers TSpend sf (fun k => ledger_set_index outpoint_ledger_ltb k (b_inputs b)) (b_redeemers b) /\
  spec_locked sf (spend_locked sf).
Proof. exact c10_spend. Qed.
Print Assumptions C10_spend.

(* mint: one redeemer per Plutus policy, at the policy's index among ALL policies sorted bytewise *)
Theorem C10_mint : forall (ops : list op) (st : txb) (flags : list bool) (b : built),
  run ops = (st, flags) -> tx_build st = Ok b ->
  let mf := mint_wits (mint_final (ops_mint ops)) in
  spec_field mf (b_policies b) /\
  spec_pointers TMint mf (fun k => ledger_set_index policy_ledger_ltb k (b_policies b)) (b_redeemers b).
Proof. exact c10_mint. Qed.
Print Assumptions C10_mint.

(* cert: one redeemer per Plutus-witnessed certificate, at its position in the certificate sequence *)
Theorem C10_cert : forall (ops : list op) (st : txb) (flags : list bool) (b : built),
  run ops = (st, flags) -> tx_build st = Ok b ->
  let cf := cert_final (ops_cert ops) in
  spec_field cf (b_certs b) /\
  spec_pointers TCert cf (fun k => ledger_seq_index cert_ltb k (b_certs b)) (b_redeemers b) /\
  spec_locked cf ledger_cert_script_locked.
Proof. exact c10_cert. Qed.
Print Assumptions C10_cert.

(* reward: one redeemer per Plutus-witnessed withdrawal, at the account's index in the ledger's
   reward-account order (network, script before key, hash) -- for every insertion order *)
Theorem C10_reward : forall (ops : list op) (st : txb) (flags : list bool) (b : built),
  run ops = (st, flags) -> tx_build st = Ok b ->
  let wf := wd_final (ops_wd ops) in
  spec_field wf (b_withdrawals b) /\
  spec_pointers TReward wf (fun k => ledger_set_index racct_ledger_ltb k (b_withdrawals b)) (b_redeemers b) /\
  spec_locked wf (fun a => cr_script (ra_cred a)).
Proof. exact c10_reward. Qed.
Print Assumptions C10_reward.

(* vote: one redeemer per Plutus-witnessed voter, at the voter's index in the ledger's voter order *)
Theorem C10_vote : forall (ops : list op) (st : txb) (flags : list bool) (b : built),
  run ops = (st, flags) -> tx_build st = Ok b ->
  let vf := vote_final (ops_vote ops) in
  spec_field vf (b_voters b) /\
  spec_pointers TVote vf (fun k => ledger_set_index voter_ledger_ltb k (b_voters b)) (b_redeemers b) /\
  spec_locked vf voter_has_script.
Proof. exact c10_vote. Qed.
Print Assumptions C10_vote.

(* propose: one redeemer per Plutus-witnessed proposal, at its position in the proposal sequence;
   only proposals with a policy hash carry one -- outside the known class *)
Theorem C10_propose : forall (ops : list op) (st : txb) (flags : list bool) (b : built),
  run ops = (st, flags) -> tx_build st = Ok b ->
  let pf := prop_final (ops_prop ops) in
  spec_field pf (b_proposals b) /\
  spec_pointers TPropose pf (fun k => ledger_seq_index prop_rust_ltb k (b_proposals b)) (b_redeemers b) /\
  (known_prop_nonscript ops = false -> spec_locked pf prop_has_script_hash).
Proof. exact c10_propose. Qed.
Print Assumptions C10_propose.

(* no two redeemers of a built transaction share (tag, index) *)
Theorem C10_unique : forall (ops : list op) (st : txb) (flags : list bool) (b : built),
  run ops = (st, flags) -> tx_build st = Ok b ->
  known_collateral_plutus ops = false ->
  forall r1 r2, In r1 (b_redeemers b) -> In r2 (b_redeemers b) ->
    r_tag r1 = r_tag r2 -> r_index r1 = r_index r2 -> r1 = r2.
Proof. exact c10_unique. Qed.
Print Assumptions C10_unique.

(* only script-locked items carry a redeemer (the ledger's notion of script-locked, PointersSpec.v) *)
Theorem C10_only_script_items : forall (ops : list op),
  spec_locked (cert_final (ops_cert ops)) ledger_cert_script_locked /\
  spec_locked (wd_final (ops_wd ops)) (fun a => cr_script (ra_cred a)) /\
  spec_locked (vote_final (ops_vote ops)) voter_has_script /\
  (forall st flags, run ops = (st, flags) -> known_prop_nonscript ops = false ->
     spec_locked (prop_final (ops_prop ops)) prop_has_script_hash).
Proof.
  intros ops. split; [apply cert_locked|]. split; [apply wd_locked|]. split; [apply vote_locked|].
  intros st flags Hr K2. apply prop_locked. unfold known_prop_nonscript in K2. rewrite Hr in K2. cbn [fst] in K2.
  destruct (run_components _ _ _ Hr) as (_ & _ & _ & _ & _ & _ & E). rewrite E in K2. exact K2.
Qed.
Print Assumptions C10_only_script_items.

(* the full statement of the property for a built transaction *)
Theorem C10_full : forall (ops : list op) (st : txb) (flags : list bool) (b : built),
  run ops = (st, flags) -> tx_build st = Ok b ->
  known_collateral_plutus ops = false -> known_prop_nonscript ops = false ->
  C10_statement ops b.
Proof. exact c10_statement_holds. Qed.
Print Assumptions C10_full.

(* whatever the order of the calls: for pairwise distinct items every permutation of the calls yields the
   same redeemers (tag, index, data) for spend, mint, reward, vote and propose; a certificate redeemer
   follows its certificate's position in the sequence (C10_cert) *)
Theorem C10_order_irrelevant : forall (ops ops' : list op) (st : txb) (flags : list bool) (b : built)
                                      (st' : txb) (flags' : list bool) (b' : built),
  Permutation ops ops' -> distinct_items ops ->
  run ops = (st, flags) -> tx_build st = Ok b -> run ops' = (st', flags') -> tx_build st' = Ok b' ->
  known_collateral_plutus ops = false -> known_collateral_plutus ops' = false ->
  forall r, r_tag r <> TCert -> (In r (b_redeemers b) <-> In r (b_redeemers b')).
Proof. exact c10_order_irrelevant. Qed.
Print Assumptions C10_order_irrelevant.

(* the orders the code sorts / ranks by are the ledger's orders, and has_required_script_witness is the ledger's table *)
Theorem C10_code_orders_are_ledger_orders :
  (forall a b : racct, racct_code_ltb a b = racct_ledger_ltb a b) /\
  (forall a b : voter, voter_code_ltb a b = voter_ledger_ltb a b) /\
  (forall a b : outpoint, outpoint_ltb a b = outpoint_ledger_ltb a b) /\
  (forall c : cert, cert_has_required_script_witness c = ledger_cert_script_locked c).
Proof.
  split; [intros; rewrite racct_code_ledger; reflexivity|]. split; [exact voter_code_ledger|].
  split; [intros; rewrite outpoint_code_ledger; reflexivity | exact cert_locked_code_ledger].
Qed.
Print Assumptions C10_code_orders_are_ledger_orders.

(* the three *_utxo entry points of TxInputsBuilder register an input exactly when the UTxO's address is locked the way the entry
   point says (script witness <-> script payment credential; regular <-> key credential or Byron), for all 9 address kinds; a
   refused call registers nothing (ops_in / ops_col count it as no call), so no redeemer can point at such an input *)
Theorem C10_utxo_entry_points : forall (e : utxo_entry) (a : addr_kind) (h : bytes) (o : outpoint) (rid : N),
  utxo_effect e a h o rid = ledger_utxo_effect e a h o rid.
Proof. exact utxo_effect_ledger. Qed.
Print Assumptions C10_utxo_entry_points.

(* the executable judge of the correspondence run is sound: "holds" on (calls, built transaction)
   implies the statement for that transaction; a known-finding verdict only arises inside its class *)
Theorem C10_judge_sound : forall (ops : list op) (b : built), judge ops b = Holds -> C10_statement ops b.
Proof. exact judge_sound. Qed.
Print Assumptions C10_judge_sound.

Theorem C10_judge_known_narrow : forall (ops : list op) (b : built) (c : N), judge ops b = FailsKnown c ->
  (c = 1 /\ known_collateral_plutus ops = true) \/ (c = 2 /\ known_prop_nonscript ops = true).
Proof. exact judge_known_narrow. Qed.
Print Assumptions C10_judge_known_narrow.

(* ... and complete: it accepts every transaction the model builds outside the known classes, so a `fails:-` verdict of the
   correspondence run is never an artefact of the judge on behaviour the model (hence the theorems) covers *)
Theorem C10_judge_complete : forall (ops : list op) (st : txb) (flags : list bool) (b : built),
  run ops = (st, flags) -> tx_build st = Ok b ->
  known_collateral_plutus ops = false -> known_prop_nonscript ops = false -> judge ops b = Holds.
Proof. exact judge_complete. Qed.
Print Assumptions C10_judge_complete.

(* the known classes, stated on the call list alone: K1 = the LAST call for some collateral input is
   add_plutus_script_input; K2 = the last accepted call for some proposal without policy hash is add_with_plutus_witness *)
Theorem C10_known_classes_on_calls : forall ops : list op,
  (known_collateral_plutus ops = true <-> exists o h rid, spend_final (ops_col ops) o = Some (Some (h, WPlutus rid))) /\
  (known_prop_nonscript ops = true <->
     exists p rid, prop_final (ops_prop ops) p = Some (Some (WPlutus rid)) /\ prop_has_script_hash p = false).
Proof. intros ops. split; [apply known_collateral_plutus_iff | apply known_prop_nonscript_iff]. Qed.
Print Assumptions C10_known_classes_on_calls.

(* ---- inside the known classes the unrestricted statements are false (witnesses replayed on the real code:
        corpus/C10 w4, w5) ---- *)
Theorem C10_unique_refuted_collateral :
  known_collateral_plutus w_collateral_ops = true /\
  exists st flags b, run w_collateral_ops = (st, flags) /\ tx_build st = Ok b /\ ~ spec_unique (b_redeemers b).
Proof. exact unique_refuted_collateral. Qed.
Print Assumptions C10_unique_refuted_collateral.

Theorem C10_only_script_refuted_proposal :
  known_prop_nonscript w_prop_ops = true /\
  exists st flags b, run w_prop_ops = (st, flags) /\ tx_build st = Ok b /\ b_redeemers b = [mkR TPropose 0 7] /\
    ~ spec_locked (prop_final (ops_prop w_prop_ops)) prop_has_script_hash.
Proof. exact locked_refuted_proposal. Qed.
Print Assumptions C10_only_script_refuted_proposal.

(* ---- the three repaired defects (commits 2fef2d7, c263357, ae86092): the behaviour before the repair violates the
        statement (witnesses corpus/C10 w0, w2, w6) ---- *)
Theorem C10_stale_legacy_refuted :
  let st := fold_left ib_step (ops_in w_stale_ops) ib_empty in
  ib_plutus_legacy st = [mkR TSpend 0 1; mkR TSpend 0 2] /\ ~ spec_unique (ib_plutus_legacy st) /\
  ib_plutus st = [mkR TSpend 0 2].
Proof. exact stale_legacy_refuted. Qed.
Print Assumptions C10_stale_legacy_refuted.

Theorem C10_reward_legacy_refuted :
  let st := fold_left wd_apply w_reward_ops [] in
  ~ spec_pointers TReward (wd_final w_reward_ops)
      (fun k => ledger_set_index racct_ledger_ltb k (wd_body_legacy st)) (wd_plutus_legacy st).
Proof. exact reward_legacy_refuted. Qed.
Print Assumptions C10_reward_legacy_refuted.

Theorem C10_vote_legacy_refuted :
  let st := fold_left vote_apply w_vote_ops [] in
  ~ spec_pointers TVote (vote_final w_vote_ops)
      (fun k => ledger_set_index voter_ledger_ltb k (vote_body st)) (vote_plutus_legacy st).
Proof. exact vote_legacy_refuted. Qed.
Print Assumptions C10_vote_legacy_refuted.

(* ---- non-vacuity ---- *)
(* the premises hold on a transaction that uses every purpose, with items inserted out of ledger order *)
Check c10_premises_satisfiable.
Check c10_distinct_items_satisfiable.
Example C10_permutation_exists : Permutation ex_ops (rev ex_ops) /\ rev ex_ops <> ex_ops.
Proof. split; [apply Permutation_rev | discriminate]. Qed.
(* the spec orders are pinned: script credentials before key credentials, committee < DRep < pool, network first *)
Check (eq_refl : map (fun p => racct_ledger_ltb (fst p) (snd p))
  [ (mkRacct 0 (mkCred true [9]), mkRacct 0 (mkCred false [1]));   (* script before key, whatever the hash *)
    (mkRacct 0 (mkCred false [1]), mkRacct 0 (mkCred true [9]));
    (mkRacct 0 (mkCred false [9]), mkRacct 1 (mkCred true [1]));   (* network first *)
    (mkRacct 0 (mkCred true [1; 2]), mkRacct 0 (mkCred true [1; 3])) ]
  = [true; false; true; true]).
Check (eq_refl : map (fun p => voter_ledger_ltb (fst p) (snd p))
  [ (VCC (mkCred false [9]), VDRep (mkCred true [1])); (VDRep (mkCred false [9]), VSPO [0]);
    (VDRep (mkCred true [9]), VDRep (mkCred false [1])); (VDRep (mkCred false [1]), VDRep (mkCred true [9])) ]
  = [true; true; true; false]).
(* the certificate table: kinds that take a script witness when the credential is a script hash *)
Check (eq_refl : map (fun k => ledger_cert_script_locked (mkCert k true 0)) [0;1;2;3;4;5;6;7;8;9;10;11;12;13;14;15;16;17;18;19]
  = [false;true;true;false;false;false;false;true;true;true;true;true;true;true;true;true;true;true;true;false]).
