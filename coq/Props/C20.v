(* C20 — Deposit and refund helpers agree with the ledger and with the builder.
   Only statements here; each is closed by a lemma of Deposits/DepositsProofs.v.
   Model: Deposits/Deposits.v (utils.rs get_deposit / get_implicit_input, CertificatesBuilder,
   WithdrawalsBuilder, VotingProposalBuilder totals, TransactionBuilder get_deposit /
   get_implicit_input / get_total_input / get_total_output).  All quantifiers are unbounded:
   certificate lists over the 17 enum variants = 19 CDDL kinds, with arbitrary amounts (also
   amounts >= 2^64: no range premise is needed), withdrawal lists, proposal lists, parameters. *)
From CSL Require Import Base.Prelude Base.U64 Deposits.Deposits Deposits.DepositsProofs.
From Coq Require Import Permutation.
Local Open Scope N_scope.

(* the stand-alone get_deposit reports exactly what the ledger charges (certificate deposits +
   proposal deposits), or an error when that does not fit in 64 bits -- outside the known class
   "the body carries a proposal with a non-zero deposit" (the helper never reads the proposals) *)
Theorem C20_helper_deposit_spec : forall (b : body) (pool_deposit key_deposit : N),
  known_ignores_proposals b = false ->
  get_deposit b pool_deposit key_deposit = exact_or_error (spec_deposit b pool_deposit key_deposit).
Proof. intros b p q K. exact (helper_deposit_exact _ b p q K). Qed.
Print Assumptions C20_helper_deposit_spec.

(* the stand-alone get_implicit_input reports exactly withdrawals + refunds paid inside the
   transaction -- outside the known class "retires a pool while pool_deposit <> 0" *)
Theorem C20_helper_implicit_input_spec : forall (b : body) (pool_deposit key_deposit : N),
  known_pool_retirement b pool_deposit = false ->
  get_implicit_input b pool_deposit key_deposit = exact_or_error (spec_implicit_input b key_deposit).
Proof. intros b p q K. exact (helper_implicit_exact _ b p q K). Qed.
Print Assumptions C20_helper_implicit_input_spec.

(* the builder's deposit (CertificatesBuilder table, VotingProposalBuilder total, TransactionBuilder
   sum) is the ledger's figure, unconditionally *)
Theorem C20_builder_deposit_spec : forall (t : txb) (cs : list cert) (ps : list N) (p q : N),
  tb_get_deposit t = exact_or_error (spec_deposit (txb_body t) (t_pool_deposit t) (t_key_deposit t)) /\
  get_certificates_deposit cs p q = exact_or_error (spec_cert_deposits p q cs) /\
  get_total_deposit ps = exact_or_error (sumN ps).
Proof.
  intros. split; [apply tb_deposit_exact |]. split; [apply certificates_deposit_exact | apply total_deposit_exact].
Qed.
Print Assumptions C20_builder_deposit_spec.

(* the builder's implicit input (withdrawals total + CertificatesBuilder refunds), unconditionally *)
Theorem C20_builder_refund_spec : forall (t : txb) (cs : list cert) (ws : list N) (p q : N),
  tb_get_implicit_input t = exact_or_error (spec_implicit_input (txb_body t) (t_key_deposit t)) /\
  get_certificates_refund cs p q = exact_or_error (spec_cert_refunds q cs) /\
  get_total_withdrawals ws = exact_or_error (sumN ws).
Proof.
  intros. split; [apply tb_implicit_exact |]. split; [apply certificates_refund_exact | apply total_withdrawals_exact].
Qed.
Print Assumptions C20_builder_refund_spec.

(* the totals the builder balances with: inputs + implicit input, outputs + deposit + donation *)
Theorem C20_builder_totals_spec : forall (t : txb),
  tb_get_total_input t =
    exact_or_error (sumN (t_inputs t) + spec_implicit_input (txb_body t) (t_key_deposit t)) /\
  tb_get_total_output t =
    exact_or_error (sumN (t_outputs t) + spec_deposit (txb_body t) (t_pool_deposit t) (t_key_deposit t)
                    + match t_donation t with Some d => d | None => 0 end).
Proof. intros. split; [apply tb_total_input_exact | apply tb_total_output_exact]. Qed.
Print Assumptions C20_builder_totals_spec.

(* the helpers' figures are the ones the builder uses for the same certificates, withdrawals and
   proposals (error vs ok included), outside the two known classes *)
Theorem C20_helper_equals_builder :
  forall (b : body) (ins outs : list N) (donation : option N) (pool_deposit key_deposit : N),
  let t := builder_of_body b ins outs donation pool_deposit key_deposit in
  (known_ignores_proposals b = false -> get_deposit b pool_deposit key_deposit = tb_get_deposit t) /\
  (known_pool_retirement b pool_deposit = false ->
     get_implicit_input b pool_deposit key_deposit = tb_get_implicit_input t).
Proof.
  intros. split; intros K.
  - exact (helper_equals_builder_deposit _ b ins outs donation pool_deposit key_deposit K).
  - exact (helper_equals_builder_implicit _ b ins outs donation pool_deposit key_deposit K).
Qed.
Print Assumptions C20_helper_equals_builder.

(* a total that does not fit in 64 bits is an error: each figure is Err exactly when the true
   total is >= 2^64, Ok v exactly when v is the true total < 2^64, and never a panic *)
Theorem C20_overflow_is_error :
  forall (b : body) (ins outs : list N) (donation : option N) (pool_deposit key_deposit : N),
  let t := builder_of_body b ins outs donation pool_deposit key_deposit in
  total_or_error (tb_get_deposit t) (spec_deposit b pool_deposit key_deposit) /\
  total_or_error (tb_get_implicit_input t) (spec_implicit_input b key_deposit) /\
  total_or_error (tb_get_total_input t) (sumN ins + spec_implicit_input b key_deposit) /\
  total_or_error (tb_get_total_output t)
    (sumN outs + spec_deposit b pool_deposit key_deposit + match donation with Some d => d | None => 0 end) /\
  (known_ignores_proposals b = false ->
     total_or_error (get_deposit b pool_deposit key_deposit) (spec_deposit b pool_deposit key_deposit)) /\
  (known_pool_retirement b pool_deposit = false ->
     total_or_error (get_implicit_input b pool_deposit key_deposit) (spec_implicit_input b key_deposit)).
Proof. exact overflow_is_error. Qed.
Print Assumptions C20_overflow_is_error.

(* also inside the known classes the helpers return the exact total of their own table or an error *)
Theorem C20_helpers_never_wrap : forall (b : body) (p q : N),
  total_or_error (get_implicit_input b p q)
    (sumN (opt_list (b_withdrawals b))
     + sumN (map (helper_refund helper_refunds_pool_retirement p q) (opt_list (b_certs b)))) /\
  total_or_error (get_deposit b p q)
    (spec_cert_deposits p q (opt_list (b_certs b))
     + (if helper_ignores_proposals then 0 else sumN (opt_list (b_proposals b)))).
Proof. exact helpers_never_wrap. Qed.
Print Assumptions C20_helpers_never_wrap.

(* iteration order (BTreeMap of proposals, LinkedHashMap of withdrawals and certificates) cannot
   change any figure: the model's list order stands for every order *)
Theorem C20_order_irrelevant : forall (cs cs' : list cert) (ws ws' ps ps' : list N) (p q : N),
  Permutation cs cs' -> Permutation ws ws' -> Permutation ps ps' ->
  get_certificates_deposit cs p q = get_certificates_deposit cs' p q /\
  get_certificates_refund cs p q = get_certificates_refund cs' p q /\
  get_total_withdrawals ws = get_total_withdrawals ws' /\
  get_total_deposit ps = get_total_deposit ps'.
Proof.
  intros cs cs' ws ws' ps ps' p q Hc Hw Hp.
  rewrite !certificates_deposit_exact, !certificates_refund_exact, ?total_withdrawals_exact, ?total_deposit_exact.
  rewrite (spec_cert_deposits_perm p q _ _ Hc), (spec_cert_refunds_perm q _ _ Hc), (sumN_perm _ _ Hw), (sumN_perm _ _ Hp).
  repeat split.
Qed.
Print Assumptions C20_order_irrelevant.

Example C20_order_premises_satisfiable :
  Permutation [DRepRegistration 5; PoolRetirement; StakeDeregistration None] [StakeDeregistration None; DRepRegistration 5; PoolRetirement]
  /\ Permutation [1; 2; 3] [3; 1; 2].
Proof.
  split.
  - apply Permutation_sym, (Permutation_cons_app [DRepRegistration 5; PoolRetirement] []). reflexivity.
  - apply Permutation_sym, (Permutation_cons_app [1; 2] []). reflexivity.
Qed.

(* the defects (today's code = switches true): without the class exclusions the statements are false *)
Theorem C20_helper_implicit_input_refuted :
  get_implicit_input_gen true witness_retirement 500000000 2000000 = Ok 500000000 /\
  exact_or_error (spec_implicit_input witness_retirement 2000000) = Ok 0 /\
  tb_get_implicit_input (builder_of_body witness_retirement [] [] None 500000000 2000000) = Ok 0.
Proof. exact helper_implicit_refuted. Qed.
Print Assumptions C20_helper_implicit_input_refuted.

Theorem C20_helper_deposit_refuted :
  get_deposit_gen true witness_proposal 500000000 2000000 = Ok 0 /\
  exact_or_error (spec_deposit witness_proposal 500000000 2000000) = Ok 100000000000 /\
  tb_get_deposit (builder_of_body witness_proposal [] [] None 500000000 2000000) = Ok 100000000000.
Proof. exact helper_deposit_refuted. Qed.
Print Assumptions C20_helper_deposit_refuted.

(* with both repairs (switches false) the unrestricted statements hold *)
Theorem C20_repaired_helpers_spec : forall (b : body) (p q : N),
  get_deposit_gen false b p q = exact_or_error (spec_deposit b p q) /\
  get_implicit_input_gen false b p q = exact_or_error (spec_implicit_input b q).
Proof. exact repaired_helpers_exact. Qed.
Print Assumptions C20_repaired_helpers_spec.

(* the extracted judge accepts the model's own observation outside the known classes, i.e. the
   judge is exactly the conjunction of the statements above (plus the deprecated setters) *)
Theorem C20_judge_accepts_model : forall k : case,
  known_pool_retirement (case_body k) (k_pool_deposit k) = false ->
  known_ignores_proposals (case_body k) = false ->
  judge k (model_obs k) = Holds.
Proof. exact judge_model_holds. Qed.
Print Assumptions C20_judge_accepts_model.

(* ---- non-vacuity: the premises are satisfiable on non-trivial values, the tables are not constant ---- *)
Definition ex_body : body :=
  mk_body (Some [StakeRegistration None; StakeRegistration (Some 7); PoolRegistration; DRepRegistration 500;
                 StakeRegistrationAndDelegation 11; VoteRegistrationAndDelegation 13;
                 StakeVoteRegistrationAndDelegation 17; StakeDeregistration None; StakeDeregistration (Some 19);
                 DRepDeregistration 23; StakeDelegation; DRepUpdate; MoveInstantaneousRewardsCert])
          (Some [1000; 2000]) (Some [0; 0]).
Example C20_premises_satisfiable :
  known_ignores_proposals ex_body = false /\ known_pool_retirement ex_body 500000000 = false /\
  get_deposit ex_body 500000000 2000000 = Ok 502000548 /\
  get_implicit_input ex_body 500000000 2000000 = Ok 2003042.
Proof. repeat split; reflexivity. Qed.
(* retiring a pool is inside the theorem when the parameter is 0; proposals with deposit 0 likewise *)
Example C20_class_is_narrow :
  known_pool_retirement (mk_body (Some [PoolRetirement; StakeDeregistration (Some 5)]) (Some [3]) None) 0 = false /\
  known_ignores_proposals (mk_body None None (Some [0])) = false.
Proof. split; reflexivity. Qed.
(* overflow at the 64-bit boundary: 2^64 - 1 fits, 2^64 is an error *)
Example C20_boundary :
  get_certificates_deposit [DRepRegistration 18446744073709551614; StakeRegistration None] 0 1 = Ok 18446744073709551615 /\
  get_certificates_deposit [DRepRegistration 18446744073709551614; StakeRegistration None] 0 2 = Err /\
  tb_get_implicit_input (mk_txb [] [] (Some [DRepDeregistration 1]) (Some [18446744073709551615]) None None 0 0) = Err.
Proof. repeat split; reflexivity. Qed.
(* all 19 kinds are distinguished *)
Check (eq_refl : map cddl_tag
  [StakeRegistration None; StakeDeregistration None; StakeDelegation; PoolRegistration; PoolRetirement;
   GenesisKeyDelegation; MoveInstantaneousRewardsCert; StakeRegistration (Some 1); StakeDeregistration (Some 1);
   VoteDelegation; StakeAndVoteDelegation; StakeRegistrationAndDelegation 1; VoteRegistrationAndDelegation 1;
   StakeVoteRegistrationAndDelegation 1; CommitteeHotAuth; CommitteeColdResign; DRepRegistration 1;
   DRepDeregistration 1; DRepUpdate] = [0;1;2;3;4;5;6;7;8;9;10;11;12;13;14;15;16;17;18]).
(* pinned spec table (cannot be weakened silently): deposits / refunds per kind for coin 9, pool 100, key 10 *)
Check (eq_refl : map (fun c => (ledger_deposit 100 10 c, ledger_refund 10 c))
  [StakeRegistration None; StakeDeregistration None; StakeDelegation; PoolRegistration; PoolRetirement;
   GenesisKeyDelegation; MoveInstantaneousRewardsCert; StakeRegistration (Some 9); StakeDeregistration (Some 9);
   VoteDelegation; StakeAndVoteDelegation; StakeRegistrationAndDelegation 9; VoteRegistrationAndDelegation 9;
   StakeVoteRegistrationAndDelegation 9; CommitteeHotAuth; CommitteeColdResign; DRepRegistration 9;
   DRepDeregistration 9; DRepUpdate]
  = [(10,0);(0,10);(0,0);(100,0);(0,0);(0,0);(0,0);(9,0);(0,9);(0,0);(0,0);(9,0);(9,0);(9,0);(0,0);(0,0);(9,0);(0,9);(0,0)]).
