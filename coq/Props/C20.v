(* C20 — Deposit and refund helpers agree with the ledger and with the builder.
   Only statements here; each is closed by a lemma of Deposits/DepositsProofs.v.
   Model: Deposits/Deposits.v (utils.rs get_deposit / get_implicit_input, CertificatesBuilder,
   WithdrawalsBuilder, VotingProposalBuilder totals, TransactionBuilder get_deposit /
   get_implicit_input / get_total_input / get_total_output).  All quantifiers are unbounded:
   certificate lists over the 17 enum variants = 19 CDDL kinds, with arbitrary amounts (also
   amounts >= 2^64: no range premise is needed), withdrawal lists, proposal lists, parameters. *)
From CSL Require Import Base.Prelude Base.U64 Deposits.Deposits Deposits.DepositsProofs.
From CSL Require Import Deposits.History Deposits.HistoryProofs.
From CSL Require Import Deposits.Ident Deposits.IdentProofs Deposits.LedgerState Deposits.LedgerStateProofs Deposits.TotalsBridge.
From CSL Require Num.Value Builder.Totals Builder.TotalsProofs.
From Coq Require Import Permutation.
Local Open Scope N_scope.

(* the stand-alone get_deposit reports exactly what the ledger charges (certificate deposits +
   proposal deposits), or an error when that does not fit in 64 bits -- outside the known class
   "the body carries a proposal with a non-zero deposit" (the helper never reads the proposals) *)
Theorem C20_helper_deposit_spec : forall (b : body) (pool_deposit key_deposit : N),
  known_ignores_proposals b = false ->
  get_deposit b pool_deposit key_deposit = exact_or_error (spec_deposit b pool_deposit key_deposit).
Proof. intros b p q K. exact (helper_deposit_exact _ b p q K). Qed.
Print Assumptions C20_helper_deposit_spec.

(* the stand-alone get_implicit_input reports exactly withdrawals + refunds paid inside the
   transaction -- outside the known class "retires a pool while pool_deposit <> 0" *)
Theorem C20_helper_implicit_input_spec : forall (b : body) (pool_deposit key_deposit : N),
  known_pool_retirement b pool_deposit = false ->
  get_implicit_input b pool_deposit key_deposit = exact_or_error (spec_implicit_input b key_deposit).
Proof. intros b p q K. exact (helper_implicit_exact _ b p q K). Qed.
Print Assumptions C20_helper_implicit_input_spec.

(* the builder's deposit (CertificatesBuilder table, VotingProposalBuilder total, TransactionBuilder
   sum) is the ledger's figure, unconditionally *)
Theorem C20_builder_deposit_spec : forall (t : txb) (cs : list cert) (ps : list N) (p q : N),
  tb_get_deposit t = exact_or_error (spec_deposit (txb_body t) (t_pool_deposit t) (t_key_deposit t)) /\
  get_certificates_deposit cs p q = exact_or_error (spec_cert_deposits p q cs) /\
  get_total_deposit ps = exact_or_error (sumN ps).
Proof.
  intros. split; [apply tb_deposit_exact |]. split; [apply certificates_deposit_exact | apply total_deposit_exact].
Qed.
Print Assumptions C20_builder_deposit_spec.

(* the builder's implicit input (withdrawals total + CertificatesBuilder refunds), unconditionally *)
Theorem C20_builder_refund_spec : forall (t : txb) (cs : list cert) (ws : list N) (p q : N),
  tb_get_implicit_input t = exact_or_error (spec_implicit_input (txb_body t) (t_key_deposit t)) /\
  get_certificates_refund cs p q = exact_or_error (spec_cert_refunds q cs) /\
  get_total_withdrawals ws = exact_or_error (sumN ws).
Proof.
  intros. split; [apply tb_implicit_exact |]. split; [apply certificates_refund_exact | apply total_withdrawals_exact].
Qed.
Print Assumptions C20_builder_refund_spec.

(* the totals the builder balances with: inputs + implicit input, outputs + deposit + donation *)
Theorem C20_builder_totals_spec : forall (t : txb),
  tb_get_total_input t =
    exact_or_error (sumN (t_inputs t) + spec_implicit_input (txb_body t) (t_key_deposit t)) /\
  tb_get_total_output t =
    exact_or_error (sumN (t_outputs t) + spec_deposit (txb_body t) (t_pool_deposit t) (t_key_deposit t)
                    + match t_donation t with Some d => d | None => 0 end).
Proof. intros. split; [apply tb_total_input_exact | apply tb_total_output_exact]. Qed.
Print Assumptions C20_builder_totals_spec.

(* the helpers' figures are the ones the builder uses for the same certificates, withdrawals and
   proposals (error vs ok included), outside the two known classes *)
Theorem C20_helper_equals_builder :
  forall (b : body) (ins outs : list N) (donation : option N) (pool_deposit key_deposit : N),
  let t := builder_of_body b ins outs donation pool_deposit key_deposit in
  (known_ignores_proposals b = false -> get_deposit b pool_deposit key_deposit = tb_get_deposit t) /\
  (known_pool_retirement b pool_deposit = false ->
     get_implicit_input b pool_deposit key_deposit = tb_get_implicit_input t).
Proof.
  intros. split; intros K.
  - exact (helper_equals_builder_deposit _ b ins outs donation pool_deposit key_deposit K).
  - exact (helper_equals_builder_implicit _ b ins outs donation pool_deposit key_deposit K).
Qed.
Print Assumptions C20_helper_equals_builder.

(* a total that does not fit in 64 bits is an error: each figure is Err exactly when the true
   total is >= 2^64, Ok v exactly when v is the true total < 2^64, and never a panic *)
Theorem C20_overflow_is_error :
  forall (b : body) (ins outs : list N) (donation : option N) (pool_deposit key_deposit : N),
  let t := builder_of_body b ins outs donation pool_deposit key_deposit in
  total_or_error (tb_get_deposit t) (spec_deposit b pool_deposit key_deposit) /\
  total_or_error (tb_get_implicit_input t) (spec_implicit_input b key_deposit) /\
  total_or_error (tb_get_total_input t) (sumN ins + spec_implicit_input b key_deposit) /\
  total_or_error (tb_get_total_output t)
    (sumN outs + spec_deposit b pool_deposit key_deposit + match donation with Some d => d | None => 0 end) /\
  (known_ignores_proposals b = false ->
     total_or_error (get_deposit b pool_deposit key_deposit) (spec_deposit b pool_deposit key_deposit)) /\
  (known_pool_retirement b pool_deposit = false ->
     total_or_error (get_implicit_input b pool_deposit key_deposit) (spec_implicit_input b key_deposit)).
Proof. exact overflow_is_error. Qed.
Print Assumptions C20_overflow_is_error.

(* also inside the known classes the helpers return the exact total of their own table or an error *)
Theorem C20_helpers_never_wrap : forall (b : body) (p q : N),
  total_or_error (get_implicit_input b p q)
    (sumN (opt_list (b_withdrawals b))
     + sumN (map (helper_refund helper_refunds_pool_retirement p q) (opt_list (b_certs b)))) /\
  total_or_error (get_deposit b p q)
    (spec_cert_deposits p q (opt_list (b_certs b))
     + (if helper_ignores_proposals then 0 else sumN (opt_list (b_proposals b)))).
Proof. exact helpers_never_wrap. Qed.
Print Assumptions C20_helpers_never_wrap.

(* iteration order (BTreeMap of proposals, LinkedHashMap of withdrawals and certificates) cannot
   change any figure: the model's list order stands for every order *)
Theorem C20_order_irrelevant : forall (cs cs' : list cert) (ws ws' ps ps' : list N) (p q : N),
  Permutation cs cs' -> Permutation ws ws' -> Permutation ps ps' ->
  get_certificates_deposit cs p q = get_certificates_deposit cs' p q /\
  get_certificates_refund cs p q = get_certificates_refund cs' p q /\
  get_total_withdrawals ws = get_total_withdrawals ws' /\
  get_total_deposit ps = get_total_deposit ps'.
Proof.
  intros cs cs' ws ws' ps ps' p q Hc Hw Hp.
  rewrite !certificates_deposit_exact, !certificates_refund_exact, ?total_withdrawals_exact, ?total_deposit_exact.
  rewrite (spec_cert_deposits_perm p q _ _ Hc), (spec_cert_refunds_perm q _ _ Hc), (sumN_perm _ _ Hw), (sumN_perm _ _ Hp).
  repeat split.
Qed.
Print Assumptions C20_order_irrelevant.

Example C20_order_premises_satisfiable :
  Permutation [DRepRegistration 5; PoolRetirement; StakeDeregistration None] [StakeDeregistration None; DRepRegistration 5; PoolRetirement]
  /\ Permutation [1; 2; 3] [3; 1; 2].
Proof.
  split.
  - apply Permutation_sym, (Permutation_cons_app [DRepRegistration 5; PoolRetirement] []). reflexivity.
  - apply Permutation_sym, (Permutation_cons_app [1; 2] []). reflexivity.
Qed.

(* the defects (today's code = switches true): without the class exclusions the statements are false *)
Theorem C20_helper_implicit_input_refuted :
  get_implicit_input_gen true witness_retirement 500000000 2000000 = Ok 500000000 /\
  exact_or_error (spec_implicit_input witness_retirement 2000000) = Ok 0 /\
  tb_get_implicit_input (builder_of_body witness_retirement [] [] None 500000000 2000000) = Ok 0.
Proof. exact helper_implicit_refuted. Qed.
Print Assumptions C20_helper_implicit_input_refuted.

Theorem C20_helper_deposit_refuted :
  get_deposit_gen true witness_proposal 500000000 2000000 = Ok 0 /\
  exact_or_error (spec_deposit witness_proposal 500000000 2000000) = Ok 100000000000 /\
  tb_get_deposit (builder_of_body witness_proposal [] [] None 500000000 2000000) = Ok 100000000000.
Proof. exact helper_deposit_refuted. Qed.
Print Assumptions C20_helper_deposit_refuted.

(* with both repairs (switches false) the unrestricted statements hold *)
Theorem C20_repaired_helpers_spec : forall (b : body) (p q : N),
  get_deposit_gen false b p q = exact_or_error (spec_deposit b p q) /\
  get_implicit_input_gen false b p q = exact_or_error (spec_implicit_input b q).
Proof. exact repaired_helpers_exact. Qed.
Print Assumptions C20_repaired_helpers_spec.

(* the extracted judge accepts the model's own observation outside the known classes, i.e. the
   judge is exactly the conjunction of the statements above (plus the deprecated setters) *)
Theorem C20_judge_accepts_model : forall k : case,
  known_pool_retirement (case_body k) (k_pool_deposit k) = false ->
  known_ignores_proposals (case_body k) = false ->
  judge k (model_obs k) = Holds.
Proof. exact judge_model_holds. Qed.
Print Assumptions C20_judge_accepts_model.

(* ---- non-vacuity: the premises are satisfiable on non-trivial values, the tables are not constant ---- *)
Definition ex_body : body :=
  mk_body (Some [StakeRegistration None; StakeRegistration (Some 7); PoolRegistration; DRepRegistration 500;
                 StakeRegistrationAndDelegation 11; VoteRegistrationAndDelegation 13;
                 StakeVoteRegistrationAndDelegation 17; StakeDeregistration None; StakeDeregistration (Some 19);
                 DRepDeregistration 23; StakeDelegation; DRepUpdate; MoveInstantaneousRewardsCert])
          (Some [1000; 2000]) (Some [0; 0]).
Example C20_premises_satisfiable :
  known_ignores_proposals ex_body = false /\ known_pool_retirement ex_body 500000000 = false /\
  get_deposit ex_body 500000000 2000000 = Ok 502000548 /\
  get_implicit_input ex_body 500000000 2000000 = Ok 2003042.
Proof. repeat split; reflexivity. Qed.
(* retiring a pool is inside the theorem when the parameter is 0; proposals with deposit 0 likewise *)
Example C20_class_is_narrow :
  known_pool_retirement (mk_body (Some [PoolRetirement; StakeDeregistration (Some 5)]) (Some [3]) None) 0 = false /\
  known_ignores_proposals (mk_body None None (Some [0])) = false.
Proof. split; reflexivity. Qed.
(* overflow at the 64-bit boundary: 2^64 - 1 fits, 2^64 is an error *)
Example C20_boundary :
  get_certificates_deposit [DRepRegistration 18446744073709551614; StakeRegistration None] 0 1 = Ok 18446744073709551615 /\
  get_certificates_deposit [DRepRegistration 18446744073709551614; StakeRegistration None] 0 2 = Err /\
  tb_get_implicit_input (mk_txb [] [] (Some [DRepDeregistration 1]) (Some [18446744073709551615]) None None 0 0) = Err.
Proof. repeat split; reflexivity. Qed.
(* all 19 kinds are distinguished *)
Check (eq_refl : map cddl_tag
  [StakeRegistration None; StakeDeregistration None; StakeDelegation; PoolRegistration; PoolRetirement;
   GenesisKeyDelegation; MoveInstantaneousRewardsCert; StakeRegistration (Some 1); StakeDeregistration (Some 1);
   VoteDelegation; StakeAndVoteDelegation; StakeRegistrationAndDelegation 1; VoteRegistrationAndDelegation 1;
   StakeVoteRegistrationAndDelegation 1; CommitteeHotAuth; CommitteeColdResign; DRepRegistration 1;
   DRepDeregistration 1; DRepUpdate] = [0;1;2;3;4;5;6;7;8;9;10;11;12;13;14;15;16;17;18]).
(* pinned spec table (cannot be weakened silently): deposits / refunds per kind for coin 9, pool 100, key 10 *)
Check (eq_refl : map (fun c => (ledger_deposit 100 10 c, ledger_refund 10 c))
  [StakeRegistration None; StakeDeregistration None; StakeDelegation; PoolRegistration; PoolRetirement;
   GenesisKeyDelegation; MoveInstantaneousRewardsCert; StakeRegistration (Some 9); StakeDeregistration (Some 9);
   VoteDelegation; StakeAndVoteDelegation; StakeRegistrationAndDelegation 9; VoteRegistrationAndDelegation 9;
   StakeVoteRegistrationAndDelegation 9; CommitteeHotAuth; CommitteeColdResign; DRepRegistration 9;
   DRepDeregistration 9; DRepUpdate]
  = [(10,0);(0,10);(0,0);(100,0);(0,0);(0,0);(0,0);(9,0);(0,9);(0,0);(0,0);(9,0);(9,0);(9,0);(0,0);(0,0);(9,0);(0,9);(0,0)]).

(* =============================================================================================
   Items that share a field.  Ident.v gives every certificate / withdrawal / proposal the identities
   the deposit code never looks at (credential, pool operator, everything else) and models the set
   and map types that hold them.  The figures of the theorems above are those of the MERGED items. *)

(* Certificates / CertificatesBuilder and VotingProposals / VotingProposalBuilder hold exactly the
   distinct items: no Rust value twice, every added value present, nothing invented, and a sequence
   without equal values is kept as it is *)
Theorem C20_collections_hold_distinct_items : forall (cs : list icert) (ps : list iprop),
  (NoDup (map cert_key (eff_certs cs))
   /\ (forall x, In x cs -> In (cert_key x) (map cert_key (eff_certs cs)))
   /\ (forall y, In y (eff_certs cs) -> In y cs)
   /\ (NoDup (map cert_key cs) -> eff_certs cs = cs))
  /\
  (NoDup (map prop_key (eff_props ps))
   /\ (forall x, In x ps -> In (prop_key x) (map prop_key (eff_props ps)))
   /\ (forall y, In y (eff_props ps) -> In y ps)
   /\ (NoDup (map prop_key ps) -> eff_props ps = ps)).
Proof. intros cs ps. split; [exact (eff_certs_spec cs) | exact (eff_props_spec ps)]. Qed.
Print Assumptions C20_collections_hold_distinct_items.

(* Withdrawals / WithdrawalsBuilder hold one amount per reward account: the LAST one given *)
Theorem C20_withdrawals_last_amount_wins : forall (ws : list iwd),
  NoDup (map wd_key (eff_wdrl ws))
  /\ (forall l1 x l2, ws = l1 ++ x :: l2 -> (forall y, In y l2 -> wd_key y <> wd_key x) -> In x (eff_wdrl ws))
  /\ (forall y, In y (eff_wdrl ws) -> In y ws)
  /\ (NoDup (map wd_key ws) -> eff_wdrl ws = ws).
Proof. exact eff_wdrl_spec. Qed.
Print Assumptions C20_withdrawals_last_amount_wins.

(* sharing a field does not merge: two registrations of ONE operator that differ elsewhere are two
   certificates and the builder charges two pool deposits (the helper likewise, C20_helper_equals_builder);
   a certificate equal in every field to an earlier one is held once; a second amount replaces the first *)
Theorem C20_shared_fields_do_not_merge :
  (forall p q cred op v1 v2 s, v1 <> v2 ->
     get_certificates_deposit
       (map ic_cert (eff_certs [mk_icert PoolRegistration s (mk_ident cred op v1); mk_icert PoolRegistration s (mk_ident cred op v2)])) p q
     = exact_or_error (p + p))
  /\ (forall x, map ic_cert (eff_certs [x; x]) = [ic_cert x])
  /\ (forall s a n c1 c2, map plain_wd (eff_wdrl [mk_iwd s a n c1; mk_iwd s a n c2]) = [(s, c2)]).
Proof.
  split; [exact same_operator_charged_twice |]. split; [exact equal_certificate_charged_once | exact withdrawal_replaced].
Qed.
Print Assumptions C20_shared_fields_do_not_merge.

(* the network id is part of a reward account: one credential on two networks is two withdrawals, both kept by the
   map of the body, by the builder and by the body the builder emits *)
Theorem C20_network_is_part_of_account : forall s a n1 n2 c1 c2, n1 <> n2 ->
  map plain_wd (eff_wdrl [mk_iwd s a n1 c1; mk_iwd s a n2 c2]) = [(s, c1); (s, c2)].
Proof. exact different_network_kept. Qed.
Print Assumptions C20_network_is_part_of_account.

(* histories on one TransactionBuilder: after ANY sequence of set_certs / set_certs_builder / remove_certs /
   set_withdrawals / set_withdrawals_builder / remove_withdrawals (a failing deprecated setter leaves the builder as it
   was), the final setters of a case (remove_* for an absent collection) leave exactly the collections of the case:
   setters replace, they do not merge.  The figures are therefore those of the case, whatever came before. *)
Theorem C20_history_is_overwritten : forall (h : list hop) (st : tbcoll) (ik : icase),
  run_history (h ++ final_main ik) st = case_coll ik /\
  (deprecated_ok ik = true -> run_history (h ++ final_deprecated ik) st = case_coll ik) /\
  option_map (map plain_cert) (tc_certs (run_history (h ++ final_main ik) st)) = k_certs (effective ik) /\
  option_map (map plain_wd) (tc_wdrl (run_history (h ++ final_main ik) st)) = k_withdrawals (effective ik).
Proof.
  intros h st ik. split; [apply history_overwritten_main |]. split; [apply history_overwritten_deprecated |].
  exact (history_effective h st ik).
Qed.
Print Assumptions C20_history_is_overwritten.

Example C20_history_premises_satisfiable :
  deprecated_ok (mk_icase 0 0 (Some [mk_icert (StakeDeregistration (Some 5)) false (mk_ident 1 0 0)])
                          (Some [mk_iwd false 1 0 5; mk_iwd false 1 1 6]) None [] [] None) = true.
Proof. reflexivity. Qed.

(* the extracted judge of the correspondence run (sizes of the six collections + the judge above on
   the merged items) accepts the model's own observation, for every identified case *)
Theorem C20_identified_judge_accepts_model : forall ik : icase, ijudge ik (imodel_obs ik) = Holds.
Proof. exact ijudge_model_holds. Qed.
Print Assumptions C20_identified_judge_accepts_model.

(* case lines without identities (item i gets identity i everywhere) denote the plain case they denoted before *)
Theorem C20_positional_cases_unchanged : forall k : case, effective (positional k) = k.
Proof. exact effective_positional. Qed.
Print Assumptions C20_positional_cases_unchanged.

(* =============================================================================================
   The ledger's STATEFUL accounting (LedgerState.v: Conway totalTxDeposits / totalRefunds over the
   certificate sequence and the registered pools / credentials / DReps) equals the per-certificate
   table of the helpers and the builder, with the two conventions of the property as explicit
   premises: the sequence passes the ledger's own deposit checks in state [ls] (explicit deposits =
   parameters, explicit refunds = recorded deposits, register only the unregistered, deregister only
   the registered), pool registrations are first registrations (operator neither registered nor
   repeated), credentials deregistered by the legacy certificate were registered at key_deposit. *)
Theorem C20_ledger_state_rule : forall (pp : pparams) (ls : lstate) (cs : list icert),
  certs_valid pp (ls_stake ls) (ls_drep ls) cs = true ->
  pools_fresh (ls_pool ls) [] cs = true ->
  legacy_at_key_deposit pp ls cs ->
  state_total_deposits_certs pp ls cs = spec_cert_deposits (pp_pool_deposit pp) (pp_key_deposit pp) (map ic_cert cs) /\
  state_total_refunds_certs pp ls cs = spec_cert_refunds (pp_key_deposit pp) (map ic_cert cs).
Proof. exact state_rule_agrees. Qed.
Print Assumptions C20_ledger_state_rule.

Theorem C20_helpers_equal_ledger_state_rule :
  forall pp ls (cs : list icert) (ws ps : option (list N)) (ins outs : list N) (don : option N),
  certs_valid pp (ls_stake ls) (ls_drep ls) cs = true ->
  pools_fresh (ls_pool ls) [] cs = true ->
  legacy_at_key_deposit pp ls cs ->
  let b := mk_body (Some (map ic_cert cs)) ws ps in
  let t := builder_of_body b ins outs don (pp_pool_deposit pp) (pp_key_deposit pp) in
  let dep := exact_or_error (state_total_deposits_certs pp ls cs + sumN (opt_list ps)) in
  let imp := exact_or_error (sumN (opt_list ws) + state_total_refunds_certs pp ls cs) in
  get_deposit b (pp_pool_deposit pp) (pp_key_deposit pp) = dep /\ tb_get_deposit t = dep /\
  get_implicit_input b (pp_pool_deposit pp) (pp_key_deposit pp) = imp /\ tb_get_implicit_input t = imp.
Proof. exact helpers_equal_state_rule. Qed.
Print Assumptions C20_helpers_equal_ledger_state_rule.

Example C20_ledger_state_premises_satisfiable :
  certs_valid ex_pp (ls_stake ex_ls) (ls_drep ex_ls) ex_certs = true /\
  pools_fresh (ls_pool ex_ls) [] ex_certs = true /\
  legacy_at_key_deposit ex_pp ex_ls ex_certs /\
  state_total_deposits_certs ex_pp ex_ls ex_certs = 1510000000 /\
  state_total_refunds_certs ex_pp ex_ls ex_certs = 908000000.
Proof. exact state_rule_premises_satisfiable. Qed.

(* each convention is needed: without it the ledger's figure and the library's differ (closed witnesses):
   one new operator registered twice in a transaction (ledger: one deposit), a re-registration
   (ledger: none), a legacy deregistration of a credential registered at another key_deposit *)
Theorem C20_ledger_state_premises_needed :
  (state_total_deposits_certs ex_pp ex_ls_empty [reg_pool 7 1; reg_pool 7 2] = 500000000 /\
   spec_cert_deposits 500000000 2000000 (map ic_cert [reg_pool 7 1; reg_pool 7 2]) = 1000000000 /\
   pools_fresh (ls_pool ex_ls_empty) [] [reg_pool 7 1; reg_pool 7 2] = false)
  /\
  (let ls := mk_ls (fun _ => None) (fun _ => None) (fun op => op =? 7) in
   state_total_deposits_certs ex_pp ls [reg_pool 7 1] = 0 /\
   spec_cert_deposits 500000000 2000000 (map ic_cert [reg_pool 7 1]) = 500000000 /\
   pools_fresh (ls_pool ls) [] [reg_pool 7 1] = false)
  /\
  (let ls := mk_ls (fun c => if cred_eqb c (false, 5) then Some 1000000 else None) (fun _ => None) (fun _ => false) in
   let cs := [mk_icert (StakeDeregistration None) false (mk_ident 5 0 0)] in
   certs_valid ex_pp (ls_stake ls) (ls_drep ls) cs = true /\
   state_total_refunds_certs ex_pp ls cs = 1000000 /\
   spec_cert_refunds 2000000 (map ic_cert cs) = 2000000).
Proof.
  split; [exact same_pool_twice_differs |]. split; [exact reregistration_differs | exact legacy_old_deposit_differs].
Qed.
Print Assumptions C20_ledger_state_premises_needed.

(* =============================================================================================
   Bridge to C05 (Builder/Totals.v: totals over multi-asset values with mint and burn): the two
   models of TransactionBuilder::{get_deposit, get_implicit_input, get_total_input, get_total_output}
   agree on lovelace, so they cannot drift apart. *)
Theorem C20_totals_bridge_deposit_implicit : forall s : Totals.state,
  Totals.get_deposit s = tb_get_deposit (txb_of_state s) /\
  Totals.get_implicit_input s = lift (tb_get_implicit_input (txb_of_state s)).
Proof. intros s. split; [apply bridge_deposit | apply bridge_implicit_input]. Qed.
Print Assumptions C20_totals_bridge_deposit_implicit.

(* ADA-only builders (the domain of the C20 model): the C05 totals ARE the C20 totals *)
Theorem C20_totals_bridge_ada_only : forall s : Totals.state, ada_only s = true ->
  Totals.get_total_input s = lift (tb_get_total_input (txb_of_state s)) /\
  Totals.get_total_output s = lift (tb_get_total_output (txb_of_state s)).
Proof. intros s H. split; [apply bridge_total_input_ada | apply bridge_total_output_ada]; exact H. Qed.
Print Assumptions C20_totals_bridge_ada_only.

(* every well-formed builder state (multi-asset inputs / outputs, mint, burn): the lovelace of a C05
   total is the C20 total, and a C20 overflow is never a C05 value *)
Theorem C20_totals_bridge_lovelace : forall s : Totals.state, Totals.state_wf s ->
  (forall ti, Totals.get_total_input s = Ok ti -> tb_get_total_input (txb_of_state s) = Ok (Value.coin ti)) /\
  (forall to, Totals.get_total_output s = Ok to -> tb_get_total_output (txb_of_state s) = Ok (Value.coin to)) /\
  (tb_get_total_input (txb_of_state s) = Err -> forall ti, Totals.get_total_input s <> Ok ti) /\
  (tb_get_total_output (txb_of_state s) = Err -> forall to, Totals.get_total_output s <> Ok to).
Proof.
  intros s W. split; [intros ti H; exact (bridge_total_input s ti W H) |].
  split; [intros to H; exact (bridge_total_output s to W H) |]. exact (bridge_overflow s W).
Qed.
Print Assumptions C20_totals_bridge_lovelace.

Example C20_totals_bridge_premises_satisfiable :
  Totals.state_wf ex_state /\ ada_only ex_state = false /\
  (exists ti, Totals.get_total_input ex_state = Ok ti /\ Value.coin ti = 15003000) /\
  (exists to, Totals.get_total_output ex_state = Ok to /\ Value.coin to = 502100005) /\
  tb_get_total_input (txb_of_state ex_state) = Ok 15003000 /\
  tb_get_total_output (txb_of_state ex_state) = Ok 502100005.
Proof. exact bridge_premises_satisfiable. Qed.
