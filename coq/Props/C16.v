(* C16 — Sets stay duplicate-free, asset maps canonical, and builds deterministic.
   Only statements here; each is closed by a lemma of Sets/*Proofs.v.
   Models: Sets/DedupVec.v (the seven vector + index set types, their decoders and JSON form),
   Sets/CanonOrder.v (AssetName / PolicyID orders, Assets / MultiAsset / MintBuilder as ordered maps),
   Sets/WitnessSetters.v (typed setters of the witness set, the builder's witness set, reference inputs, one build).
   All quantifiers are unbounded: every history of API calls, every wire frame, every element type with a
   decidable equality, every insertion order. *)
From CSL Require Import Base.Prelude Cbor.Head Sets.DedupVec Sets.DedupVecProofs Sets.CanonOrder Sets.CanonOrderProofs
  Sets.WitnessSetters Sets.WitnessSettersProofs.
From Coq Require Import Permutation.
Local Open Scope N_scope.

(* ---------- 1. set-typed collections ---------- *)
(* whatever the history of add / add_move / extend / contains calls: the vector has no duplicates, and the
   membership index holds exactly the vector's elements (the two fields never drift apart) *)
Theorem C16_nodup : forall (A : Type) (eqb : A -> A -> bool), (forall x y, eqb x y = true <-> x = y) ->
  forall (h : list (op A)),
    NoDup (items (run eqb empty h)) /\
    (forall x, In x (index (run eqb empty h)) <-> In x (items (run eqb empty h))).
Proof. intros A eqb E h. exact (wf_run eqb E h empty wf_empty). Qed.
Print Assumptions C16_nodup.

(* the vector is the list of first occurrences of everything that was offered, in that order (spec [first_occ] is
   written without reference to the code); nothing offered is lost *)
Theorem C16_first_insertion_order : forall (A : Type) (eqb : A -> A -> bool), (forall x y, eqb x y = true <-> x = y) ->
  forall (h : list (op A)),
    items (run eqb empty h) = first_occ eqb (offered h) /\
    (forall x, In x (items (run eqb empty h)) <-> In x (offered h)).
Proof.
  intros A eqb E h. split; [apply (first_insertion_order eqb E)|].
  intros x. rewrite (nothing_lost eqb E empty h x wf_empty). cbn. tauto.
Qed.
Print Assumptions C16_first_insertion_order.

(* add returns true exactly for an element that was not there; contains agrees with the vector; and the
   booleans a caller sees along a whole history are those of the specification walk *)
Theorem C16_add_reports_freshness : forall (A : Type) (eqb : A -> A -> bool), (forall x y, eqb x y = true <-> x = y) ->
  forall (h : list (op A)) (x : A),
    let s := run eqb empty h in
    (snd (add eqb s x) = true <-> ~ In x (items s)) /\
    (contains eqb s x = true <-> In x (items s)) /\
    observe eqb empty h = spec_bools eqb [] h.
Proof.
  intros A eqb E h x s. assert (W : wf s) by (apply (wf_run eqb E), wf_empty).
  split; [apply (add_returns_fresh eqb E _ _ W)|]. split.
  - rewrite (contains_spec eqb E _ _ W). apply (mem_In eqb E).
  - apply (observe_spec eqb E); [apply wf_empty | intros y; cbn; tauto].
Qed.
Print Assumptions C16_add_reports_freshness.

(* decoding bytes that repeat an element (any of the seven decoders, any tags / length form / break placement):
   a successful decode yields the first occurrences of the elements read, duplicate-free, and stays so under any later history;
   reading JSON is the same function *)
Theorem C16_decode_with_repeats : forall (A : Type) (eqb : A -> A -> bool), (forall x y, eqb x y = true <-> x = y) ->
  forall (k : kind_cfg) (f : frame A) (s : dset A), decode eqb k f = Ok s ->
    exists elems, frame_elems k f = Ok elems /\ items s = first_occ eqb elems /\ NoDup (items s) /\
      forall h, NoDup (items (run eqb s h)) /\ items (run eqb s h) = first_occ eqb (items s ++ offered h).
Proof.
  intros A eqb E k f s D. destruct (decode_is_from_vec eqb k f s D) as [elems [F ->]].
  exists elems. split; [assumption|]. split; [apply (items_from_vec eqb E)|]. split; [apply (wf_from_vec eqb E)|].
  intros h. split; [apply (nodup_run eqb E), (wf_from_vec eqb E) | apply (first_insertion_order_from eqb E), (wf_from_vec eqb E)].
Qed.
Print Assumptions C16_decode_with_repeats.
Theorem C16_json_with_repeats : forall (A : Type) (eqb : A -> A -> bool), (forall x y, eqb x y = true <-> x = y) ->
  forall (v : list A), items (of_json eqb v) = first_occ eqb v /\ NoDup (items (of_json eqb v)) /\
    of_json eqb (to_json (of_json eqb v)) = of_json eqb (first_occ eqb v).
Proof.
  intros A eqb E v. split; [apply (items_from_vec eqb E)|]. split; [apply (wf_from_vec eqb E)|].
  unfold of_json, to_json. now rewrite (items_from_vec eqb E).
Qed.
Print Assumptions C16_json_with_repeats.

(* what is serialised: tag 258, the number of elements, the element encodings in vector order — no encoding twice *)
Theorem C16_serialised_nodup : forall (A : Type) (eqb : A -> A -> bool), (forall x y, eqb x y = true <-> x = y) ->
  forall (enc : A -> bytes), (forall x y, enc x = enc y -> x = y) ->
  forall (h : list (op A)),
    let s := run eqb empty h in
    ser_set enc s = encode_head 6 258 ++ encode_head 4 (N.of_nat (length (items s))) ++ concat (map enc (items s)) /\
    NoDup (map enc (items s)).
Proof.
  intros A eqb E enc Inj h s. split; [reflexivity|].
  apply (serialised_nodup enc s Inj). apply (wf_run eqb E), wf_empty.
Qed.
Print Assumptions C16_serialised_nodup.
(* the premises are satisfiable: byte strings with their own equality, encoded by themselves *)
Example C16_nodup_instance :
  items (run bytes_eqb empty [OAdd [1]; OAdd [2]; OAdd [1]; OExtend [[3]; [2]; [3]]; OAddMove [1]]) = [[1]; [2]; [3]].
Proof. reflexivity. Qed.
Example C16_premise_bytes : forall x y, bytes_eqb x y = true <-> x = y.
Proof. exact bytes_eqb_spec. Qed.

(* ---------- 2. canonical order of asset maps ---------- *)
(* the AssetName order (length first, then bytewise) IS the RFC 7049 3.9 canonical order of the ENCODED keys
   (for every length; in particular for the at most 32 bytes of an asset name) *)
Theorem C16_asset_order_is_canonical : forall a b : bytes,
  name_ltb a b = canon_ltb (enc_bstr a) (enc_bstr b).
Proof. exact name_order_is_canonical. Qed.
Print Assumptions C16_asset_order_is_canonical.
Theorem C16_policy_order_is_canonical : forall a b : bytes, length a = length b ->
  lex_ltb a b = canon_ltb (enc_bstr a) (enc_bstr b).
Proof. exact policy_order_is_canonical. Qed.
Print Assumptions C16_policy_order_is_canonical.
(* and the RFC 8949 4.2.1 deterministic order (plain bytewise on the encoded keys), for keys below 256 bytes *)
Theorem C16_asset_order_is_deterministic : forall a b : bytes,
  N.of_nat (length a) < 256 -> N.of_nat (length b) < 256 -> name_ltb a b = det_ltb (enc_bstr a) (enc_bstr b).
Proof. exact name_order_is_deterministic. Qed.
Print Assumptions C16_asset_order_is_deterministic.
Example C16_asset_order_example : name_ltb [255] [0; 0] = true /\ lex_ltb [255] [0; 0] = false.
Proof. split; reflexivity. Qed.

(* every MultiAsset reachable by set_asset / insert: policies and names strictly ascending in canonical key order,
   holding exactly what the history wrote *)
Theorem C16_bundle_canonical : forall h : list ma_op,
  Forall (fun o => length (ma_op_policy o) = 28%nat) h ->
  sorted_by_enc (ma_run h) = true /\ forallb (fun e => sorted_by_enc (snd e)) (ma_run h) = true /\
  (forall p n, lookup2 (ma_run h) p n = ma_val h p n) /\
  (forall p, is_some (sm_lookup lex_ltb p (ma_run h)) = ma_present h p).
Proof.
  intros h L. destruct (ma_canonical h L) as [A B]. repeat split; try assumption.
  - apply ma_content. - apply ma_presence.
Qed.
Print Assumptions C16_bundle_canonical.
Example C16_bundle_premise : Forall (fun o => length (ma_op_policy o) = 28%nat) [MSetAsset (repeat 7 28) [1] 5].
Proof. repeat constructor. Qed.

(* order independence: the same (policy, name, quantity) triples inserted in any order give the same bytes *)
Theorem C16_order_independent : forall es es' : list (bytes * bytes * N),
  Permutation es es' -> NoDup (map fst es) ->
  ser_multiasset (ma_run (set_ops es)) = ser_multiasset (ma_run (set_ops es')).
Proof. intros es es' P ND. apply (ma_order_independent es es' P ND). Qed.
Print Assumptions C16_order_independent.
Example C16_order_independent_premise : NoDup (map fst [([1], [2], 3); ([1], [3], 4)]).
Proof. repeat constructor; cbn; intuition discriminate. Qed.

(* a strictly ordered map is determined by its content: sortedness + content pin down the bytes *)
Theorem C16_sorted_map_unique : forall (V : Type) (m1 m2 : list (bytes * list (bytes * V))),
  wf2 m1 -> wf2 m2 -> (forall p n, lookup2 m1 p n = lookup2 m2 p n) -> m1 = m2.
Proof. intros V. exact (@ext2 V). Qed.
Print Assumptions C16_sorted_map_unique.

(* decoding a bundle whose keys arrive in any order re-serialises in canonical order (a repeated key is an error) *)
Theorem C16_decoded_bundle_ordered : forall l m, ma_of_wire l [] = Ok m ->
  sm_sorted lex_ltb m = true /\ Forall (fun e => sm_sorted name_ltb (snd e) = true) m.
Proof. intros l m H. exact (ma_of_wire_inv l [] m inv2_nil H). Qed.
Print Assumptions C16_decoded_bundle_ordered.

(* the mint the builder emits *)
Theorem C16_mint_sorted : forall h : list mint_op,
  Forall (fun o => length (fst (mint_op_key o)) = 28%nat) h ->
  sorted_by_enc (mb_run h) = true /\
  forallb (fun e => sorted_by_enc (snd e) && negb (match snd e with [] => true | _ => false end)) (mb_run h) = true /\
  (forall p n, lookup2 (mb_run h) p n = mint_val h p n).
Proof. intros h L. destruct (mint_canonical h L) as [A B]. repeat split; try assumption. apply mint_content. Qed.
Print Assumptions C16_mint_sorted.
Theorem C16_mint_order_independent : forall h h' : list mint_op,
  Permutation h h' -> forallb is_add h = true -> mint_case h = mint_case h'.
Proof. intros h h' P A. apply (mint_order_independent h h' P A). Qed.
Print Assumptions C16_mint_order_independent.

(* ---------- 3. scripts and datums in a witness set ---------- *)
(* any sequence of typed setter calls: under every key of the witness-set map each element encoding is written once *)
Theorem C16_witness_setters_emit_once : forall h : list ws_op,
  Forall op_ok h -> forall k els, In (k, els) (ws_fields (ws_run h)) -> NoDup els.
Proof. exact ws_setters_emit_once. Qed.
Print Assumptions C16_witness_setters_emit_once.
Example C16_setters_premise : Forall op_ok [SetNative [[1]; [1]]; SetPlutus [mk_ps 1 [9]; mk_ps 2 [9]; mk_ps 1 [9]]; SetData (mk_plist [mk_datum [1] None; mk_datum [1] (Some [1])] None)].
Proof. repeat constructor; cbn; unfold two64; lia. Qed.
(* the code as found wrote a datum twice (repaired in /repo 53a9122; class C16-datum-emitted-twice) *)
Theorem C16_witness_setters_emit_once_refuted :
  exists h, Forall op_ok h /\ exists k els, In (k, els) (ws_fields (fold_left (ws_step_gen true) h ws_new)) /\ ~ NoDup els.
Proof. exact ws_setters_emit_once_refuted. Qed.
Print Assumptions C16_witness_setters_emit_once_refuted.
Theorem C16_builder_witness_set_emits_once : forall vk ns bs ps pd,
  (forall v, vk = Some v -> NoDup v) -> (forall b, bs = Some b -> NoDup b) ->
  (forall l, ps = Some l -> Forall (fun s => N.of_nat (length (ps_bytes s)) < two64) l) ->
  forall k els, In (k, els) (ws_fields (ws_partial_dedup vk ns bs ps pd)) -> NoDup els.
Proof. intros vk ns bs ps pd. unfold ws_partial_dedup. rewrite switch_is_repaired. apply ws_builder_emits_once. Qed.
Print Assumptions C16_builder_witness_set_emits_once.

(* ---------- 4. reference inputs and determinism ---------- *)
Theorem C16_reference_inputs_spec : forall d r s e,
  NoDup (ref_inputs d r s e) /\
  (forall k, In k (ref_inputs d r s e) <-> (In k s /\ ~ In k r) \/ (In k e /\ (d = false \/ ~ In k r))).
Proof. exact ref_inputs_spec. Qed.
Print Assumptions C16_reference_inputs_spec.
(* the hash-ordered map of explicit reference inputs (and every other source) may hand its keys over in any order *)
Theorem C16_reference_inputs_order_independent : forall d r r' s s' e e',
  Permutation r r' -> Permutation s s' -> Permutation e e' -> ref_inputs d r s e = ref_inputs d r' s' e'.
Proof. exact ref_inputs_order_independent. Qed.
Print Assumptions C16_reference_inputs_order_independent.
(* the code as found followed the iteration order of a HashSet (repaired in /repo e6843d5) *)
Theorem C16_reference_inputs_hash_order_refuted :
  exists (o1 o2 : list txin -> list txin) d r s e,
    (forall l, Permutation (o1 l) l) /\ (forall l, Permutation (o2 l) l) /\
    ref_inputs_hashed o1 d r s e <> ref_inputs_hashed o2 d r s e.
Proof. exact ref_inputs_hash_order_refuted. Qed.
Print Assumptions C16_reference_inputs_hash_order_refuted.

(* one build (regular / native-script / Plutus-script inputs, mint, certificates and withdrawals with Plutus witnesses, extra datums):
   set-like fields duplicate-free, required signers in first-insertion order, scripts and datums once; and the result does not depend
   on call order of inputs / collateral or on the iteration order of any hash container *)
Theorem C16_build_sets : forall c o, tx_build c = Ok o ->
  Forall (fun s => N.of_nat (length (ps_bytes s)) < two64) (t_plutus c) ->
  NoDup (x_inputs o) /\ NoDup (x_collateral o) /\ NoDup (x_refs o) /\ NoDup (x_signers o) /\
  x_signers o = first_occ bytes_eqb (t_signers c) /\ NoDup (x_native o) /\ NoDup (x_data o) /\
  (forall k els, In (k, els) (x_plutus o) -> NoDup els) /\
  (* every datum of a Plutus witness and every extra datum, whatever mixture of sources it came from, is in the
     emitted witness set (exactly once, by the NoDup above) *)
  (forall d, In d (t_wit_datums c ++ t_extra_datums c) -> In (d_emit d) (x_data o)).
Proof. exact tx_build_sets. Qed.
Print Assumptions C16_build_sets.
Theorem C16_build_order_independent : forall c ins coll refs expl,
  Permutation (t_inputs c) ins -> Permutation (t_collateral c) coll ->
  Permutation (t_script_refs c) refs -> Permutation (t_explicit_refs c) expl ->
  tx_build (reorder c ins coll refs expl) = tx_build c.
Proof. exact tx_build_order_independent. Qed.
Print Assumptions C16_build_order_independent.
(* MODEL-LEVEL determinism is trivial (the model is a function).  That the COMPILED builder is one too — no hash-seeded
   container left on the path to the bytes — is a RUNTIME clause decided by the correspondence run only
   (every tx case: three builds of one builder, a rebuilt builder and a second process must give identical bytes). *)
Theorem C16_build_deterministic_model : forall c o1 o2, tx_build c = Ok o1 -> tx_build c = Ok o2 -> o1 = o2.
Proof. intros c o1 o2 H1 H2. rewrite H1 in H2. now injection H2. Qed.
Print Assumptions C16_build_deterministic_model.

(* ---------- 5. the judges of the correspondence run accept the model's own observations ---------- *)
Theorem C16_judge_accepts_model :
  (forall k i h o, set_case k i h = Ok o -> judge_set k i h (o_items o) (o_bools o) = true) /\
  (forall h, Forall op_ok h -> judge_fields (ws_fields (ws_run h)) = true).
Proof. split; [exact judge_set_accepts_model | exact judge_fields_accepts_model]. Qed.
Print Assumptions C16_judge_accepts_model.
