(* C17 - JSON forms round-trip and schema conversions behave as documented.  Pinned statements. *)
From CSL Require Import Base.Prelude Base.Hex Json.Decimal Json.Json Json.MetadataJson Json.Chunks Json.PlutusJson
  Json.SerdeForms Json.JsonProofs Json.MetadataJsonProofs Json.ChunksProofs Json.PlutusJsonProofs Json.SerdeFormsProofs
  Json.Witnesses.
Local Open Scope N_scope.

(* Metadata converted to JSON and back is unchanged under DetailedSchema whenever the first conversion succeeds
   (all metadata values: md_wf is the representation invariant of TransactionMetadatum - distinct keys in a
   LinkedHashMap, byte/text strings of at most 64 bytes). *)
Theorem C17_metadata_md_json_md_detailed :
  forall m j, md_wf m = true -> m2j Detailed m = Ok j -> j2m cur_cfg Detailed j = Ok m.
Proof. exact (md_json_md_detailed cur_cfg eq_refl). Qed.
Print Assumptions C17_metadata_md_json_md_detailed.

(* ... and under NoConversions outside the known class C17-noconv-unsorted-map (JSON objects are sorted maps). *)
Theorem C17_metadata_md_json_md_noconv :
  forall m j, md_wf m = true -> md_unsorted_map m = false -> m2j NoConv m = Ok j -> j2m cur_cfg NoConv j = Ok m.
Proof.
  intros m j Hwf Hs. apply (md_json_md_noconv cur_cfg eq_refl m j Hwf).
  unfold md_unsorted_map in Hs. now destruct (md_sorted m).
Qed.
Print Assumptions C17_metadata_md_json_md_noconv.

(* the full statement (without the class) is false on the code: {"b":1,"a":2} comes back as {"a":2,"b":1} *)
Theorem C17_metadata_md_json_md_noconv_refuted :
  exists m j, md_wf m = true /\ m2j NoConv m = Ok j /\ j2m cur_cfg NoConv j <> Ok m.
Proof. exact noconv_unsorted_refuted. Qed.
Print Assumptions C17_metadata_md_json_md_noconv_refuted.

(* JSON converted to metadata and back is unchanged under every schema for JSON in that schema's normal form
   (nf is part of the statement; json_wf is the representation invariant of serde_json::Value). *)
Theorem C17_metadata_json_md_json :
  forall sc j, json_wf j = true -> nf sc j = true -> exists m, j2m cur_cfg sc j = Ok m /\ m2j sc m = Ok j.
Proof. exact (json_md_json cur_cfg eq_refl eq_refl). Qed.
Print Assumptions C17_metadata_json_md_json.

(* Input outside a schema produces an error; inside it a value (never a panic). *)
Theorem C17_out_of_schema_is_error :
  forall sc j, json_wf j = true -> in_schema sc j = false -> j2m cur_cfg sc j = Err.
Proof. exact (out_of_schema_is_error cur_cfg eq_refl eq_refl eq_refl). Qed.
Print Assumptions C17_out_of_schema_is_error.
Theorem C17_in_schema_converts :
  forall sc j, json_wf j = true -> in_schema sc j = true -> exists m, j2m cur_cfg sc j = Ok m.
Proof. exact (in_schema_converts cur_cfg eq_refl eq_refl eq_refl). Qed.
Print Assumptions C17_in_schema_converts.

(* Every Plutus datum round-trips through detailed-schema JSON, outside the known class
   C17-plutus-map-empty-values (a map key holding an empty list of values). *)
Theorem C17_plutus_detailed_roundtrip :
  forall p, pd_wf p = true -> pd_has_empty_values p = false ->
  exists j, p2j PDetailed p = Ok j /\ j2p cur_cfg PDetailed j = Ok p.
Proof.
  intros p Hwf Hc. apply pd_json_pd_detailed; [exact Hwf|]. unfold pd_has_empty_values in Hc. now destruct (pd_values_nonempty p).
Qed.
Print Assumptions C17_plutus_detailed_roundtrip.
Theorem C17_plutus_detailed_roundtrip_refuted :
  exists p j, pd_wf p = true /\ p2j PDetailed p = Ok j /\ j2p cur_cfg PDetailed j <> Ok p.
Proof. exact plutus_empty_values_refuted. Qed.
Print Assumptions C17_plutus_detailed_roundtrip_refuted.
Theorem C17_plutus_out_of_schema_is_error :
  forall j, json_wf j = true -> pdom_detailed j = false -> j2p cur_cfg PDetailed j = Err.
Proof. exact (j2p_detailed_out_of_schema_is_error cur_cfg eq_refl). Qed.
Print Assumptions C17_plutus_out_of_schema_is_error.
Theorem C17_plutus_in_schema_converts :
  forall j, json_wf j = true -> pdom_detailed j = true -> exists p, j2p cur_cfg PDetailed j = Ok p.
Proof. exact (j2p_detailed_in_schema_converts cur_cfg eq_refl). Qed.
Print Assumptions C17_plutus_in_schema_converts.

(* Arbitrary bytes round-trip through the chunked-metadata helpers; the encoding is valid metadata. *)
Theorem C17_chunks :
  forall bs, exists m, encode_arbitrary_bytes bs = Ok m /\ decode_arbitrary_bytes m = Ok bs.
Proof. exact chunks_roundtrip. Qed.
Print Assumptions C17_chunks.
Theorem C17_chunks_valid_metadata :
  forall bs, bytes_ok bs -> md_wf (MList (List.map MBytes (chunks bs))) = true.
Proof. exact chunks_wf. Qed.
Print Assumptions C17_chunks_valid_metadata.
Theorem C17_unchunk_rejects :
  forall m, (forall l, m <> MList (List.map MBytes l)) -> decode_arbitrary_bytes m = Err.
Proof. exact decode_arbitrary_bytes_err. Qed.
Print Assumptions C17_unchunk_rejects.

(* Typed ledger values, first sentence of the property: the hand-written string forms (numbers as decimal
   strings, hashes and asset names as hex) round-trip; the serde derive expansion around them is external and
   covered by the observation stream of the check (level_note). *)
Theorem C17_serde_forms_roundtrip : forall t v, sval_ok t v = true -> sf_de t (sf_ser t v) = Ok v.
Proof. exact sf_ser_de. Qed.
Print Assumptions C17_serde_forms_roundtrip.
Theorem C17_serde_forms_canonical :
  forall t j, sf_canonical t j = true -> exists v, sf_de t j = Ok v /\ sf_ser t v = j.
Proof. exact sf_de_ser. Qed.
Print Assumptions C17_serde_forms_canonical.
Theorem C17_serde_forms_total : forall t j, sf_de t j = Err \/ exists v, sf_de t j = Ok v.
Proof. exact sf_de_total. Qed.
Print Assumptions C17_serde_forms_total.

(* The full first sentence, for reference: it speaks about the derive expansions (external); [to_json],
   [from_json] and [maps_ascending] would be the serde interpretation of the C01 schemas. *)
Definition C17_typed_values_full (T : Type) (to_json : T -> json) (from_json : json -> result T)
  (maps_ascending : T -> Prop) : Prop := forall x, maps_ascending x -> from_json (to_json x) = Ok x.

(* The three defects repaired in /repo (eac05aa, 4362d12, 7c4c3d9) and Int::from_str before a6f00b9 broke these
   statements: kept as refutations of the old behaviour. *)
Theorem C17_old_behaviour_refuted :
  j2m cfg_old_negmin NoConv (JInt i64_min) = Panic /\
  (exists m j, md_wf m = true /\ m2j Detailed m = Ok j /\ j2m cfg_old_negmin Detailed j = Panic) /\
  (json_wf w_bigkey = true /\ nf Basic w_bigkey = true /\ exists m, j2m cfg_old_key Basic w_bigkey = Ok m /\ m2j Basic m = Err) /\
  (json_wf w_extra = true /\ in_schema Detailed w_extra = false /\ exists m, j2m cfg_old_lenient Detailed w_extra = Ok m) /\
  (pdom_detailed w_extra = false /\ exists p, j2p cfg_old_lenient PDetailed w_extra = Ok p) /\
  (sf_de_gen true SInt (sf_ser SInt (SVNum (- two64Z))) = Err /\ sf_de_gen true SInt (JStr (print_Z i128_min)) = Panic).
Proof.
  destruct old_negmin_refuted as [A B]. split; [exact A|]. split; [exact B|].
  split; [exact old_key_unchecked_refuted|]. split; [exact old_lenient_refuted|].
  split; [exact old_lenient_plutus_refuted|exact sf_old_int_refuted].
Qed.
Print Assumptions C17_old_behaviour_refuted.

(* non-vacuity of the premises *)
Check ex_md_noconv. Check ex_md_detailed. Check ex_nf_noconv. Check ex_nf_basic. Check ex_nf_detailed.
Check ex_out_of_schema. Check ex_pd_ok. Check ex_serde. Check noconv_unsorted_in_class. Check plutus_empty_values_in_class.
