(* C17 - JSON forms round-trip and schema conversions behave as documented.  Pinned statements. *)
From CSL Require Import Base.Prelude Base.Hex Json.Decimal Json.Json Json.MetadataJson Json.Chunks Json.PlutusJson
  Json.SerdeForms Json.JsonProofs Json.MetadataJsonProofs Json.ChunksProofs Json.PlutusJsonProofs Json.SerdeFormsProofs
  Json.Witnesses Codec.Schema Json.SerdeSchema Json.SerdeSchemaProofs Json.SerdeLedger Json.SerdeLedgerProofs.
From CSL Require Addr.Shelley Addr.Bech32Iface Json.SerdeAddr.
Local Open Scope N_scope.

(* Metadata converted to JSON and back is unchanged under DetailedSchema whenever the first conversion succeeds
   (all metadata values: md_wf is the representation invariant of TransactionMetadatum - distinct keys in a
   LinkedHashMap, byte/text strings of at most 64 bytes). *)
Theorem C17_metadata_md_json_md_detailed :
  forall m j, md_wf m = true -> m2j Detailed m = Ok j -> j2m cur_cfg Detailed j = Ok m.
Proof. exact (md_json_md_detailed cur_cfg eq_refl). Qed.
Print Assumptions C17_metadata_md_json_md_detailed.

(* ... and under NoConversions outside the known class C17-noconv-unsorted-map (JSON objects are sorted maps). *)
Theorem C17_metadata_md_json_md_noconv :
  forall m j, md_wf m = true -> md_unsorted_map m = false -> m2j NoConv m = Ok j -> j2m cur_cfg NoConv j = Ok m.
Proof.
  intros m j Hwf Hs. apply (md_json_md_noconv cur_cfg eq_refl m j Hwf).
  unfold md_unsorted_map in Hs. now destruct (md_sorted m).
Qed.
Print Assumptions C17_metadata_md_json_md_noconv.

(* the full statement (without the class) is false on the code: {"b":1,"a":2} comes back as {"a":2,"b":1} *)
Theorem C17_metadata_md_json_md_noconv_refuted :
  exists m j, md_wf m = true /\ m2j NoConv m = Ok j /\ j2m cur_cfg NoConv j <> Ok m.
Proof. exact noconv_unsorted_refuted. Qed.
Print Assumptions C17_metadata_md_json_md_noconv_refuted.

(* JSON converted to metadata and back is unchanged under every schema for JSON in that schema's normal form
   (nf is part of the statement; json_wf is the representation invariant of serde_json::Value). *)
Theorem C17_metadata_json_md_json :
  forall sc j, json_wf j = true -> nf sc j = true -> exists m, j2m cur_cfg sc j = Ok m /\ m2j sc m = Ok j.
Proof. exact (json_md_json cur_cfg eq_refl eq_refl). Qed.
Print Assumptions C17_metadata_json_md_json.

(* Input outside a schema produces an error; inside it a value (never a panic). *)
Theorem C17_out_of_schema_is_error :
  forall sc j, json_wf j = true -> in_schema sc j = false -> j2m cur_cfg sc j = Err.
Proof. exact (out_of_schema_is_error cur_cfg eq_refl eq_refl eq_refl). Qed.
Print Assumptions C17_out_of_schema_is_error.
Theorem C17_in_schema_converts :
  forall sc j, json_wf j = true -> in_schema sc j = true -> exists m, j2m cur_cfg sc j = Ok m.
Proof. exact (in_schema_converts cur_cfg eq_refl eq_refl eq_refl). Qed.
Print Assumptions C17_in_schema_converts.

(* Every Plutus datum round-trips through detailed-schema JSON, outside the known class
   C17-plutus-map-empty-values (a map key holding an empty list of values). *)
Theorem C17_plutus_detailed_roundtrip :
  forall p, pd_wf p = true -> pd_has_empty_values p = false ->
  exists j, p2j PDetailed p = Ok j /\ j2p cur_cfg PDetailed j = Ok p.
Proof.
  intros p Hwf Hc. apply pd_json_pd_detailed; [exact Hwf|]. unfold pd_has_empty_values in Hc. now destruct (pd_values_nonempty p).
Qed.
Print Assumptions C17_plutus_detailed_roundtrip.
Theorem C17_plutus_detailed_roundtrip_refuted :
  exists p j, pd_wf p = true /\ p2j PDetailed p = Ok j /\ j2p cur_cfg PDetailed j <> Ok p.
Proof. exact plutus_empty_values_refuted. Qed.
Print Assumptions C17_plutus_detailed_roundtrip_refuted.
Theorem C17_plutus_out_of_schema_is_error :
  forall j, json_wf j = true -> pdom_detailed j = false -> j2p cur_cfg PDetailed j = Err.
Proof. exact (j2p_detailed_out_of_schema_is_error cur_cfg eq_refl). Qed.
Print Assumptions C17_plutus_out_of_schema_is_error.
Theorem C17_plutus_in_schema_converts :
  forall j, json_wf j = true -> pdom_detailed j = true -> exists p, j2p cur_cfg PDetailed j = Ok p.
Proof. exact (j2p_detailed_in_schema_converts cur_cfg eq_refl). Qed.
Print Assumptions C17_plutus_in_schema_converts.

(* BasicConversions (no round-trip claim in the property): both directions are defined exactly on the schema's
   language - a datum whose map has a structured key or a key with no / several values, a JSON document with null, a
   boolean, a non-integer number or a malformed 0x string give Err, never a different value. *)
Theorem C17_plutus_basic_out_of_schema_is_error :
  (forall p, pbasic_dom p = false -> p2j PBasic p = Err) /\
  (forall j, pbasic_json_dom j = false -> j2p cur_cfg PBasic j = Err).
Proof. split; [exact p2j_basic_out_of_schema_is_error|exact (j2p_basic_out_of_schema_is_error cur_cfg)]. Qed.
Print Assumptions C17_plutus_basic_out_of_schema_is_error.
Theorem C17_plutus_basic_in_schema_converts :
  (forall p, pbasic_dom p = true -> exists j, p2j PBasic p = Ok j) /\
  (forall j, pbasic_json_dom j = true -> exists p, j2p cur_cfg PBasic j = Ok p).
Proof. split; [exact p2j_basic_in_schema_converts|exact (j2p_basic_in_schema_converts cur_cfg)]. Qed.
Print Assumptions C17_plutus_basic_in_schema_converts.
Example ex_pbasic_out : pbasic_dom (PMap [(PInt 1, [PInt 10; PInt 20])]) = false /\ pbasic_dom (PMap [(PInt 1, [PInt 10])]) = true.
Proof. split; reflexivity. Qed.

(* Arbitrary bytes round-trip through the chunked-metadata helpers; the encoding is valid metadata. *)
Theorem C17_chunks :
  forall bs, exists m, encode_arbitrary_bytes bs = Ok m /\ decode_arbitrary_bytes m = Ok bs.
Proof. exact chunks_roundtrip. Qed.
Print Assumptions C17_chunks.
Theorem C17_chunks_valid_metadata :
  forall bs, bytes_ok bs -> md_wf (MList (List.map MBytes (chunks bs))) = true.
Proof. exact chunks_wf. Qed.
Print Assumptions C17_chunks_valid_metadata.
Theorem C17_unchunk_rejects :
  forall m, (forall l, m <> MList (List.map MBytes l)) -> decode_arbitrary_bytes m = Err.
Proof. exact decode_arbitrary_bytes_err. Qed.
Print Assumptions C17_unchunk_rejects.

(* Typed ledger values, first sentence of the property: the hand-written string forms (numbers as decimal
   strings, hashes and asset names as hex) round-trip; the serde derive expansion around them is external and
   covered by the observation stream of the check (level_note). *)
Theorem C17_serde_forms_roundtrip : forall t v, sval_ok t v = true -> sf_de t (sf_ser t v) = Ok v.
Proof. exact sf_ser_de. Qed.
Print Assumptions C17_serde_forms_roundtrip.
Theorem C17_serde_forms_canonical :
  forall t j, sf_canonical t j = true -> exists v, sf_de t j = Ok v /\ sf_ser t v = j.
Proof. exact sf_de_ser. Qed.
Print Assumptions C17_serde_forms_canonical.
Theorem C17_serde_forms_total : forall t j, sf_de t j = Err \/ exists v, sf_de t j = Ok v.
Proof. exact sf_de_total. Qed.
Print Assumptions C17_serde_forms_total.

(* Typed ledger values, first sentence, for the ANNOTATED types (Json/SerdeLedger.v serde_table): the serde JSON form
   is an interpretation [json_s] / [of_json_s] of an annotation over the C01 value trees.  For every annotation with
   distinct field / variant names and every value in its domain, reading back what was written gives the normal form
   [norm_s] (maps re-ordered by their Rust key order) ... *)
Theorem C17_serde_read_write :
  forall (ext_str : N -> bytes -> bytes) (ext_of_str : N -> bytes -> option bytes) a v,
  wfj a = true -> jwf ext_str ext_of_str a v = true ->
  of_json_s ext_of_str a (json_s ext_str a v) = Ok (norm_s ext_str a v).
Proof. intros e1 e2 a v Hw Hv. exact (serde_read_write e1 e2 a Hw v Hv). Qed.
Print Assumptions C17_serde_read_write.
(* ... which is the value itself whenever its map-typed parts were filled in ascending key order ([canonical]) ... *)
Theorem C17_serde_typed_roundtrip :
  forall (ext_str : N -> bytes -> bytes) (ext_of_str : N -> bytes -> option bytes) a v,
  wfj a = true -> jwf ext_str ext_of_str a v = true -> canonical ext_str a v = true ->
  of_json_s ext_of_str a (json_s ext_str a v) = Ok v.
Proof. exact serde_roundtrip. Qed.
Print Assumptions C17_serde_typed_roundtrip.
(* ... instantiated on every annotated ledger type, to every depth of the recursive ones: equal value, same CBOR bytes. *)
Theorem C17_serde_table_roundtrip :
  forall (ext_str : N -> bytes -> bytes) (ext_of_str : N -> bytes -> option bytes)
         (emb : json -> json) (unemb : json -> option json) d name s a v,
  In (name, s, a) (serde_table emb unemb d) ->
  jwf ext_str ext_of_str a v = true -> canonical ext_str a v = true ->
  exists v', of_json_s ext_of_str a (json_s ext_str a v) = Ok v' /\ v' = v /\ enc s v' = enc s v.
Proof. exact serde_table_roundtrip. Qed.
Print Assumptions C17_serde_table_roundtrip.
Theorem C17_serde_annotations_wf : forall emb unemb d, Forall (fun e => wfj (snd e) = true) (serde_table emb unemb d).
Proof. exact serde_table_wfj. Qed.
Print Assumptions C17_serde_annotations_wf.
Check ex_value_ok. Check ex_cert_ok. Check ex_withdrawals_ok. Check ex_withdrawals_rev_reordered.

(* The external-string parameters instantiated with the concrete bech32 model and the library's prefix rule (C11): the
   address and public-key leaves need no premise - every well-formed address with a network id (all 16 ids, every kind;
   a Byron address needs a known protocol magic) and every 32-byte key is in the leaf's domain. *)
Theorem C17_serde_address_leg :
  forall a, Shelley.wf_address a -> (exists p, Bech32Iface.default_prefix a = Ok p) ->
  leaf_wf SerdeAddr.conc_str SerdeAddr.conc_of_str (LExt EXT_ADDRESS) (VBytes (Shelley.to_bytes a)) = true.
Proof. exact SerdeAddr.address_leaf_in_domain. Qed.
Print Assumptions C17_serde_address_leg.
Theorem C17_serde_vkey_leg :
  forall b, bytes_ok b -> leaf_wf SerdeAddr.conc_str SerdeAddr.conc_of_str (LExt EXT_VKEY) (VBytes b) = true.
Proof. exact SerdeAddr.vkey_leaf_in_domain. Qed.
Print Assumptions C17_serde_vkey_leg.
(* e.g. an enterprise address on network id 5 is written with the main-network prefix and read back *)
Example ex_address_net5 :
  SerdeAddr.addr_of_text (SerdeAddr.addr_text (101 :: List.repeat 7 28%nat)) = Some (101 :: List.repeat 7 28%nat) /\
  firstn 5 (SerdeAddr.addr_text (101 :: List.repeat 7 28%nat)) = [97; 100; 100; 114; 49].
Proof. split; vm_compute; reflexivity. Qed.

(* The full first sentence, for reference: it speaks about the derive expansions (external); [to_json],
   [from_json] and [maps_ascending] would be the serde interpretation of the C01 schemas. *)
Definition C17_typed_values_full (T : Type) (to_json : T -> json) (from_json : json -> result T)
  (maps_ascending : T -> Prop) : Prop := forall x, maps_ascending x -> from_json (to_json x) = Ok x.

(* The three defects repaired in /repo (eac05aa, 4362d12, 7c4c3d9) and Int::from_str before a6f00b9 broke these
   statements: kept as refutations of the old behaviour. *)
Theorem C17_old_behaviour_refuted :
  j2m cfg_old_negmin NoConv (JInt i64_min) = Panic /\
  (exists m j, md_wf m = true /\ m2j Detailed m = Ok j /\ j2m cfg_old_negmin Detailed j = Panic) /\
  (json_wf w_bigkey = true /\ nf Basic w_bigkey = true /\ exists m, j2m cfg_old_key Basic w_bigkey = Ok m /\ m2j Basic m = Err) /\
  (json_wf w_extra = true /\ in_schema Detailed w_extra = false /\ exists m, j2m cfg_old_lenient Detailed w_extra = Ok m) /\
  (pdom_detailed w_extra = false /\ exists p, j2p cfg_old_lenient PDetailed w_extra = Ok p) /\
  (sf_de_gen true SInt (sf_ser SInt (SVNum (- two64Z))) = Err /\ sf_de_gen true SInt (JStr (print_Z i128_min)) = Panic).
Proof.
  destruct old_negmin_refuted as [A B]. split; [exact A|]. split; [exact B|].
  split; [exact old_key_unchecked_refuted|]. split; [exact old_lenient_refuted|].
  split; [exact old_lenient_plutus_refuted|exact sf_old_int_refuted].
Qed.
Print Assumptions C17_old_behaviour_refuted.

(* non-vacuity of the premises *)
Check ex_md_noconv. Check ex_md_detailed. Check ex_nf_noconv. Check ex_nf_basic. Check ex_nf_detailed.
Check ex_out_of_schema. Check ex_pd_ok. Check ex_serde. Check noconv_unsorted_in_class. Check plutus_empty_values_in_class.
