(* C06 — The fee set by the builder is always sufficient.
   Only statements here; each is closed by [exact] of a lemma proved in FeeSuff/FeeProofs.v.

   Model: Builder/Change.v (C05: add_change_if_needed with every branch, fee_for_output, pub min_fee, build_tx,
   add_inputs_from_and_change) over an oracle [orc] whose FEE answers are FeeSuff/FeeModel.v's [min_fee_model e]
   (premise [fee_exact e orc]); its other answers (min-ADA, value-size and tx-size tests, coin selection) and the
   way its own state evolves are arbitrary.  [e : env] holds the linear fee, an ARBITRARY size K(st) of everything
   in the fake full transaction except the fee integer and the outputs array, an arbitrary output base size per
   address / datum / script-ref, and arbitrary ex-unit and reference-script fee parts.
   [need e s F] = a * |tx(s) with fee field F| + b + ex_unit_cost + ref_script_fee (unbounded);
   [sufficient e s] : the fee stored in s is >= need. *)
From CSL Require Import Base.Prelude Base.U64 Cbor.Head Num.Value Deposits.Deposits Builder.Totals Builder.Change
  FeeSuff.FeeModel FeeSuff.FeeSpec FeeSuff.FeeProofs.
Local Open Scope N_scope.

(* THE FULL STATEMENT, for the code as repaired in /repo ("fix: add_change_if_needed fails when the fee it computed does
   not cover the transaction it leaves": Change.check_fee_after_change at the end of the two change paths): every
   successful add_change whose fee was not fixed by the caller stores a fee that covers the ledger minimum of the
   transaction it leaves.  No slack premise. *)
Definition C06_full : Prop :=
  forall (O : Type) (orc : @oracle O) (e : env), fee_exact e orc ->
  forall fuel addr extra b s s' (o o' : O),
    add_change orc fuel addr extra s o = mkOut (Ok b) s' o' ->
    (forall y, s_fee_request s <> FeeExactly y) ->
    sufficient e s'.

Theorem C06_sufficient : C06_full.
Proof. intros O orc e H. exact (add_change_fee_sufficient orc e H). Qed.
Print Assumptions C06_sufficient.

(* non-vacuity: mainnet-like parameters, 5000 ADA + a token: add_change succeeds, margin exactly 0 (old and new code) *)
Check sufficient_premises_mainnet.

(* the repaired add_change is the old one followed by the fee re-check on the paths that return true *)
Theorem C06_fix_split :
  forall (O : Type) (orc : @oracle O) fuel addr extra s (o : O),
    add_change orc fuel addr extra s o = bindM (add_change_legacy orc fuel addr extra) (post_check orc) s o.
Proof. exact @add_change_fix_split. Qed.
Print Assumptions C06_fix_split.

(* ---- the code before the repair (FeeSpec.add_change_legacy) ---- *)

(* its fee covers the minimum provided the bytes by which the final outputs and fee field exceed the outputs as priced
   fit the placeholder (9 bytes; the width of the requested minimal fee when that request is binding) *)
Theorem C06_legacy_sufficient :
  forall (O : Type) (orc : @oracle O) (e : env), fee_exact e orc ->
  forall fuel addr extra b s s' (o o' : O),
    add_change_legacy orc fuel addr extra s o = mkOut (Ok b) s' o' ->
    (forall y, s_fee_request s <> FeeExactly y) ->
    slack_ok e orc fuel addr extra s o = true ->
    sufficient e s'.
Proof. intros O orc e H. exact (add_change_legacy_fee_sufficient orc e H). Qed.
Print Assumptions C06_legacy_sufficient.

(* the slack premise could not be dropped: 100 lovelace per UTxO byte, no fee request (fixed finding C06-topup-width) *)
Theorem C06_sufficient_refuted :
  exists (e : env) (orc : @oracle unit) fuel addr extra s b s' o',
    fee_exact e orc /\ s_fee_request s = FeeUnspecified /\
    add_change_legacy orc fuel addr extra s tt = mkOut (Ok b) s' o' /\
    slack_ok e orc fuel addr extra s tt = false /\ ~ sufficient e s'.
Proof. exact legacy_sufficient_refuted. Qed.
Print Assumptions C06_sufficient_refuted.

(* ... nor under a binding requested minimal fee (fixed finding C06-notless-width) *)
Theorem C06_notless_refuted :
  exists (e : env) (orc : @oracle unit) fuel addr extra s r b s' o',
    fee_exact e orc /\ s_fee_request s = FeeNotLess r /\ binding e s = true /\
    add_change_legacy orc fuel addr extra s tt = mkOut (Ok b) s' o' /\
    slack_ok e orc fuel addr extra s tt = false /\ ~ sufficient e s'.
Proof. exact legacy_notless_refuted. Qed.
Print Assumptions C06_notless_refuted.

(* the repaired add_change fails on both witnesses *)
Check fixed_refuses_witnesses.

(* the pricing phase (the old add_change up to, not including, the top-up of the last output): the stored fee is an
   aligned figure and covers the transaction AS PRICED with a fee field of the placeholder width *)
Theorem C06_priced :
  forall (O : Type) (orc : @oracle O) (e : env), fee_exact e orc ->
  forall fuel addr extra bg s s1 (o o1 : O),
    add_change_pre orc fuel addr extra s o = mkOut (Ok bg) s1 o1 ->
    s_fee s = None /\
    (exists x, s_fee s1 = Some (get_new_fee (s_fee_request s) x) /\ core s1 = core s /\
       s_fee_request s1 = s_fee_request s /\
       ((forall y, s_fee_request s <> FeeExactly y) ->
          need_w e s1 (if fst bg then placeholder_w e s else 9) <= get_new_fee (s_fee_request s) x)) /\
    (snd bg <> None -> fst bg = true).
Proof. intros O orc e H. exact (add_change_pre_spec orc e H). Qed.
Print Assumptions C06_priced.

(* the old add_change is the pricing phase followed by the top-up *)
Theorem C06_split :
  forall (O : Type) (orc : @oracle O) fuel addr extra s (o : O),
    add_change_legacy orc fuel addr extra s o = bindM (add_change_pre orc fuel addr extra) (finish_change orc) s o.
Proof. exact @add_change_split. Qed.
Print Assumptions C06_split.

(* fee policies: NotLess r -> fee >= r; Exactly f -> fee = f (every policy, every branch) *)
Theorem C06_policy :
  forall (O : Type) (orc : @oracle O) (e : env), fee_exact e orc ->
  forall fuel addr extra b s s' (o o' : O),
    add_change orc fuel addr extra s o = mkOut (Ok b) s' o' ->
    exists F, s_fee s' = Some F /\ s_fee_request s' = s_fee_request s /\ policy_ok (s_fee_request s) F.
Proof. intros O orc e H. exact (add_change_policy orc e H). Qed.
Print Assumptions C06_policy.
Check policy_premises.

(* build_tx's final guard (validate_fee, as repaired in /repo 0fc161c): a transaction that build_tx returns carries the
   fee of the state, that fee covers the ledger minimum of the (fake full = signed) transaction, and it honours the fee
   request, whenever set_fee / set_min_fee were called (before or AFTER add_change) — whatever happened before *)
Theorem C06_validate :
  forall (O : Type) (orc : @oracle O) (e : env), fee_exact e orc ->
  forall body s s' (o o' : O),
    build_tx orc s o = mkOut (Ok body) s' o' ->
    exists F, get_fee_if_set s = Some F /\ b_fee body = F /\ need e s F <= F /\ policy_ok (s_fee_request s) F.
Proof. intros O orc e H. exact (build_tx_validates orc e H). Qed.
Print Assumptions C06_validate.
Check build_premises.

(* the code before the repair built a transaction with the computed fee although a different fee had been fixed *)
Theorem C06_late_fee_request_legacy_refuted :
  let orc := size_oracle Witness.e_main 4310 5000 in
  let s1 := set_s_fee_request (FeeExactly 1000000) (out_st (add_change orc 10 1 0 Witness.s_tok tt)) in
  (exists body, out_res (build_tx_legacy orc s1 tt) = Ok body /\ b_fee body = 165897) /\
  out_res (build_tx orc s1 tt) = Err.
Proof. exact late_fee_request_legacy_refuted. Qed.
Print Assumptions C06_late_fee_request_legacy_refuted.

(* add_inputs_from_and_change: on success the state is the one a successful add_change left (so C06_sufficient and
   C06_policy apply to it) *)
Theorem C06_select :
  forall (O : Type) (orc : @oracle O) fuel utxos addr extra b s s' (o o' : O),
    add_inputs_from_and_change orc fuel utxos addr extra s o = mkOut (Ok b) s' o' ->
    exists st ot, add_change orc fuel addr extra st ot = mkOut (Ok b) s' o'.
Proof. exact @select_and_change_ends. Qed.
Print Assumptions C06_select.

(* sequential increments (what fee_for_output returns without a fee request, lemma fee_for_output_unspecified)
   telescope to the difference of the two estimates ... *)
Theorem C06_telescope :
  forall e w l s, seq_fees e w s l = need_w e (add_outs l s) w - need_w e s w.
Proof. exact seq_fees_telescope. Qed.
Print Assumptions C06_telescope.

(* ... which is a * (sum of the output sizes + growth of the outputs array head: 23 -> 24, 255 -> 256 outputs) *)
Theorem C06_telescope_closed :
  forall e w l s,
    seq_fees e w s l + e_a e * head_size (lenN (s_outputs s))
    = e_a e * (sumN (map (out_size e) l) + head_size (lenN (s_outputs s) + lenN l)).
Proof. exact seq_fees_closed_form. Qed.
Print Assumptions C06_telescope_closed.

(* when the slack suffices: a coin priced at >= 2^16 (min-ADA of mainnet-like parameters) and a fee < 2^32 *)
Theorem C06_slack_widths :
  forall c c' F, 65536 <= c -> F < 4294967296 -> head_size c' + head_size F <= head_size c + 9.
Proof. exact widths_mainnet. Qed.
Print Assumptions C06_slack_widths.
Example C06_slack_widths_ex : head_size 18446744073709551615 + head_size 4294967295 <= head_size 65536 + 9.
Proof. vm_compute. discriminate. Qed.

(* ------------------------------------------------------------------------------------------- *)
(* NO ORACLE PREMISE on the sub-class of builder states covered by MinAda/TxSize.v (C07, over C13's encoder lemmas) and
   Witnesses/* (C18): key and Byron inputs, plain / asset / datum / script-ref outputs; no explicit required signers
   (also a body field), certificates, withdrawals, mint, scripts, reference inputs, collateral, ttl, auxiliary data.
   [FeeConcrete.cenv I a b max_tx] is the size environment made concrete (K from C18's model of count_needed_vkeys /
   get_bootstraps on the builder's history and TxSize's size algebra; the fee is C15's linear fee of that size);
   the fee oracle is [with_fee (cenv ..) base] with ARBITRARY min-ADA / size-test / selection answers [base].
   [signed_by_required d I st F x]: x is a concrete transaction (values of the C01 schemas) with the inputs and outputs of
   st, fee F, one vkey witness per key of C18's required_keys_spec, one bootstrap witness per required Byron address.
   [WP.all_consistent]: C18's premise (no outpoint added twice with different owners; true for every state whose inputs
   are a map, pinned by the Example). *)
From CSL Require FeeSuff.FeeConcrete MinAda.TxSize MinAda.SchemaTie Witnesses.WitnessProofs.

(* the size the fee is computed from = the length of the encoded transaction signed by exactly the required keys *)
Theorem C06_concrete_size :
  forall (d : nat) (I : FeeConcrete.interp) a b mx (st : state) (F : N) (x : MinAda.TxSize.ctx),
    FeeConcrete.signed_by_required d I st F x ->
    Witnesses.WitnessProofs.all_consistent (FeeConcrete.ops_of I st) = true ->
    tx_size (FeeConcrete.cenv I a b mx) st F = MinAda.SchemaTie.len (MinAda.TxSize.enc_tx d x).
Proof. exact FeeConcrete.concrete_size_is_encoding. Qed.
Print Assumptions C06_concrete_size.

Theorem C06_sufficient_concrete :
  forall (d : nat) (O : Type) (base : @oracle O) (I : FeeConcrete.interp) a b mx fuel addr extra r st st' (o o' : O),
    add_change (with_fee (FeeConcrete.cenv I a b mx) base) fuel addr extra st o = mkOut (Ok r) st' o' ->
    (forall y, s_fee_request st <> FeeExactly y) ->
    Witnesses.WitnessProofs.all_consistent (FeeConcrete.ops_of I st') = true ->
    exists F, s_fee st' = Some F /\
      forall x, FeeConcrete.signed_by_required d I st' F x ->
                a * MinAda.SchemaTie.len (MinAda.TxSize.enc_tx d x) + b <= F.
Proof. intros d O. exact (@FeeConcrete.add_change_concrete d O). Qed.
Print Assumptions C06_sufficient_concrete.

Theorem C06_validate_concrete :
  forall (d : nat) (O : Type) (base : @oracle O) (I : FeeConcrete.interp) a b mx body st st' (o o' : O),
    build_tx (with_fee (FeeConcrete.cenv I a b mx) base) st o = mkOut (Ok body) st' o' ->
    Witnesses.WitnessProofs.all_consistent (FeeConcrete.ops_of I st) = true ->
    forall x, FeeConcrete.signed_by_required d I st (b_fee body) x ->
              a * MinAda.SchemaTie.len (MinAda.TxSize.enc_tx d x) + b <= b_fee body.
Proof. intros d O. exact (@FeeConcrete.build_tx_concrete d O). Qed.
Print Assumptions C06_validate_concrete.

(* non-vacuity: 5 ADA on a key input, change to an enterprise address, mainnet parameters: fee 164225, change 4835775,
   the encoded signed transaction has 197 bytes (the implementation's figures, corpus case w5) *)
Check FeeConcrete.concrete_premises.
