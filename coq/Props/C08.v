(* C08 — coin selection is sound under every random outcome.  Statements only. *)
From CSL Require Import Base.Prelude Num.Value CoinSel.CoinSel CoinSel.CoinSelSpec.
