(* C08 — Coin selection is sound under every random outcome.
   Only statements here; each is closed by [exact] of a lemma proved in CoinSel/*.v.
   [min_fee] / [fee_for_input] are arbitrary functions (the real builder's min_fee() and fee_for_input()),
   [cs : list N] is the sequence of random draws (hook H1: k-th draw gen_range(0..n) = k-th element mod n), so the
   quantification over [cs] is the quantification over every outcome of the RNG.  [current] is the code as it is
   (after /repo b244700, 2a9f309, d550071, 844a848, 0efa6ad, d980bbe, ab61362; amounts stored as push_input
   normalises them since bb8d7fa); the legacy variants are the code
   before one of these repairs. *)
From CSL Require Import Base.Prelude Num.Value CoinSel.CoinSel CoinSel.CoinSelSpec CoinSel.CoinSelLemmas CoinSel.CoinSelProofs
  CoinSel.CoinSelSound CoinSel.CoinSelRefute CoinSel.CoinSelJudge.
From Coq Require Import Permutation.
Local Open Scope N_scope.

(* Success => the added inputs are pairwise distinct members of the offered list, the inputs present before are
   unchanged (the resulting map is a permutation of the old inputs and the added ones), and the actual inputs cover
   outputs + deposits + burn + donation + required fee in lovelace and in EVERY asset.  All four strategies, ALL
   offered lists (they may repeat outpoints and overlap the builder's inputs), builder contents and draw sequences.
   No known class is excluded. *)
Theorem C08_sound :
  forall (min_fee : imap -> result N) (fee_for_input : imap -> utxo -> result N)
         (strat : strategy) (cs : list N) (offered : list utxo) (sc : scenario) (st' : sel_state),
    scenario_wf offered sc -> pre_distinct sc ->
    add_inputs_from min_fee fee_for_input current strat cs offered sc = (st', Done tt) ->
    sound_result min_fee fee_for_input false offered (effective_offered current offered sc) sc st'.
Proof. exact sound_current. Qed.
Print Assumptions C08_sound.

(* when fee_for_input is the difference of two minimum fees, the fee covered is min_fee() of the resulting builder *)
Theorem C08_sound_min_fee :
  forall (min_fee : imap -> result N) (fee_for_input : imap -> utxo -> result N)
         (strat : strategy) (cs : list N) (offered : list utxo) (sc : scenario) (st' : sel_state),
    fee_additive min_fee fee_for_input ->
    scenario_wf offered sc -> pre_distinct sc ->
    add_inputs_from min_fee fee_for_input current strat cs offered sc = (st', Done tt) ->
    exists fee, min_fee (st_inputs st') = Ok fee /\ covers_coin sc (st_inputs st') fee.
Proof. exact sound_current_min_fee. Qed.
Print Assumptions C08_sound_min_fee.

(* … which is what the builder's own fee functions are, for every raw size-based estimate and every fee request
   (Unspecified / set_min_fee / set_fee): no premise on the fees *)
Theorem C08_sound_fee_model :
  forall (raw : N -> imap -> result N) (req : fee_request)
         (strat : strategy) (cs : list N) (offered : list utxo) (sc : scenario) (st' : sel_state),
    scenario_wf offered sc -> pre_distinct sc ->
    add_inputs_from (min_fee_of raw req) (fee_for_input_of raw req two32) current strat cs offered sc = (st', Done tt) ->
    exists fee, min_fee_of raw req (st_inputs st') = Ok fee /\ covers_coin sc (st_inputs st') fee.
Proof. exact sound_current_fee_model. Qed.
Print Assumptions C08_sound_fee_model.

(* Largest-first (strategy LargestFirst), when more lovelace is needed than the builder holds: whatever the outcome,
   the inputs are added in non-increasing order of their lovelace and every (effective) offered UTxO not added holds
   at most as much as every added one *)
Theorem C08_largest_first_order :
  forall (min_fee : imap -> result N) (fee_for_input : imap -> utxo -> result N)
         (cs : list N) (offered : list utxo) (sc : scenario) (st0 st' : sel_state) (r : outcome unit),
    initial_state min_fee sc = (st0, Done tt) -> coin (st_in st0) < coin (st_out st0) ->
    add_inputs_from min_fee fee_for_input current LargestFirst cs offered sc = (st', r) ->
    let eff := effective_offered current offered sc in
    desc_sorted (key_of ByCoin eff) (st_trace st') /\
    (forall i, In i (st_trace st') -> (i < length eff)%nat) /\
    (forall i j, In i (st_trace st') -> (j < length eff)%nat -> ~ In j (st_trace st') ->
                 key_of ByCoin eff j <= key_of ByCoin eff i).
Proof. exact lf_order_top. Qed.
Print Assumptions C08_largest_first_order.

(* … it stops as soon as the target is covered: no proper prefix of the added inputs covers outputs + fee *)
Theorem C08_largest_first_minimal :
  forall (min_fee : imap -> result N) (fee_for_input : imap -> utxo -> result N)
         (cs : list N) (offered : list utxo) (sc : scenario) (st0 st' : sel_state),
    scenario_wf offered sc -> pre_distinct sc ->
    initial_state min_fee sc = (st0, Done tt) -> coin (st_in st0) < coin (st_out st0) ->
    add_inputs_from min_fee fee_for_input current LargestFirst cs offered sc = (st', Done tt) ->
    forall k, (k < length (st_trace st'))%nat ->
      let eff := effective_offered current offered sc in
      let before := initial_map sc in
      let prefix := added_utxos eff (firstn k (st_trace st')) in
      exists fk, required_fee min_fee fee_for_input before prefix = Ok fk /\ ~ covers_coin sc (before ++ prefix) fk.
Proof. exact lf_minimal_top. Qed.
Print Assumptions C08_largest_first_minimal.

(* … and it reports insufficiency only after adding every offered UTxO (not yet in the builder), when all of them
   together do not cover outputs + fee — or because an asset of the target, for which this ADA-only strategy does
   not select, is not covered (the guard of /repo ab61362) *)
Theorem C08_largest_first_complete :
  forall (min_fee : imap -> result N) (fee_for_input : imap -> utxo -> result N)
         (cs : list N) (offered : list utxo) (sc : scenario) (st0 st' : sel_state),
    scenario_wf offered sc -> pre_distinct sc ->
    initial_state min_fee sc = (st0, Done tt) -> coin (st_in st0) < coin (st_out st0) ->
    add_inputs_from min_fee fee_for_input current LargestFirst cs offered sc = (st', Insufficient) ->
    let eff := effective_offered current offered sc in
    let before := initial_map sc in
    let added := added_utxos eff (st_trace st') in
    asset_guard st' = false \/
    (Permutation added eff /\
     exists fee, required_fee min_fee fee_for_input before added = Ok fee /\ ~ covers_coin sc (before ++ eff) fee).
Proof. exact lf_complete_top. Qed.
Print Assumptions C08_largest_first_complete.

(* LargestFirstMultiAsset reports insufficiency only when all offered UTxOs (not yet in the builder) together do not
   suffice in some quantity of the target: an asset, or the lovelace including the fee of the inputs added *)
Theorem C08_lfma_complete :
  forall (min_fee : imap -> result N) (fee_for_input : imap -> utxo -> result N)
         (cs : list N) (offered : list utxo) (sc : scenario) (st0 st' : sel_state),
    scenario_wf offered sc -> pre_distinct sc ->
    initial_state min_fee sc = (st0, Done tt) -> coin (st_in st0) < coin (st_out st0) ->
    add_inputs_from min_fee fee_for_input current LargestFirstMultiAsset cs offered sc = (st', Insufficient) ->
    let eff := effective_offered current offered sc in
    let before := initial_map sc in
    exists sel fee, required_fee min_fee fee_for_input before (added_utxos eff (st_trace st')) = Ok fee /\
                    supply sel sc (before ++ eff) < demand sel sc fee.
Proof. exact lfma_complete_top. Qed.
Print Assumptions C08_lfma_complete.

(* The defects of the code before its repairs: each single-fault variant of the model reports success (or panics)
   on a witness for which the specification fails (witnesses replayed on the real code: corpus/C08/w-*.case) *)
Theorem C08_swap_bookkeeping_refuted :
  exists min_fee ffi cs offered sc st',
    scenario_wf offered sc /\ pre_distinct sc /\
    add_inputs_from min_fee ffi (mkVariant false true true true true true) RandomImprove cs offered sc = (st', Done tt) /\
    ~ sound_result min_fee ffi false offered offered sc st'.
Proof. exact swap_bookkeeping_refuted. Qed.
Print Assumptions C08_swap_bookkeeping_refuted.

Theorem C08_duplicate_outputs_refuted :
  exists min_fee ffi cs offered sc st',
    scenario_wf offered sc /\ pre_distinct sc /\
    add_inputs_from min_fee ffi (mkVariant true false true true true true) RandomImprove cs offered sc = (st', Done tt) /\
    ~ sound_result min_fee ffi false offered offered sc st'.
Proof. exact duplicate_outputs_refuted. Qed.
Print Assumptions C08_duplicate_outputs_refuted.

Theorem C08_prestep_fee_refuted :
  exists min_fee ffi cs offered sc st',
    scenario_wf offered sc /\ pre_distinct sc /\
    add_inputs_from min_fee ffi (mkVariant true true false true true true) LargestFirst cs offered sc = (st', Done tt) /\
    ~ sound_result min_fee ffi false offered offered sc st'.
Proof. exact prestep_fee_refuted. Qed.
Print Assumptions C08_prestep_fee_refuted.

Theorem C08_improve_overflow_refuted :
  exists st st',
    add_inputs_from zero_fee zero_ffi (mkVariant true true true false true true) RandomImprove [0; 0; 0] wv_offered wv_sc = (st, Panicked) /\
    add_inputs_from zero_fee zero_ffi current RandomImprove [0; 0; 0] wv_offered wv_sc = (st', Done tt) /\
    imap_ids (st_inputs st') = [1].
Proof. exact improve_overflow_refuted. Qed.
Print Assumptions C08_improve_overflow_refuted.

Theorem C08_offered_overlap_refuted :
  exists min_fee ffi cs offered sc st',
    scenario_wf offered sc /\ pre_distinct sc /\
    add_inputs_from min_fee ffi (mkVariant true true true true false true) LargestFirst cs offered sc = (st', Done tt) /\
    ~ sound_result min_fee ffi false offered offered sc st'.
Proof. exact offered_overlap_refuted. Qed.
Print Assumptions C08_offered_overlap_refuted.

Theorem C08_burn_not_covered_refuted : forall strat, strat <> LargestFirstMultiAsset ->
  exists st', scenario_wf wb_offered wb_sc /\ pre_distinct wb_sc /\
    add_inputs_from zero_fee zero_ffi (mkVariant true true true true true false) strat [] wb_offered wb_sc = (st', Done tt) /\
    ~ covers_assets wb_sc (st_inputs st').
Proof. exact burn_not_covered_refuted. Qed.
Print Assumptions C08_burn_not_covered_refuted.

(* fee_for_input with the zero fee placeholder it had before /repo d980bbe, under set_min_fee *)
Theorem C08_fee_placeholder_refuted :
  exists raw req cs offered sc st',
    scenario_wf offered sc /\ pre_distinct sc /\
    add_inputs_from (min_fee_of raw req) (fee_for_input_of raw req 0) current LargestFirst cs offered sc = (st', Done tt) /\
    forall fee, min_fee_of raw req (st_inputs st') = Ok fee -> ~ covers_coin sc (st_inputs st') fee.
Proof. exact fee_placeholder_refuted. Qed.
Print Assumptions C08_fee_placeholder_refuted.

(* The judge evaluated by the check on the implementation's reports implies the clauses of the specification,
   including largest-first's "largest" and "stops as soon as covered" clauses *)
Theorem C08_judge_sound :
  forall strat offered sc final_ids explicit fee prefix,
    judge strat offered sc final_ids explicit fee prefix = Holds ->
    let pre := imap_of_list (sc_pre sc) in
    let eff := filter_offered (ids pre) offered in
    let inputs := judge_inputs offered pre final_ids in
    scenario_wf offered sc /\ pre_distinct sc /\
    NoDup final_ids /\ (forall x, In x final_ids -> In x (ids pre) \/ In x (ids offered)) /\
    incl (ids pre) final_ids /\
    (exists total, sum_values value_zero (map u_val inputs) = Ok total /\ value_eqb_sem total explicit = true) /\
    covers_coin sc inputs fee /\ covers_assets sc inputs /\
    (lf_clause_applies strat sc = true ->
       lf_largest_b eff (ids pre) final_ids = true /\
       forall w, lf_last_added eff (ids pre) final_ids = Some w ->
         exists g, prefix = Some (u_id w, g) /\
                   ~ covers_coin sc (filter (fun u => negb (u_id u =? u_id w)) inputs) g).
Proof. exact judge_sound. Qed.
Print Assumptions C08_judge_sound.

(* pinned definitions (cannot be weakened silently) *)
Check (eq_refl : current = mkVariant true true true true true true).
Check (eq_refl : legacy = mkVariant false false false false false false).
(* non-vacuity of the premises *)
Check sound_current_premises.
Check largest_first_premises.
Check largest_first_insufficient_premises.
Check fee_additive_premise.
Check burn_now_insufficient.
Check overlap_now_sound.
Check fee_placeholder_now_insufficient.
