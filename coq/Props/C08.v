(* C08 — Coin selection is sound under every random outcome.
   Only statements here; each is closed by [exact] of a lemma proved in CoinSel/*.v.
   [min_fee] / [fee_for_input] are arbitrary functions (the real builder's min_fee() and fee_for_input()),
   [cs : list N] is the sequence of random draws (hook H1: k-th draw gen_range(0..n) = k-th element mod n), so the
   quantification over [cs] is the quantification over every outcome of the RNG. *)
From CSL Require Import Base.Prelude Num.Value CoinSel.CoinSel CoinSel.CoinSelSpec CoinSel.CoinSelLemmas CoinSel.CoinSelProofs
  CoinSel.CoinSelSound CoinSel.CoinSelRefute CoinSel.CoinSelJudge.
From Coq Require Import Permutation.
Local Open Scope N_scope.

(* Success => the added inputs are pairwise distinct members of the offered list, the inputs present before are
   unchanged (the resulting map is a permutation of the old inputs and the added ones), and the actual inputs cover
   outputs + deposits + donation + required fee in lovelace, and every asset of the target outside the known class
   C08-burn-not-covered (burn_class: an asset is burnt and the strategy is not LargestFirstMultiAsset).
   All four strategies, all offered lists, builder contents and draw sequences; the code as it is now (after the
   repairs b244700, 2a9f309, d550071 in /repo). *)
Theorem C08_sound :
  forall (min_fee : imap -> result N) (fee_for_input : imap -> utxo -> result N)
         (strat : strategy) (cs : list N) (offered : list utxo) (sc : scenario) (st' : sel_state),
    scenario_wf offered sc -> distinct_outpoints offered sc ->
    add_inputs_from min_fee fee_for_input current strat cs offered sc = (st', Done tt) ->
    sound_result min_fee fee_for_input (burn_class strat sc) offered sc st'.
Proof. exact sound_current. Qed.
Print Assumptions C08_sound.

(* when fee_for_input is the difference of two minimum fees (its definition), the fee covered is min_fee() of the
   resulting builder *)
Theorem C08_sound_min_fee :
  forall (min_fee : imap -> result N) (fee_for_input : imap -> utxo -> result N)
         (strat : strategy) (cs : list N) (offered : list utxo) (sc : scenario) (st' : sel_state),
    fee_additive min_fee fee_for_input ->
    scenario_wf offered sc -> distinct_outpoints offered sc ->
    add_inputs_from min_fee fee_for_input current strat cs offered sc = (st', Done tt) ->
    exists fee, min_fee (st_inputs st') = Ok fee /\ covers_coin sc (st_inputs st') fee.
Proof. exact sound_current_min_fee. Qed.
Print Assumptions C08_sound_min_fee.

(* Largest-first (strategy LargestFirst), when more lovelace is needed than the builder holds: whatever the outcome,
   the inputs are added in non-increasing order of their lovelace and every offered UTxO not added holds at most as
   much as every added one *)
Theorem C08_largest_first_order :
  forall (min_fee : imap -> result N) (fee_for_input : imap -> utxo -> result N)
         (cs : list N) (offered : list utxo) (sc : scenario) (st0 st' : sel_state) (r : outcome unit),
    initial_state min_fee sc = (st0, Done tt) -> coin (st_in st0) < coin (st_out st0) ->
    add_inputs_from min_fee fee_for_input current LargestFirst cs offered sc = (st', r) ->
    desc_sorted (key_of ByCoin offered) (st_trace st') /\
    (forall i, In i (st_trace st') -> (i < length offered)%nat) /\
    (forall i j, In i (st_trace st') -> (j < length offered)%nat -> ~ In j (st_trace st') ->
                 key_of ByCoin offered j <= key_of ByCoin offered i).
Proof. exact lf_order_top. Qed.
Print Assumptions C08_largest_first_order.

(* … it stops as soon as the target is covered: no proper prefix of the added inputs covers outputs + fee *)
Theorem C08_largest_first_minimal :
  forall (min_fee : imap -> result N) (fee_for_input : imap -> utxo -> result N)
         (cs : list N) (offered : list utxo) (sc : scenario) (st0 st' : sel_state),
    scenario_wf offered sc -> distinct_outpoints offered sc ->
    initial_state min_fee sc = (st0, Done tt) -> coin (st_in st0) < coin (st_out st0) ->
    add_inputs_from min_fee fee_for_input current LargestFirst cs offered sc = (st', Done tt) ->
    forall k, (k < length (st_trace st'))%nat ->
      let before := imap_of_list (sc_pre sc) in
      let prefix := added_utxos offered (firstn k (st_trace st')) in
      exists fk, required_fee min_fee fee_for_input before prefix = Ok fk /\ ~ covers_coin sc (before ++ prefix) fk.
Proof. exact lf_minimal_top. Qed.
Print Assumptions C08_largest_first_minimal.

(* … and it reports insufficiency only after adding every offered UTxO, when all of them together do not cover
   outputs + fee *)
Theorem C08_largest_first_complete :
  forall (min_fee : imap -> result N) (fee_for_input : imap -> utxo -> result N)
         (cs : list N) (offered : list utxo) (sc : scenario) (st0 st' : sel_state),
    scenario_wf offered sc -> distinct_outpoints offered sc ->
    initial_state min_fee sc = (st0, Done tt) -> coin (st_in st0) < coin (st_out st0) ->
    add_inputs_from min_fee fee_for_input current LargestFirst cs offered sc = (st', Insufficient) ->
    let before := imap_of_list (sc_pre sc) in
    let added := added_utxos offered (st_trace st') in
    Permutation added offered /\
    exists fee, required_fee min_fee fee_for_input before added = Ok fee /\ ~ covers_coin sc (before ++ offered) fee.
Proof. exact lf_complete_top. Qed.
Print Assumptions C08_largest_first_complete.

(* The three defects of the code before its repairs: each variant of the model reports success on a witness for
   which the specification fails (witnesses replayed on the real code: corpus/C08/w-*.case) *)
Theorem C08_swap_bookkeeping_refuted :
  exists min_fee ffi cs offered sc st',
    scenario_wf offered sc /\ distinct_outpoints offered sc /\
    add_inputs_from min_fee ffi (mkVariant false true true) RandomImprove cs offered sc = (st', Done tt) /\
    ~ sound_result min_fee ffi false offered sc st'.
Proof. exact swap_bookkeeping_refuted. Qed.
Print Assumptions C08_swap_bookkeeping_refuted.

Theorem C08_duplicate_outputs_refuted :
  exists min_fee ffi cs offered sc st',
    scenario_wf offered sc /\ distinct_outpoints offered sc /\
    add_inputs_from min_fee ffi (mkVariant true false true) RandomImprove cs offered sc = (st', Done tt) /\
    ~ sound_result min_fee ffi false offered sc st'.
Proof. exact duplicate_outputs_refuted. Qed.
Print Assumptions C08_duplicate_outputs_refuted.

Theorem C08_prestep_fee_refuted :
  exists min_fee ffi cs offered sc st',
    scenario_wf offered sc /\ distinct_outpoints offered sc /\
    add_inputs_from min_fee ffi (mkVariant true true false) LargestFirst cs offered sc = (st', Done tt) /\
    ~ sound_result min_fee ffi false offered sc st'.
Proof. exact prestep_fee_refuted. Qed.
Print Assumptions C08_prestep_fee_refuted.

(* The known class of the code as it is: a burnt asset is not covered by any strategy but LargestFirstMultiAsset *)
Theorem C08_burn_not_covered_refuted : forall strat, strat <> LargestFirstMultiAsset ->
  exists st', scenario_wf wb_offered wb_sc /\ distinct_outpoints wb_offered wb_sc /\
    add_inputs_from zero_fee zero_ffi current strat [] wb_offered wb_sc = (st', Done tt) /\
    burn_class strat wb_sc = true /\ ~ covers_assets wb_sc (st_inputs st').
Proof. exact burn_not_covered_refuted. Qed.
Print Assumptions C08_burn_not_covered_refuted.

(* The judge evaluated by the check on the implementation's reports implies the clauses of the specification *)
Theorem C08_judge_sound :
  forall strat offered sc final_ids explicit fee,
    judge strat offered sc final_ids explicit fee = Holds ->
    let pre := imap_of_list (sc_pre sc) in
    let inputs := judge_inputs offered pre final_ids in
    scenario_wf offered sc /\ distinct_outpoints offered sc /\
    NoDup final_ids /\ (forall x, In x final_ids -> In x (ids pre) \/ In x (ids offered)) /\
    incl (ids pre) final_ids /\
    (exists total, sum_values value_zero (map u_val inputs) = Ok total /\ value_eqb_sem total explicit = true) /\
    covers_coin sc inputs fee /\ covers_assets sc inputs /\
    (lf_clause_applies strat sc = true -> lf_largest_b offered (ids pre) final_ids = true).
Proof. exact judge_sound. Qed.
Print Assumptions C08_judge_sound.

(* pinned definitions (cannot be weakened silently) *)
Check (eq_refl : current = mkVariant true true true).
Check (eq_refl : burn_class RandomImprove wb_sc = true).
Check (eq_refl : burn_class LargestFirstMultiAsset wb_sc = false).
(* non-vacuity of the premises: sound_current_premises, largest_first_premises, largest_first_insufficient_premises *)
Check sound_current_premises.
Check largest_first_premises.
Check largest_first_insufficient_premises.
