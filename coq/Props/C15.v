(* C15 — Stand-alone fee functions equal the ledger definitions.
   Only statements here; each is closed by [exact] of a lemma proved in Fees/FeesProofs.v. *)
From CSL Require Import Base.Prelude Fees.Rational Fees.Fees Fees.TierSpec Fees.FeesProofs.
From Coq Require Import QArith.
Local Open Scope Z_scope.

(* linear fee = constant + coefficient * size, or an error when it does not fit in 64 bits *)
Theorem C15_linear : forall size coeff const : Z,
  0 <= size -> 0 <= coeff -> 0 <= const ->
  min_fee_for_size size coeff const = exact_or_error (spec_linear_fee size coeff const).
Proof. exact linear_fee_exact. Qed.
Print Assumptions C15_linear.

(* script fee = ceiling (mem * mem_price + steps * step_price), for all prices with positive
   denominators (zero numerators and non-reduced fractions included), or an error *)
Theorem C15_ex_units_ceil : forall mem steps mpn mpd spn spd : Z,
  0 <= mem -> 0 <= steps -> 0 <= mpn -> 0 < mpd -> 0 <= spn -> 0 < spd ->
  ex_units_ceil_cost mem steps mpn mpd spn spd =
  exact_or_error (spec_script_fee mem steps (Qmake mpn (Z.to_pos mpd)) (Qmake spn (Z.to_pos spd))).
Proof. exact ex_units_cost_exact. Qed.
Print Assumptions C15_ex_units_ceil.

(* the execution units that are priced are the exact sums over all redeemers, or an error *)
Theorem C15_total_ex_units : forall l, all_nonneg l ->
  total_ex_units l 0 0 = Ok (sum_fst l, sum_snd l) \/ total_ex_units l 0 0 = Err.
Proof. intros l H. exact (total_ex_units_not_wrong l H 0 0 (Z.le_refl 0) (Z.le_refl 0)). Qed.
Print Assumptions C15_total_ex_units.

(* reference-script fee = floor of the ledger's tiered recursion (25 KiB tiers, factor 1.2),
   for ALL sizes (below 2^32 tiers, the range of the `as u32` cast) and all prices *)
Theorem C15_tier_closed_form : forall size pn pd : Z,
  0 <= size -> size / 25600 < 4294967296 -> 0 <= pn -> 0 < pd ->
  min_ref_script_fee size pn pd =
  exact_or_error (spec_ref_script_fee size (Qmake pn (Z.to_pos pd))).
Proof. exact ref_script_fee_exact. Qed.
Print Assumptions C15_tier_closed_form.

(* pinned statement of the spec recursion (cannot be weakened silently) *)
Check (eq_refl : spec_go 1 0 1 0 = (0 + inject_Z 0 * 1)%Q).
