(* C04 - original bytes and the hashes derived from them are preserved.  Pinned statements.
   H (Blake2b-256), sign_vkey / sign_boot (Ed25519 / BIP32 signing behind make_vkey_witness and
   make_{icarus,daedalus}_bootstrap_witness) and fresh (the canonical datum writer of C01) are universally
   quantified: no law about them is used. *)
From CSL Require Import Base.Prelude Cbor.Head Cbor.Item Cbor.ItemProofs
  Fixed.CborEv Fixed.CborEvProofs Fixed.DatumBytes Fixed.DatumBytesProofs Fixed.FixedTx Fixed.FixedTxProofs
  Fixed.FuelProofs Fixed.FixedBlock Fixed.FixedBlockProofs Fixed.WfPreservation Fixed.JudgeProofs.
Local Open Scope N_scope.

(* the byte-range capture (deserilized_with_orig_bytes) returns exactly the bytes its inner reader consumed *)
Theorem C04_slices : forall (A : Type) (p : parser A), psuffix p ->
  forall bs v raw rest, with_orig p bs = Ok ((v, raw), rest) ->
  bs = raw ++ rest /\ raw <> [] /\ p (raw ++ rest) = Ok (v, rest).
Proof. exact @with_orig_slice. Qed.
Print Assumptions C04_slices.

(* every field of a decoded witness set keeps the exact bytes its reader consumed, located right after its key *)
Theorem C04_witness_field_slices : forall bs w rest, decode_wits bs = Ok (w, rest) ->
  ssfx bs rest /\ w_set_tags w = true /\
  forall k f, lookup k (w_fields w) = Some f ->
    exists raw pre kb post,
      f_raw f = Some raw /\ raw <> [] /\ bs = pre ++ kb ++ raw ++ post /\
      rd_uint (kb ++ raw ++ post) = Ok (k, raw ++ post) /\
      dec_field k (raw ++ post) = Ok (f_parsed f, post).
Proof. exact decode_wits_slices. Qed.
Print Assumptions C04_witness_field_slices.

(* loading: the input is  head | BODY | witness set | [bool] | AUX-or-null | [break] | rest  *)
Theorem C04_load_slices : forall (H : bytes -> bytes) bs tx rest, decode_fixed H bs = Ok (tx, rest) ->
  exists hd Wb V cl ln w,
    bs = hd ++ ft_body tx ++ Wb ++ V ++ enc_aux (ft_aux tx) ++ cl ++ rest /\
    rd_array bs = Ok (ln, ft_body tx ++ Wb ++ V ++ enc_aux (ft_aux tx) ++ cl ++ rest) /\
    item_wf (ft_body tx) = true /\
    ft_hash tx = H (ft_body tx) /\
    decode_wits (Wb ++ V ++ enc_aux (ft_aux tx) ++ cl ++ rest) = Ok (w, V ++ enc_aux (ft_aux tx) ++ cl ++ rest) /\
    w_fields (ft_wits tx) = w_fields w /\
    (forall k f, lookup k (w_fields (ft_wits tx)) = Some f ->
       slice_ok (Wb ++ V ++ enc_aux (ft_aux tx) ++ cl ++ rest) k f) /\
    ((V = [] /\ ft_valid tx = true) \/ V = enc_valid (ft_valid tx)) /\
    match ft_aux tx with Some a => item_wf a = true | None => True end /\
    (cl = [] \/ cl = [255]).
Proof. exact decode_fixed_slices. Qed.
Print Assumptions C04_load_slices.

(* EVERY accepted encoding x EVERY list of add-signature operations: the emitted transaction is
   84 ++ B ++ W' ++ V ++ A with B and A the exact input slices *)
Theorem C04_body_aux_preserved : forall (H : bytes -> bytes) sign_vkey sign_boot bs tx rest ops,
  decode_fixed H bs = Ok (tx, rest) -> sig_ops ops ->
  exists hd Wb V cl,
    bs = hd ++ ft_body tx ++ Wb ++ V ++ enc_aux (ft_aux tx) ++ cl ++ rest /\
    item_wf (ft_body tx) = true /\
    match ft_aux tx with Some a => item_wf a = true | None => True end /\
    ((V = [] /\ ft_valid tx = true) \/ V = enc_valid (ft_valid tx)) /\
    (cl = [] \/ cl = [255]) /\
    ft_body (run_ops H sign_vkey sign_boot ops tx) = ft_body tx /\
    ft_aux (run_ops H sign_vkey sign_boot ops tx) = ft_aux tx /\
    encode_fixed (run_ops H sign_vkey sign_boot ops tx) =
      [132] ++ ft_body tx ++ encode_wits (ft_wits (run_ops H sign_vkey sign_boot ops tx))
            ++ enc_valid (ft_valid tx) ++ enc_aux (ft_aux tx).
Proof. exact fixed_body_aux_preserved. Qed.
Print Assumptions C04_body_aux_preserved.

(* every witness-set field no operation touched is written back byte-identical to its input slice;
   absent fields stay absent (any operations, including the setters, as long as none touches key k) *)
Theorem C04_untouched_fields_verbatim : forall (H : bytes -> bytes) sign_vkey sign_boot bs tx rest ops k,
  decode_fixed H bs = Ok (tx, rest) -> k <= 7 ->
  (forall o, In o ops -> touches o k = false) ->
  exists hd Wrest, bs = hd ++ ft_body tx ++ Wrest /\
    match lookup k (w_fields (ft_wits tx)) with
    | Some f =>
      exists raw pre kb post,
        lookup k (entries (ft_wits (run_ops H sign_vkey sign_boot ops tx))) = Some raw /\
        f_raw f = Some raw /\ raw <> [] /\
        Wrest = pre ++ kb ++ raw ++ post /\
        rd_uint (kb ++ raw ++ post) = Ok (k, raw ++ post) /\
        dec_field k (raw ++ post) = Ok (f_parsed f, post)
    | None => lookup k (entries (ft_wits (run_ops H sign_vkey sign_boot ops tx))) = None
    end.
Proof. exact fixed_untouched_verbatim. Qed.
Print Assumptions C04_untouched_fields_verbatim.

(* W' is a well-formed definite map: declared length = number of entries written, and the generic reader
   cuts it back into exactly those entries *)
Theorem C04_witness_map_wf : forall w, wits_wf w ->
  item_wf (encode_wits w) = true /\ map_slices (encode_wits w) = Some (entries w, []).
Proof. exact encode_wits_wf. Qed.
Print Assumptions C04_witness_map_wf.

Theorem C04_fresh_signature_sets_wf :
  (forall t ws, forallb vkw_ok ws = true -> len ws < two64 -> item_wf (enc_vkeys t ws) = true) /\
  (forall t ws, forallb bw_ok ws = true -> len ws < two64 -> item_wf (enc_boots t ws) = true).
Proof. exact (conj enc_vkeys_wf enc_boots_wf). Qed.
Print Assumptions C04_fresh_signature_sets_wf.

(* transaction_hash = H(body bytes) after ANY operations; = H(original body slice) after add-signature ones *)
Theorem C04_hash : forall (H : bytes -> bytes) sign_vkey sign_boot bs tx rest ops,
  decode_fixed H bs = Ok (tx, rest) ->
  ft_hash (run_ops H sign_vkey sign_boot ops tx) = H (ft_body (run_ops H sign_vkey sign_boot ops tx)) /\
  (sig_ops ops -> ft_hash (run_ops H sign_vkey sign_boot ops tx) = H (ft_body tx)).
Proof. exact fixed_hash. Qed.
Print Assumptions C04_hash.

Theorem C04_sign_uses_hash : forall (H : bytes -> bytes) sign_vkey sign_boot tx k,
  hash_inv H tx ->
  ft_wits (step H sign_vkey sign_boot tx (OSignVkey k)) = add_vkey (sign_vkey k (H (ft_body tx))) (ft_wits tx) /\
  ft_wits (step H sign_vkey sign_boot tx (OSignIcarus k)) = add_boot (sign_boot false k (H (ft_body tx))) (ft_wits tx) /\
  ft_wits (step H sign_vkey sign_boot tx (OSignDaedalus k)) = add_boot (sign_boot true k (H (ft_body tx))) (ft_wits tx).
Proof. exact fixed_sign_uses_hash. Qed.
Print Assumptions C04_sign_uses_hash.

(* a Plutus datum decoded from bytes re-encodes to exactly those bytes; its hash preimage is those bytes *)
Theorem C04_datum_bytes : forall (fresh : pdk -> bytes) bs d rest,
  decode_pd bs = Ok (d, rest) -> encode_pd fresh d ++ rest = bs.
Proof. exact datum_bytes. Qed.
Print Assumptions C04_datum_bytes.

Theorem C04_datum_hash_preimage : forall (fresh : pdk -> bytes) (H : bytes -> bytes) bs d rest,
  decode_pd bs = Ok (d, rest) ->
  exists raw, bs = raw ++ rest /\ raw <> [] /\ pd_orig d = Some raw /\ hash_pd fresh H d = H raw.
Proof. exact datum_hash_preimage. Qed.
Print Assumptions C04_datum_hash_preimage.

Theorem C04_datum_bytes_nested : forall (fresh : pdk -> bytes) fuel bs d rest,
  dec_pd fuel bs = Ok (d, rest) -> encode_pd fresh d ++ rest = bs.
Proof. exact datum_bytes_nested. Qed.
Print Assumptions C04_datum_bytes_nested.

(* FixedTransactionBody: original bytes and hash *)
Theorem C04_fixed_body : forall (H : bytes -> bytes) bs raw h rest,
  decode_fixed_body H bs = Ok ((raw, h), rest) -> bs = raw ++ rest /\ item_wf raw = true /\ h = H raw.
Proof. exact fixed_body_bytes. Qed.
Print Assumptions C04_fixed_body.

(* the defects removed by /repo 7a5b266 and be1619f, shown on the models of the previous code *)
Theorem C04_map_length_old_refuted :
  exists tx, decode_fixed Hid witness_empty_native = Ok (tx, []) /\
    item_wf (encode_wits_old (ft_wits tx)) = false /\
    encode_wits_old (ft_wits tx) = [160; 1; 128] /\
    item_wf (encode_wits (ft_wits tx)) = true /\
    encode_fixed tx = witness_empty_native.
Proof. exact old_map_length_refuted. Qed.
Print Assumptions C04_map_length_old_refuted.

Theorem C04_drops_empty_scripts_old_refuted :
  exists tx, decode_fixed Hid witness_empty_plutus = Ok (tx, []) /\
    lookup 3 (entries_by old_written (ft_wits tx)) = None /\
    lookup 3 (entries (ft_wits tx)) = Some [128] /\
    encode_fixed tx = witness_empty_plutus.
Proof. exact old_drops_empty_scripts_refuted. Qed.
Print Assumptions C04_drops_empty_scripts_old_refuted.

Theorem C04_set_body_hash_old_refuted :
  exists tx b, hash_inv Hid tx /\
    ~ hash_inv Hid (fold_left (step_old Hid no_vk no_bw) [OSetBody b] tx) /\
    hash_inv Hid (run_ops Hid no_vk no_bw [OSetBody b] tx).
Proof. exact old_set_body_hash_refuted. Qed.
Print Assumptions C04_set_body_hash_old_refuted.

(* fuel is never the reason for a rejection: "the model decoder accepts bs" depends on bs alone *)
Theorem C04_no_fuel_rejection :
  (forall (H : bytes -> bytes) bs, decode_fixed H bs <> OutOfFuel) /\
  (forall bs, decode_wits bs <> OutOfFuel) /\
  (forall bs, decode_pd bs <> OutOfFuel) /\
  (forall (H : bytes -> bytes) bs, decode_fixed_body H bs <> OutOfFuel) /\
  (forall (H : bytes -> bytes) sign_vkey sign_boot o tx, apply_op H sign_vkey sign_boot o tx <> OutOfFuel).
Proof.
  exact (conj decode_fixed_noof (conj decode_wits_noof (conj decode_pd_noof (conj decode_fixed_body_noof apply_op_noof)))).
Qed.
Print Assumptions C04_no_fuel_rejection.

(* block level.  FixedTransactionBodies: the array is head ++ body_1 ++ ... ++ body_n ++ [break]; every kept
   original_bytes is that slice (one well-formed item), every tx_hash is H of it *)
Theorem C04_block_bodies : forall (H : bytes -> bytes) bs l rest, decode_fixed_bodies H bs = Ok (l, rest) ->
  exists hd cl, bs = hd ++ concat (map fst l) ++ cl ++ rest /\ hd <> [] /\ (cl = [] \/ cl = [255]) /\
                Forall (fun oh => snd oh = H (fst oh) /\ item_wf (fst oh) = true) l.
Proof. exact decode_fixed_bodies_slices. Qed.
Print Assumptions C04_block_bodies.

(* FixedBlock: header and bodies are exact input slices, block_hash = H(header bytes) (the ledger's block hash) *)
Theorem C04_block : forall (H : bytes -> bytes) bs b rest, decode_fixed_block H bs = Ok (b, rest) ->
  exists hd bhd cl tl,
    bs = hd ++ fb_header b ++ bhd ++ concat (map fst (fb_bodies b)) ++ cl ++ tl ++ rest /\
    item_wf (fb_header b) = true /\ (cl = [] \/ cl = [255]) /\
    Forall (fun oh => snd oh = H (fst oh) /\ item_wf (fst oh) = true) (fb_bodies b) /\
    fb_hash b = H (fb_header b).
Proof. exact fixed_block_slices. Qed.
Print Assumptions C04_block.

Theorem C04_versioned_block : forall (H : bytes -> bytes) bs era b rest,
  decode_versioned_block H bs = Ok ((era, b), rest) ->
  era < 4294967296 /\
  exists pre inner post, bs = pre ++ inner ++ post ++ rest /\ pre <> [] /\
    decode_fixed_block H (inner ++ post ++ rest) = Ok (b, post ++ rest) /\ (post = [] \/ post = [255]) /\
    fb_hash b = H (fb_header b) /\
    Forall (fun oh => snd oh = H (fst oh) /\ item_wf (fst oh) = true) (fb_bodies b).
Proof. exact versioned_block_inner. Qed.
Print Assumptions C04_versioned_block.

Theorem C04_block_no_fuel_rejection :
  (forall (H : bytes -> bytes) bs, decode_fixed_bodies H bs <> OutOfFuel) /\
  (forall (H : bytes -> bytes) bs, decode_fixed_block H bs <> OutOfFuel) /\
  (forall (H : bytes -> bytes) bs, decode_versioned_block H bs <> OutOfFuel).
Proof. exact (conj decode_fixed_bodies_noof (conj (fun H => dec_block_noof H false) decode_versioned_block_noof)). Qed.
Print Assumptions C04_block_no_fuel_rejection.

(* the block hash as computed before /repo c6f013f (over the whole block) is not the hash of the header *)
Theorem C04_block_hash_old_refuted :
  exists b, decode_fixed_block_old Hid tiny_block = Ok (b, []) /\ fb_header b = [128] /\
            fb_hash b = Hid tiny_block /\ fb_hash b <> Hid (fb_header b) /\
            exists b', decode_fixed_block Hid tiny_block = Ok (b', []) /\ fb_hash b' = Hid (fb_header b') /\
                       fb_bodies b' = [([160], Hid [160])].
Proof. exact old_block_hash_refuted. Qed.
Print Assumptions C04_block_hash_old_refuted.

(* well-formedness is preserved through the operations: input a string of bytes (< 256, shorter than 2^64) whose
   kept witness slices are well-formed items; any operations other than set_witness_set whose added / signed
   witnesses are byte strings; then the witness set written back is one well-formed definite map holding
   exactly the written entries *)
Theorem C04_witness_map_wf_after_ops :
  forall (H : bytes -> bytes) (sign_vkey : bytes -> bytes -> vkw) (sign_boot : bool -> bytes -> bytes -> bw),
  (forall k h, vkw_ok (sign_vkey k h) = true) -> (forall d k h, bw_ok (sign_boot d k h) = true) ->
  forall bs tx rest ops,
  good bs -> decode_fixed H bs = Ok (tx, rest) -> raws_wf (ft_wits tx) -> Forall op_ok ops ->
  N.of_nat (length bs + length ops) < two64 ->
  let w' := ft_wits (run_ops H sign_vkey sign_boot ops tx) in
  item_wf (encode_wits w') = true /\ map_slices (encode_wits w') = Some (entries w', []).
Proof. exact fixed_witness_map_wf_after_ops. Qed.
Print Assumptions C04_witness_map_wf_after_ops.

(* the judge that is run on the implementation's observations accepts the model's own observation: every input
   on which the generic and the library-mirroring reading coincide, every operation list without
   set_witness_set, written witness set well-formed (C04_witness_map_wf_after_ops) *)
Theorem C04_judge_accepts_model : forall sv sb bs tx r ops,
  same_reading bs = true -> decode_fixed (fun b => b) bs = Ok (tx, r) ->
  Forall not_set_wits ops ->
  wits_wf (ft_wits (run_ops (fun b => b) sv sb ops tx)) ->
  judge bs (op_flags sv sb ops tx) (model_obs (run_ops (fun b => b) sv sb ops tx)) = VHolds.
Proof. exact judge_accepts_model. Qed.
Print Assumptions C04_judge_accepts_model.

Check sample_tx_accepted.
Check same_reading_example.
Check wf_after_ops_premises.
Check versioned_block_example.
Check sig_ops_example.
Check datum_example.
