Require Extraction.
Require Import ExtrOcamlBasic.
From CSL Require Import Base.Prelude Cbor.Head Witnesses.Witnesses Witnesses.WitnessSpec.
Extraction Language OCaml.
Definition keepN : N := N.add 0 0.
Definition keepZ : Z := Z.add 0 0.
Definition keepNat : nat := length (@nil N).
Definition keepR : result N := Ok 0%N.
Extraction "model_c18.ml" keepN keepZ keepNat keepR model_obs judge model_result judge_hr build_refused cred_item.
