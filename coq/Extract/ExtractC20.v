Require Extraction.
Require Import ExtrOcamlBasic.
From CSL Require Import Base.Prelude Base.U64 Deposits.Deposits Deposits.Ident.
Extraction Language OCaml.
Definition keepN : N := N.add 0 0.
Definition keepZ : Z := Z.add 0 0.
Definition keepNat : nat := length (@nil N).
Extraction "model_c20.ml" keepN keepZ keepNat model_obs judge mk_case cert_of_tag cddl_tag cert_coin
  known_pool_retirement known_ignores_proposals case_body spec_deposit_res spec_implicit_res
  imodel_obs ijudge effective positional mk_icase mk_icert mk_ident mk_iwd mk_iprop.
