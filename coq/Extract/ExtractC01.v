Require Extraction.
Require Import ExtrOcamlBasic.
From CSL Require Import Base.Prelude Base.Hex Cbor.Head Codec.Schema Codec.SchemaApi Codec.SchemaSound Ledger.Schemas.
Extraction Language OCaml.
Definition keepN : N := N.add 0 0.
Definition keepZ : Z := Z.add 0 0.
Extraction "model_c01.ml" keepN keepZ enc dec wfv wfs hex unhex norm wfa api_holds api_model_accepts api_model_field sdec sdec_accepts refined writer_form reward_sort_key is_empty_val reward_sort_key is_empty_val
  TransactionInput TransactionInputs Credential Credentials Ed25519KeyHashes DRep Anchor UnitInterval
  Relay Relays PoolMetadata ProtocolVersion ExUnits ExUnitPrices Nonce MoveInstantaneousReward
  Certificate Certificates Assets MultiAsset Value MintAssets Mint Withdrawals Voter GovernanceActionId
  VotingProcedure VotingProcedures Costmdls PoolVotingThresholds DRepVotingThresholds ProtocolParamUpdate
  TreasuryWithdrawals Constitution GovernanceAction VotingProposal VotingProposals
  ProposedProtocolParameterUpdates Update NativeScript NativeScripts PlutusScripts PlutusData
  PlutusList Redeemers Metadatum GeneralTransactionMetadata AuxiliaryData DataOption ScriptRef
  TransactionOutputLegacy TransactionOutputLegacyDH TransactionOutputMap TransactionOutput
  TransactionOutputs TransactionBody Vkeywitness Vkeywitnesses BootstrapWitness BootstrapWitnesses
  TransactionWitnessSet Transaction VRFCert OperationalCert HeaderBody Header Block IntS HeaderBodyPraos HeaderPraos
  BlockPraos StakeRegistration StakeDeregistration StakeDelegation PoolParams PoolRegistration PoolRetirement
  GenesisKeyDelegation MoveInstantaneousRewardsCert VoteDelegation StakeAndVoteDelegation
  StakeRegistrationAndDelegation VoteRegistrationAndDelegation StakeVoteRegistrationAndDelegation
  CommitteeHotAuth CommitteeColdResign DRepRegistration DRepDeregistration DRepUpdate
  SingleHostAddr SingleHostName MultiHostName Ipv4 Ipv6 URL DNSName Committee
  ParameterChangeAction HardForkInitiationAction TreasuryWithdrawalsAction NoConfidenceAction
  UpdateCommitteeAction NewConstitutionAction MetadataList MetadataMap PlutusMap ConstrPlutusData
  BigInt Redeemer RedeemerTag Language CostModel NetworkId Vkey AssetNameS PlutusScriptBytes
  MIRToStakeCredentials TransactionBodies TransactionWitnessSets TransactionUnspentOutput
  ScriptPubkey ScriptAll ScriptAny ScriptNOfK TimelockStart TimelockExpiry AssetNames GenesisHashes ScriptHashes
  RewardAddresses TransactionMetadatumLabels BigNum VersionedBlock FixedTransaction.
