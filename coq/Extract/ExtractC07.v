Require Extraction.
Require Import ExtrOcamlBasic.
From CSL Require Import Base.Prelude Base.U64 Cbor.Head MinAda.OutputSize MinAda.MinAda MinAda.Change MinAda.Judge MinAda.TxSize MinAda.BuildScenario.
Extraction Language OCaml.
Definition keepN : N := N.add 0 0.
Definition keepZ : Z := Z.add 0 0.
Definition keepNat : nat := length (@nil N).
Extraction "model_c07.ml" keepN keepZ keepNat
  mkOut mkCfg mkReq mkObs out_size out_value_size set_coin
  model_min_ada model_add_output model_helper model_collret model_build_assets model_build_ada model_last_admitted
  build_guard obs_of helper_output add_output mkTx full_tx_size build_tx_guard run_build_case run_entry_case run_txsize_case judge_returned
  judge_min_ada judge_admission judge_helper judge_collret judge_collraw judge_build
  helper_repaired collateral_checks_value_size topup_revalidates.
