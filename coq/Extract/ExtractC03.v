Require Extraction.
Require Import ExtrOcamlBasic.
From CSL Require Import Base.Prelude Cbor.Head Cbor.Item Codec.Schema Ledger.Schemas
  Cddl.Rules Cddl.Validator Cddl.ConwayCddl Cddl.ToItem Cddl.Pairing Cddl.KnownClass Cddl.Conforms.
Extraction Language OCaml.
Definition keepN : N := N.add 0 0.
Definition keepZ : Z := Z.add 0 0.
Extraction "model_c03.ml" keepN keepZ enc dec wfv wfs refined writer_form reward_sort_key is_empty_val
  parse_exact encode_item item_eqb to_item
  cddl_ok cddl_ok_bytes cddl_diag conway_env conway_pairs fuel_for sets_emitted judge_class judge_class_header judge_class_tx given_degenerate conforms conforms_bytes.
