Require Extraction.
Require Import ExtrOcamlBasic.
From CSL Require Import Base.Prelude Base.Hex Cbor.Head Cbor.Item Codec.Schema Ledger.Schemas Total.Partial Total.Decoders Total.Judge Total.Lax.
Extraction Language OCaml.
Definition keepN : N := N.add 0 0.
Definition keepZ : Z := Z.add 0 0.
Extraction "model_c02.ml" keepN keepZ enc dec wfv wfs hex unhex refined writer_form reward_sort_key is_empty_val
  item_wf parse_exact first_item_wf input_depth accepts shallow judge has_huge consumed wit_array_first wit_empty_enc
  address_from_bytes addr_from_bytes addr_to_bytes addr_unsafe addr_deserialize byron_from_bytes ext_addr_enc ext_addr_dec
  third_element legacy_output real_alloc read_bounded_bytes write_bounded_bytes from_hex_with hash_from_bytes from_base32 hash_from_bech32
  from_128_xprv write_nint int_to_bytes int_cbor json_number_to_int emip3_split wit_special native_script_schema crc32 bstr
  varnat_decode varnat_encode decode_pointer ce_bytes ce_uint ce_array
  TransactionInput TransactionInputs Credential Credentials Ed25519KeyHashes DRep Anchor UnitInterval
  Relay Relays PoolMetadata ProtocolVersion ExUnits ExUnitPrices Nonce MoveInstantaneousReward
  Certificate Certificates Assets MultiAsset Value MintAssets Mint Withdrawals Voter GovernanceActionId
  VotingProcedure VotingProcedures Costmdls PoolVotingThresholds DRepVotingThresholds ProtocolParamUpdate
  TreasuryWithdrawals Constitution GovernanceAction VotingProposal VotingProposals
  ProposedProtocolParameterUpdates Update NativeScript NativeScripts PlutusScripts PlutusData
  PlutusList Redeemers Metadatum GeneralTransactionMetadata AuxiliaryData DataOption ScriptRef
  TransactionOutputLegacy TransactionOutputLegacyDH TransactionOutputMap TransactionOutput
  TransactionOutputs TransactionBody Vkeywitness Vkeywitnesses BootstrapWitness BootstrapWitnesses
  TransactionWitnessSet Transaction VRFCert OperationalCert HeaderBody Header Block IntS HeaderBodyPraos HeaderPraos
  BlockPraos StakeRegistration StakeDeregistration StakeDelegation PoolParams PoolRegistration PoolRetirement
  GenesisKeyDelegation MoveInstantaneousRewardsCert VoteDelegation StakeAndVoteDelegation
  StakeRegistrationAndDelegation VoteRegistrationAndDelegation StakeVoteRegistrationAndDelegation
  CommitteeHotAuth CommitteeColdResign DRepRegistration DRepDeregistration DRepUpdate
  SingleHostAddr SingleHostName MultiHostName Ipv4 Ipv6 URL DNSName Committee
  ParameterChangeAction HardForkInitiationAction TreasuryWithdrawalsAction NoConfidenceAction
  UpdateCommitteeAction NewConstitutionAction MetadataList MetadataMap PlutusMap ConstrPlutusData
  BigInt Redeemer RedeemerTag Language CostModel NetworkId Vkey AssetNameS PlutusScriptBytes
  MIRToStakeCredentials TransactionBodies TransactionWitnessSets TransactionUnspentOutput
  ScriptPubkey ScriptAll ScriptAny ScriptNOfK TimelockStart TimelockExpiry AssetNames GenesisHashes ScriptHashes
  RewardAddresses TransactionMetadatumLabels BigNum VersionedBlock.
