Require Extraction.
Require Import ExtrOcamlBasic.
From CSL Require Import Base.Prelude Base.Hex Crypto.Iface Crypto.Wrappers Crypto.Emip3 Crypto.Obs Crypto.Bech32Inst.
Extraction Language OCaml.
Definition keepN : N := N.add 0 0.
Definition keepZ : Z := Z.add 0 0.
Definition keepNat : nat := length (@nil N).
Extraction "model_c12.ml" keepN keepZ keepNat model_obs judge known_class has_panic model_seq judge_seq with_bech32.
