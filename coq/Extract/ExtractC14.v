Require Extraction.
Require Import ExtrOcamlBasic.
From CSL Require Import Base.Prelude Base.U64 Cbor.Head Num.Decimal Num.U64 Num.IntRange Num.BigIntCbor Num.Value Num.Mint Num.C14Model.
Extraction Language OCaml.
Definition keepN : N := N.add 0 0.
Definition keepZ : Z := Z.add 0 0.
Definition keepNat : nat := length (@nil N).
Extraction "model_c14.ml" keepN keepZ keepNat
  model_bn judge_bn model_bncmp judge_bncmp model_bnstr judge_bnstr model_bnrt judge_bnrt
  model_int judge_int model_mint judge_mint
  model_biz judge_biz model_bibytes judge_bibytes model_bistr judge_bistr model_biop judge_biop
  model_val judge_val model_val3 judge_val3
  value_new mkValue ma_insert assets_insert ma_new assets_new
  cls_none cls_div_zero cls_sub_clamps cls_int_min_panic cls_mint_overflow cls_meta_key cls_from_str_range cls_as_negative cls_mint_dup
  model_mintv judge_mintv mint_new mint_insert mint_assets_new am_insert name_cmp.
