Require Extraction.
Require Import ExtrOcamlBasic.
From CSL Require Import Base.Prelude Base.BytesOrd Pointers.Pointers Pointers.PointersSpec.
Extraction Language OCaml.
Definition keepN : N := N.add 0 0.
Definition keepZ : Z := Z.add 0 0.
Definition keepNat : nat := length (@nil N).
Definition keepRes : result N := Ok 0%N.
Extraction "model_c10.ml" keepN keepZ keepNat keepRes model_obs judge tag_code
  known_collateral_plutus known_prop_nonscript
  outpoint_ledger_ltb policy_ledger_ltb racct_ledger_ltb voter_ledger_ltb ledger_cert_script_locked.
