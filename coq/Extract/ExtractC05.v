Require Extraction.
Require Import ExtrOcamlBasic.
From CSL Require Import Base.Prelude Base.U64 Num.Value Deposits.Deposits Builder.Totals Builder.Change Builder.Scenario Builder.MoreEntry Builder.TxReader.
From CSL Require Collateral.Collateral.
Extraction Language OCaml.
Definition keepN : N := N.add 0 0.
Definition keepZ : Z := Z.add 0 0.
Definition keepNat : nat := length (@nil N).
Definition col_return_addr (o : Collateral.output) : bytes := Collateral.o_addr o.
Definition col_return_amount (o : Collateral.output) : value := Collateral.o_amount o.
Extraction "model_c05.ml" keepN keepZ keepNat run_ops run_ops2 col_new judge mkTape mkImplTx mkConfig new_state cert_of_tag cddl_tag cert_coin
  ma_of_entries ma_entries mint_entries value_new mkValue mkOutput get_fee_if_set body_of known_mint_min
  col_return_addr col_return_amount cs_inputs cs_return cs_total judge_bytes read_tx impl_of_raw ma_set_asset ma_insert.
