Require Extraction.
Require Import ExtrOcamlBasic.
From CSL Require Import Base.Prelude Base.U64 Num.Value Deposits.Deposits Builder.Totals Builder.Change Builder.Scenario.
Extraction Language OCaml.
Definition keepN : N := N.add 0 0.
Definition keepZ : Z := Z.add 0 0.
Definition keepNat : nat := length (@nil N).
Extraction "model_c05.ml" keepN keepZ keepNat run_ops judge mkTape mkImplTx mkConfig new_state cert_of_tag cddl_tag cert_coin
  ma_of_entries ma_entries mint_entries value_new mkValue mkOutput get_fee_if_set body_of known_mint_min.
