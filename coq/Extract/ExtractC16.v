Require Extraction.
Require Import ExtrOcamlBasic.
From CSL Require Import Base.Prelude Cbor.Head Sets.DedupVec Sets.CanonOrder Sets.WitnessSetters.
Extraction Language OCaml.
Definition keepN : N := N.add 0 0.
Definition keepZ : Z := Z.add 0 0.
Definition keepNat : nat := length (@nil N).
Definition int_datum (n : N) (orig : option bytes) : datum := mk_datum (encode_head 0 n) orig.
Definition mk_bytes_frame (tags : list N) (len : flen) (its : list (item bytes)) (brk : bool) : frame bytes := mk_frame tags len its brk.
Definition op_add (x : bytes) : op bytes := OAdd x.
Definition op_contains (x : bytes) : op bytes := OContains x.
Definition it_elem (x : bytes) : item bytes := IElem x.
Definition it_bad : item bytes := IBad.
Definition it_null : item bytes := INull.
(* wire maps: duplicate keys are an error; otherwise the same content as one MultiAsset::insert per policy *)
Definition wire_ops (l : list (bytes * list (bytes * N))) : list ma_op := map (fun e => MInsert (fst e) (snd e)) l.
Definition ma_wire_case (l : list (bytes * list (bytes * N))) : result multiasset := ma_of_wire l [].
Extraction "model_c16.ml" keepN keepZ keepNat
  kind_of_N set_case judge_set mk_bytes_frame op_add op_contains it_elem it_bad it_null
  ws_run ser_wset ws_fields judge_fields int_datum known_datum_twice
  ma_run ma_wire_case ma_of_json ser_multiasset judge_ma wire_ops
  mb_run mb_build ser_mint mint_case judge_mint
  tx_build judge_tx d_emit input_script_order.
