Require Extraction.
Require Import ExtrOcamlBasic.
From CSL Require Import Base.Prelude Cbor.Head Cbor.Item ScriptData.LangViews ScriptData.ScriptData
  ScriptData.ScriptDataSpec ScriptData.Blake2b ScriptData.ScriptDataObs.
Extraction Language OCaml.
Definition keepN : N := N.add 0 0.
Definition keepZ : Z := Z.add 0 0.
Definition keepNat : nat := length (@nil N).
Extraction "model_c09.ml" keepN keepZ keepNat helper_obs builder_obs judge_helper_b judge_builder_b
  lang_of_index cm_empty cm_insert aux_new blake2b256 helper_out_of_scope known_dup_definite known_empty_datums
  view_tx script_data_preimage language_views_encoding.
