Require Extraction.
Require Import ExtrOcamlBasic.
From CSL Require Import Base.Prelude Cbor.Head Addr.VarNat Addr.Crc32 Addr.Byron Addr.Base58 Addr.Shelley
  Addr.Bech32Iface Addr.Bech32 Addr.Check.
Extraction Language OCaml.
Definition keepN : N := N.add 0 0.
Definition keepZ : Z := Z.add 0 0.
Definition keepNat : nat := length (@nil N).
Extraction "model_c11.ml" keepN keepZ keepNat model_dec judge_dec model_enc judge_enc model_b58 judge_b58
  base58_decode base58_encode accessors to_bytes from_bytes embedded_decode default_prefix crc32
  varnat_encode varnat_decode wf_addressb lenient_class panic_class
  model_bech model_bech5 model_bechd judge_bech check_hrp
  judge_b58a judge_becha byron_from_base58 byron_to_base58 b32_encode b32_decode from_bech32.
