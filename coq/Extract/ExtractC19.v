Require Extraction.
Require Import ExtrOcamlBasic.
From CSL Require Import Base.Prelude Num.Value Collateral.Collateral.
Extraction Language OCaml.
Definition keepN : N := N.add 0 0.
Definition keepZ : Z := Z.add 0 0.
Definition keepNat : nat := length (@nil N).
Extraction "model_c19.ml" keepN keepZ keepNat model_obs judge history_class builder_new mkOutput mkValue mkBody mkObs
  output_eqb value_struct_eqb.
