Require Extraction.
Require Import ExtrOcamlBasic.
From CSL Require Import Base.Prelude Base.U64 Num.Value Deposits.Deposits Builder.Totals Builder.Change Builder.Scenario
  FeeSuff.FeeModel FeeSuff.FeeSpec FeeSuff.FeeScenario.
Extraction Language OCaml.
Definition keepN : N := N.add 0 0.
Definition keepZ : Z := Z.add 0 0.
Definition keepNat : nat := length (@nil N).
Extraction "model_c06.ml" keepN keepZ keepNat run_ops6 mkScn mkUinfo mkOprec mkR mkConfig new_state cert_of_tag
  ma_of_entries ma_entries value_new mkValue mkOutput get_fee_if_set model_full_size model_min_fee_pub
  judge_tx mkPrices mkReport.
