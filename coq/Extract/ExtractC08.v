Require Extraction.
Require Import ExtrOcamlBasic.
From CSL Require Import Base.Prelude Num.Value CoinSel.CoinSel CoinSel.CoinSelSpec.
Extraction Language OCaml.
Definition keepN : N := N.add 0 0.
Definition keepZ : Z := Z.add 0 0.
Definition keepNat : nat := length (@nil N).
Extraction "model_c08.ml" keepN keepZ keepNat run_model judge strategy_of_N explicit_input value_entries
  ma_of_entries value_new mkValue mkUtxo mkOut mkScenario imap_ids imap_of_list add_inputs_from legacy current
  premises_b derived_ffi lf_prefix_outpoint mkVariant judge_insufficient scenario_buildable.
