Require Extraction.
Require Import ExtrOcamlBasic.
From CSL Require Import Base.Prelude Cbor.Head Cbor.Item Batch.BatchSpec Batch.Calc Batch.Proposal Batch.PureAda Batch.AssetPath.
Extraction Language OCaml.
Definition keepN : N := N.add 0 0.
Definition keepZ : Z := Z.add 0 0.
Definition keepNat : nat := length (@nil N).
Extraction "model_c13.ml" keepN keepZ keepNat
  judge utxos_distinct read_tx tx_summary mkUtxo mkConfig
  get_struct_size mkCtx mkUinfo mkAinfo tp_new add_new_output step set_min_ada_for_tx add_last_ada_to_last_output
  check_finished create_tx real_tx_size real_out_size real_value_size finalise bound_of insertN pure_send_all no_assets full_send_all create_send_all_model new_ok.
