Require Extraction.
Require Import ExtrOcamlBasic.
From CSL Require Import Base.Prelude Cbor.Head Cbor.Item Batch.BatchSpec.
Extraction Language OCaml.
Definition keepN : N := N.add 0 0.
Definition keepZ : Z := Z.add 0 0.
Definition keepNat : nat := length (@nil N).
Extraction "model_c13.ml" keepN keepZ keepNat judge utxos_distinct read_tx tx_summary mkUtxo mkConfig.
