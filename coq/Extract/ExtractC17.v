Require Extraction.
Require Import ExtrOcamlBasic.
From CSL Require Import Base.Prelude Codec.Schema Ledger.Schemas Json.Decimal Json.Json Json.MetadataJson Json.Chunks Json.PlutusJson
  Json.SerdeForms Json.Judge Json.SerdeSchema Json.SerdeLedger Json.SerdeJudge.
Extraction Language OCaml.
Definition keepN : N := N.add 0 0.
Definition keepZ : Z := Z.add 0 0.
Definition keepNat : nat := length (@nil N).
Extraction "model_c17.ml" keepN keepZ keepNat cur_cfg j2m m2j md_eqb md_wf md_sorted in_schema nf json_wf json_eqb
  encode_arbitrary_bytes decode_arbitrary_bytes j2p p2j pd_eqb pd_wf pd_has_empty_values
  sf_de sf_ser sval_ok sf_canonical
  judge_j2m judge_m2j judge_j2p judge_p2j judge_chunk judge_unchunk judge_sfd judge_sfs judge_ty
  enc dec wfv j_table lookup_serde j_json j_of_json j_norm j_wf j_canonical tj_premise judge_tj val_eqb.
