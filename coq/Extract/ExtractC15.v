Require Extraction.
Require Import ExtrOcamlBasic.
From CSL Require Import Base.Prelude Fees.Rational Fees.Fees Fees.TierSpec.
From Coq Require Import QArith Qround.
Extraction Language OCaml.
Definition mkQ (n d : Z) : Q := Qmake n (Z.to_pos d).
Definition keepN : N := N.add 0 0.
Extraction "model_c15.ml" keepN min_fee_for_size ex_units_ceil_cost min_script_fee min_ref_script_fee
  spec_linear_fee spec_script_fee spec_ref_script_fee exact_or_error mkQ total_ex_units.
