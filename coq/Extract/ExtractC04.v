Require Extraction.
Require Import ExtrOcamlBasic.
From CSL Require Import Base.Prelude Cbor.Head Cbor.Item Codec.Schema Ledger.Schemas
  Fixed.CborEv Fixed.DatumBytes Fixed.FixedTx Fixed.FixedBlock Fixed.Covered.
Extraction Language OCaml.
Definition keepN : N := N.add 0 0.
Definition keepZ : Z := Z.add 0 0.
Extraction "model_c04.ml" keepN keepZ
  decode_fixed fixed_new fixed_new_from_body run_ops apply_op step encode_fixed encode_wits encode_wits_old entries
  decode_fixed_body decode_fixed_bodies decode_fixed_block decode_versioned_block era_of judge_block judge_bodies array_slices decode_pd encode_pd decode_plist reencode_plist
  tx_covered body_canonical add_vkey add_boot body_covered aux_covered wits_covered decode_wits judge judge_datum same_reading spec_slices map_slices item_wf skip_item parse_one parse_exact encode_item key_order
  enc dec wfv writer_form refined reward_sort_key is_empty_val
  TransactionBody TransactionWitnessSet AuxiliaryData PlutusData PlutusList Transaction Header HeaderPraos Block BlockPraos.
