(* C10 driver: parses case lines, runs the extracted model (model_obs) and the extracted judge.
   I/O glue only; the case syntax is documented in harness/src/bin/c10.rs. *)
let b01 s = (s = "1")
(* a hash token is `hex` or `hex@seed` (the harness builds an inline script from the seed; the model only sees the hash) *)
let hash_tok s = bytes_of_hex (match String.index_opt s '@' with Some i -> String.sub s 0 i | None -> s)

let parse_ops (toks : string list) : op list =
  let a = Array.of_list toks in
  let pos = ref 1 in                                   (* a.(0) is the generator label *)
  let next () = if !pos >= Array.length a then failwith "case syntax: truncated" else (let s = a.(!pos) in incr pos; s) in
  let n = int_of_string (next ()) in
  let addr_kind = function
    | "bk" -> ABaseKey | "bs" -> ABaseScript | "ek" -> AEntKey | "es" -> AEntScript | "pk" -> APtrKey | "ps" -> APtrScript
    | "rw" -> AReward | "by" -> AByron | "mf" -> AMalformed | s -> failwith ("case syntax: address kind " ^ s) in
  let in_op () =
    match next () with
    | "k" -> let h = hash_tok (next ()) in let i = n_of_string (next ()) in InKey (h, i)
    | "n" -> let sh = hash_tok (next ()) in let h = hash_tok (next ()) in let i = n_of_string (next ()) in InNative (sh, (h, i))
    | "p" -> let sh = hash_tok (next ()) in let h = hash_tok (next ()) in let i = n_of_string (next ()) in
             let rid = n_of_string (next ()) in InPlutus (sh, (h, i), rid)
    | s -> failwith ("case syntax: input kind " ^ s) in
  let wop : 'k. (unit -> 'k) -> 'k wop = fun key ->
    let kind = next () in
    let k = key () in
    match kind with
    | "a" -> WAdd k
    | "n" -> WAddNative k
    | "p" -> let rid = n_of_string (next ()) in WAddPlutus (k, rid)
    | s -> failwith ("case syntax: witness kind " ^ s) in
  let cred () = let s = b01 (next ()) in let h = hash_tok (next ()) in { cr_script = s; cr_hash = h } in
  let rec go k acc =
    if k = 0 then List.rev acc else begin
      match next () with
      | "q" ->
        (* observer calls are not calls of the model, except calc_script_data_hash (q 2, q 3), which stores a hash in the builder *)
        let kind = int_of_string (next ()) in
        if kind >= 2 then go (k - 1) (OpCalc :: acc) else go (k - 1) acc
      | tok ->
      let o = match tok with
        | ("i" | "c") as ic when !pos < Array.length a && a.(!pos) = "u" ->
          let _ = next () in
          let e = (match next () with "r" -> URegular | "n" -> UNative | "p" -> UPlutus | s -> failwith ("case syntax: utxo entry " ^ s)) in
          let ak = addr_kind (next ()) in
          let sh = hash_tok (next ()) in let h = hash_tok (next ()) in let i = n_of_string (next ()) in let rid = n_of_string (next ()) in
          OpInU ((ic = "c"), e, ak, sh, (h, i), rid)
        | "i" -> OpIn (in_op ())
        | "c" -> OpCol (in_op ())
        | "m" ->
          let policy = hash_tok (next ()) in
          let kind = next () in
          let is_ref = b01 (next ()) in
          let w = (match kind with
              | "n" -> MNative is_ref
              | "p" -> MPlutus (is_ref, n_of_string (next ()))
              | s -> failwith ("case syntax: mint kind " ^ s)) in
          let asset = n_of_string (next ()) in
          let amount = z_of_string (next ()) in
          let set = b01 (next ()) in
          OpMint { mo_policy = policy; mo_wit = w; mo_asset = asset; mo_amount = amount; mo_set = set }
        | "x" -> OpCert (wop (fun () ->
            let kind = n_of_string (next ()) in let s = b01 (next ()) in let id = n_of_string (next ()) in
            { c_kind = kind; c_script = s; c_id = id }))
        | "w" -> OpWd (wop (fun () ->
            let net = n_of_string (next ()) in let c = cred () in
            let _coin = next () in                       (* the amount withdrawn: not part of the model (it must not matter) *)
            { ra_net = net; ra_cred = c }))
        | "v" -> OpVote (wop (fun () ->
            let vk = next () in let c = cred () in
            match vk with
            | "0" -> VCC c | "1" -> VDRep c | "2" -> VSPO c.cr_hash
            | s -> failwith ("case syntax: voter kind " ^ s)))
        | "g" -> OpProp (wop (fun () ->
            let kind = n_of_string (next ()) in
            let pol = (match next () with "~" -> None | s -> Some (hash_tok s)) in
            let id = n_of_string (next ()) in
            { p_kind = kind; p_policy = pol; p_id = id }))
        | s -> failwith ("case syntax: op " ^ s) in
      go (k - 1) (o :: acc)
    end in
  go n []

(* ---- printing (the same canonical form as the harness) ---- *)
let sb b = if b then "1" else "0"
let show_outpoint (h, i) = hex_of_bytes h ^ ":" ^ string_of_n i
let show_cert c = Printf.sprintf "%s.%s.%s" (string_of_n c.c_kind) (sb c.c_script) (string_of_n c.c_id)
let show_racct a = Printf.sprintf "%s.%s.%s" (string_of_n a.ra_net) (sb a.ra_cred.cr_script) (hex_of_bytes a.ra_cred.cr_hash)
let show_voter = function
  | VCC c -> Printf.sprintf "0.%s.%s" (sb c.cr_script) (hex_of_bytes c.cr_hash)
  | VDRep c -> Printf.sprintf "1.%s.%s" (sb c.cr_script) (hex_of_bytes c.cr_hash)
  | VSPO h -> Printf.sprintf "2.0.%s" (hex_of_bytes h)
let show_prop p = Printf.sprintf "%s.%s.%s" (string_of_n p.p_kind)
    (match p.p_policy with None -> "~" | Some h -> hex_of_bytes h) (string_of_n p.p_id)
let show_red r = Printf.sprintf "%s.%s.%s" (string_of_n (tag_code r.r_tag)) (string_of_n r.r_index) (string_of_n r.r_data)
let show_list tag f l = String.concat " " ((tag :: string_of_int (List.length l) :: List.map f l))
let show_flags fl = if fl = [] then "-" else String.concat "" (List.map sb fl)
let show_obs sel (flags, r) =
  match r with
  | Ok b ->
    String.concat " " ["ok"; "E"; show_flags flags; show_list "S" show_outpoint sel;
                       show_list "I" show_outpoint b.b_inputs; show_list "C" show_outpoint b.b_collateral;
                       show_list "M" hex_of_bytes b.b_policies; show_list "X" show_cert b.b_certs;
                       show_list "W" show_racct b.b_withdrawals; show_list "V" show_voter b.b_voters;
                       show_list "G" show_prop b.b_proposals; show_list "R" show_red b.b_redeemers]
  | _ -> "builderr E " ^ show_flags flags ^ " " ^ show_list "S" show_outpoint sel

(* ---- parsing the implementation's observation ---- *)
let split_on c s = String.split_on_char c s
let parse_outpoint s = match split_on ':' s with [h; i] -> (bytes_of_hex h, n_of_string i) | _ -> failwith "obs: outpoint"
let parse_cert s = match split_on '.' s with
  | [k; sc; id] -> { c_kind = n_of_string k; c_script = b01 sc; c_id = n_of_string id } | _ -> failwith "obs: cert"
let parse_racct s = match split_on '.' s with
  | [n; sc; h] -> { ra_net = n_of_string n; ra_cred = { cr_script = b01 sc; cr_hash = bytes_of_hex h } } | _ -> failwith "obs: racct"
let parse_voter s = match split_on '.' s with
  | ["0"; sc; h] -> VCC { cr_script = b01 sc; cr_hash = bytes_of_hex h }
  | ["1"; sc; h] -> VDRep { cr_script = b01 sc; cr_hash = bytes_of_hex h }
  | ["2"; _; h] -> VSPO (bytes_of_hex h)
  | _ -> failwith "obs: voter"
let parse_prop s = match split_on '.' s with
  | [k; p; id] -> { p_kind = n_of_string k; p_policy = (if p = "~" then None else Some (bytes_of_hex p)); p_id = n_of_string id }
  | _ -> failwith "obs: proposal"
let tag_of_code = function
  | 0 -> TSpend | 1 -> TMint | 2 -> TCert | 3 -> TReward | 4 -> TVote | 5 -> TPropose | _ -> failwith "obs: tag"
let parse_red s = match split_on '.' s with
  | [t; i; d] -> { r_tag = tag_of_code (int_of_string t); r_index = n_of_string i; r_data = n_of_string d }
  | _ -> failwith "obs: redeemer"

(* the inputs the builder selected by itself (coin selection), reported by the harness after the flags *)
let parse_selected (impl : string list) : outpoint list =
  match impl with
  | _ :: "E" :: _ :: "S" :: n :: rest ->
    let rec take k l = if k = 0 then [] else (match l with x :: t -> parse_outpoint x :: take (k - 1) t | [] -> failwith "obs: S") in
    take (int_of_string n) rest
  | _ -> []

let parse_built (impl : string list) : built option =
  match impl with
  | "ok" :: "E" :: _ :: rest ->
    let a = Array.of_list rest in
    let pos = ref 0 in
    let next () = let s = a.(!pos) in incr pos; s in
    let section tag f = if next () <> tag then failwith ("obs: expected " ^ tag) else begin
        let n = int_of_string (next ()) in
        let rec rep k = if k = 0 then [] else let x = f (next ()) in x :: rep (k - 1) in rep n end in
    let _ = section "S" parse_outpoint in
    let i = section "I" parse_outpoint in
    let c = section "C" parse_outpoint in
    let m = section "M" bytes_of_hex in
    let x = section "X" parse_cert in
    let w = section "W" parse_racct in
    let v = section "V" parse_voter in
    let g = section "G" parse_prop in
    let r = section "R" parse_red in
    Some { b_inputs = i; b_collateral = c; b_policies = m; b_certs = x; b_withdrawals = w; b_voters = v;
           b_proposals = g; b_redeemers = r }
  | _ -> None

let show_verdict = function
  | Holds -> "holds"
  | FailsKnown c -> (match int_of_n c with
      | 1 -> "fails:C10-collateral-plutus"
      | 2 -> "fails:C10-proposal-redeemer-without-script"
      | _ -> "fails:-")
  | FailsUnknown -> "fails:-"

(* cross-check stream for the trusted transcription of the ledger's orders: `ord <type> <a> <b> <lt|gt|eq>` (hand-written
   vectors, corpus/C10/ledger-orders.case) and `lock <kind> <script> <0|1>` for the certificate table; the model result is what
   the SPEC functions of PointersSpec.v say *)
let cmp3 ltb a b = if ltb a b then "lt" else if ltb b a then "gt" else "eq"
let ord_case (toks : string list) : (string * string) option =
  match toks with
  | ["ord"; ty; a; b; expected] ->
    let got = (match ty with
        | "txin" -> cmp3 outpoint_ledger_ltb (parse_outpoint a) (parse_outpoint b)
        | "policy" -> cmp3 policy_ledger_ltb (bytes_of_hex a) (bytes_of_hex b)
        | "racct" -> cmp3 racct_ledger_ltb (parse_racct a) (parse_racct b)
        | "voter" -> cmp3 voter_ledger_ltb (parse_voter a) (parse_voter b)
        | _ -> failwith "ord: type") in
    Some ("ord " ^ got, if got = expected then "holds" else "fails:-")
  | ["lock"; kind; script; expected] ->
    let got = sb (ledger_cert_script_locked { c_kind = n_of_string kind; c_script = b01 script; c_id = n_of_int 0 }) in
    Some ("lock " ^ got, if got = expected then "holds" else "fails:-")
  | _ -> None

let () = run_driver (fun toks impl ->
  match ord_case toks with Some r -> r | None ->
  (* inputs selected by add_inputs_from count as further add-key-input calls (coin selection itself is not C10's subject) *)
  let sel = parse_selected impl in
  let ops = parse_ops toks @ List.map (fun o -> OpIn (InKey o)) sel in
  let m = show_obs sel (model_obs ops) in
  let v = match impl with
    | [] -> "na"                                         (* no implementation result given *)
    | "builderr" :: _ -> "na"                            (* nothing was built: the property speaks about built transactions *)
    | _ -> (match parse_built impl with
        | Some b -> show_verdict (judge ops b)
        | None -> "fails:-") in                          (* panic or malformed observation *)
  (m, v))
