(* C01 driver.  Two modes:
     c01_driver gen <seed> <tier> <out>     write schema-walk generated cases  `rt <Type> <hex>`
     c01_driver <cases> <impl>              model result + verdict per case
   The generator only picks values (I/O glue + PRNG); encoding, decoding and validity are the
   extracted Coq functions enc / dec / wfv. *)
let depth = nat_of_int 3
let table : (string * schema) list = [
  "TransactionInput", transactionInput; "TransactionInputs", transactionInputs; "Credential", credential;
  "Credentials", credentials; "Ed25519KeyHashes", ed25519KeyHashes; "DRep", dRep; "Anchor", anchor;
  "UnitInterval", unitInterval; "Relay", relay; "Relays", relays; "PoolMetadata", poolMetadata;
  "ProtocolVersion", protocolVersion; "ExUnits", exUnits; "ExUnitPrices", exUnitPrices; "Nonce", nonce;
  "MoveInstantaneousReward", moveInstantaneousReward; "Certificate", certificate; "Certificates", certificates;
  "Assets", assets; "MultiAsset", multiAsset; "Value", value; "Mint", mint;
  "Withdrawals", withdrawals; "Voter", voter; "GovernanceActionId", governanceActionId;
  "VotingProcedure", votingProcedure; "VotingProcedures", votingProcedures; "Costmdls", costmdls;
  "PoolVotingThresholds", poolVotingThresholds; "DRepVotingThresholds", dRepVotingThresholds;
  "ProtocolParamUpdate", protocolParamUpdate;
  "Constitution", constitution; "GovernanceAction", governanceAction; "VotingProposal", votingProposal;
  "VotingProposals", votingProposals; "ProposedProtocolParameterUpdates", proposedProtocolParameterUpdates;
  "Update", update; "NativeScript", nativeScript depth; "NativeScripts", nativeScripts depth;
  "PlutusScripts", plutusScripts; "PlutusData", plutusData depth; "PlutusList", plutusList depth;
  "Redeemers", redeemers depth; "TransactionMetadatum", metadatum depth;
  "GeneralTransactionMetadata", generalTransactionMetadata depth; "AuxiliaryData", auxiliaryData depth;
  "ScriptRef", scriptRef depth;
  "TransactionOutputLegacy", transactionOutputLegacy; "TransactionOutputLegacyDH", transactionOutputLegacyDH;
  "TransactionOutputMap", transactionOutputMap depth; "TransactionOutput", transactionOutput depth;
  "TransactionOutputs", transactionOutputs depth; "TransactionBody", transactionBody depth;
  "Vkeywitness", vkeywitness; "Vkeywitnesses", vkeywitnesses; "BootstrapWitness", bootstrapWitness;
  "BootstrapWitnesses", bootstrapWitnesses; "TransactionWitnessSet", transactionWitnessSet depth;
  "Transaction", transaction depth; "VRFCert", vRFCert; "OperationalCert", operationalCert;
  "HeaderBody", headerBody; "Header", header; "HeaderBodyPraos", headerBodyPraos; "HeaderPraos", headerPraos;
  "Block", block depth; "Int", intS;
  (* stand-alone members of the variant types and further public types *)
  "BlockPraos", blockPraos depth; "StakeRegistration", stakeRegistration; "StakeDeregistration", stakeDeregistration;
  "StakeDelegation", stakeDelegation; "PoolParams", poolParams; "PoolRegistration", poolRegistration;
  "PoolRetirement", poolRetirement; "GenesisKeyDelegation", genesisKeyDelegation;
  "MoveInstantaneousRewardsCert", moveInstantaneousRewardsCert; "VoteDelegation", voteDelegation;
  "StakeAndVoteDelegation", stakeAndVoteDelegation; "StakeRegistrationAndDelegation", stakeRegistrationAndDelegation;
  "VoteRegistrationAndDelegation", voteRegistrationAndDelegation;
  "StakeVoteRegistrationAndDelegation", stakeVoteRegistrationAndDelegation; "CommitteeHotAuth", committeeHotAuth;
  "CommitteeColdResign", committeeColdResign; "DRepRegistration", dRepRegistration; "DRepDeregistration", dRepDeregistration;
  "DRepUpdate", dRepUpdate; "SingleHostAddr", singleHostAddr; "SingleHostName", singleHostName; "MultiHostName", multiHostName;
  "Ipv4", ipv4; "Ipv6", ipv6; "URL", uRL; "DNSRecordAorAAAA", dNSName; "DNSRecordSRV", dNSName; "Committee", committee;
  "ParameterChangeAction", parameterChangeAction; "HardForkInitiationAction", hardForkInitiationAction;
  "TreasuryWithdrawalsAction", treasuryWithdrawalsAction; "NoConfidenceAction", noConfidenceAction;
  "UpdateCommitteeAction", updateCommitteeAction; "NewConstitutionAction", newConstitutionAction;
  "MetadataList", metadataList depth; "MetadataMap", metadataMap depth;
  "ConstrPlutusData", constrPlutusData depth; "BigInt", bigInt; "Redeemer", redeemer depth; "RedeemerTag", redeemerTag;
  "Language", language; "CostModel", costModel; "NetworkId", networkId; "Vkey", vkey; "AssetName", assetNameS;
  "PlutusScript", plutusScriptBytes; "MIRToStakeCredentials", mIRToStakeCredentials;
  "TransactionBodies", transactionBodies depth; "TransactionWitnessSets", transactionWitnessSets depth;
  "TransactionUnspentOutput", transactionUnspentOutput depth;
  "ScriptPubkey", scriptPubkey; "ScriptAll", scriptAll (nat_of_int 2); "ScriptAny", scriptAny (nat_of_int 2);
  "ScriptNOfK", scriptNOfK (nat_of_int 2); "TimelockStart", timelockStart; "TimelockExpiry", timelockExpiry;
  "AssetNames", assetNames; "GenesisHashes", genesisHashes; "ScriptHashes", scriptHashes; "RewardAddresses", rewardAddresses;
  "TransactionMetadatumLabels", transactionMetadatumLabels; "BigNum", bigNum; "VersionedBlock", versionedBlock depth;
  (* the same wire shape as Transaction; it re-emits its kept slices verbatim, so it is not in the repeats stream *)
  "FixedTransaction", fixedTransaction depth ]

(* stream (ii) types: the schema of the form the API builds (e.g. header bodies are always built in the Praos form) *)
let api_table : (string * schema) list = [
  "HeaderBody", headerBodyPraos; "Header", headerPraos; "Block", blockPraos depth; "ValueEmptyAssets", value;
  (* stream (ii) only: Rust identifies keys that are equal as data but written differently (definite / indefinite
     list, original bytes), so model-generated maps with such keys are outside the writer image *)
  "PlutusMap", plutusMap depth;
  (* stream (iii): a FixedTransaction is a transaction on the wire *)
  "FixedTransaction", transaction depth ] @ table

(* ---------- PRNG (SplitMix64) ---------- *)
let st = ref 0L
let next () : int64 =
  st := Int64.add !st 0x9E3779B97F4A7C15L;
  let z = ref !st in
  z := Int64.mul (Int64.logxor !z (Int64.shift_right_logical !z 30)) 0xBF58476D1CE4E5B9L;
  z := Int64.mul (Int64.logxor !z (Int64.shift_right_logical !z 27)) 0x94D049BB133111EBL;
  Int64.logxor !z (Int64.shift_right_logical !z 31)
let below (n : int) : int = if n <= 0 then 0 else Int64.to_int (Int64.unsigned_rem (next ()) (Int64.of_int n))
let bz_u64 () : BZ.t = BZ.of_string (Printf.sprintf "%Lu" (next ()))
let edges = List.map BZ.of_string ["0";"1";"23";"24";"25";"255";"256";"65535";"65536";"4294967295";"4294967296";
                                   "9223372036854775807";"9223372036854775808";"18446744073709551614";"18446744073709551615"]
let gen_uint (bits : int) : BZ.t =
  let lim = BZ.shift_left BZ.one bits in
  let v = match below 10 with
    | 0 | 1 | 2 | 3 -> List.nth edges (below (List.length edges))
    | 4 -> BZ.of_int (below 1000)
    | 5 -> BZ.of_int (below 10_000_000)
    | 6 -> BZ.shift_right (bz_u64 ()) (below 64)
    | 7 -> BZ.pred lim
    | _ -> bz_u64 () in
  if BZ.lt v lim then v else BZ.rem v lim
let gen_bytes (len : int) : n list = List.init len (fun _ -> n_of_int (below 256))
let gen_text (len : int) : n list = List.init len (fun _ -> n_of_int (32 + below 95))
let gen_address () : n list =
  let net = below 2 in
  match below 4 with
  | 0 -> n_of_int (0x60 + 0x10 * below 2 + net) :: gen_bytes 28           (* enterprise key/script *)
  | 1 -> n_of_int (0xe0 + 0x10 * below 2 + net) :: gen_bytes 28           (* reward *)
  | _ -> n_of_int (0x10 * below 4 + net) :: gen_bytes 56                  (* base, 4 credential-kind combinations *)
let gen_reward_address () : n list = n_of_int (0xe0 + 0x10 * below 2 + below 2) :: gen_bytes 28

let rec slist_to_list = function SNil -> [] | SCons (s, r) -> s :: slist_to_list r
let rec vlist_to_list = function ANil -> [] | ACons (i, fs, r) -> (i, fs) :: vlist_to_list r
let rec clist_to_list = function CNil -> [] | CCons (d, s, r) -> (d, s) :: clist_to_list r
let rec klist_to_list = function KNil -> [] | KCons (k, p, s, r) -> (k, p, s) :: klist_to_list r

let coll_len (lo : int) (size : int) : int =
  if size <= 0 then lo else
  match below 12 with
  | 0 -> lo | 1 | 2 | 3 -> max lo 1 | 4 | 5 -> max lo 2 | 6 -> max lo 3
  | 7 -> if size >= 4 then max lo 24 else max lo 2
  | 8 -> if size >= 5 then max lo 25 else max lo 1
  | _ -> max lo (below 5)
let is_empty_v = is_empty_val
let cmp_bytes (a : n list) (b : n list) : int = compare (List.map int_of_n a) (List.map int_of_n b)

let rec gen (s : schema) (size : int) : val0 =
  match s with
  | SUint lim -> let l = bz_of_n lim in
    let v = gen_uint 64 in VNat (n_of_bz (if BZ.lt v l then v else BZ.rem v l))
  | SNint -> VNeg (n_of_bz (gen_uint 64))
  | SBytes (lo, hi) ->
    let lo = int_of_n lo and hi = (try int_of_n hi with _ -> max_int) in
    begin
      let hi' = min hi (lo + 300) in
      let len = match below 6 with 0 -> lo | 1 -> hi' | 2 -> min hi' (max lo 24) | 3 -> min hi' (max lo 23) | _ -> lo + below (hi' - lo + 1) in
      VBytes (gen_bytes len)
    end
  | SText hi -> let hi = int_of_n hi in
    let len = match below 5 with 0 -> 0 | 1 -> hi | 2 -> min hi 24 | _ -> below (hi + 1) in VText (gen_text len)
  | SBool -> VBool (below 2 = 0)
  | SArr fs -> VList (List.map (fun f -> gen f (size - 1)) (slist_to_list fs))
  | SMap fs ->
    let mode = below 6 in   (* 0: only required, 1: everything, else: coin flips *)
    VStruct (List.map (fun (_, p, f) ->
        match p with
        | Req -> Some (gen f (size - 1))
        | Opt | OptNE ->
          let take = (mode = 1) || (mode >= 2 && below 3 = 0) in
          if not take then None else begin
            let v = ref (gen f (size - 1)) in
            let tries = ref 0 in
            while p = OptNE && is_empty_v !v && !tries < 20 do v := gen f (max 1 (size - 1)); incr tries done;
            if p = OptNE && is_empty_v !v then None else Some !v
          end) (klist_to_list fs))
  | SVar alts -> let l = vlist_to_list alts in let i = below (List.length l) in
    let (_, fs) = List.nth l i in VVar (nat_of_int i, List.map (fun f -> gen f (size - 1)) (slist_to_list fs))
  | SArrOf (lo, s') ->
    (* long arrays of whole transaction bodies / witness sets only cost time (the 24/25 boundary of the array head is
       exercised on every lighter element type) *)
    let heavy = (match s' with SMap fs -> List.length (klist_to_list fs) > 6 | _ -> false) in
    let n = coll_len (int_of_n lo) size in
    let n = if heavy then min n 3 else n in
    VList (List.init n (fun _ -> gen s' (size - 2)))
  | SSetOf s' -> let n = coll_len 0 size in VList (dedup s' (List.init n (fun _ -> gen s' (size - 2))))
  | SMapOf (lo, ord, k, v) ->
    let n = coll_len (int_of_n lo) size in
    let l = List.init n (fun _ -> (gen k (size - 2), gen v (size - 2))) in
    (* a Vec-backed map may repeat a key *)
    (* (repeated keys adjacent: that is how every writer emits them, PlutusMap groups the values of a key) *)
    let l = dedup_keys k l in
    let l = if ord = KMulti && below 3 = 0 then (match l with (a, b) :: r -> (a, b) :: (a, gen v (size - 2)) :: r | [] -> []) else l in
    let l = match ord with
      | KInsertion -> l
      | KMulti -> l
      | KBytewise -> List.sort (fun (a, _) (b, _) -> cmp_bytes (enc k a) (enc k b)) l
      | KRewardAddr -> List.sort (fun (a, _) (b, _) -> cmp_bytes (reward_sort_key (enc k a)) (reward_sort_key (enc k b))) l in
    VMap l
  | SNullable s' -> if below 3 = 0 then VNull else gen s' size
  | STag (_, s') -> gen s' size
  | SInBytes s' -> gen s' size
  | SChoice alts | STagChoice alts -> let l = clist_to_list alts in
    (* with no size budget left prefer the leaf-like (last) alternatives *)
    let k = List.length l in
    let i = if size <= 0 then k - 1 - below (min k 3) else below k in
    let (_, s') = List.nth l i in VAlt (nat_of_int i, gen s' (size - 1))
  | SArrAny s' -> let n = coll_len 0 size in
    VAlt (nat_of_int (below 2), VList (List.init n (fun _ -> gen s' (size - 2))))
  | SNamed (id, s') ->
    let id = int_of_n id in
    if id = 1 then VBytes (gen_address ())
    else if id = 2 then VBytes (gen_reward_address ())
    else if id = 6 then VBytes (n_of_int (1 + below 255) :: gen_bytes (match below 4 with 0 -> 8 | 1 -> 63 | 2 -> 64 + below 3 | _ -> 8 + below 120))
    else if id = 7 then (match gen s' size with
        | VList (_ :: rest) -> VList (VNat (n_of_bz (if below 3 = 0 then BZ.of_int 128 else BZ.add (BZ.of_int 128) (BZ.shift_right (bz_u64 ()) (1 + below 63)))) :: rest)
        | v -> v)
    else begin
      (* rejection sampling into the writer image (Coq predicate writer_form) *)
      let v = ref (gen s' size) in
      let tries = ref 0 in
      while not (writer_form (n_of_int id) !v) && !tries < 50 do v := gen s' (max size 2 + !tries / 10); incr tries done;
      (* a multi-asset value is only written when some policy has an asset: make one if sampling found none *)
      if id = 5 && not (writer_form (n_of_int id) !v) then
        VList [VNat (n_of_bz (gen_uint 64)); VMap [(VBytes (gen_bytes 28), VMap [(VBytes (gen_bytes (below 33)), VNat (n_of_bz (gen_uint 64)))])]]
      else !v
    end
  | SArrOpt (fs, o) ->
    let l = List.map (fun f -> gen f (size - 1)) (slist_to_list fs) in
    if below 2 = 0 then VAlt (nat_of_int 0, VList l) else VAlt (nat_of_int 1, VList (gen o (size - 1) :: l))
  | SBBytes -> let len = (match below 8 with 0 -> 0 | 1 -> 1 | 2 -> 63 | 3 -> 64 | 4 -> 65 | 5 -> 128 | 6 -> 129 + below 100 | _ -> below 64) in
    VBytes (gen_bytes len)
and dedup s' l =
  let seen = Hashtbl.create 16 in
  List.filter (fun v -> let e = enc s' v in if Hashtbl.mem seen e then false else (Hashtbl.add seen e (); true)) l
and dedup_keys k l =
  let seen = Hashtbl.create 16 in
  List.filter (fun (a, _) -> let e = enc k a in if Hashtbl.mem seen e then false else (Hashtbl.add seen e (); true)) l

(* de-canonicalise a domain value: repeat items of sets, give sorted maps out of order, now and then repeat a map key *)
let messed = ref false
let rec mess (s : schema) (v : val0) : val0 =
  match s, v with
  | SArr fs, VList l -> VList (mess_sl (slist_to_list fs) l)
  | SMap fs, VStruct l ->
    let kl = klist_to_list fs in
    (* the witness set (keys 0 1 2 3 6 7 4 5): its native-script and Plutus-script "sets" are plain vectors in the library -
       repeated scripts read from the wire are kept - while the model treats every tag-258 set alike and drops them
       (documented divergence, notes/design/C01.md); repeats are therefore not generated at these four fields *)
    let is_ws = List.map (fun (k, _, _) -> int_of_n k) kl = [0; 1; 2; 3; 6; 7; 4; 5] in
    VStruct (List.map2 (fun (k, _, f) o -> match o with
        | Some x -> if is_ws && List.mem (int_of_n k) [1; 3; 6; 7] then Some x else Some (mess f x)
        | None -> None) kl l)
  | SVar alts, VVar (i, l) -> let (_, fs) = List.nth (vlist_to_list alts) (int_of_nat i) in VVar (i, mess_sl (slist_to_list fs) l)
  | SArrOf (_, s'), VList l -> VList (List.map (mess s') l)
  | SSetOf s', VList l ->
    let l = List.map (mess s') l in
    let l' = if l <> [] && below 2 = 0 then begin
        messed := true;
        let x = List.nth l (below (List.length l)) in
        (match below 3 with 0 -> l @ [x] | 1 -> x :: l | _ -> List.concat (List.map (fun y -> if y == x then [y; y] else [y]) l))
      end else l in
    VList l'
  | SMapOf (_, ord, k, v'), VMap l ->
    let l = List.map (fun (a, b) -> (mess k a, mess v' b)) l in
    let n = List.length l in
    (match ord with
     | KMulti -> VMap l
     | KInsertion ->
       (* a repeated key is an error in Withdrawals, ProposedProtocolParameterUpdates, MIRToStakeCredentials; the metadata maps
          (uint / metadatum keys) silently keep one entry in the library where the model answers Err (documented divergence):
          no repeats generated there *)
       let strict_key = (match k with SUint _ | SChoice _ -> false | _ -> true) in
       if strict_key && n > 0 && below 4 = 0 then (messed := true; VMap (l @ [List.hd l])) else VMap l
     | KBytewise | KRewardAddr ->
       if n > 0 && below 8 = 0 then (messed := true; VMap (l @ [List.hd l]))
       else if n > 1 && below 2 = 0 then (messed := true; VMap (if below 2 = 0 then List.rev l else List.tl l @ [List.hd l]))
       else VMap l)
  | SNullable _, VNull -> VNull
  | SNullable s', _ -> mess s' v
  | STag (_, s'), _ -> mess s' v
  | SInBytes s', _ -> mess s' v
  | (SChoice alts | STagChoice alts), VAlt (i, x) -> let (_, s') = List.nth (clist_to_list alts) (int_of_nat i) in VAlt (i, mess s' x)
  | SArrAny s', VAlt (i, VList l) -> VAlt (i, VList (List.map (mess s') l))
  | SNamed (_, s'), _ -> mess s' v
  | SArrOpt (fs, o), VAlt (O, VList l) -> VAlt (O, VList (mess_sl (slist_to_list fs) l))
  | SArrOpt (fs, o), VAlt (i, VList (x :: l)) -> VAlt (i, VList (mess o x :: mess_sl (slist_to_list fs) l))
  | _, _ -> v
and mess_sl fs l = match fs, l with f :: fr, x :: lr -> mess f x :: mess_sl fr lr | _, _ -> l

let gen_mode seed tier out =
  st := Int64.of_string seed;
  ignore (next ());
  let oc = open_out out in
  let per = if tier = "thorough" then 800 else 64 in
  List.iter (fun (name, s) ->
      (* wfs s = true is a theorem (ledger_schemas_wf, for every depth); it is not re-evaluated here: the
         unrolled PlutusData schema at depth 3 has 130^3 nodes as a tree *)
      for i = 0 to per - 1 do
        let size = [| 0; 1; 2; 3; 4; 5; 6; 8 |].(i mod 8) in
        let v = gen s size in
        if wfv s v then Printf.fprintf oc "rt %s %s\n" name (hex_of_bytes (enc s v))
        else Printf.fprintf oc "gen_invalid %s %s\n" name (hex_of_bytes (enc s v))
      done) table;
  (* stream (iv): repeats and order on the wire *)
  let per_rs = if tier = "thorough" then 300 else 24 in
  List.iter (fun (name, s) ->
      let tries = ref 0 and made = ref 0 in
      while !made < per_rs && !tries < 3 * per_rs do
        incr tries;
        let v = gen s [| 3; 4; 5; 6; 8 |].(!tries mod 5) in
        if wfv s v && refined writer_form s v then begin
          messed := false;
          let v' = mess s v in
          if !messed then (incr made; Printf.fprintf oc "rs %s %s\n" name (hex_of_bytes (enc s v')))
        end
      done) (List.filter (fun (n, _) -> n <> "FixedTransaction") table);
  close_out oc

let run_mode () = run_driver (fun toks impl ->
  match toks with
  | ["rt"; name; hexs] ->
    (match List.assoc_opt name table with
     | None -> ("skip unknown-type", "na")
     | Some s ->
       let bs = bytes_of_hex hexs in
       (match dec s bs with
        | Ok (v, []) when (let has_min = (try ignore (Str.search_forward (Str.regexp_string "3b7fffffffffffffff") hexs 0); true with Not_found -> false) in
                           has_min && impl = ["panic"]) ->
          (* the model reproduces the known defect so that the correspondence stays exact *)
          ("panic", if wfv s v && refined writer_form s v then "fails:C14-int-min-debug-panic" else "na")
        | Ok (v, []) ->
          let re = hex_of_bytes (enc s v) in
          (* C01 on the implementation: decoding succeeds, re-encoding gives exactly the input, the hex entry
             points agree, and the decoded value equals its own re-decoding; the domain is "the model accepts
             and re-encodes identically", i.e. the input is a canonical encoding of a schema-valid value *)
          let dom = wfv s v && refined writer_form s v && re = hexs in
          (* known finding C14-int-min-debug-panic: serialising the integer -2^63 panics in builds with
             overflow checks (cbor_event negates i64::MIN) *)
          let has_min = (try ignore (Str.search_forward (Str.regexp_string "3b7fffffffffffffff") hexs 0); true with Not_found -> false) in
          let verdict = if not dom then "na" else if impl = ["ok"; hexs] then "holds"
            else if has_min && impl = ["panic"] then "fails:C14-int-min-debug-panic" else "fails:-" in
          ("ok " ^ re, verdict)
        | Ok (_, _) -> ("err", "na")
        | Err -> ("err", "na")
        | Panic -> ("panic", "na")
        | OutOfFuel -> ("outoffuel", "na")))
  | ["rs"; name; hexs] ->
    (* stream (iv): encodings with repeated set items, unsorted / repeated map keys.  Correspondence of the library-faithful
       decoder sdec (the one C01_dec_sound is about) with the library: same accept / reject, same re-encoding. *)
    (match List.assoc_opt name table with
     | None -> ("skip unknown-type", "na")
     | Some s ->
       (match sdec s (bytes_of_hex hexs) with
        | Ok (v, []) -> ("ok " ^ hex_of_bytes (enc s v), "na")
        | Ok (_, _) -> ("err", "na")
        | Err -> ("err", "na")
        | Panic -> ("panic", "na")
        | OutOfFuel -> ("outoffuel", "na")))
  | ["api"; name; _plan; _seed] ->
    (* stream (ii): the implementation's own bytes b (built through the public API) are fed to the model:
       dec s b must accept all of b, the decoded value must be in the domain of the round-trip theorem and
       re-encode to b.  The verdict is the round-trip statement evaluated on the implementation's results. *)
    (match List.assoc_opt name api_table with
     | None -> ("skip unmodelled-type", "na")
     | Some s ->
       (* model side: api_model_accepts (Coq) = the bytes are a complete encoding of a value in the domain of the
          round-trip theorem that re-encodes to exactly these bytes; verdict: api_holds (Coq) on the observations *)
       let model_of b = (match sdec_accepts s b with
         | Some re -> let h = hex_of_bytes re in "ok " ^ h ^ " " ^ h
         | None -> (match dec s b with
             | Ok (_, []) -> "model-outside-domain" | Ok (_, _) -> "model-trailing" | Err -> "model-err"
             | Panic -> "model-panic" | OutOfFuel -> "model-outoffuel")) in
       (match impl with
        | "ok" :: hb :: hre :: flags ->
          let b = bytes_of_hex hb in
          let model = model_of b in
          (* known finding C01-plutus-script-language: a stand-alone Plutus script loses its language *)
          let lang = flags = ["selfcheck:eq-language"] && (name = "PlutusScript" || name = "PlutusScripts") in
          let verdict = if api_holds b true (bytes_of_hex hre) (flags = []) then "holds"
            else if lang && api_holds b true (bytes_of_hex hre) true then "fails:C01-plutus-script-language"
            else "fails:-" in
          ((if lang then model ^ " selfcheck:eq-language" else model), verdict)
        | ["deerr"; hb] ->
          let b = bytes_of_hex hb in
          (model_of b, if api_holds b false [] true then "holds" else "fails:-")
        | ["panic"] -> ("model-nobytes", "fails:-")
        | _ -> ("driver-badimpl", "na")))
  | ["mut"; name; _op; _seed; variant; _src] ->
    (* stream (iii): a decoded value was mutated through one setter / add / insert and encoded again; the harness compared the
       re-decoded value with the mutated one field by field through the accessors (flags).  The model must accept the new
       bytes and re-encode them identically, and - where the setter's argument has a stand-alone serialisation that is also
       its embedded form - must find exactly those bytes under the field's key (token f<key>=<hex|~>). *)
    (match List.assoc_opt name api_table with
     | None -> ("skip unmodelled-type", "na")
     | Some s ->
       (match impl with
        | "ok" :: hb :: hre :: rest ->
          let b = bytes_of_hex hb in
          let ftok = List.filter (fun t -> String.length t > 1 && t.[0] = 'f' && String.contains t '=') rest in
          let flags = List.filter (fun t -> not (List.mem t ftok)) rest in
          let fmodel = List.map (fun t ->
              let i = String.index t '=' in
              let k = String.sub t 1 (i - 1) in
              "f" ^ k ^ "=" ^ (match api_model_field s b (n_of_string k) with Some fb -> hex_of_bytes fb | None -> "~")) ftok in
          let model = (match sdec_accepts s b with
            | Some re -> let h = hex_of_bytes re in String.concat " " (["ok"; h; h] @ fmodel)
            | None ->
              (* re-framed sources (set tags stripped, indefinite outer container) may keep a form the model's decoder
                 does not read: the accessor comparison alone judges these *)
              if variant <> "0" then String.concat " " (["ok"; hb; hre] @ ftok)
              else (match dec s b with Ok (_, []) -> "model-outside-domain" | Ok (_, _) -> "model-trailing" | _ -> "model-err")) in
          (model, if api_holds b true (bytes_of_hex hre) (flags = []) then "holds" else "fails:-")
        | ["deerr"; hb] -> ("model-n/a", "fails:-")
        | "skip" :: _ -> (String.concat " " impl, "na")
        | ["panic"] -> ("model-nobytes", "fails:-")
        | _ -> ("driver-badimpl", "na")))
  | ["bad_schema"; name] -> ("bad_schema", "fails:model-schema-" ^ name)
  | ["gen_invalid"; name; _] -> ("gen_invalid", "na")
  | _ -> ("driver-badcase", "na"))

let () =
  if Array.length Sys.argv >= 5 && Sys.argv.(1) = "gen" then gen_mode Sys.argv.(2) Sys.argv.(3) Sys.argv.(4)
  else run_mode ()
