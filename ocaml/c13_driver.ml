(* C13 driver: parses a case line (UTxO set, configuration) and the implementation's result (transactions and
   their signed forms, as bytes) and evaluates the Coq-extracted judge [BatchSpec.judge] = the C13 statement.
   I/O glue only. *)
let ns = n_of_string
let rec take n l = if n = 0 then [] else match l with x :: r -> x :: take (n - 1) r | [] -> failwith "short"
let code_name c = match int_of_n c with
  | 1 -> "parse" | 2 -> "partition" | 3 -> "target" | 4 -> "coin" | 5 -> "assets" | 6 -> "fee" | 7 -> "txsize"
  | 8 -> "valuesize" | 9 -> "minada" | 10 -> "bodyshape" | 11 -> "signed" | 12 -> "valid" | k -> string_of_int k

(* per UTxO: txid ix kind pay stake addr coin ma *)
let rec read_utxos n toks acc =
  if n = 0 then (List.rev acc, toks) else
  match toks with
  | txid :: ix :: _kind :: _pay :: _stake :: addr :: coin :: ma :: rest ->
    let assets, rest =
      if ma = "~" then ([], rest) else begin
        let np = int_of_string ma in
        let rec pols k toks acc =
          if k = 0 then (List.rev acc, toks) else
          match toks with
          | p :: na :: rest ->
            let na = int_of_string na in
            let pb = bytes_of_hex p in
            let rec assets j toks acc =
              if j = 0 then (acc, toks) else
              match toks with
              | nm :: q :: rest -> assets (j - 1) rest (((pb, bytes_of_hex nm), ns q) :: acc)
              | _ -> failwith "assets" in
            let (acc, rest) = assets na rest acc in
            pols (k - 1) rest acc
          | _ -> failwith "policy" in
        let (l, rest) = pols np rest [] in (l, rest)
      end in
    let u = { u_txid = bytes_of_hex txid; u_ix = ns ix; u_addr = bytes_of_hex addr; u_coin = ns coin; u_assets = assets } in
    read_utxos (n - 1) rest (u :: acc)
  | _ -> failwith "utxo"

let rec pairs = function a :: b :: r -> (bytes_of_hex a, bytes_of_hex b) :: pairs r | _ -> []

let () = run_driver (fun toks impl ->
  match toks with
  | "sa" :: target :: a :: b :: cpb :: mvs :: mts :: n :: rest ->
    let (us, _) = read_utxos (int_of_string n) rest [] in
    let cfg = { c_a = ns a; c_b = ns b; c_cpb = ns cpb; c_max_value = ns mvs; c_max_tx = ns mts } in
    (match impl with
     | "ok" :: k :: txs ->
       let k = int_of_string k in
       let ps = pairs txs in
       if List.length ps <> k then ("driver-badimpl", "na") else
       if not (utxos_distinct us) then ("ok " ^ string_of_int k ^ " duplicate-utxos", "na") else begin
         let viol = judge cfg (bytes_of_hex target) us ps in
         let sums = List.map (fun (t, _) -> match read_tx t with
             | Some p -> String.concat "," (List.map string_of_n (tx_summary p))
             | None -> "unparsed") ps in
         let m = "ok " ^ string_of_int k ^ " " ^ String.concat " " sums in
         match viol with
         | [] -> (m, "holds")
         | _ -> (m ^ " VIOL " ^ String.concat " " (List.map (fun (c, i) -> code_name c ^ "@" ^ string_of_n i) viol), "fails:-")
       end
     | ["err"] -> ("err", "na")
     | ["panic"] -> ("panic", "na")
     | _ -> ("driver-badimpl", "na"))
  | _ -> ("driver-badcase", "na"))
