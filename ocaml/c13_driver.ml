(* C13 driver.  I/O glue only.
   (a) end to end: parses a case line (UTxO set, configuration) and the implementation's result (transactions and their
       signed forms, as bytes) and evaluates the Coq-extracted judge [BatchSpec.judge] = the C13 statement;
   (b) calculator tie (hook H2): replays, through the extracted model of Batch/Proposal.v, the primitive operations the
       implementation applied to every proposal, and prints the model's figures after every set_min_ada_for_tx, the
       witness-set size after every add_utxo, and the sizes / fee / coins of the denoted transaction; `checks/C13.py`
       compares these sections with the implementation's, exactly. *)
let ns = n_of_string
let sn = string_of_n
let code_name c = match int_of_n c with
  | 1 -> "parse" | 2 -> "partition" | 3 -> "target" | 4 -> "coin" | 5 -> "assets" | 6 -> "fee" | 7 -> "txsize"
  | 8 -> "valuesize" | 9 -> "minada" | 10 -> "bodyshape" | 11 -> "signed" | 12 -> "valid" | k -> string_of_int k

(* per UTxO: txid ix kind pay stake addr coin ma; raw = (txid, ix, addr, coin, present, [(policy hex, [(name hex, qty)])]) *)
let rec read_utxos n toks acc =
  if n = 0 then (List.rev acc, toks) else
  match toks with
  | txid :: ix :: _kind :: _pay :: _stake :: addr :: coin :: ma :: rest ->
    let pols, rest =
      if ma = "~" then ([], rest) else begin
        let np = int_of_string ma in
        let rec pols k toks acc =
          if k = 0 then (List.rev acc, toks) else
          match toks with
          | p :: na :: rest ->
            let na = int_of_string na in
            let rec assets j toks acc =
              if j = 0 then (List.rev acc, toks) else
              match toks with
              | nm :: q :: rest -> assets (j - 1) rest ((nm, q) :: acc)
              | _ -> failwith "assets" in
            let (l, rest) = assets na rest [] in
            pols (k - 1) rest ((p, l) :: acc)
          | _ -> failwith "policy" in
        pols np rest []
      end in
    read_utxos (n - 1) rest ((txid, ix, addr, coin, ma <> "~", pols) :: acc)
  | _ -> failwith "utxo"

let judge_utxo (txid, ix, addr, coin, _, pols) =
  { u_txid = bytes_of_hex txid; u_ix = ns ix; u_addr = bytes_of_hex addr; u_coin = ns coin;
    u_assets = List.concat_map (fun (p, l) -> let pb = bytes_of_hex p in
                                 List.map (fun (nm, q) -> ((pb, bytes_of_hex nm), ns q)) l) pols }

let rec pairs = function a :: b :: r -> (bytes_of_hex a, bytes_of_hex b) :: pairs r | _ -> []
let rec split_bar acc cur = function
  | [] -> List.rev (List.rev cur :: acc)
  | "|" :: r -> split_bar (List.rev cur :: acc) [] r
  | x :: r -> split_bar acc (x :: cur) r

(* the static data of AssetCategorizer::new: assets numbered by first occurrence, UTxOs in order, policies of a UTxO in
   bytewise order, the assets of a policy in AssetName order (length, then bytes) *)
let name_len nm = if nm = "-" then 0 else String.length nm / 2
let build_ctx target a b cpb mvs mts raws bsizes =
  let assets : (string * string, int) Hashtbl.t = Hashtbl.create 64 in
  let policies : (string, int) Hashtbl.t = Hashtbl.create 64 in
  let owners : (string, int) Hashtbl.t = Hashtbl.create 16 in
  let ainfo = ref [] and oinfo = ref [] in
  let totals : (int, BZ.t) Hashtbl.t = Hashtbl.create 64 in
  let us = List.mapi (fun i (txid, ix, addr, coin, present, pols) ->
    let pols = List.sort (fun (p, _) (q, _) -> compare p q) pols in
    (* BTreeMap semantics of set_asset: a repeated name keeps the last quantity *)
    let held = List.concat_map (fun (p, l) ->
      if not (Hashtbl.mem policies p) then Hashtbl.add policies p (Hashtbl.length policies);
      let l = List.sort (fun (n1, _) (n2, _) -> compare (name_len n1, n1) (name_len n2, n2)) l in
      List.map (fun (nm, q) ->
        let key = (p, nm) in
        if not (Hashtbl.mem assets key) then begin
          Hashtbl.add assets key (Hashtbl.length assets);
          ainfo := (Hashtbl.find policies p, name_len nm) :: !ainfo
        end;
        let ai = Hashtbl.find assets key in
        Hashtbl.replace totals ai (BZ.add (try Hashtbl.find totals ai with Not_found -> BZ.zero) (BZ.of_string q));
        (n_of_int ai, ns q)) l) pols in
    if not (Hashtbl.mem owners addr) then begin
      Hashtbl.add owners addr (Hashtbl.length owners);
      let h = int_of_string ("0x" ^ String.sub addr 0 1) in
      oinfo := (if h < 8 then (if h mod 2 = 0 then KVkey else KScript)
                else if h = 8 then KByron (ns (List.nth bsizes i)) else KNone) :: !oinfo
    end;
    let ixn = ns ix in
    { ui_ada = ns coin; ui_input_size = n_of_bz (BZ.add (BZ.of_int 35) (bz_of_n (get_struct_size ixn)));
      ui_owner = n_of_int (Hashtbl.find owners addr); ui_ma_present = present; ui_assets = held }) raws in
  let ainfos = List.mapi (fun i (p, nl) ->
    { ai_policy = n_of_int p; ai_name_len = n_of_int nl; ai_total = n_of_bz (Hashtbl.find totals i) }) (List.rev !ainfo) in
  let total = List.fold_left (fun acc (_, _, _, coin, _, _) -> BZ.add acc (BZ.of_string coin)) BZ.zero raws in
  { cx_utxos = us; cx_assets = ainfos; cx_owners = List.rev !oinfo; cx_addr_size = n_of_int (String.length target / 2);
    cx_a = ns a; cx_b = ns b; cx_cpb = ns cpb; cx_max_value = ns mvs; cx_max_tx = ns mts; cx_ada_total = n_of_bz total }

let show_outs p = String.concat ";" (List.map (fun o -> sn o.o_total_ada ^ ":" ^ sn o.o_min_ada ^ ":" ^ sn o.o_size) p.t_outputs)

(* replay one proposal trace; returns the model's rendering of the trace and of the denoted transaction *)
let replay ctx items =
  let buf = Buffer.create 256 in
  let add s = Buffer.add_char buf ' '; Buffer.add_string buf s in
  let p = ref tp_new and last_size = ref N0 and bad = ref false and pending = ref [] in
  List.iteri (fun i item ->
    if not !bad then begin
    (if String.length item > 0 && item.[0] <> 'V' then pending := []);
    match String.split_on_char ',' item with
    (* the value-size test of add_assets_to_proposal_output: the incrementally maintained IntermediateOutputValue size
       must be the closed form [bound_of] of (assets of the output so far + accepted in this call + this asset) *)
    | ["V"; a; create_new; _sz] ->
      let base = if create_new = "1" then [] else (match List.rev !p.t_outputs with o :: _ -> o.o_assets | [] -> []) in
      let set = List.fold_left (fun acc x -> insertN x acc) base (List.rev (ns a :: !pending)) in
      let sz = bound_of ctx set in
      if BZ.leq (bz_of_n sz) (bz_of_n ctx.cx_max_value) then pending := ns a :: !pending;
      add ("V," ^ a ^ "," ^ create_new ^ "," ^ sn sz)
    | ["N"] -> p := add_new_output !p; add "N"
    | ["A"; a] -> (match step ctx !p (OpAddAsset (ns a)) with Ok q -> p := q; add item | _ -> bad := true; add ("GUARD@" ^ string_of_int i))
    | ["U"; u; _w] -> (match step ctx !p (OpAddUtxo (ns u)) with
        | Ok q -> p := q; add ("U," ^ u ^ "," ^ sn q.t_wit.w_total)
        | _ -> bad := true; add ("GUARD@" ^ string_of_int i))
    | "S" :: _ -> (match set_min_ada_for_tx ctx !p with
        | Ok (q, sz) -> p := q; last_size := sz; add ("S," ^ sn q.t_fee ^ "," ^ sn sz ^ "," ^ show_outs q)
        | _ -> bad := true; add ("ERR@" ^ string_of_int i))
    | ["L"] -> (match add_last_ada_to_last_output !p with Ok q -> p := q; add "L" | _ -> bad := true; add ("ERR@" ^ string_of_int i))
    | _ -> bad := true; add ("BADITEM@" ^ string_of_int i) end) items;
  let real =
    if !bad then "replay-failed" else
    match check_finished ctx !p !last_size with
    | Ok _ -> (match create_tx ctx !p with
        | Ok tx ->
          sn (real_tx_size ctx tx) ^ "," ^ sn tx.x_fee ^ "," ^
          String.concat ";" (List.map (fun (coin, gs) -> sn coin ^ ":" ^ sn (real_out_size ctx coin gs) ^ ":" ^ sn (real_value_size coin gs)) tx.x_outputs)
        | _ -> "create-tx-err")
    | _ -> "check-finished-err" in
  (string_of_int (List.length items) ^ Buffer.contents buf, real)

let show_content (txs : atx list) =
  String.concat " " (List.map (fun tx ->
    let ix = List.sort compare (List.map int_of_n tx.x_inputs) in
    String.concat "+" (List.map string_of_int ix) ^ "," ^ sn tx.x_fee ^ "," ^
    String.concat ";" (List.map (fun (coin, _) -> sn coin) tx.x_outputs)) txs)

(* "<n> u:3,1 a:- a:0,2": the recorded iteration orders *)
let read_oracle (toks : string list) : n list list =
  match toks with
  | _n :: items -> List.map (fun it ->
      match String.index_opt it ':' with
      | Some i -> let body = String.sub it (i + 1) (String.length it - i - 1) in
        if body = "-" || body = "" then [] else List.map ns (String.split_on_char ',' body)
      | None -> []) items
  | [] -> []

let work_budget = (match Sys.getenv_opt "VERIF_TIER" with Some "thorough" -> 600_000 | _ -> 60_000)
let too_much_work (orders : string list) (n_utxos : int) : bool =
  let attempts = List.fold_left (fun acc it ->
    if String.length it > 2 && it.[0] = 'u' then acc + 1 + List.length (String.split_on_char ',' it) else acc) 0 orders in
  attempts * n_utxos > work_budget

let rec take n l = if n = 0 then ([], l) else match l with x :: r -> let (a, b) = take (n - 1) r in (x :: a, b) | [] -> failwith "short"
let rec read_traces k toks acc =
  if k = 0 then List.rev acc else
  match toks with
  | m :: rest -> let (items, rest) = take (int_of_string m) rest in read_traces (k - 1) rest (items :: acc)
  | [] -> failwith "traces"

let () = run_driver (fun toks impl ->
  match toks with
  | "sa" :: target :: a :: b :: cpb :: mvs :: mts :: n :: rest ->
    let (raws, _) = read_utxos (int_of_string n) rest [] in
    let us = List.map judge_utxo raws in
    let cfg = { c_a = ns a; c_b = ns b; c_cpb = ns cpb; c_max_value = ns mvs; c_max_tx = ns mts } in
    (match impl with
     | "ok" :: k :: more ->
       let k = int_of_string k in
       let sections = split_bar [] [] more in
       let txs = List.hd sections in
       let ps = pairs txs in
       if List.length ps <> k then ("driver-badimpl", "na") else
       if not (utxos_distinct us) then ("ok " ^ string_of_int k ^ " duplicate-utxos", "na") else begin
         let viol = judge cfg (bytes_of_hex target) us ps in
         let sums = List.map (fun (t, _) -> match read_tx t with
             | Some p -> String.concat "," (List.map sn (tx_summary p))
             | None -> "unparsed") ps in
         let tie = match sections with
           | [_; tr; bs; _real; content; orders] ->
             (match tr, bs with
              | nt :: trest, _nb :: bsizes ->
                let ctx = build_ctx target a b cpb mvs mts raws bsizes in
                let traces = read_traces (int_of_string nt) trest [] in
                let rs = List.map (replay ctx) traces in
                (* without assets the batcher is deterministic and modelled completely: predict the transactions *)
                ignore content;
                (* the complete model (Batch/AssetPath.v) with the iteration orders the implementation took as its oracle
                   predicts every transaction; without assets the oracle-free model of Batch/PureAda.v must agree with it *)
                (* budget: the model repeats every speculative prototype_append of the implementation; cases whose number of
                   candidate attempts x UTxOs exceeds the tier's budget keep the implementation's content (counted as
                   `full-model-skipped` by checks/C13.py); the trace tie above and the judge still cover them *)
                let skipped = too_much_work orders (List.length raws) in
                let full = if skipped then String.concat " " content else
                  (match create_send_all_model ctx (read_oracle orders) with Ok txs -> show_content txs | _ -> "model-err") in
                let predicted = if skipped then full ^ " full-model-skipped" else if no_assets ctx then
                    (match (if new_ok ctx then pure_send_all ctx else Err) with Ok txs -> if show_content txs = full then full else "pure-vs-full-mismatch" | _ -> "model-err")
                  else full in
                " | " ^ nt ^ " " ^ String.concat " " (List.map fst rs) ^ " | " ^ String.concat " " (List.map snd rs) ^ " | " ^ predicted
              | _ -> " | bad-hook-section")
           | _ -> "" in
         let m = "ok " ^ string_of_int k ^ " " ^ String.concat " " sums in
         match viol with
         | [] -> (m ^ tie, "holds")
         | _ -> (m ^ " VIOL " ^ String.concat " " (List.map (fun (c, i) -> code_name c ^ "@" ^ sn i) viol) ^ tie, "fails:-")
       end
     | "err" :: "|" :: rest ->
       (match split_bar [] [] rest with
        | [_nb :: bsizes; orders] ->
          let ctx = build_ctx target a b cpb mvs mts raws bsizes in
          if too_much_work orders (List.length raws) then ("err full-model-skipped", "na") else
          (match create_send_all_model ctx (read_oracle orders) with
           | Ok txs -> ("ok " ^ string_of_int (List.length txs) ^ " model-predicts-success", "na")
           | Err -> ("err", "na")
           | _ -> ("model-outoffuel-or-panic", "na"))
        | _ -> ("driver-badimpl", "na"))
     | ["err"] -> ("err", "na")
     | ["panic"] -> ("panic", "na")
     | _ -> ("driver-badimpl", "na"))
  | _ -> ("driver-badcase", "na"))
