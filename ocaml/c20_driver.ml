(* C20 driver: parses case lines, runs the extracted model (model_obs) and the extracted judge.
   I/O glue only; the case syntax is documented in harness/src/bin/c20.rs. *)
let show_r = function Ok v -> string_of_n v | Err -> "err" | Panic -> "builderr" | OutOfFuel -> "outoffuel"
let parse_r s = if s = "err" then Err else if s = "builderr" then Panic else Ok (n_of_string s)
let show_b b = if b then "ok" else "rej"
let show_o = function Some r -> show_r r | None -> "-"
let parse_o s = if s = "-" then None else Some (parse_r s)

let parse_case (toks : string list) : case =
  let a = Array.of_list toks in
  let pos = ref 1 in                                   (* a.(0) is the generator label *)
  let next () = let s = a.(!pos) in incr pos; s in
  let expect s = if next () <> s then failwith ("case syntax: expected " ^ s) in
  let count () = let s = next () in if s = "~" then None else Some (int_of_string s) in
  let rec rep n f = if n <= 0 then [] else let x = f () in x :: rep (n - 1) f in
  let optn () = let s = next () in if s = "~" then None else Some (n_of_string s) in
  let _salt = next () in
  let pool = n_of_string (next ()) in
  let key = n_of_string (next ()) in
  expect "C";
  let certs = match count () with
    | None -> None
    | Some n -> Some (rep n (fun () ->
        let tag = n_of_string (next ()) in
        let coin = optn () in
        let sc = (next () = "1") in
        match cert_of_tag tag coin with Some c -> (c, sc) | None -> failwith "case syntax: certificate")) in
  expect "W";
  let wdrl = match count () with
    | None -> None
    | Some n -> Some (rep n (fun () -> let sc = (next () = "1") in let c = n_of_string (next ()) in (sc, c))) in
  expect "P";
  let props = match count () with None -> None | Some n -> Some (rep n (fun () -> n_of_string (next ()))) in
  expect "I";
  let ins = (match count () with Some n -> rep n (fun () -> n_of_string (next ())) | None -> []) in
  expect "O";
  let outs = (match count () with Some n -> rep n (fun () -> n_of_string (next ())) | None -> []) in
  expect "D";
  let don = optn () in
  { k_pool_deposit = pool; k_key_deposit = key; k_certs = certs; k_withdrawals = wdrl; k_proposals = props;
    k_inputs = ins; k_outputs = outs; k_donation = don }

let contains (s : string) (sub : string) : bool =
  let n = String.length s and m = String.length sub in
  let rec go i = i + m <= n && (String.sub s i m = sub || go (i + 1)) in go 0

let show_obs (o : obs) : string =
  let fields = Printf.sprintf "hd=%s hi=%s hd2=%s hi2=%s cd=%s cr=%s wt=%s bd=%s bi=%s ti=%s to=%s xd=%s xi=%s sc=%s sw=%s dd=%s di=%s"
    (show_r o.o_helper_deposit) (show_r o.o_helper_implicit) (show_r o.o_helper_deposit_wire) (show_r o.o_helper_implicit_wire)
    (show_r o.o_cb_deposit) (show_r o.o_cb_refund) (show_r o.o_wb_total)
    (show_r o.o_tb_deposit) (show_r o.o_tb_implicit) (show_r o.o_tb_total_input) (show_r o.o_tb_total_output)
    (show_r o.o_helper_deposit_built) (show_r o.o_helper_implicit_built)
    (show_b o.o_set_certs) (show_b o.o_set_withdrawals) (show_o o.o_dep_deposit) (show_o o.o_dep_implicit) in
  (* first token: `ovf` when some figure is an overflow error, `ok` otherwise (only for the case distribution) *)
  (if contains fields "=err" then "ovf " else "ok ") ^ fields

(* the implementation's observation: "ok name=value …" in the fixed order of show_obs *)
let parse_obs (impl : string list) : obs option =
  match impl with
  | ("ok" | "ovf") :: fields ->
    let tbl = List.map (fun f -> match String.index_opt f '=' with
        | Some i -> (String.sub f 0 i, String.sub f (i + 1) (String.length f - i - 1))
        | None -> (f, "")) fields in
    let g k = List.assoc k tbl in
    Some { o_helper_deposit = parse_r (g "hd"); o_helper_implicit = parse_r (g "hi");
           o_helper_deposit_wire = parse_r (g "hd2"); o_helper_implicit_wire = parse_r (g "hi2");
           o_cb_deposit = parse_r (g "cd"); o_cb_refund = parse_r (g "cr"); o_wb_total = parse_r (g "wt");
           o_tb_deposit = parse_r (g "bd"); o_tb_implicit = parse_r (g "bi");
           o_tb_total_input = parse_r (g "ti"); o_tb_total_output = parse_r (g "to");
           o_helper_deposit_built = parse_r (g "xd"); o_helper_implicit_built = parse_r (g "xi");
           o_set_certs = (g "sc" = "ok"); o_set_withdrawals = (g "sw" = "ok");
           o_dep_deposit = parse_o (g "dd"); o_dep_implicit = parse_o (g "di") }
  | _ -> None

let show_verdict = function
  | Holds -> "holds"
  | FailsKnown c -> (match int_of_n c with
      | 1 -> "fails:C20-pool-retirement-refund"
      | 2 -> "fails:C20-deposit-ignores-proposals"
      | _ -> "fails:-")
  | FailsUnknown -> "fails:-"

let () = run_driver (fun toks impl ->
  let k = parse_case toks in
  let m = show_obs (model_obs k) in
  let v = match impl with
    | [] -> "na"                                         (* no implementation result given *)
    | _ -> (match parse_obs impl with
        | Some o -> show_verdict (judge k o)
        | None -> "fails:-") in                          (* panic or malformed observation *)
  (m, v))
