(* C20 driver: parses case lines, runs the extracted model (model_obs) and the extracted judge.
   I/O glue only; the case syntax is documented in harness/src/bin/c20.rs. *)
let show_r = function Ok v -> string_of_n v | Err -> "err" | Panic -> "builderr" | OutOfFuel -> "outoffuel"
let parse_r s = if s = "err" then Err else if s = "builderr" then Panic else Ok (n_of_string s)
let show_b b = if b then "ok" else "rej"
let show_o = function Some r -> show_r r | None -> "-"
let parse_o s = if s = "-" then None else Some (parse_r s)

(* "x" or "x/a/b/..": the head and the identities after it *)
let split_ids (tok : string) : string * n list =
  match String.split_on_char '/' tok with
  | [] -> (tok, [])
  | h :: ids -> (h, List.map n_of_string ids)

let n_of_int (i : int) : n = n_of_string (string_of_int i)

let parse_case (toks : string list) : icase =
  let a = Array.of_list toks in
  let pos = ref 1 in                                   (* a.(0) is the generator label *)
  let next () = let s = a.(!pos) in incr pos; s in
  let expect s = if next () <> s then failwith ("case syntax: expected " ^ s) in
  let count () = let s = next () in if s = "~" then None else Some (int_of_string s) in
  let rep n f = let rec go i = if i >= n then [] else let x = f i in x :: go (i + 1) in go 0 in
  let optn () = let s = next () in if s = "~" then None else Some (n_of_string s) in
  let _salt = next () in
  let pool = n_of_string (next ()) in
  let key = n_of_string (next ()) in
  expect "C";
  let certs = match count () with
    | None -> None
    | Some n -> Some (rep n (fun i ->
        let (tag, ids) = split_ids (next ()) in
        let id = (match ids with
          | [] -> let p = n_of_int i in { i_cred = p; i_pool = p; i_var = p }
          | [a; b; c] -> { i_cred = a; i_pool = b; i_var = c }
          | _ -> failwith "case syntax: certificate identities") in
        let tag = n_of_string tag in
        let coin = optn () in
        let sc = (next () = "1") in
        match cert_of_tag tag coin with
        | Some c -> { ic_cert = c; ic_script = sc; ic_id = id }
        | None -> failwith "case syntax: certificate")) in
  expect "W";
  let wdrl = match count () with
    | None -> None
    | Some n -> Some (rep n (fun i ->
        let (sc, ids) = split_ids (next ()) in
        let two = n_of_int 2 in
        let (acct, net) = (match ids with
          | [] -> let p = n_of_int i in (p, N.modulo p two)
          | [a] -> (a, N.modulo a two)
          | [a; b] -> (a, b)
          | _ -> failwith "case syntax: withdrawal identity") in
        let c = n_of_string (next ()) in
        { w_script = (sc = "1"); w_acct = acct; w_net = net; w_coin = c })) in
  expect "P";
  let props = match count () with None -> None | Some n -> Some (rep n (fun i ->
        let (d, ids) = split_ids (next ()) in
        let (act, ret) = (match ids with [] -> (n_of_int i, n_of_int i) | [a; b] -> (a, b) | _ -> failwith "case syntax: proposal identities") in
        { p_act = act; p_ret = ret; p_deposit = n_of_string d })) in
  expect "I";
  let ins = (match count () with Some n -> rep n (fun _ -> n_of_string (next ())) | None -> []) in
  expect "O";
  let outs = (match count () with Some n -> rep n (fun _ -> n_of_string (next ())) | None -> []) in
  expect "D";
  let don = optn () in
  (* an optional history section "H n op*" follows: setters replace (Deposits/History.v, C20_history_is_overwritten), so the
     observation of the case does not depend on it *)
  { ik_pool_deposit = pool; ik_key_deposit = key; ik_certs = certs; ik_withdrawals = wdrl; ik_proposals = props;
    ik_inputs = ins; ik_outputs = outs; ik_donation = don }

let contains (s : string) (sub : string) : bool =
  let n = String.length s and m = String.length sub in
  let rec go i = i + m <= n && (String.sub s i m = sub || go (i + 1)) in go 0

let show_obs (io : iobs) : string =
  let o = io.io_base in
  let fields = Printf.sprintf "hd=%s hi=%s hd2=%s hi2=%s cd=%s cr=%s wt=%s bd=%s bi=%s ti=%s to=%s xd=%s xi=%s sc=%s sw=%s dd=%s di=%s nc=%s nb=%s nw=%s nwb=%s np=%s npb=%s"
    (show_r o.o_helper_deposit) (show_r o.o_helper_implicit) (show_r o.o_helper_deposit_wire) (show_r o.o_helper_implicit_wire)
    (show_r o.o_cb_deposit) (show_r o.o_cb_refund) (show_r o.o_wb_total)
    (show_r o.o_tb_deposit) (show_r o.o_tb_implicit) (show_r o.o_tb_total_input) (show_r o.o_tb_total_output)
    (show_r o.o_helper_deposit_built) (show_r o.o_helper_implicit_built)
    (show_b o.o_set_certs) (show_b o.o_set_withdrawals) (show_o o.o_dep_deposit) (show_o o.o_dep_implicit)
    (string_of_n io.io_n_certs) (string_of_n io.io_n_cb) (string_of_n io.io_n_wdrl) (string_of_n io.io_n_wb)
    (string_of_n io.io_n_props) (string_of_n io.io_n_pb) in
  (* first token: `ovf` when some figure is an overflow error, `ok` otherwise (only for the case distribution) *)
  (if contains fields "=err" then "ovf " else "ok ") ^ fields

(* the implementation's observation: "ok name=value …" in the fixed order of show_obs *)
let parse_obs (impl : string list) : iobs option =
  match impl with
  | ("ok" | "ovf") :: fields ->
    let tbl = List.map (fun f -> match String.index_opt f '=' with
        | Some i -> (String.sub f 0 i, String.sub f (i + 1) (String.length f - i - 1))
        | None -> (f, "")) fields in
    let g k = List.assoc k tbl in
    Some { io_n_certs = n_of_string (g "nc"); io_n_cb = n_of_string (g "nb"); io_n_wdrl = n_of_string (g "nw");
           io_n_wb = n_of_string (g "nwb"); io_n_props = n_of_string (g "np"); io_n_pb = n_of_string (g "npb");
           io_base = { o_helper_deposit = parse_r (g "hd"); o_helper_implicit = parse_r (g "hi");
           o_helper_deposit_wire = parse_r (g "hd2"); o_helper_implicit_wire = parse_r (g "hi2");
           o_cb_deposit = parse_r (g "cd"); o_cb_refund = parse_r (g "cr"); o_wb_total = parse_r (g "wt");
           o_tb_deposit = parse_r (g "bd"); o_tb_implicit = parse_r (g "bi");
           o_tb_total_input = parse_r (g "ti"); o_tb_total_output = parse_r (g "to");
           o_helper_deposit_built = parse_r (g "xd"); o_helper_implicit_built = parse_r (g "xi");
           o_set_certs = (g "sc" = "ok"); o_set_withdrawals = (g "sw" = "ok");
           o_dep_deposit = parse_o (g "dd"); o_dep_implicit = parse_o (g "di") } }
  | _ -> None

let show_verdict = function
  | Holds -> "holds"
  | FailsKnown c -> (match int_of_n c with
      | 1 -> "fails:C20-pool-retirement-refund"
      | 2 -> "fails:C20-deposit-ignores-proposals"
      | _ -> "fails:-")
  | FailsUnknown -> "fails:-"

let () = run_driver (fun toks impl ->
  let k = parse_case toks in
  let m = show_obs (imodel_obs k) in
  let v = match impl with
    | [] -> "na"                                         (* no implementation result given *)
    | _ -> (match parse_obs impl with
        | Some o -> show_verdict (ijudge k o)
        | None -> "fails:-") in                          (* panic or malformed observation *)
  (m, v))
