(* C05 driver: parses a scenario line and the implementation's result line (for the recorded oracle answers and
   the built transaction), runs the extracted model (run_ops with the recorded-answer oracle) and the extracted
   judge.  I/O glue only; the syntax is documented in harness/src/bin/c05.rs. *)

type toks = { a : string array; mutable pos : int }
let mk l = { a = Array.of_list l; pos = 0 }
let next t = let s = t.a.(t.pos) in t.pos <- t.pos + 1; s
let peek t = if t.pos < Array.length t.a then Some t.a.(t.pos) else None
let expect t s = if next t <> s then failwith ("syntax: expected " ^ s)
let num t = n_of_string (next t)
let count t = let s = next t in if s = "~" then None else Some (int_of_string s)
let rec rep n f = if n <= 0 then [] else let x = f () in x :: rep (n - 1) f
let optn t = let s = next t in if s = "~" then None else Some (n_of_string s)
let bytes t = bytes_of_hex (next t)

let value t : value =
  let coin = num t in
  match count t with
  | None -> { coin = coin; multiasset_of = None }
  | Some k ->
    (* name token `!` = the policy is inserted with an empty asset map (MultiAsset::insert(policy, Assets::new())) *)
    let es = rep k (fun () -> let p = bytes t in let nt = next t in let q = num t in (p, (if nt = "!" then None else Some (bytes_of_hex nt)), q)) in
    (* a trailing E<k> marks k policies with an empty asset map (never produced by the model's printer for values the
       generator builds; kept so that such a line still parses) *)
    (match peek t with Some s when String.length s > 1 && s.[0] = 'E' && s.[1] >= '0' && s.[1] <= '9' -> ignore (next t) | _ -> ());
    let ma = List.fold_left (fun m (p, n, q) -> match n with Some n -> ma_set_asset p n q m | None -> ma_insert p [] m) [] es in
    { coin = coin; multiasset_of = Some ma }

let cert t : cert =
  let tag = num t in
  let coin = optn t in
  match cert_of_tag tag coin with Some c -> c | None -> failwith "syntax: certificate"

let output t : output =
  let a = num t in let e = num t in let v = value t in
  { o_addr = a; o_amount = v; o_extra = e }

let parse_op t : op =
  match next t with
  | "in" -> OpInput (num t)
  | "out" -> OpOutput (output t)
  | "certs" -> OpCerts (match count t with None -> None | Some k -> Some (rep k (fun () -> cert t)))
  | "wd" -> OpWithdrawals (match count t with None -> None | Some k -> Some (rep k (fun () -> let a = num t in let c = num t in (a, c))))
  | "props" -> OpProposals (match count t with None -> None | Some k -> Some (rep k (fun () -> num t)))
  | "mint" -> let ow = (next t = "1") in let p = bytes t in let n = bytes t in let z = z_of_string (next t) in OpMint (ow, p, n, z)
  | "don" -> OpDonation (num t)
  | "treas" -> OpTreasury (num t)
  | "fee" -> OpSetFee (num t)
  | "minfee" -> OpSetMinFee (num t)
  | "change" -> let a = num t in let e = num t in OpChange (a, e)
  | "selchange" ->
    let _st = next t in let a = num t in let e = num t in
    let k = (match count t with Some k -> k | None -> 0) in
    let ids = rep k (fun () -> num t) in
    OpSelectChange (ids, a, e)
  | "build" -> OpBuild
  | x -> failwith ("syntax: op " ^ x)

let triple t = let p = bytes t in let n = bytes t in let z = z_of_string (next t) in ((p, n), z)

(* phase 2 operations; an address id is carried as the one-byte string [id] where the model wants bytes *)
let parse_op2 t : op2 =
  match peek t with
  | Some "col" -> ignore (next t);
    let k = (match count t with Some k -> k | None -> 0) in OpSetCollateral (rep k (fun () -> num t))
  | Some "pct" -> ignore (next t);
    let _st = next t in let a = num t in let e = num t in let pct = num t in
    let k = (match count t with Some k -> k | None -> 0) in
    let ids = rep k (fun () -> num t) in
    OpPercent (ids, a, e, [a], pct)
  | Some "mintout" -> ignore (next t);
    let ((p, n), z) = triple t in let a = num t in let e = num t in let c = num t in OpMintOutput (p, n, z, a, e, c)
  | Some "mintoutmin" -> ignore (next t);
    let ((p, n), z) = triple t in let a = num t in let e = num t in OpMintOutputMin (p, n, z, a, e)
  | Some "addmint" -> ignore (next t);
    let ((p, n), z) = triple t in OpAddMintAsset (p, n, z)
  | Some "dmint" -> ignore (next t);
    let ok = (next t = "1") in
    let k = (match count t with Some k -> k | None -> 0) in
    OpSetMintDeprecated (ok, rep k (fun () -> triple t))
  | Some "dcerts" -> ignore (next t);
    let k = (match count t with Some k -> k | None -> 0) in
    OpSetCertsDeprecated (rep k (fun () -> let c = cert t in let sc = (next t = "1") in (c, sc)))
  | Some "dwd" -> ignore (next t);
    let k = (match count t with Some k -> k | None -> 0) in
    OpSetWithdrawalsDeprecated (rep k (fun () -> let a = num t in let c = num t in let sc = (next t = "1") in ((a, c), sc)))
  | Some "rmmint" -> ignore (next t); OpRemoveMint
  | Some "setmintasset" -> ignore (next t);
    let p = bytes t in
    let k = (match count t with Some k -> k | None -> 0) in
    OpSetMintAsset (p, rep k (fun () -> let n = bytes t in let z = z_of_string (next t) in (n, z)))
  | Some "kprops" -> ignore (next t);
    let k = (match count t with Some k -> k | None -> 0) in
    OpProposalsKeyed (rep k (fun () -> let i = num t in let d = num t in (i, d)))
  | _ -> Old (parse_op t)

type scenario = { cfg : config; utxos : (n * value) list; ops : op2 list }

let parse_case (l : string list) : scenario =
  let t = mk l in
  let _label = next t in
  expect t "CFG";
  let pool = num t in let key = num t in
  let pure = (next t = "1") in let noburn = (next t = "1") in
  let _cpb = next t in let _maxval = next t in let _maxtx = next t in let _a = next t in let _b = next t in
  expect t "U";
  let n = (match count t with Some n -> n | None -> 0) in
  let utxos = rep n (fun () -> let id = num t in let v = value t in (id, v)) in
  expect t "OPS";
  let n = (match count t with Some n -> n | None -> 0) in
  let ops = rep n (fun () -> parse_op2 t) in
  { cfg = { c_pool_deposit = pool; c_key_deposit = key; c_prefer_pure_change = pure; c_do_not_burn_extra_change = noburn };
    utxos = utxos; ops = ops }

(* ---- printing, same syntax as the harness ---- *)
let show_value (v : value) : string =
  let b = Buffer.create 64 in
  Buffer.add_string b (string_of_n v.coin);
  (match v.multiasset_of with
   | None -> Buffer.add_string b " ~"
   | Some m ->
     let es = ma_entries m in
     Buffer.add_string b (Printf.sprintf " %d" (List.length es));
     List.iter (fun ((p, n), q) -> Buffer.add_string b (Printf.sprintf " %s %s %s" (hex_of_bytes p) (hex_of_bytes n) (string_of_n q))) es;
     let empties = List.length (List.filter (fun (_, a) -> a = []) m) in
     if empties > 0 then Buffer.add_string b (Printf.sprintf " E%d" empties));
  Buffer.contents b

let show_output (o : output) : string =
  Printf.sprintf "%s %s %s" (string_of_n o.o_addr) (string_of_n o.o_extra) (show_value o.o_amount)

(* a value as it reads back from the transaction's bytes: Value's serializer writes the bare coin when every policy
   has an empty asset map (reduce_empty_to_none) *)
let wire_value (v : value) : value =
  match v.multiasset_of with
  | Some m when List.for_all (fun (_, a) -> a = []) m -> { v with multiasset_of = None }
  | _ -> v
let show_output_wire (o : output) : string =
  Printf.sprintf "%s %s %s" (string_of_n o.o_addr) (string_of_n o.o_extra) (show_value (wire_value o.o_amount))

let show_res = function
  | ROk -> "ok" | RBool true -> "t" | RBool false -> "f" | RErr -> "err" | RPanic -> "panic" | RFuel -> "outoffuel" | RDesync -> "desync"

let show_body (b : tx_body) : string =
  let buf = Buffer.create 256 in
  let add s = Buffer.add_string buf s in
  add (Printf.sprintf "%d" (List.length b.b_inputs));
  List.iter (fun (id, _) -> add (" " ^ string_of_n id)) b.b_inputs;
  add (Printf.sprintf " %d" (List.length b.b_outputs));
  List.iter (fun o -> add (" " ^ show_output_wire o)) b.b_outputs;
  add (" " ^ string_of_n b.b_fee);
  add (Printf.sprintf " %d" (List.length b.b_certs));
  List.iter (fun c -> add (Printf.sprintf " %s %s" (string_of_n (cddl_tag c)) (match cert_coin c with Some x -> string_of_n x | None -> "~"))) b.b_certs;
  (* the body's withdrawals are emitted in the ledger's reward-account order, which is not part of this model:
     both sides print them sorted by address id *)
  let ws = List.sort (fun (a, _) (b, _) -> BZ.compare (bz_of_n a) (bz_of_n b)) b.b_withdrawals in
  add (Printf.sprintf " %d" (List.length ws));
  List.iter (fun (a, c) -> add (Printf.sprintf " %s %s" (string_of_n a) (string_of_n c))) ws;
  let ms = mint_entries b.b_mint in
  add (Printf.sprintf " %d" (List.length ms));
  List.iter (fun ((p, n), z) -> add (Printf.sprintf " %s %s %s" (hex_of_bytes p) (hex_of_bytes n) (string_of_z z))) ms;
  (* VotingProposals is a set in the body (its order is not part of this model): printed sorted by deposit *)
  let ps = List.sort (fun a b -> BZ.compare (bz_of_n a) (bz_of_n b)) b.b_proposals in
  add (Printf.sprintf " %d" (List.length ps));
  List.iter (fun d -> add (" " ^ string_of_n d)) ps;
  add (" " ^ string_of_n b.b_donation);
  Buffer.contents buf

(* ---- the implementation's line: R … S … TX … ORA … ---- *)
type impl = { i_res : string list; i_tx : impl_tx option; i_ora : tape_state list; i_ora_text : string; i_tx_text : string;
              i_txb : n list option; i_at : (n list * n) list; i_rt : (n list * n) list }

let site_code s = n_of_int (Char.code s.[0])

let parse_impl (l : string list) : impl option =
  match l with
  | "ok" :: rest ->
    let t = mk rest in
    expect t "R";
    let n = (match count t with Some n -> n | None -> 0) in
    let res = rep n (fun () -> next t) in
    expect t "S";
    let _fee = next t in
    let no = (match count t with Some n -> n | None -> 0) in
    let _ = rep no (fun () -> output t) in
    let ni = (match count t with Some n -> n | None -> 0) in
    let _ = rep ni (fun () -> next t) in
    expect t "COL";
    let nc = (match count t with Some n -> n | None -> 0) in
    let _ = rep nc (fun () -> next t) in
    (match peek t with Some "~" -> ignore (next t) | _ -> (ignore (next t); ignore (value t)));
    let _total = next t in
    expect t "TX";
    let tx_start = t.pos in
    let tx =
      (match peek t with
       | Some "~" -> ignore (next t); None
       | _ ->
         let nin = (match count t with Some n -> n | None -> 0) in
         let ins = rep nin (fun () -> num t) in
         let nout = (match count t with Some n -> n | None -> 0) in
         let outs = rep nout (fun () -> output t) in
         let fee = num t in
         let nc = (match count t with Some n -> n | None -> 0) in
         let certs = rep nc (fun () -> cert t) in
         let nw = (match count t with Some n -> n | None -> 0) in
         let wds = rep nw (fun () -> let a = num t in let c = num t in (a, c)) in
         let nm = (match count t with Some n -> n | None -> 0) in
         let mint = rep nm (fun () -> let p = bytes t in let n = bytes t in let z = z_of_string (next t) in ((p, n), z)) in
         let np = (match count t with Some n -> n | None -> 0) in
         let props = rep np (fun () -> num t) in
         let don = num t in
         Some { i_inputs = ins; i_outputs = outs; i_fee = fee; i_certs = certs; i_withdrawals = wds; i_mint = mint;
                i_proposals = props; i_donation = don }) in
    let tx_text = String.concat " " (Array.to_list (Array.sub t.a tx_start (t.pos - tx_start))) in
    let ora_start = t.pos in
    expect t "ORA";
    let n = (match count t with Some n -> n | None -> 0) in
    let ora = rep n (fun () ->
        let k = (match count t with Some k -> k | None -> 0) in
        let tape = rep k (fun () -> let s = next t in let a = next t in (site_code s, if a = "e" then None else Some (n_of_string a))) in
        let sel = (match next t with
            | "~" -> None
            | ok -> let m = (match count t with Some m -> m | None -> 0) in
              let ids = rep m (fun () -> num t) in Some (ids, ok = "1")) in
        { t_tape = tape; t_sel = sel; t_bad = false }) in
    (* the transaction's bytes and the identifier tables, for the judge *)
    expect t "TXB";
    let txb = (match next t with "~" -> None | h -> Some (bytes_of_hex h)) in
    expect t "AT";
    let na = (match count t with Some n -> n | None -> 0) in
    let at = rep na (fun () -> let id = num t in let b = bytes t in (b, id)) in
    expect t "RT";
    let nr = (match count t with Some n -> n | None -> 0) in
    let rt = rep nr (fun () -> let id = num t in let b = bytes t in (b, id)) in
    let ora_text = String.concat " " (Array.to_list (Array.sub t.a ora_start (t.pos - ora_start))) in
    Some { i_res = res; i_tx = tx; i_ora = ora; i_ora_text = ora_text; i_tx_text = tx_text; i_txb = txb; i_at = at; i_rt = rt }
  | _ -> None

let empty_tape = { t_tape = []; t_sel = None; t_bad = false }

let show_verdict = function
  | Holds -> "holds"
  | NotApplicable -> "na"
  | FailsKnown c -> (match int_of_n c with 1 -> "fails:C05-mint-min-int" | _ -> "fails:-")
  | FailsUnknown -> "fails:-"

let () = run_driver (fun toks impl_toks ->
  let sc = parse_case toks in
  match parse_impl impl_toks with
  | None -> ("no-implementation-result", if impl_toks = [] then "na" else "fails:-")   (* panic of the whole scenario *)
  | Some im ->
    let rec zip ops oras = match ops, oras with
      | o :: r, t :: r' -> (o, t) :: zip r r'
      | o :: r, [] -> (o, { empty_tape with t_bad = true }) :: zip r []
      | [], _ -> [] in
    let (((rs, st), col), tx) = run_ops2 sc.utxos (zip sc.ops im.i_ora) (new_state sc.cfg) col_new in
    let b = Buffer.create 512 in
    Buffer.add_string b (Printf.sprintf "ok R %d" (List.length rs));
    List.iter (fun r -> Buffer.add_string b (" " ^ show_res r)) rs;
    Buffer.add_string b (" S " ^ (match get_fee_if_set st with Some f -> string_of_n f | None -> "~"));
    Buffer.add_string b (Printf.sprintf " %d" (List.length st.s_outputs));
    List.iter (fun o -> Buffer.add_string b (" " ^ show_output o)) st.s_outputs;
    Buffer.add_string b (Printf.sprintf " %d" (List.length st.s_inputs));
    List.iter (fun (id, _) -> Buffer.add_string b (" " ^ string_of_n id)) st.s_inputs;
    (* collateral inputs (ids decoded from the 8 big-endian bytes of the outpoint), return, total *)
    let id_of_txin ((bs, _) : n list * n) = List.fold_left (fun acc x -> BZ.add (BZ.mul acc (BZ.of_int 256)) (bz_of_n x)) BZ.zero bs in
    Buffer.add_string b (Printf.sprintf " COL %d" (List.length col.cs_inputs));
    List.iter (fun (k, _) -> Buffer.add_string b (" " ^ BZ.to_string (id_of_txin k))) col.cs_inputs;
    (match col.cs_return with
     | None -> Buffer.add_string b " ~"
     | Some o -> Buffer.add_string b (Printf.sprintf " %s %s"
                   (match col_return_addr o with [a] -> string_of_n a | _ -> "?") (show_value (col_return_amount o))));
    Buffer.add_string b (" " ^ (match col.cs_total with Some x -> string_of_n x | None -> "~"));
    Buffer.add_string b " TX ";
    Buffer.add_string b (match tx with Some body -> show_body body | None -> "~");
    Buffer.add_string b (" " ^ im.i_ora_text);
    (* the verdict comes from the bytes, read by Builder/TxReader.v; the library's own reading of the same transaction
       (the TX section, compared with the model above) must agree with it on whether there is a transaction *)
    let v = judge_bytes sc.cfg.c_pool_deposit sc.cfg.c_key_deposit sc.utxos im.i_at im.i_rt im.i_txb in
    let v = (match im.i_tx, im.i_txb with Some _, None | None, Some _ -> FailsUnknown | _ -> v) in
    (* the two readings of the same bytes must also agree field by field (withdrawals and proposal deposits up to order) *)
    let sort_n l = List.sort (fun a b -> BZ.compare (bz_of_n a) (bz_of_n b)) l in
    let sort_w l = List.sort (fun (a, _) (b, _) -> BZ.compare (bz_of_n a) (bz_of_n b)) l in
    let norm (t : impl_tx) = { t with i_withdrawals = sort_w t.i_withdrawals; i_proposals = sort_n t.i_proposals;
                                      i_outputs = List.map (fun o -> { o with o_amount = wire_value o.o_amount }) t.i_outputs } in
    let v = (match im.i_tx, im.i_txb with
        | Some lib, Some bs ->
          (match read_tx bs with
           | Some raw -> (match impl_of_raw im.i_at im.i_rt raw with
               | Some mine -> if norm mine = norm lib then v else FailsUnknown
               | None -> FailsUnknown)
           | None -> FailsUnknown)
        | _ -> v) in
    (Buffer.contents b, show_verdict v))
