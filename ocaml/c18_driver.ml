(* C18 driver: parses case lines (syntax documented in harness/src/bin/c18.rs), runs the extracted model
   (model_obs) and the extracted judge on the implementation's observation.  I/O glue only: sorting lists for
   printing is canonicalisation of sets, the property logic is in Witnesses/WitnessSpec.v. *)
let parse_case (toks : string list) : (n * n) list * (baddr * n) list * tx_ops =
  let a = Array.of_list toks in
  let pos = ref 1 in                                   (* a.(0) is the generator label *)
  let next () = if !pos >= Array.length a then failwith "case syntax: truncated" else (let s = a.(!pos) in incr pos; s) in
  let num () = n_of_string (next ()) in
  let expect s = if next () <> s then failwith ("case syntax: expected " ^ s) in
  let rec rep k f = if k <= 0 then [] else let x = f () in x :: rep (k - 1) f in
  let count () = int_of_string (next ()) in
  let list () = let k = count () in rep k num in
  let decl () = let s = next () in if s = "~" then None else Some (rep (int_of_string s) num) in
  let nsrc () = match next () with
    | "i" -> let s = num () in let ks = list () in let d = decl () in NSInline (s, ks, d)
    | "r" -> let r = num () in let s = num () in let d = decl () in NSRef (r, s, d)
    | _ -> failwith "case syntax: nsrc" in
  let psrc () = match next () with
    | "i" -> let s = num () in let d = decl () in PSInline (s, d)
    | "r" -> let r = num () in let s = num () in let d = decl () in PSRef (r, s, d)
    | _ -> failwith "case syntax: psrc" in
  let pwit () =
    let script = psrc () in
    let datum = (match next () with
      | "~" -> None | "i" -> Some (DInline (num ())) | "r" -> Some (DRef (num ())) | _ -> failwith "case syntax: datum") in
    let red = num () in
    { pw_script = script; pw_datum = datum; pw_red = red } in
  let wit () = match next () with
    | "~" -> None | "N" -> Some (SWNative (nsrc ())) | "P" -> Some (SWPlutus (pwit ())) | _ -> failwith "case syntax: wit" in
  let cred () = let s = next () in
    let v = n_of_string (String.sub s 1 (String.length s - 1)) in
    if s.[0] = 'K' then CK v else CS v in
  let inops () = let k = count () in rep k (fun () -> match next () with
    | "k" | "rk" -> let o = num () in InAdd (o, OKey (num ()))
    | "b" | "rb" -> let o = num () in InAdd (o, OByron (num ()))
    | "n" -> let o = num () in InAdd (o, ONative (nsrc ()))
    | "p" -> let o = num () in InAdd (o, OPlutus (pwit ()))
    | "s" -> InSigner (num ())
    (* the same inputs given as UTxOs: the reference script of the output is not looked at by the modelled code *)
    | "ku" -> let o = num () in let k = num () in let _ = next () in InAdd (o, OKey k)
    | "bu" -> let o = num () in let a = num () in let _ = next () in InAdd (o, OByron a)
    | "nu" -> let o = num () in let n = nsrc () in let _ = next () in InAdd (o, ONative n)
    | "pu" -> let o = num () in let p = pwit () in let _ = next () in InAdd (o, OPlutus p)
    | _ -> failwith "case syntax: inop") in
  let dedup = (next () = "F1") in
  expect "B";
  let attrs = (let k = count () in rep k (fun () -> let b = num () in let l = num () in (b, l))) in
  expect "I"; let inputs = inops () in
  expect "L"; let collateral = inops () in
  expect "C";
  let certs = (let k = count () in rep k (fun () ->
    let kind = num () in let c = cred () in let keys = list () in let aux = num () in let w = wit () in
    ({ c_kind = kind; c_cred = c; c_keys = keys; c_aux = aux }, w))) in
  expect "W"; let wdrl = (let k = count () in rep k (fun () -> let c = cred () in let w = wit () in (c, w))) in
  expect "V";
  let votes = (let k = count () in rep k (fun () ->
    let kind = num () in let c = cred () in let w = wit () in ({ v_kind = kind; v_cred = c }, w))) in
  expect "P";
  let props = (let k = count () in rep k (fun () ->
    let id = num () in let sc = (next () = "1") in
    let w = (match wit () with Some (SWPlutus p) -> Some p | _ -> None) in
    { p_id = id; p_scripted = sc; p_wit = w })) in
  expect "M";
  let mint = (let k = count () in rep k (fun () -> match next () with
    | "N" -> MNative (nsrc ())
    | "P" -> let s = psrc () in MPlutus (s, num ())
    | _ -> failwith "case syntax: mint")) in
  expect "S"; let signers = list () in
  expect "R"; let refs = list () in
  expect "D"; let datums = list () in
  (* optional trailing sections *)
  let hr = ref [] and mintq = ref None in
  while !pos < Array.length a do
    (match next () with
     | "H" -> let k = count () in hr := rep k (fun () -> let c = cred () in let r = num () in (cred_item c, r))
     | "Z" -> let k = count () in ignore (rep k num)          (* zero-amount withdrawals: the modelled code does not look at amounts *)
     | "Q" -> let k = count () in mintq := Some (rep k (fun () -> let a = num () in let q = z_of_string (next ()) in (a, q)))
     | _ -> failwith "case syntax: trailing section")
  done;
  let mint_ops = (match !mintq with
    | Some q -> List.map2 (fun w (a, x) -> { mo_wit = w; mo_asset = a; mo_amount = x }) mint q
    | None -> List.mapi (fun i w -> { mo_wit = w; mo_asset = n_of_int (i mod 3); mo_amount = z_of_string (string_of_int (1 + i)) }) mint) in
  (!hr, attrs, { t_inputs = inputs; t_collateral = collateral; t_certs = certs; t_withdrawals = wdrl; t_votes = votes;
            t_proposals = props; t_mint = mint_ops; t_required_signers = signers; t_reference_inputs = refs;
            t_extra_datums = datums; t_dedup_explicit_refs = dedup })

let sorted_ints (l : n list) : BZ.t list = List.sort BZ.compare (List.map bz_of_n l)
let show_list (l : n list) : string =
  match sorted_ints l with [] -> "-" | xs -> String.concat "," (List.map BZ.to_string xs)
let show_pairs (l : (n * n) list) : string =
  let xs = List.sort compare (List.map (fun (a, b) -> (BZ.to_int (bz_of_n a), BZ.to_int (bz_of_n b))) l) in
  match xs with [] -> "-" | _ -> String.concat "," (List.map (fun (a, b) -> Printf.sprintf "%d:%d" a b) xs)
let show_bits (l : bool list) : string =
  match l with [] -> "-" | _ -> String.concat "" (List.map (fun b -> if b then "1" else "0") l)

let show_model (m : model_out) : string =
  let e = m.m_emitted in
  Printf.sprintf "ok acc=%s dfs=%s dss=%s sig=%s bw=%s ns=%s ps=%s dat=%s red=%s refs=%s ins=%s col=%s rs=%s mp=%s vred=%s"
    (show_bits m.m_acceptance) (string_of_n m.m_predicted) (string_of_n m.m_signed)
    (show_list m.m_sign_keys) (show_list m.m_sign_boots)
    (show_list e.e_native) (show_list e.e_plutus) (show_list e.e_datums) (show_pairs e.e_redeemers)
    (show_list e.e_refs) (show_list e.e_inputs) (show_list m.m_collateral) (show_list m.m_required_signers)
    (show_list e.e_mint) (show_pairs e.e_vote_redeemers)

(* the implementation's observation: "ok name=value ..." *)
let parse_list (s : string) : n list =
  if s = "-" then [] else List.map n_of_string (String.split_on_char ',' s)
let parse_pairs (s : string) : (n * n) list =
  if s = "-" then [] else List.map (fun x -> match String.split_on_char ':' x with
    | [a; b] -> (n_of_string a, n_of_string b) | _ -> failwith "observation syntax: pair") (String.split_on_char ',' s)
let parse_obs (impl : string list) : obs option =
  match impl with
  | "ok" :: fields ->
    let tbl = List.map (fun f -> match String.index_opt f '=' with
        | Some i -> (String.sub f 0 i, String.sub f (i + 1) (String.length f - i - 1))
        | None -> (f, "")) fields in
    let g k = List.assoc k tbl in
    if BZ.sign (BZ.of_string (g "dfs")) < 0 || BZ.sign (BZ.of_string (g "dss")) < 0 then None else
    Some { o_predicted = n_of_string (g "dfs"); o_signed = n_of_string (g "dss");
           o_emitted = { e_native = parse_list (g "ns"); e_plutus = parse_list (g "ps"); e_datums = parse_list (g "dat");
                         e_redeemers = parse_pairs (g "red"); e_refs = parse_list (g "refs"); e_inputs = parse_list (g "ins");
                         e_mint = parse_list (g "mp"); e_vote_redeemers = parse_pairs (g "vred") } }
  | _ -> None

let show_verdict = function
  | Holds -> "holds"
  | NA -> "na"
  | Fails c -> (match int_of_n c with
      | 1 -> "fails:C18-input-readded-with-other-owner"
      | 2 -> "fails:C18-script-inline-and-by-reference"
      | 3 -> "fails:C18-genesis-delegation-witness"
      | _ -> "fails:-")

let () = run_driver (fun toks impl ->
  let (hr, attrs, t) = parse_case toks in
  let m = (match model_result hr attrs t with
    | Some o -> show_model o
    | None -> "err:full_size") in                        (* the builder refuses to build *)
  let v = match impl with
    | [] -> "na"                                         (* no implementation result given *)
    | "err:full_size" :: _ when build_refused t -> "na"  (* refused, as the model says: no transaction to judge *)
    | _ -> (match parse_obs impl with
        | Some o -> show_verdict (judge_hr hr t o)
        | None -> "fails:-") in                          (* error, panic or malformed observation *)
  (m, v))
