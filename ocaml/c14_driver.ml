(* C14 driver: parses case lines, runs the extracted model functions and the extracted judges.
   I/O glue only; case syntax and observation syntax are documented in harness/src/bin/c14.rs. *)
let text_of_hex s = bytes_of_hex s                       (* text = list of byte codes *)
let show_rn = function Ok v -> string_of_n v | Err -> "err" | Panic -> "panic" | OutOfFuel -> "outoffuel"
let show_rz = function Ok v -> string_of_z v | Err -> "err" | Panic -> "panic" | OutOfFuel -> "outoffuel"
let show_rb = function Ok v -> hex_of_bytes v | Err -> "err" | Panic -> "panic" | OutOfFuel -> "outoffuel"
let parse_rn s = if s = "err" then Err else if s = "panic" then Panic else Ok (n_of_string s)
let parse_rz s = if s = "err" then Err else if s = "panic" then Panic else Ok (z_of_string s)
let parse_rb s = if s = "err" then Err else if s = "panic" then Panic else Ok (bytes_of_hex s)
let show_on = function Some v -> string_of_n v | None -> "~"
let show_oz = function Some v -> string_of_z v | None -> "~"
let parse_on s = if s = "~" then None else Some (n_of_string s)
let parse_oz s = if s = "~" then None else Some (z_of_string s)
let bit b = if b then "1" else "0"

let class_name c = match int_of_n c with
  | 1 -> "C14-div-by-zero-panic"
  | 2 -> "C14-value-checked-sub-clamps"
  | 3 -> "C14-int-min-debug-panic"
  | 4 -> "C14-mint-builder-overflow"
  | 5 -> "C14-meta-key-unchecked-int"
  | 6 -> "C14-int-from-str-range"
  | 7 -> "C14-int-as-negative-truncates"
  | 8 -> "C14-mint-duplicate-policy-dropped"
  | _ -> "-"
let show_verdict = function Holds -> "holds" | NA -> "na" | Fails c -> "fails:" ^ class_name c

(* ---- values ---- *)
let split c s = String.split_on_char c s
let split1 c s = match String.index_opt s c with
  | Some i -> (String.sub s 0 i, String.sub s (i + 1) (String.length s - i - 1))
  | None -> failwith ("case syntax: missing " ^ String.make 1 c ^ " in " ^ s)
let parse_value (tok : string) : value =
  let (c, m) = split1 '/' tok in
  let coin = n_of_string c in
  if m = "~" then { coin = coin; multiasset_of = None }
  else if m = "." then { coin = coin; multiasset_of = Some ma_new }
  else
    let ma = List.fold_left (fun ma p ->
        let (pid, rest) = split1 ':' p in
        let assets = if rest = "" then assets_new else
            List.fold_left (fun a e -> let (n, q) = split1 '=' e in assets_insert (bytes_of_hex n) (n_of_string q) a)
              assets_new (split ',' rest) in
        ma_insert (bytes_of_hex pid) assets ma) ma_new (split ';' m) in
    { coin = coin; multiasset_of = Some ma }
let show_value (v : value) : string =
  let c = string_of_n v.coin in
  match v.multiasset_of with
  | None -> c ^ "/~"
  | Some [] -> c ^ "/."
  | Some ma ->
    c ^ "/" ^ String.concat ";" (List.map (fun (p, a) ->
        hex_of_bytes p ^ ":" ^ String.concat "," (List.map (fun (n, q) -> hex_of_bytes n ^ "=" ^ string_of_n q) a)) ma)
let show_rv = function Ok v -> show_value v | Err -> "err" | Panic -> "panic" | OutOfFuel -> "outoffuel"
let parse_rv s = if s = "err" then Err else if s = "panic" then Panic else Ok (parse_value s)

let field (fs : string list) (k : string) : string =
  let pre = k ^ "=" in
  let l = String.length pre in
  match List.find_opt (fun f -> String.length f >= l && String.sub f 0 l = pre) fs with
  | Some f -> String.sub f l (String.length f - l)
  | None -> failwith ("observation: missing field " ^ k)

let bn_op_of = function "add" -> OpAdd | "sub" -> OpSub | "mul" -> OpMul | "csub" -> OpClampedSub | "div" -> OpDivFloor
                      | s -> failwith ("bn op " ^ s)
let bi_op_of = function "add" -> BAdd | "sub" -> BSub | "mul" -> BMul | "divf" -> BDivFloor | "divc" -> BDivCeil
                      | s -> failwith ("bi op " ^ s)

let show_int_obs (o : int_obs) : string =
  Printf.sprintf "ok %s %s %s %s %s %s %s %s %s" (string_of_z o.io_val) (show_rb o.io_cbor) (show_on o.io_pos) (show_on o.io_neg)
    (show_oz o.io_i32) (show_rz o.io_str_rt) (show_rz o.io_cbor_rt) (show_rz o.io_json_rt) (show_rb o.io_meta_json)
let parse_int_obs = function
  | ["ok"; z; cbor; pos; neg; i32; s2; b2; j2; mj] ->
    Some { io_val = z_of_string z; io_cbor = parse_rb cbor; io_pos = parse_on pos; io_neg = parse_on neg; io_i32 = parse_oz i32;
           io_str_rt = parse_rz s2; io_cbor_rt = parse_rz b2; io_json_rt = parse_rz j2;
           io_meta_json = (if mj = "schemas-differ" then Panic else parse_rb mj) }
  | _ -> None

let rec mint_ops = function
  | op :: k :: z :: rest -> (if op = "a" then MAdd (n_of_string k, z_of_string z) else MSet (n_of_string k, z_of_string z)) :: mint_ops rest
  | _ -> []
let show_flags l = if l = [] then "-" else String.concat "" (List.map bit l)
let show_mint_entry = function
  | Some (((z, bs), pos), neg) -> Printf.sprintf "%s:%s:%s:%s" (string_of_z z) (hex_of_bytes bs) (string_of_n pos) (string_of_n neg)
  | None -> "~"
let parse_mint_entry s = if s = "~" then None else
    match split ':' s with
    | [z; b; pos; neg] -> Some (((z_of_string z, (if b = "panic" then [] else bytes_of_hex b)), n_of_string pos), n_of_string neg)
    | _ -> failwith "mint entry"
(* mintv: <n entries> then per entry: <policy hex> <n assets> (<name hex> <z>)* ; assets go through MintAssets::insert *)
let parse_mintv (toks : string list) : (n list * (n list * z) list) list =
  let a = Array.of_list toks in
  let pos = ref 0 in
  let next () = let x = a.(!pos) in incr pos; x in
  let ne = int_of_string (next ()) in
  let rec rep k f = if k <= 0 then [] else let x = f () in x :: rep (k - 1) f in
  let entries = rep ne (fun () ->
      let p = bytes_of_hex (next ()) in
      let na = int_of_string (next ()) in
      let assets = List.fold_left (fun acc (n, z) -> am_insert name_cmp n z acc) mint_assets_new
          (rep na (fun () -> let n = bytes_of_hex (next ()) in let z = z_of_string (next ()) in (n, z))) in
      (p, assets)) in
  List.fold_left (fun m (p, a) -> mint_insert p a m) mint_new entries
let show_ma (m : (n list * (n list * n) list) list) : string = show_value { coin = n_of_string "0"; multiasset_of = Some m }
let parse_ma (s : string) = match (parse_value s).multiasset_of with Some m -> m | None -> []
let parse_flags s = if s = "-" then [] else List.init (String.length s) (fun i -> s.[i] = '1')

let () = run_driver (fun toks impl ->
  let verdict f = if impl = [] then "na" else (try show_verdict (f ()) with Failure _ | Not_found | Invalid_argument _ -> "fails:-") in
  match toks with
  | ["bn"; op; a; b] ->
    let op = bn_op_of op and a = n_of_string a and b = n_of_string b in
    let m = model_bn op a b in
    ((match m with Ok v -> "ok " ^ string_of_n v | r -> show_rn r),
     verdict (fun () -> judge_bn op a b (match impl with ["ok"; v] -> Ok (n_of_string v) | ["err"] -> Err | ["panic"] -> Panic | _ -> failwith "obs")))
  | ["bncmp"; a; b] ->
    let a = n_of_string a and b = n_of_string b in
    let ((c, lt), mx) = model_bncmp a b in
    (Printf.sprintf "ok %s %s %s" (string_of_z c) (bit lt) (string_of_n mx),
     verdict (fun () -> match impl with ["ok"; c; lt; mx] -> judge_bncmp a b ((z_of_string c, lt = "1"), n_of_string mx) | _ -> failwith "obs"))
  | ["jval"; hc; hq] ->
    let sc = text_of_hex hc and sq = text_of_hex hq in
    ((match model_bnstr sc, model_bnstr sq with Ok c, Ok q -> Printf.sprintf "ok %s %s" (string_of_n c) (string_of_n q) | _ -> "err"),
     verdict (fun () -> match impl with
         | ["ok"; c; q] -> (match judge_bnstr sc (Ok (n_of_string c)), judge_bnstr sq (Ok (n_of_string q)) with Holds, Holds -> Holds | _ -> Fails cls_none)
         | ["err"] -> Holds
         | _ -> Fails cls_none))
  | [("bnstr" | "jbn"); h] ->
    let s = text_of_hex h in
    ((match model_bnstr s with Ok v -> "ok " ^ string_of_n v | r -> show_rn r),
     verdict (fun () -> judge_bnstr s (match impl with ["ok"; v] -> Ok (n_of_string v) | ["err"] -> Err | _ -> Panic)))
  | ["bnrt"; n] ->
    let n = n_of_string n in
    let (((s, r1), bs), r2) = model_bnrt n in
    (Printf.sprintf "ok %s %s %s %s" (hex_of_bytes s) (show_rn r1) (hex_of_bytes bs) (show_rn r2),
     verdict (fun () -> match impl with ["ok"; s; r1; bs; r2] -> judge_bnrt n (((text_of_hex s, parse_rn r1), bytes_of_hex bs), parse_rn r2) | _ -> failwith "obs"))
  | [("jint" | "jmint") as how; arg] | ["int"; how; arg] ->
    let src = (match how with
        | "jint" | "jmint" -> SFromStr (text_of_hex arg)
        | "new" -> SNew (n_of_string arg) | "neg" -> SNewNegative (n_of_string arg) | "i32" -> SNewI32 (z_of_string arg)
        | "str" -> SFromStr (text_of_hex arg) | "bytes" -> SFromBytes (bytes_of_hex arg) | "big" -> SBigIntAsInt (z_of_string arg)
        | "json" -> SJsonNumber (text_of_hex arg) | "key" -> SMetaKey (text_of_hex arg) | s -> failwith ("int source " ^ s)) in
    ((match model_int src with Some o -> show_int_obs o | None -> "none"),
     verdict (fun () -> match impl with
         | ["none"] -> judge_int src None
         | ["panic"] -> Fails cls_none
         | _ -> (match parse_int_obs impl with Some o -> judge_int src (Some o) | None -> failwith "obs")))
  | "mint" :: _n :: rest ->
    let ops = mint_ops rest in
    let (flags, r) = model_mint ops in
    ((match r with
        | Ok l -> Printf.sprintf "ok %s %s" (show_flags flags) (String.concat " " (List.map show_mint_entry l))
        | Err -> "err " ^ show_flags flags
        | _ -> "panic"),
     verdict (fun () -> match impl with
         | "ok" :: fl :: es when List.length es = 4 -> judge_mint ops (parse_flags fl, Ok (List.map parse_mint_entry es))
         | ["err"; fl] -> judge_mint ops (parse_flags fl, Err)
         | _ -> Fails cls_none))
  | "mintv" :: rest ->
    let m = parse_mintv rest in
    let (p, n) = model_mintv m in
    (Printf.sprintf "ok %s %s" (show_ma p) (show_ma n),
     verdict (fun () -> match impl with ["ok"; p; n] -> judge_mintv m (parse_ma p, parse_ma n) | _ -> Fails cls_none))
  | ["biz"; z] ->
    let z = z_of_string z in
    let o = model_biz z in
    (Printf.sprintf "ok %s %s %s %s %s %s %s" (show_rb o.bo_cbor) (show_rz o.bo_cbor_rt) (hex_of_bytes o.bo_str) (show_rz o.bo_str_rt)
       (show_on o.bo_u64) (show_oz o.bo_int) (bit o.bo_zero),
     verdict (fun () -> match impl with
         | ["ok"; cbor; rt; s; srt; u; i; zero] ->
           judge_biz z { bo_cbor = parse_rb cbor; bo_cbor_rt = parse_rz rt; bo_str = text_of_hex s; bo_str_rt = parse_rz srt;
                         bo_u64 = parse_on u; bo_int = parse_oz i; bo_zero = (zero = "1") }
         | _ -> Fails cls_none))
  | ["bibytes"; h] ->
    let bs = bytes_of_hex h in
    ((match model_bibytes bs with
        | Ok ((z, bs2), z2) -> Printf.sprintf "ok %s %s %s" (string_of_z z) (hex_of_bytes bs2) (show_rz z2)
        | Err -> "err" | Panic -> "panic" | OutOfFuel -> "outoffuel"),
     verdict (fun () -> judge_bibytes bs (match impl with
         | ["ok"; z; bs2; z2] -> Ok ((z_of_string z, bytes_of_hex bs2), parse_rz z2)
         | ["err"] -> Err
         | _ -> Panic)))
  | [("bistr" | "jbi"); h] ->
    let s = text_of_hex h in
    ((match model_bistr s with Ok v -> "ok " ^ string_of_z v | r -> show_rz r),
     verdict (fun () -> judge_bistr s (match impl with ["ok"; v] -> Ok (z_of_string v) | ["err"] -> Err | _ -> Panic)))
  | ["biop"; op; a; b] ->
    let op = bi_op_of op and a = z_of_string a and b = z_of_string b in
    ((match model_biop op a b with Ok v -> "ok " ^ string_of_z v | r -> show_rz r),
     verdict (fun () -> judge_biop op a b (match impl with ["ok"; v] -> Ok (z_of_string v) | ["err"] -> Err | _ -> Panic)))
  | ["val"; a; b] ->
    let a = parse_value a and b = parse_value b in
    let o = model_val a b in
    (Printf.sprintf "ok add=%s rev=%s sub=%s csub=%s msub=%s undo=%s cmp=%s ord=%s%s%s%s eq=%s zero=%s"
       (show_rv o.vo_add) (show_rv o.vo_add_rev) (show_rv o.vo_sub) (show_value o.vo_csub) (show_ma o.vo_msub)
       (match o.vo_undo with Some r -> show_rv r | None -> "-") (show_oz o.vo_cmp)
       (bit o.vo_lt) (bit o.vo_le) (bit o.vo_gt) (bit o.vo_ge) (bit o.vo_eq) (bit o.vo_zero),
     verdict (fun () -> match impl with
         | "ok" :: fs ->
           let ord = field fs "ord" in
           judge_val a b { vo_add = parse_rv (field fs "add"); vo_add_rev = parse_rv (field fs "rev"); vo_sub = parse_rv (field fs "sub");
                           vo_csub = (match parse_rv (field fs "csub") with Ok v -> v | _ -> failwith "csub");
                           vo_msub = parse_ma (field fs "msub");
                           vo_undo = (let u = field fs "undo" in if u = "-" then None else Some (parse_rv u));
                           vo_cmp = parse_oz (field fs "cmp");
                           vo_lt = (ord.[0] = '1'); vo_le = (ord.[1] = '1'); vo_gt = (ord.[2] = '1'); vo_ge = (ord.[3] = '1');
                           vo_eq = (field fs "eq" = "1"); vo_zero = (field fs "zero" = "1") }
         | _ -> Fails cls_none))
  | ["val3"; a; b; c] ->
    let a = parse_value a and b = parse_value b and c = parse_value c in
    let (l, r) = model_val3 a b c in
    (Printf.sprintf "ok %s %s" (show_rv l) (show_rv r),
     verdict (fun () -> match impl with ["ok"; l; r] -> judge_val3 a b c (parse_rv l, parse_rv r) | _ -> Fails cls_none))
  | _ -> ("driver-badcase", "na"))
